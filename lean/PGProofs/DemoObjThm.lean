/-
PGProofs.DemoObjThm — theorems about the mutable `Demography` object and its hand-over to `Coalescent`
(`PGModel.DemoObj`, property C05).  All statements are about the `current` variant (the pinned code) and hold for
EVERY history (induction over the list of operations, no bound), from ANY start state, over ANY linearly ordered
type of names (`inv_reachable_string`: the instance the driver runs is covered).

* `sortDedup_unique`, `sortDedup_congr`   `sorted(set(l))` = THE strictly ascending list with the elements of `l`;
                                          it depends only on the set of elements
* `StableSortOf`, `sortEvents_stableSortOf`, `StableSortOf.unique`, `sortEvents_eq_mergeSort`
                                          specification of Python's stable `sorted(key=start_time)` (rearrangement,
                                          ascending, equal keys keep their order), the model's sort satisfies it, the
                                          specification has one solution, core Lean's `mergeSort` computes it too
* `inv_reachable`                      1. after any history beginning with the constructor: `pop_names` is the sorted
                                          set of the names of the current events, `n_pops` its length, events sorted
* `events_eq_stable_sort`              2a. … and `events` is the stable sort of the insertion sequence
* `popNames_eq_sortDedup_mentioned`    2b. … and `pop_names` is the sorted set of all names mentioned (events by any
                                          route, sampled populations of `Coalescent`s)
* `popNames_depends_on_name_set`       2c. same set of names mentioned ⇒ same `pop_names`, `n_pops`
* `popNames_order_independent`         2.  the same events in any order by any routes ⇒ same `pop_names`, `n_pops`;
                                          event lists are permutations of each other, both sorted, and events with
                                          different start times are in the same relative order in both
* `readPopNames_observes`                 what a read at the end of a history returns
* `coalescentInit_complete` (`_a … _d`) 3. `Coalescent.__init__` on an up-to-date object: complete (a), the lineage
                                          dict (b), the added event mentions exactly the sampled names no event
                                          mentions (c), every earlier event is kept unchanged and in order (d)
* `coalescentInit_on_fresh`               … and in a history every `Coalescent` is built on an up-to-date object
* `staleadd_counterexample`, `staleadd_observations`
                                       4. seeded defect (`add_event` without `_prepare_events`): stale read `[]`,
                                          spurious completion event for a population the user specified (by `decide`)
* section `Examples`                   5. concrete histories (ties in the start times, several names, both routes,
                                          a `Coalescent`) satisfying the hypotheses, evaluated by `decide +kernel`
-/
import PGModel.DemoObj
import Mathlib.Data.List.Sort
import Mathlib.Algebra.Order.Ring.Rat
import Mathlib.Data.String.Basic

set_option linter.unusedSectionVars false

namespace PG.DemoObj

variable {N : Type} [LinearOrder N]

/-! ## `sortDedup` is `sorted(set(·))` -/

theorem mem_insertName {a x : N} {l : List N} : x ∈ insertName a l ↔ x = a ∨ x ∈ l := by
  induction l with
  | nil => simp [insertName]
  | cons y ys ih =>
    simp only [insertName]
    split_ifs with h1 h2
    · simp
    · subst h2; simp
    · simp only [List.mem_cons, ih]; tauto

theorem sortDedup_cons (a : N) (l : List N) : sortDedup (a :: l) = insertName a (sortDedup l) := rfl

theorem mem_sortDedup {x : N} {l : List N} : x ∈ sortDedup l ↔ x ∈ l := by
  induction l with
  | nil => simp [sortDedup]
  | cons y ys ih => rw [sortDedup_cons, mem_insertName, ih, List.mem_cons]

theorem pairwise_insertName {a : N} {l : List N} (h : l.Pairwise (· < ·)) :
    (insertName a l).Pairwise (· < ·) := by
  induction l with
  | nil => simp [insertName]
  | cons y ys ih =>
    have h' := List.pairwise_cons.1 h
    simp only [insertName]
    split_ifs with h1 h2
    · refine List.pairwise_cons.2 ⟨?_, h⟩
      intro z hz
      rcases List.mem_cons.1 hz with hzy | hz
      · rw [hzy]; exact h1
      · exact lt_trans h1 (h'.1 z hz)
    · exact h
    · refine List.pairwise_cons.2 ⟨?_, ih h'.2⟩
      intro z hz
      rcases mem_insertName.1 hz with hza | hz
      · rw [hza]; exact lt_of_le_of_ne (not_lt.1 h1) (Ne.symm h2)
      · exact h'.1 z hz

/-- the result is strictly ascending (in particular duplicate-free) -/
theorem sortDedup_strictSorted (l : List N) : (sortDedup l).Pairwise (· < ·) := by
  induction l with
  | nil => simp [sortDedup]
  | cons y ys ih => rw [sortDedup_cons]; exact pairwise_insertName ih

theorem sortDedup_nodup (l : List N) : (sortDedup l).Nodup :=
  (sortDedup_strictSorted l).imp fun h => ne_of_lt h

/-- two strictly ascending lists with the same elements are equal -/
theorem strictSorted_ext {l₁ l₂ : List N} (h₁ : l₁.Pairwise (· < ·)) (h₂ : l₂.Pairwise (· < ·))
    (h : ∀ x, x ∈ l₁ ↔ x ∈ l₂) : l₁ = l₂ :=
  List.Pairwise.eq_of_mem_iff h₁ h₂ h

/-- `sorted(set(l))` depends only on the SET of elements of `l` -/
theorem sortDedup_congr {l₁ l₂ : List N} (h : ∀ x, x ∈ l₁ ↔ x ∈ l₂) : sortDedup l₁ = sortDedup l₂ :=
  strictSorted_ext (sortDedup_strictSorted _) (sortDedup_strictSorted _) fun x => by
    rw [mem_sortDedup, mem_sortDedup, h]

/-- `sortDedup` is characterised by: strictly ascending, same elements -/
theorem sortDedup_unique {l r : List N} (hr : r.Pairwise (· < ·)) (h : ∀ x, x ∈ r ↔ x ∈ l) :
    r = sortDedup l :=
  strictSorted_ext hr (sortDedup_strictSorted _) fun x => by rw [mem_sortDedup, h]

/-! ## `sortEvents` is the stable sort by start time -/

/-- sorted by start time -/
def Sorted (evs : List (Ev N)) : Prop := evs.Pairwise (fun a b => a.start ≤ b.start)

abbrev leStart (a b : Ev N) : Prop := a.start ≤ b.start

instance : DecidableRel (leStart (N := N)) := fun a b => inferInstanceAs (Decidable (a.start ≤ b.start))
instance : Std.Total (leStart (N := N)) := ⟨fun a b => le_total a.start b.start⟩
instance : IsTrans (Ev N) leStart := ⟨fun _ _ _ h₁ h₂ => le_trans h₁ h₂⟩

theorem insertEv_eq_orderedInsert (e : Ev N) (l : List (Ev N)) :
    insertEv e l = List.orderedInsert leStart e l := by
  induction l with
  | nil => rfl
  | cons x xs ih =>
    rw [insertEv, List.orderedInsert_cons]
    by_cases h : e.start ≤ x.start
    · rw [if_pos h, if_pos h]
    · rw [if_neg h, if_neg h, ih]

theorem sortEvents_cons (e : Ev N) (l : List (Ev N)) : sortEvents (e :: l) = insertEv e (sortEvents l) := rfl

/-- the model's sort is Mathlib's `insertionSort` by start time -/
theorem sortEvents_eq_insertionSort (l : List (Ev N)) : sortEvents l = l.insertionSort leStart := by
  induction l with
  | nil => rfl
  | cons x xs ih => rw [sortEvents_cons, List.insertionSort_cons, insertEv_eq_orderedInsert, ih]

theorem sortEvents_perm (l : List (Ev N)) : (sortEvents l).Perm l := by
  rw [sortEvents_eq_insertionSort]; exact List.perm_insertionSort _ _

theorem mem_sortEvents {e : Ev N} {l : List (Ev N)} : e ∈ sortEvents l ↔ e ∈ l :=
  (sortEvents_perm l).mem_iff

theorem sortEvents_sorted (l : List (Ev N)) : Sorted (sortEvents l) := by
  rw [sortEvents_eq_insertionSort]; exact List.pairwise_insertionSort leStart l

theorem sortEvents_of_sorted {l : List (Ev N)} (h : Sorted l) : sortEvents l = l := by
  rw [sortEvents_eq_insertionSort]; exact List.Pairwise.insertionSort_eq h

/-- stability, sublist form: a sorted subsequence of the input is a subsequence of the output -/
theorem sublist_sortEvents {c l : List (Ev N)} (hc : Sorted c) (h : c.Sublist l) : c.Sublist (sortEvents l) := by
  rw [sortEvents_eq_insertionSort]; exact List.sublist_insertionSort hc h

/-- the events that start at `t` -/
abbrev startingAt (t : Rat) (l : List (Ev N)) : List (Ev N) := l.filter fun x => decide (x.start = t)

theorem startingAt_insertEv (t : Rat) (e : Ev N) (l : List (Ev N)) :
    startingAt t (insertEv e l) = startingAt t (e :: l) := by
  induction l with
  | nil => rfl
  | cons x xs ih =>
    rw [insertEv]
    by_cases h : e.start ≤ x.start
    · rw [if_pos h]
    · rw [if_neg h]
      have ih' : List.filter (fun x => decide (x.start = t)) (insertEv e xs)
          = List.filter (fun x => decide (x.start = t)) (e :: xs) := ih
      by_cases hx : x.start = t
      · have he : ¬ e.start = t := fun he => h (le_of_eq (he.trans hx.symm))
        simp only [startingAt, List.filter_cons, hx, he, decide_true, decide_false, if_true] at ih' ⊢
        simp [ih']
      · simp only [startingAt, List.filter_cons, hx, decide_false] at ih' ⊢
        simpa using ih'

/-- stability, key form: the events with a given start time keep their input order -/
theorem startingAt_sortEvents (t : Rat) (l : List (Ev N)) : startingAt t (sortEvents l) = startingAt t l := by
  induction l with
  | nil => rfl
  | cons x xs ih =>
    rw [sortEvents_cons, startingAt_insertEv]
    simp only [startingAt, List.filter_cons] at ih ⊢
    rw [ih]

/-- A list sorted by start time is determined by its sub-lists of equal start time. -/
theorem sorted_ext {r₁ r₂ : List (Ev N)} (h₁ : Sorted r₁) (h₂ : Sorted r₂)
    (hf : ∀ t : Rat, startingAt t r₁ = startingAt t r₂) : r₁ = r₂ := by
  induction r₁ generalizing r₂ with
  | nil =>
    cases r₂ with
    | nil => rfl
    | cons b r₂ => have := hf b.start; simp [startingAt] at this
  | cons a r₁ ih =>
    cases r₂ with
    | nil => have := hf a.start; simp [startingAt] at this
    | cons b r₂ =>
      have h₁' := List.pairwise_cons.1 h₁
      have h₂' := List.pairwise_cons.1 h₂
      have ha : a ∈ b :: r₂ := by
        have : a ∈ startingAt a.start (a :: r₁) := by simp [startingAt]
        rw [hf] at this
        exact (List.mem_filter.1 this).1
      have hb : b ∈ a :: r₁ := by
        have : b ∈ startingAt b.start (b :: r₂) := by simp [startingAt]
        rw [← hf] at this
        exact (List.mem_filter.1 this).1
      have hab : a.start ≤ b.start := by
        rcases List.mem_cons.1 hb with h | h
        · rw [h]
        · exact h₁'.1 b h
      have hba : b.start ≤ a.start := by
        rcases List.mem_cons.1 ha with h | h
        · rw [h]
        · exact h₂'.1 a h
      have heq : b.start = a.start := le_antisymm hba hab
      have h0 := hf a.start
      simp only [startingAt, List.filter_cons, heq, decide_true, if_true, List.cons.injEq] at h0
      obtain ⟨hab', -⟩ := h0
      subst hab'
      congr 1
      apply ih h₁'.2 h₂'.2
      intro t
      have ht := hf t
      by_cases hat : a.start = t
      · simp only [startingAt, List.filter_cons, hat, decide_true, if_true, List.cons.injEq, true_and] at ht
        exact ht
      · simp only [startingAt, List.filter_cons, hat, decide_false] at ht
        simpa using ht

/-- SPECIFICATION of Python's `sorted(l, key=lambda e: e.start_time)`: a rearrangement of `l` that is ascending in
the start time and STABLE (the events with equal start time keep the order they have in `l`). -/
structure StableSortOf (r l : List (Ev N)) : Prop where
  perm : r.Perm l
  sorted : Sorted r
  stable : ∀ t : Rat, startingAt t r = startingAt t l

theorem sortEvents_stableSortOf (l : List (Ev N)) : StableSortOf (sortEvents l) l :=
  ⟨sortEvents_perm l, sortEvents_sorted l, fun t => startingAt_sortEvents t l⟩

/-- the specification has exactly one solution -/
theorem StableSortOf.unique {r₁ r₂ l : List (Ev N)} (h₁ : StableSortOf r₁ l) (h₂ : StableSortOf r₂ l) : r₁ = r₂ :=
  sorted_ext h₁.sorted h₂.sorted fun t => (h₁.stable t).trans (h₂.stable t).symm

theorem StableSortOf.eq_sortEvents {r l : List (Ev N)} (h : StableSortOf r l) : r = sortEvents l :=
  h.unique (sortEvents_stableSortOf l)

/-- … and it is the one the stable `List.mergeSort` of core Lean computes -/
theorem sortEvents_eq_mergeSort (l : List (Ev N)) :
    sortEvents l = l.mergeSort (fun a b => decide (a.start ≤ b.start)) := by
  have htrans : ∀ a b c : Ev N, decide (a.start ≤ b.start) = true → decide (b.start ≤ c.start) = true →
      decide (a.start ≤ c.start) = true := by
    intro a b c h₁ h₂
    simp only [decide_eq_true_eq] at *
    exact le_trans h₁ h₂
  have htotal : ∀ a b : Ev N, (decide (a.start ≤ b.start) || decide (b.start ≤ a.start)) = true := by
    intro a b
    simp only [Bool.or_eq_true, decide_eq_true_eq]
    exact le_total _ _
  symm
  apply StableSortOf.eq_sortEvents
  refine ⟨List.mergeSort_perm _ _, ?_, ?_⟩
  · have := List.pairwise_mergeSort htrans htotal l
    exact this.imp fun h => by simpa using h
  · intro t
    have hsub : (startingAt t l).Sublist (l.mergeSort fun a b => decide (a.start ≤ b.start)) := by
      apply List.sublist_mergeSort htrans htotal
      · refine List.Pairwise.imp_of_mem ?_ (List.pairwise_of_forall (l := startingAt t l) (R := fun _ _ => True) (fun _ _ => trivial))
        intro a b ha hb _
        have ha' := (List.mem_filter.1 ha).2
        have hb' := (List.mem_filter.1 hb).2
        simp only [decide_eq_true_eq] at ha' hb' ⊢
        rw [ha', hb']
      · exact List.filter_sublist
    have hsub' := hsub.filter (fun x => decide (x.start = t))
    rw [show List.filter (fun x => decide (x.start = t)) (startingAt t l) = startingAt t l from by
      simp [startingAt, List.filter_filter]] at hsub'
    have hlen := ((List.mergeSort_perm l fun a b => decide (a.start ≤ b.start)).filter
      (fun x => decide (x.start = t))).length_eq
    exact (hsub'.eq_of_length hlen.symm).symm

/-- sorting a list whose front part is already sorted = sorting the original list (the front part may be replaced
by the insertion sequence it came from) -/
theorem sortEvents_append_left (a b : List (Ev N)) : sortEvents (sortEvents a ++ b) = sortEvents (a ++ b) := by
  symm
  apply StableSortOf.eq_sortEvents
  refine ⟨?_, sortEvents_sorted _, ?_⟩
  · exact (sortEvents_perm _).trans ((sortEvents_perm a).symm.append_right b)
  · intro t
    rw [startingAt_sortEvents]
    simp only [startingAt, List.filter_append]
    have := startingAt_sortEvents t a
    simp only [startingAt] at this
    rw [this]

/-- In a list sorted by start time an event that starts EARLIER comes first. -/
theorem pair_sublist_of_sorted {r : List (Ev N)} (hr : Sorted r) {a b : Ev N} (ha : a ∈ r) (hb : b ∈ r)
    (hlt : a.start < b.start) : [a, b].Sublist r := by
  induction r with
  | nil => simp at ha
  | cons x r ih =>
    have hr' := List.pairwise_cons.1 hr
    rcases List.mem_cons.1 ha with hax | har
    · subst hax
      rcases List.mem_cons.1 hb with hba | hbr
      · subst hba; exact absurd hlt (lt_irrefl _)
      · exact List.Sublist.cons_cons _ (List.singleton_sublist.2 hbr)
    · rcases List.mem_cons.1 hb with hbx | hbr
      · subst hbx
        exact absurd (hr'.1 a har) (not_le.2 hlt)
      · exact (ih hr'.2 har hbr).cons _

/-! ## `allNames` -/

theorem mem_allNames {x : N} {l : List (Ev N)} : x ∈ allNames l ↔ ∃ e ∈ l, x ∈ e.names := by
  simp [allNames, List.mem_flatMap]

theorem mem_allNames_append {x : N} {l₁ l₂ : List (Ev N)} :
    x ∈ allNames (l₁ ++ l₂) ↔ x ∈ allNames l₁ ∨ x ∈ allNames l₂ := by
  simp [allNames]

theorem mem_allNames_sortEvents {x : N} {l : List (Ev N)} : x ∈ allNames (sortEvents l) ↔ x ∈ allNames l := by
  simp only [mem_allNames, mem_sortEvents]

/-! ## 1. the invariant -/

/-- The cached attributes are up to date and the events are in start-time order. -/
structure Fresh (s : State N) : Prop where
  names : s.popNames = sortDedup (s.events.flatMap (·.names))
  count : s.nPops = s.popNames.length
  sorted : Sorted s.events

theorem prepare_fresh (s : State N) : Fresh (prepare s) :=
  ⟨rfl, rfl, sortEvents_sorted _⟩

theorem Fresh.mem_popNames {s : State N} (h : Fresh s) {x : N} : x ∈ s.popNames ↔ x ∈ allNames s.events := by
  rw [h.names, mem_sortDedup]; rfl

/-- `_prepare_events` does nothing to an up-to-date object -/
theorem prepare_of_fresh {s : State N} (h : Fresh s) : prepare s = s := by
  cases s with
  | mk events popNames nPops =>
    have h1 := h.names; have h2 := h.count; have h3 := sortEvents_of_sorted h.sorted
    simp only at h1 h2 h3
    simp only [prepare, allNames, h3, State.mk.injEq, true_and]
    exact ⟨h1.symm, by rw [h2, h1]⟩

theorem coalescentInit_state (s : State N) (sample : List (N × Nat)) (newId : Nat) :
    (coalescentInit .current s sample newId).1 =
      if (missing s sample).isEmpty then s else addEvents s [completionEvent newId (missing s sample)] := by
  unfold coalescentInit
  by_cases h : (missing s sample).isEmpty <;> simp [h, addEvent]

theorem coalescentInit_added (v : Variant) (s : State N) (sample : List (N × Nat)) (newId : Nat) :
    (coalescentInit v s sample newId).2.1 =
      if (missing s sample).isEmpty then none else some (sortDedup (missing s sample)) := by
  unfold coalescentInit
  by_cases h : (missing s sample).isEmpty <;> simp [h, completionEvent]

theorem coalescentInit_lineages (v : Variant) (s : State N) (sample : List (N × Nat)) (newId : Nat) :
    (coalescentInit v s sample newId).2.2 =
      sample ++ ((coalescentInit v s sample newId).1.popNames.filter
        fun p => decide (p ∉ sample.map (·.1))).map fun p => (p, 0) := rfl

theorem step_fresh {s : State N} (hs : Fresh s) (op : Op N) : Fresh (step .current s op).1 := by
  cases op with
  | new evs ctor => exact prepare_fresh _
  | addEvents evs => exact prepare_fresh _
  | addEvent e => exact prepare_fresh _
  | touchEpochs => exact prepare_fresh _
  | readPopNames => exact hs
  | readEventOrder => exact hs
  | coalescentInit sample newId =>
    show Fresh (coalescentInit .current s sample newId).1
    rw [coalescentInit_state]
    split_ifs
    · exact hs
    · exact prepare_fresh _

theorem run_cons (v : Variant) (s : State N) (op : Op N) (ops : List (Op N)) :
    run v s (op :: ops) = ((run v (step v s op).1 ops).1, (step v s op).2 :: (run v (step v s op).1 ops).2) := rfl

theorem run_fresh {s : State N} (hs : Fresh s) (ops : List (Op N)) : Fresh (run .current s ops).1 := by
  induction ops generalizing s with
  | nil => exact hs
  | cons op ops ih => rw [run_cons]; exact ih (step_fresh hs op)

/-- **1.** Whatever the object was before: after a history that begins with the constructor, the cached
`pop_names` / `n_pops` are those of the current events, and the events are in start-time order. -/
theorem inv_reachable (s₀ : State N) (evs : List (Ev N)) (ctor : Option (Ev N)) (ops : List (Op N)) :
    Fresh (run .current s₀ (.new evs ctor :: ops)).1 := by
  rw [run_cons]; exact run_fresh (prepare_fresh _) ops

/-! ## 2. the order of the calls does not matter -/

theorem insertionLogFrom_cons (v : Variant) (acc : List (Ev N)) (s : State N) (op : Op N) (ops : List (Op N)) :
    insertionLogFrom v acc s (op :: ops) = insertionLogFrom v (logStep acc s op) (step v s op).1 ops := rfl

/-- one operation: the events afterwards are the stable sort of the insertion sequence afterwards -/
theorem step_events {s : State N} {acc : List (Ev N)} (h : s.events = sortEvents acc) (op : Op N) :
    (step .current s op).1.events = sortEvents (logStep acc s op) := by
  have hs : Sorted s.events := h ▸ sortEvents_sorted acc
  have key : ∀ evs : List (Ev N), sortEvents (s.events ++ evs) = sortEvents (acc ++ evs) := fun evs => by
    rw [h, sortEvents_append_left]
  have key0 : s.events = sortEvents (acc ++ []) := by rw [List.append_nil]; exact h
  cases op with
  | new evs ctor => rfl
  | addEvents evs => exact key evs
  | addEvent e => exact key [e]
  | touchEpochs =>
    show sortEvents s.events = sortEvents (acc ++ [])
    rw [sortEvents_of_sorted hs]; exact key0
  | readPopNames => exact key0
  | readEventOrder => exact key0
  | coalescentInit sample newId =>
    show (coalescentInit .current s sample newId).1.events = sortEvents (acc ++ inserted s (.coalescentInit sample newId))
    rw [coalescentInit_state]
    simp only [inserted]
    split_ifs with hm
    · exact key0
    · exact key _

theorem run_events (ops : List (Op N)) : ∀ (s : State N) (acc : List (Ev N)), s.events = sortEvents acc →
    (run .current s ops).1.events = sortEvents (insertionLogFrom .current acc s ops) := by
  induction ops with
  | nil => intro s acc h; exact h
  | cons op ops ih =>
    intro s acc h
    rw [run_cons, insertionLogFrom_cons]
    exact ih _ _ (step_events h op)

/-- **2a.** After a history that begins with the constructor, `self.events` is the STABLE SORT by start time of the
insertion sequence (everything the constructor, `add_events`, `add_event` and `Coalescent.__init__` appended, in
the order of the calls): however the events were handed over. -/
theorem events_eq_stable_sort (s₀ : State N) (h : List (Op N)) (hn : startsWithNew h = true) :
    StableSortOf (run .current s₀ h).1.events (insertionLog .current s₀ h) := by
  cases h with
  | nil => simp [startsWithNew] at hn
  | cons op ops =>
    cases op with
    | new evs ctor =>
      have : (run .current s₀ (.new evs ctor :: ops)).1.events
          = sortEvents (insertionLog .current s₀ (.new evs ctor :: ops)) := by
        rw [run_cons]
        exact run_events ops _ _ rfl
      rw [this]
      exact sortEvents_stableSortOf _
    | _ => simp [startsWithNew] at hn

theorem logStep_eq_userStep (acc : List (Ev N)) (s : State N) {op : Op N} (h : op.isCoal = false) :
    logStep acc s op = userStep acc op := by
  cases op <;> simp [logStep, userStep, inserted, Op.isCoal] at h ⊢

/-- without `Coalescent`s the insertion sequence is what the user handed over -/
theorem insertionLogFrom_of_noCoal (v : Variant) (ops : List (Op N)) (h : noCoal ops = true) :
    ∀ (acc : List (Ev N)) (s : State N), insertionLogFrom v acc s ops = ops.foldl userStep acc := by
  induction ops with
  | nil => intro acc s; rfl
  | cons op ops ih =>
    intro acc s
    simp only [noCoal, List.all_cons, Bool.and_eq_true, Bool.not_eq_true'] at h
    rw [insertionLogFrom_cons, List.foldl_cons, logStep_eq_userStep acc s h.1]
    exact ih (by simpa [noCoal] using h.2) _ _

theorem insertionLog_of_noCoal (v : Variant) (s : State N) (ops : List (Op N)) (h : noCoal ops = true) :
    insertionLog v s ops = userEvents ops :=
  insertionLogFrom_of_noCoal v ops h [] s

/-- the names known after one operation are the names mentioned so far -/
theorem step_names {s : State N} (hs : Fresh s) {acc : List N} (h : ∀ x, x ∈ allNames s.events ↔ x ∈ acc)
    (op : Op N) : ∀ x, x ∈ allNames (step .current s op).1.events ↔ x ∈ mentionStep acc op := by
  intro x
  have key : ∀ evs : List (Ev N), x ∈ allNames (sortEvents (s.events ++ evs)) ↔ x ∈ acc ∨ x ∈ allNames evs := fun evs => by
    rw [mem_allNames_sortEvents, mem_allNames_append, h]
  cases op with
  | new evs ctor => exact mem_allNames_sortEvents
  | addEvents evs =>
    show x ∈ allNames (sortEvents (s.events ++ evs)) ↔ x ∈ acc ++ allNames evs
    rw [key, List.mem_append]
  | addEvent e =>
    show x ∈ allNames (sortEvents (s.events ++ [e])) ↔ x ∈ acc ++ e.names
    rw [key, List.mem_append]; simp [allNames]
  | touchEpochs =>
    show x ∈ allNames (sortEvents s.events) ↔ x ∈ acc
    rw [mem_allNames_sortEvents, h]
  | readPopNames => exact h x
  | readEventOrder => exact h x
  | coalescentInit sample newId =>
    show x ∈ allNames (coalescentInit .current s sample newId).1.events ↔ x ∈ acc ++ sample.map (·.1)
    have hmiss : ∀ y, y ∈ missing s sample ↔ y ∈ sample.map (·.1) ∧ y ∉ acc := fun y => by
      simp only [missing, List.mem_filter, decide_eq_true_eq, hs.mem_popNames, h]
    rw [coalescentInit_state, List.mem_append]
    split_ifs with hm
    · have hnil : missing s sample = [] := List.isEmpty_iff.1 hm
      rw [h]
      constructor
      · exact Or.inl
      · rintro (hx | hx)
        · exact hx
        · by_contra hxa
          have : x ∈ missing s sample := (hmiss x).2 ⟨hx, hxa⟩
          rw [hnil] at this
          exact absurd this List.not_mem_nil
    · show x ∈ allNames (sortEvents (s.events ++ [completionEvent newId (missing s sample)])) ↔ _
      rw [key]
      have : x ∈ allNames [completionEvent newId (missing s sample)] ↔ x ∈ missing s sample := by
        simp [allNames, completionEvent, mem_sortDedup]
      rw [this, hmiss]
      by_cases hxa : x ∈ acc <;> simp [hxa]

theorem run_names (ops : List (Op N)) : ∀ (s : State N) (acc : List N), Fresh s →
    (∀ x, x ∈ allNames s.events ↔ x ∈ acc) →
    ∀ x, x ∈ allNames (run .current s ops).1.events ↔ x ∈ ops.foldl mentionStep acc := by
  induction ops with
  | nil => intro s acc _ h; exact h
  | cons op ops ih =>
    intro s acc hs h
    rw [run_cons, List.foldl_cons]
    exact ih _ _ (step_fresh hs op) (step_names hs h op)

/-- **2b.** After a history that begins with the constructor, `pop_names` is the sorted SET of all names the history
mentioned to the object (in events handed over by whatever route, or as sampled populations of a `Coalescent`),
and `n_pops` is its size. -/
theorem popNames_eq_sortDedup_mentioned (s₀ : State N) (h : List (Op N)) (hn : startsWithNew h = true) :
    (run .current s₀ h).1.popNames = sortDedup (mentioned h) ∧
    (run .current s₀ h).1.nPops = (sortDedup (mentioned h)).length := by
  cases h with
  | nil => simp [startsWithNew] at hn
  | cons op ops =>
    cases op with
    | new evs ctor =>
      have hf : Fresh (run .current s₀ (.new evs ctor :: ops)).1 := inv_reachable s₀ evs ctor ops
      have hnames : (run .current s₀ (.new evs ctor :: ops)).1.popNames
          = sortDedup (mentioned (.new evs ctor :: ops)) := by
        rw [hf.names]
        apply sortDedup_congr
        intro x
        have := run_names ops (step .current s₀ (.new evs ctor)).1 (allNames (evs ++ ctor.toList))
          (prepare_fresh _) (fun x => mem_allNames_sortEvents) x
        rw [run_cons]
        exact this
      exact ⟨hnames, by rw [hf.count, hnames]⟩
    | _ => simp [startsWithNew] at hn

theorem allNames_append (l₁ l₂ : List (Ev N)) : allNames (l₁ ++ l₂) = allNames l₁ ++ allNames l₂ := by
  simp [allNames]

theorem mentionStep_eq_userStep (acc : List (Ev N)) {op : Op N} (h : op.isCoal = false) :
    mentionStep (allNames acc) op = allNames (userStep acc op) := by
  cases op <;> simp [mentionStep, userStep, allNames, Op.isCoal] at h ⊢

theorem foldl_mentionStep_of_noCoal (ops : List (Op N)) (h : noCoal ops = true) :
    ∀ acc : List (Ev N), ops.foldl mentionStep (allNames acc) = allNames (ops.foldl userStep acc) := by
  induction ops with
  | nil => intro acc; rfl
  | cons op ops ih =>
    intro acc
    simp only [noCoal, List.all_cons, Bool.and_eq_true, Bool.not_eq_true'] at h
    rw [List.foldl_cons, List.foldl_cons, mentionStep_eq_userStep acc h.1]
    exact ih (by simpa [noCoal] using h.2) _

/-- without `Coalescent`s the names mentioned are the names of the user's events -/
theorem mentioned_of_noCoal (ops : List (Op N)) (h : noCoal ops = true) :
    mentioned ops = allNames (userEvents ops) :=
  foldl_mentionStep_of_noCoal ops h []

/-- **2c.** `pop_names` / `n_pops` depend only on the SET of names mentioned: two histories (any start states, any
routes, any order, `Coalescent`s included) that mention the same names end with the same cached attributes. -/
theorem popNames_depends_on_name_set (s₁ s₂ : State N) (h₁ h₂ : List (Op N))
    (hn₁ : startsWithNew h₁ = true) (hn₂ : startsWithNew h₂ = true)
    (hset : ∀ x, x ∈ mentioned h₁ ↔ x ∈ mentioned h₂) :
    (run .current s₁ h₁).1.popNames = (run .current s₂ h₂).1.popNames ∧
    (run .current s₁ h₁).1.nPops = (run .current s₂ h₂).1.nPops := by
  obtain ⟨a₁, b₁⟩ := popNames_eq_sortDedup_mentioned s₁ h₁ hn₁
  obtain ⟨a₂, b₂⟩ := popNames_eq_sortDedup_mentioned s₂ h₂ hn₂
  rw [a₁, a₂, b₁, b₂, sortDedup_congr hset]
  exact ⟨rfl, rfl⟩

/-- **2.** Two histories that hand the SAME events to the object — in any order (`List.Perm`), split in any way
between the constructor, `add_events` and `add_event`, interleaved with any evaluations of the epochs and reads —
end with the same `pop_names` and `n_pops`; each ends with its events in the stable sort of its own insertion
sequence, so the two event lists are rearrangements of each other, sorted by start time, and any two events with
DIFFERENT start times are in the same relative order in both (earlier start first). -/
theorem popNames_order_independent (s₁ s₂ : State N) (h₁ h₂ : List (Op N))
    (hn₁ : startsWithNew h₁ = true) (hn₂ : startsWithNew h₂ = true)
    (hc₁ : noCoal h₁ = true) (hc₂ : noCoal h₂ = true)
    (hperm : (userEvents h₁).Perm (userEvents h₂)) :
    (run .current s₁ h₁).1.popNames = (run .current s₂ h₂).1.popNames ∧
    (run .current s₁ h₁).1.nPops = (run .current s₂ h₂).1.nPops ∧
    StableSortOf (run .current s₁ h₁).1.events (userEvents h₁) ∧
    StableSortOf (run .current s₂ h₂).1.events (userEvents h₂) ∧
    (run .current s₁ h₁).1.events.Perm (run .current s₂ h₂).1.events ∧
    ∀ a b, a ∈ userEvents h₁ → b ∈ userEvents h₁ → a.start < b.start →
      [a, b].Sublist (run .current s₁ h₁).1.events ∧ [a, b].Sublist (run .current s₂ h₂).1.events := by
  have e₁ := events_eq_stable_sort s₁ h₁ hn₁
  have e₂ := events_eq_stable_sort s₂ h₂ hn₂
  rw [insertionLog_of_noCoal _ _ _ hc₁] at e₁
  rw [insertionLog_of_noCoal _ _ _ hc₂] at e₂
  have hset : ∀ x, x ∈ mentioned h₁ ↔ x ∈ mentioned h₂ := fun x => by
    rw [mentioned_of_noCoal _ hc₁, mentioned_of_noCoal _ hc₂]
    exact (hperm.flatMap_right _).mem_iff
  obtain ⟨p, q⟩ := popNames_depends_on_name_set s₁ s₂ h₁ h₂ hn₁ hn₂ hset
  refine ⟨p, q, e₁, e₂, e₁.perm.trans (hperm.trans e₂.perm.symm), ?_⟩
  intro a b ha hb hlt
  exact ⟨pair_sublist_of_sorted e₁.sorted (e₁.perm.mem_iff.2 ha) (e₁.perm.mem_iff.2 hb) hlt,
    pair_sublist_of_sorted e₂.sorted (e₂.perm.mem_iff.2 (hperm.mem_iff.1 ha)) (e₂.perm.mem_iff.2 (hperm.mem_iff.1 hb)) hlt⟩

/-- what a read of `pop_names` / `n_pops` at the end of such a history observes -/
theorem run_append (v : Variant) (s : State N) (a b : List (Op N)) :
    run v s (a ++ b) = ((run v (run v s a).1 b).1, (run v s a).2 ++ (run v (run v s a).1 b).2) := by
  induction a generalizing s with
  | nil => rfl
  | cons op ops ih => rw [List.cons_append, run_cons, ih, run_cons]; rfl

theorem readPopNames_observes (s₀ : State N) (h : List (Op N)) (hn : startsWithNew h = true) :
    (run .current s₀ (h ++ [.readPopNames])).2.getLast? =
      some (.popNames (sortDedup (mentioned h)) (sortDedup (mentioned h)).length) := by
  obtain ⟨a, b⟩ := popNames_eq_sortDedup_mentioned s₀ h hn
  rw [run_append]
  simp [run, step, a, b]

/-! ## 3. the hand-over to `Coalescent` completes and never overrides -/

section Coal
variable (s : State N) (sample : List (N × Nat)) (newId : Nat)

theorem mem_missing {s : State N} {sample : List (N × Nat)} {x : N} :
    x ∈ missing s sample ↔ x ∈ sample.map (·.1) ∧ x ∉ s.popNames := by
  simp only [missing, List.mem_filter, decide_eq_true_eq]

theorem missing_isEmpty_iff {s : State N} {sample : List (N × Nat)} :
    (missing s sample).isEmpty = true ↔ ∀ x ∈ sample.map (·.1), x ∈ s.popNames := by
  rw [List.isEmpty_iff, List.eq_nil_iff_forall_not_mem]
  constructor
  · intro h x hx
    by_contra hxp
    exact h x (mem_missing.2 ⟨hx, hxp⟩)
  · intro h x hx
    exact (mem_missing.1 hx).2 (h x (mem_missing.1 hx).1)

/-- the names known afterwards: those known before and those sampled -/
theorem coalescentInit_popNames (hs : Fresh s) (x : N) :
    x ∈ (coalescentInit .current s sample newId).1.popNames ↔ x ∈ s.popNames ∨ x ∈ sample.map (·.1) := by
  have hf : Fresh (coalescentInit .current s sample newId).1 := step_fresh hs (.coalescentInit sample newId)
  rw [hf.mem_popNames, hs.mem_popNames]
  have := step_names hs (acc := allNames s.events) (fun _ => Iff.rfl) (.coalescentInit sample newId) x
  rw [show mentionStep (allNames s.events) (.coalescentInit sample newId) = allNames s.events ++ sample.map (·.1) from rfl,
    List.mem_append] at this
  exact this

/-- **3a.** every sampled population and every population of every event is known afterwards (and the object is
up to date) -/
theorem coalescentInit_complete_a (hs : Fresh s) :
    Fresh (coalescentInit .current s sample newId).1 ∧
    (∀ x ∈ sample.map (·.1), x ∈ (coalescentInit .current s sample newId).1.popNames) ∧
    (∀ e ∈ (coalescentInit .current s sample newId).1.events, ∀ x ∈ e.names,
      x ∈ (coalescentInit .current s sample newId).1.popNames) := by
  have hf : Fresh (coalescentInit .current s sample newId).1 := step_fresh hs (.coalescentInit sample newId)
  refine ⟨hf, fun x hx => (coalescentInit_popNames s sample newId hs x).2 (Or.inr hx), fun e he x hx => ?_⟩
  exact hf.mem_popNames.2 (mem_allNames.2 ⟨e, he, hx⟩)

/-- **3b.** the completed lineage dict: its keys are the sampled names and the names known before (= the names
known afterwards); it begins with the sample as given (names, counts, order); every other item is a population
the sample does not list, with 0 lineages; no key twice if the sample lists none twice -/
theorem coalescentInit_complete_b (hs : Fresh s) :
    (∀ x, x ∈ (coalescentInit .current s sample newId).2.2.map (·.1) ↔ x ∈ sample.map (·.1) ∨ x ∈ s.popNames) ∧
    (∀ x, x ∈ (coalescentInit .current s sample newId).2.2.map (·.1) ↔
      x ∈ (coalescentInit .current s sample newId).1.popNames) ∧
    sample <+: (coalescentInit .current s sample newId).2.2 ∧
    (∀ p ∈ (coalescentInit .current s sample newId).2.2, p ∈ sample ∨ (p.2 = 0 ∧ p.1 ∉ sample.map (·.1))) ∧
    ((sample.map (·.1)).Nodup → ((coalescentInit .current s sample newId).2.2.map (·.1)).Nodup) := by
  have hpn := coalescentInit_popNames s sample newId hs
  have hf : Fresh (coalescentInit .current s sample newId).1 := step_fresh hs (.coalescentInit sample newId)
  rw [coalescentInit_lineages]
  have hkeys : ∀ x, x ∈ (sample ++ ((coalescentInit .current s sample newId).1.popNames.filter
        fun p : N => decide (p ∉ sample.map (fun q : N × Nat => q.1))).map fun p => (p, 0)).map (fun q : N × Nat => q.1) ↔
      x ∈ sample.map (·.1) ∨ x ∈ s.popNames := by
    intro x
    simp only [List.map_append, List.map_map, List.mem_append, List.mem_map, List.mem_filter,
      decide_eq_true_eq, Function.comp]
    constructor
    · rintro (h | ⟨y, ⟨hy, hyn⟩, rfl⟩)
      · exact Or.inl h
      · rcases (hpn y).1 hy with h | h
        · exact Or.inr h
        · exact absurd (List.mem_map.1 h) hyn
    · rintro (h | h)
      · exact Or.inl h
      · by_cases hx : x ∈ sample.map (·.1)
        · exact Or.inl (by simpa using hx)
        · exact Or.inr ⟨x, ⟨(hpn x).2 (Or.inl h), fun hh => hx (List.mem_map.2 hh)⟩, rfl⟩
  refine ⟨hkeys, ?_, List.prefix_append _ _, ?_, ?_⟩
  · intro x
    rw [hkeys, hpn, or_comm]
  · intro p hp
    rcases List.mem_append.1 hp with h | h
    · exact Or.inl h
    · obtain ⟨y, hy, rfl⟩ := List.mem_map.1 h
      exact Or.inr ⟨rfl, by simpa using (List.mem_filter.1 hy).2⟩
  · intro hnd
    rw [List.map_append, List.map_map]
    have hid : ((fun p : N × Nat => p.1) ∘ fun p : N => (p, 0)) = id := rfl
    rw [hid, List.map_id]
    refine List.nodup_append.2 ⟨hnd, ?_, ?_⟩
    · have : (coalescentInit .current s sample newId).1.popNames.Nodup := by
        rw [hf.names]; exact sortDedup_nodup _
      exact this.filter _
    · intro a ha b hb hab
      have := (List.mem_filter.1 hb).2
      simp only [decide_eq_true_eq] at this
      exact this (hab ▸ ha)

/-- **3c.** an event is added iff some sampled population is mentioned by no event; it mentions exactly those
(nothing any event mentions), it is a change at time 0 with the identity the history reserved for it, and it is
the ONLY change to the event list; without it the object is untouched -/
theorem coalescentInit_complete_c (hs : Fresh s) :
    ((coalescentInit .current s sample newId).2.1 = none ↔
      ∀ x ∈ sample.map (·.1), ∃ e ∈ s.events, x ∈ e.names) ∧
    ((coalescentInit .current s sample newId).2.1 = none → (coalescentInit .current s sample newId).1 = s) ∧
    (∀ ns, (coalescentInit .current s sample newId).2.1 = some ns →
      (∀ x, x ∈ ns ↔ x ∈ sample.map (·.1) ∧ ∀ e ∈ s.events, x ∉ e.names) ∧
      ns.Pairwise (· < ·) ∧
      (coalescentInit .current s sample newId).1.events.Perm (s.events ++ [⟨newId, 0, ns⟩])) := by
  have hknown : ∀ x, x ∈ s.popNames ↔ ∃ e ∈ s.events, x ∈ e.names := fun x => by
    rw [hs.mem_popNames, mem_allNames]
  rw [coalescentInit_added, coalescentInit_state]
  refine ⟨?_, ?_, ?_⟩
  · split_ifs with hm
    · simp only [true_iff]
      intro x hx
      exact (hknown x).1 (missing_isEmpty_iff.1 hm x hx)
    · simp only [false_iff]
      intro h
      exact hm (missing_isEmpty_iff.2 fun x hx => (hknown x).2 (h x hx))
  · split_ifs with hm
    · intro _; rfl
    · intro h; exact absurd h (by simp)
  · intro ns hns
    split_ifs at hns with hm
    rw [if_neg hm]
    simp only [Option.some.injEq] at hns
    subst hns
    refine ⟨fun x => ?_, sortDedup_strictSorted _, ?_⟩
    · rw [mem_sortDedup, mem_missing, hknown]
      simp only [not_exists, not_and]
    · exact sortEvents_perm _

/-- **3d.** the completion never touches what the user wrote: every event that was there is still there, with its
start time and its names, and in the same relative order -/
theorem coalescentInit_complete_d (hs : Fresh s) :
    s.events.Sublist (coalescentInit .current s sample newId).1.events := by
  rw [coalescentInit_state]
  split_ifs with hm
  · exact List.Sublist.refl _
  · exact sublist_sortEvents hs.sorted (List.sublist_append_left _ _)

/-- **3.** `Coalescent(n=sample, demography=d)` on an up-to-date object, all four parts. -/
theorem coalescentInit_complete (hs : Fresh s) :
    let r := coalescentInit .current s sample newId
    let sampled := sample.map (·.1)
    -- (a) complete
    (Fresh r.1 ∧ (∀ x ∈ sampled, x ∈ r.1.popNames) ∧ (∀ e ∈ r.1.events, ∀ x ∈ e.names, x ∈ r.1.popNames)) ∧
    -- (b) the lineage dict
    ((∀ x, x ∈ r.2.2.map (·.1) ↔ x ∈ sampled ∨ x ∈ s.popNames) ∧
      (∀ x, x ∈ r.2.2.map (·.1) ↔ x ∈ r.1.popNames) ∧
      sample <+: r.2.2 ∧
      (∀ p ∈ r.2.2, p ∈ sample ∨ (p.2 = 0 ∧ p.1 ∉ sampled)) ∧
      (sampled.Nodup → (r.2.2.map (·.1)).Nodup)) ∧
    -- (c) the added event
    ((r.2.1 = none ↔ ∀ x ∈ sampled, ∃ e ∈ s.events, x ∈ e.names) ∧
      (r.2.1 = none → r.1 = s) ∧
      (∀ ns, r.2.1 = some ns →
        (∀ x, x ∈ ns ↔ x ∈ sampled ∧ ∀ e ∈ s.events, x ∉ e.names) ∧
        ns.Pairwise (· < ·) ∧
        r.1.events.Perm (s.events ++ [⟨newId, 0, ns⟩]))) ∧
    -- (d) nothing the user wrote is overridden
    s.events.Sublist r.1.events :=
  ⟨coalescentInit_complete_a s sample newId hs, coalescentInit_complete_b s sample newId hs,
    coalescentInit_complete_c s sample newId hs, coalescentInit_complete_d s sample newId hs⟩

end Coal

/-- the observation canonicalises the lineage dict: the same items, sorted by name -/
theorem canonItems_perm (l : List (N × Nat)) : (canonItems l).Perm l := by
  have hins : ∀ (p : N × Nat) (l : List (N × Nat)), (insertItem p l).Perm (p :: l) := by
    intro p l
    induction l with
    | nil => exact List.Perm.refl _
    | cons x xs ih =>
      simp only [insertItem]
      split_ifs
      · exact ((List.Perm.cons x ih).trans (List.Perm.swap p x xs))
      · exact List.Perm.refl _
  induction l with
  | nil => exact List.Perm.refl _
  | cons x xs ih => exact (hins x _).trans (List.Perm.cons x ih)

/-- In every history that begins with the constructor, every `Coalescent` is built on an up-to-date object: the
hypothesis of `coalescentInit_complete` holds wherever the operation occurs. -/
theorem coalescentInit_on_fresh (s₀ : State N) (h : List (Op N)) (hn : startsWithNew h = true) :
    Fresh (run .current s₀ h).1 := by
  cases h with
  | nil => simp [startsWithNew] at hn
  | cons op ops =>
    cases op with
    | new evs ctor => exact inv_reachable s₀ evs ctor ops
    | _ => simp [startsWithNew] at hn

/-! ## 4. the seeded defect `staleadd` (`add_event` forgets `_prepare_events`) -/

/-- the user's event: a size change of population `7` at time 1 -/
def staleEv : Ev Nat := ⟨0, 1, [7]⟩

/-- `d = Demography(); d.add_event(e); d.pop_names` -/
def staleHistory : List (Op Nat) := [.new [] none, .addEvent staleEv, .readPopNames]

/-- **4.** With the defect the read answers `[]` / `0` although an event of the object mentions population `7`
(the pinned code answers `[7]` / `1`); a `Coalescent` sampling `7` then reads the stale attribute, finds `7`
"missing" and appends a spurious size change for `7` at time 0 although the user's event specifies `7`
(part (c) of `coalescentInit_complete` fails), and the lineage dict is completed from the stale attribute. -/
theorem staleadd_counterexample :
    (run .staleadd {} staleHistory).2 = [.none, .none, .popNames [] 0] ∧
    (∃ e ∈ (run .staleadd {} staleHistory).1.events, 7 ∈ e.names) ∧
    (run .current {} staleHistory).2 = [.none, .none, .popNames [7] 1] ∧
    (coalescentInit .staleadd (run .staleadd {} staleHistory).1 [(7, 2)] 1).2.1 = some [7] ∧
    ¬ ((coalescentInit .staleadd (run .staleadd {} staleHistory).1 [(7, 2)] 1).2.1 = none ↔
        ∀ x ∈ [(7, 2)].map (·.1), ∃ e ∈ (run .staleadd {} staleHistory).1.events, x ∈ e.names) ∧
    (coalescentInit .staleadd (run .staleadd {} staleHistory).1 [(7, 2)] 1).1.events
      = [staleEv, ⟨1, 0, [7]⟩] ∧
    (coalescentInit .current (run .current {} staleHistory).1 [(7, 2)] 1).2.1 = none := by
  decide

/-- the same seen through the observations of a history (what the probe `demoobj_history` compares): the two
variants differ in the read, in the event `Coalescent` adds and in the order of the events -/
theorem staleadd_observations :
    (run .staleadd {} [.new [] none, .addEvent staleEv, .readPopNames, .coalescentInit [(7, 2)] 1,
        .readEventOrder, .readPopNames]).2
      = [.none, .none, .popNames [] 0, .coal (some [7]) [(7, 2)], .order [0, 1], .popNames [] 0] ∧
    (run .current {} [.new [] none, .addEvent staleEv, .readPopNames, .coalescentInit [(7, 2)] 1,
        .readEventOrder, .readPopNames]).2
      = [.none, .none, .popNames [7] 1, .coal none [(7, 2)], .order [0], .popNames [7] 1] := by
  decide

/-! ## 5. non-vacuity: concrete histories satisfying the hypotheses -/

section Examples

/-- names `0 < 1 < 2 < 3`; three events start at 0 (ties), one at 1; constructor with a dictionary event -/
def exHistory₁ : List (Op Nat) :=
  [.new [⟨0, 1, [1, 0]⟩, ⟨1, 0, [2]⟩] (some ⟨2, 0, [0]⟩), .readPopNames, .addEvent ⟨3, 0, [3, 1]⟩, .touchEpochs,
   .readEventOrder, .readPopNames]

/-- the same four events in another order through other routes -/
def exHistory₂ : List (Op Nat) :=
  [.new [] none, .readPopNames, .addEvents [⟨3, 0, [3, 1]⟩, ⟨2, 0, [0]⟩], .addEvent ⟨0, 1, [1, 0]⟩, .readEventOrder,
   .addEvent ⟨1, 0, [2]⟩, .readEventOrder, .readPopNames]

example : (run .current {} exHistory₁).2 =
    [.none, .popNames [0, 1, 2] 3, .none, .none, .order [1, 2, 3, 0], .popNames [0, 1, 2, 3] 4] := by decide +kernel

example : (run .current {} exHistory₂).2 =
    [.none, .popNames [] 0, .none, .none, .order [3, 2, 0], .none, .order [3, 2, 1, 0], .popNames [0, 1, 2, 3] 4] := by
  decide +kernel

/-- the hypotheses of `popNames_order_independent` hold for the pair … -/
theorem exHistories_hyps : startsWithNew exHistory₁ = true ∧ startsWithNew exHistory₂ = true ∧
    noCoal exHistory₁ = true ∧ noCoal exHistory₂ = true ∧ (userEvents exHistory₁).Perm (userEvents exHistory₂) ∧
    userEvents exHistory₁ ≠ userEvents exHistory₂ := by
  decide +kernel

/-- … so its conclusion applies to it (here: the equal `pop_names`; the events with start 0 are in the two
different insertion orders `1,2,3` and `3,2,1`, the one with start 1 is last in both) -/
example : (run .current {} exHistory₁).1.popNames = (run .current {} exHistory₂).1.popNames :=
  (popNames_order_independent {} {} exHistory₁ exHistory₂ exHistories_hyps.1 exHistories_hyps.2.1
    exHistories_hyps.2.2.1 exHistories_hyps.2.2.2.1 exHistories_hyps.2.2.2.2.1).1

example : (run .current {} exHistory₁).1.popNames = [0, 1, 2, 3] ∧
    (run .current {} exHistory₁).1.events.map (·.id) = [1, 2, 3, 0] ∧
    (run .current {} exHistory₂).1.events.map (·.id) = [3, 2, 1, 0] := by decide +kernel

/-- a history with a `Coalescent`: population `5` is sampled but unknown, `0` is known; `2, 1` are only in the
demography -/
def exHistory₃ : List (Op Nat) :=
  [.new [⟨0, 1, [1, 0]⟩, ⟨1, 0, [2]⟩] none, .addEvent ⟨2, 0, [0]⟩, .coalescentInit [(5, 1), (0, 2)] 3, .readPopNames,
   .readEventOrder, .coalescentInit [(2, 1)] 4]

example : (run .current {} exHistory₃).2 =
    [.none, .none, .coal (some [5]) [(0, 2), (1, 0), (2, 0), (5, 1)], .popNames [0, 1, 2, 5] 4, .order [1, 2, 3, 0],
     .coal none [(0, 0), (1, 0), (2, 1), (5, 0)]] := by decide +kernel

example : mentioned exHistory₃ = [1, 0, 2, 0, 5, 0, 2] ∧ startsWithNew exHistory₃ = true ∧
    insertionLog .current {} exHistory₃ = [⟨0, 1, [1, 0]⟩, ⟨1, 0, [2]⟩, ⟨2, 0, [0]⟩, ⟨3, 0, [5]⟩] := by decide +kernel

/-- the state `coalescentInit_complete` is applied to in `exHistory₃` is `Fresh` (by the theorem) and non-trivial -/
example : Fresh (run .current {} (exHistory₃.take 2)).1 := coalescentInit_on_fresh _ _ (by decide)

example : (run .current ({} : State Nat) (exHistory₃.take 2)).1 =
    { events := [⟨1, 0, [2]⟩, ⟨2, 0, [0]⟩, ⟨0, 1, [1, 0]⟩], popNames := [0, 1, 2], nPops := 3 } := by decide +kernel

end Examples

/-! ## the instantiation the driver runs

`pgdriver` runs the model with `N := String` and core Lean's `DecidableEq`, `<` and `DecidableLT` on strings (no
Mathlib).  Mathlib's `LinearOrder String` is built on exactly these instances, so the theorems above speak about
the functions the driver executes: the statement below names the instances explicitly and is accepted as an
instance of the general theorem. -/

theorem inv_reachable_string (s₀ : State String) (evs : List (Ev String)) (ctor : Option (Ev String))
    (ops : List (Op String)) :
    let r := (@run String instDecidableEqString String.instLT String.decidableLT .current s₀ (.new evs ctor :: ops)).1
    r.popNames = @sortDedup String instDecidableEqString String.instLT String.decidableLT (r.events.flatMap (·.names)) ∧
    r.nPops = r.popNames.length ∧ r.events.Pairwise (fun a b => a.start ≤ b.start) :=
  have h := inv_reachable s₀ evs ctor ops
  ⟨h.names, h.count, h.sorted⟩

end PG.DemoObj
