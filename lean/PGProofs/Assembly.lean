/-
  PGProofs/Assembly.lean

  FINAL ASSEMBLY.  The moments / cdf which the code computes on its lumped count chain (the rate
  matrices `_graph_to_matrix` builds from the breadth-first search over `Transition.transit`)
  equal those of the LABELLED ancestral process (a finite Markov generator on lists of typed
  particles), for the lineage-counting, the block-counting and the two-locus state spaces.
-/
import PGProofs.VanLoan
import PGProofs.Labelled
import PGProofs.Bridge
import PGProofs.BridgeBC
import PGProofs.BridgeTwoLocus
import PGProofs.Marginal
import PGModel.Rewards
import Mathlib.Data.Set.Finite.List
import Mathlib.Data.List.Count
import Mathlib.Data.Rat.Cast.Order
import Mathlib.Data.Rat.Cast.CharZero
import Mathlib.Algebra.Order.BigOperators.Group.List

set_option linter.unusedSectionVars false
set_option linter.unusedSimpArgs false
set_option linter.unusedVariables false

open Finset Matrix

namespace PG
namespace Assembly

/-! ## Part A. The labelled chain as a finite Markov generator -/

section PartA

variable {T : Type} [DecidableEq T] [Fintype T]

/-- labelled states: lists of at most `N` typed particles -/
def Lab (T : Type) (N : ℕ) : Type := { x : List T // x.length ≤ N }

/-- labelled states satisfying an additional predicate (used to cut the labelled state space
down to a closed class) -/
def LabP (T : Type) (N : ℕ) (p : List T → Prop) : Type := { x : List T // x.length ≤ N ∧ p x }

instance (N : ℕ) : Finite (Lab T N) := (List.finite_length_le T N).to_subtype

instance (N : ℕ) (p : List T → Prop) : Finite (LabP T N p) :=
  ((List.finite_length_le T N).subset fun x (hx : x.length ≤ N ∧ p x) => hx.1).to_subtype

noncomputable instance (N : ℕ) : Fintype (Lab T N) := Fintype.ofFinite _
noncomputable instance (N : ℕ) (p : List T → Prop) : Fintype (LabP T N p) := Fintype.ofFinite _
instance (N : ℕ) : DecidableEq (Lab T N) := inferInstanceAs (DecidableEq { x : List T // _ })
instance (N : ℕ) (p : List T → Prop) : DecidableEq (LabP T N p) :=
  inferInstanceAs (DecidableEq { x : List T // _ })

/-- the labelled successor: the particles `Ksub` are removed from `x` (the survivors keep their
order) and the new particles `nw` are appended -/
def succL (nw : List T) (x Ksub : List T) : List T := x.diff Ksub ++ nw

omit [Fintype T] in
theorem cntF_succL (nw x Ksub : List T) :
    cntF (succL nw x Ksub) = cntF x - cntF Ksub + cntF nw := by
  funext t
  simp [succL, cntF, List.count_append, List.count_diff]

omit [Fintype T] in
/-- the surviving particles are particles of `x`, in their original order -/
theorem succL_survivors (nw x Ksub : List T) : ∃ s, s.Sublist x ∧ succL nw x Ksub = s ++ nw :=
  ⟨x.diff Ksub, List.diff_sublist x Ksub, rfl⟩

theorem length_eq_sum_cntF (x : List T) : x.length = ∑ t, cntF x t := (sum_cntF x).symm

variable {K : Type*} [CommRing K] {ε : Type*} [Fintype ε]

/-- the generator of the labelled particle system (one event kind), on ARBITRARY functions of the
labelled state: every sub-collection `Ksub` of the particles of `x` is replaced, at rate
`rate (cntF x) (cntF Ksub)`, by the particles `new (cntF Ksub)` -/
def QLfull (rate : (T → ℕ) → (T → ℕ) → K) (new : (T → ℕ) → List T) (f : List T → K)
    (x : List T) : K :=
  (x.sublists'.map fun Ksub => rate (cntF x) (cntF Ksub) *
    (f (succL (new (cntF Ksub)) x Ksub) - f x)).sum

omit [Fintype T] in
/-- on functions of the counts, `QLfull` is the generator `QL` of `PGProofs.Labelled` -/
theorem QLfull_comp_cntF (rate : (T → ℕ) → (T → ℕ) → K) (new : (T → ℕ) → List T)
    (g : (T → ℕ) → K) (x : List T) :
    QLfull rate new (fun y => g (cntF y)) x = QL rate (fun κ => cntF (new κ)) g x := by
  unfold QLfull QL
  simp only [cntF_succL]

/-- labelled generator for a finite family of event kinds -/
def QLsfull (rate : ε → (T → ℕ) → (T → ℕ) → K) (new : ε → (T → ℕ) → List T) (f : List T → K)
    (x : List T) : K := ∑ ev, QLfull (rate ev) (new ev) f x

omit [Fintype T] in
theorem QLsfull_comp_cntF (rate : ε → (T → ℕ) → (T → ℕ) → K) (new : ε → (T → ℕ) → List T)
    (g : (T → ℕ) → K) (x : List T) :
    QLsfull rate new (fun y => g (cntF y)) x = QLs rate (fun ev κ => cntF (new ev κ)) g x := by
  unfold QLsfull QLs
  exact sum_congr rfl fun ev _ => QLfull_comp_cntF _ _ _ _

/-- **lumping, for the full labelled generator**: applied to a function of the counts it is the
count generator -/
theorem QLsfull_lumping (rate : ε → (T → ℕ) → (T → ℕ) → K) (new : ε → (T → ℕ) → List T)
    (g : (T → ℕ) → K) (x : List T) :
    QLsfull rate new (fun y => g (cntF y)) x
      = QCs rate (fun ev κ => cntF (new ev κ)) g (cntF x) := by
  rw [QLsfull_comp_cntF, lumpings]

/-! ### The matrix of the labelled generator on a finite set of labelled states -/

variable {X : Type*} [Fintype X] [DecidableEq X]

/-- the matrix of the labelled generator on a finite set `X` of labelled states (`val` names the
list of particles of a state).  Entry `(x, y)` is the total rate of the events leading from `x`
to `y`, minus (on the diagonal) the total rate of all events. -/
def QLmat (rate : ε → (T → ℕ) → (T → ℕ) → K) (new : ε → (T → ℕ) → List T) (val : X → List T) :
    Matrix X X K := fun x y =>
  ∑ ev, ((val x).sublists'.map fun Ksub => rate ev (cntF (val x)) (cntF Ksub) *
    ((if succL (new ev (cntF Ksub)) (val x) Ksub = val y then 1 else 0)
      - (if x = y then 1 else 0))).sum

theorem sum_list_comm {α : Type*} (l : List α) (f : X → α → K) :
    ∑ y, (l.map (f y)).sum = (l.map fun a => ∑ y, f y a).sum := by
  induction l with
  | nil => simp
  | cons a l ih => simp [Finset.sum_add_distrib, ih]

/-- action of `QLmat` on a vector, event by event -/
theorem QLmat_mulVec_raw (rate : ε → (T → ℕ) → (T → ℕ) → K) (new : ε → (T → ℕ) → List T)
    (val : X → List T) (F : X → K) (x : X) :
    ∑ y, QLmat rate new val x y * F y
      = ∑ ev, ((val x).sublists'.map fun Ksub => rate ev (cntF (val x)) (cntF Ksub) *
          ((∑ y, if succL (new ev (cntF Ksub)) (val x) Ksub = val y then F y else 0) - F x)).sum := by
  unfold QLmat
  simp only [Finset.sum_mul]
  rw [Finset.sum_comm]
  refine sum_congr rfl fun ev _ => ?_
  simp only [← List.sum_map_mul_right]
  rw [sum_list_comm]
  congr 1
  apply List.map_congr_left
  intro Ksub _
  simp only [mul_assoc, ← Finset.mul_sum, sub_mul, Finset.sum_sub_distrib, ite_mul, one_mul,
    zero_mul, Finset.sum_ite_eq, Finset.mem_univ, if_true]

/-- **`QLmat` represents the labelled generator.**  If the state `x` can only move (at non-zero
rate) to states of `X`, the row `x` of `QLmat` applied to (the restriction to `X` of) any function
`F` of the labelled state is the labelled generator `QLsfull` applied to `F` at `x` -- there is
no killing. -/
theorem QLmat_represents (rate : ε → (T → ℕ) → (T → ℕ) → K) (new : ε → (T → ℕ) → List T)
    (val : X → List T) (hinj : Function.Injective val) (x : X)
    (hcl : ∀ ev, ∀ Ksub ∈ (val x).sublists', rate ev (cntF (val x)) (cntF Ksub) ≠ 0 →
      ∃ y, val y = succL (new ev (cntF Ksub)) (val x) Ksub)
    (F : List T → K) :
    ∑ y, QLmat rate new val x y * F (val y) = QLsfull rate new F (val x) := by
  rw [QLmat_mulVec_raw]
  unfold QLsfull QLfull
  refine sum_congr rfl fun ev _ => ?_
  congr 1
  apply List.map_congr_left
  intro Ksub hK
  by_cases h0 : rate ev (cntF (val x)) (cntF Ksub) = 0
  · rw [h0, zero_mul, zero_mul]
  · obtain ⟨y0, hy0⟩ := hcl ev Ksub hK h0
    rw [Finset.sum_eq_single_of_mem y0 (mem_univ _)]
    · rw [if_pos hy0.symm, hy0]
    · intro y _ hy
      rw [if_neg]
      intro h
      exact hy (hinj (h.symm.trans hy0.symm))

end PartA

/-! ## Generic assembly: code matrices on an encoded count chain vs. the labelled chain -/

section Generic

variable {T : Type} [DecidableEq T] [Fintype T] {ε : Type} [Fintype ε]
variable {K : Type} [Field K] [LinearOrder K] [IsStrictOrderedRing K]

/-- the particle list of a labelled state -/
def LabP.val {N : ℕ} {p : List T → Prop} (x : LabP T N p) : List T := Subtype.val x

theorem LabP.val_injective {N : ℕ} {p : List T → Prop} :
    Function.Injective (LabP.val : LabP T N p → List T) := Subtype.val_injective

/-- `ℚ`-valued rates, read in the field `K` -/
def castRate (rate : ε → (T → ℕ) → (T → ℕ) → ℚ) : ε → (T → ℕ) → (T → ℕ) → K :=
  fun ev c κ => ((rate ev c κ : ℚ) : K)

theorem QCs_cast (rate : ε → (T → ℕ) → (T → ℕ) → ℚ) (res : ε → (T → ℕ) → (T → ℕ))
    (g : (T → ℕ) → ℚ) (c : T → ℕ) :
    ((QCs rate res g c : ℚ) : K) = QCs (castRate rate) res (fun c' => ((g c' : ℚ) : K)) c := by
  unfold QCs QC castRate
  push_cast
  rfl

/-- the labelled state space attached to a list of encoded count states: the labelled
configurations whose count vector is (encoded as) one of the listed states -/
abbrev LabS (enc : (T → ℕ) → State) (states : List State) (N : ℕ) : Type :=
  LabP T N (fun x => enc (cntF x) ∈ states)

/-- the 0/1 matrix of the map `labelled state ↦ index of the state of its count vector` -/
def projP (enc : (T → ℕ) → State) (states : List State) (N : ℕ) :
    Matrix (LabS enc states N) (Fin states.length) K :=
  fun x j => if enc (cntF x.val) = states[j] then 1 else 0

theorem exists_idx {states : List State} {s : State} (h : s ∈ states) :
    ∃ i : Fin states.length, states[i] = s := by
  obtain ⟨i, hi, he⟩ := List.getElem_of_mem h
  exact ⟨⟨i, hi⟩, he⟩

theorem idx_inj {states : List State} (hnd : states.Nodup) {i j : Fin states.length}
    (h : states[i] = states[j]) : i = j :=
  Fin.ext ((hnd.getElem_inj_iff).mp h)

variable (enc : (T → ℕ) → State) (states : List State) (N : ℕ)

theorem projP_rowsum (hnd : states.Nodup) (x : LabS enc states N) :
    ∑ j, (projP enc states N : Matrix _ _ K) x j = 1 := by
  obtain ⟨i0, hi0⟩ := exists_idx x.2.2
  rw [Finset.sum_eq_single_of_mem i0 (mem_univ _)]
  · exact if_pos hi0.symm
  · intro j _ hj
    refine if_neg fun h => hj ?_
    exact idx_inj hnd (h.symm.trans hi0.symm)

theorem projP_mulVec (hnd : states.Nodup) (w : State → K) (x : LabS enc states N) :
    ((projP enc states N : Matrix _ _ K) *ᵥ fun j => w states[j]) x = w (enc (cntF x.val)) := by
  obtain ⟨i0, hi0⟩ := exists_idx x.2.2
  show ∑ j, projP enc states N x j * w states[j] = _
  rw [Finset.sum_eq_single_of_mem i0 (mem_univ _)]
  · unfold projP
    have h0 : enc (cntF x.val) = states[i0] := hi0.symm
    rw [if_pos h0, one_mul, h0]
  · intro j _ hj
    unfold projP
    rw [if_neg, zero_mul]
    intro h
    exact hj (idx_inj hnd (h.symm.trans hi0.symm))

theorem projP_mul_apply (hnd : states.Nodup) (M : Matrix (Fin states.length) (Fin states.length) K)
    (x : LabS enc states N) (i0 : Fin states.length) (hi0 : states[i0] = enc (cntF x.val))
    (j : Fin states.length) :
    ((projP enc states N : Matrix _ _ K) * M) x j = M i0 j := by
  rw [Matrix.mul_apply, Finset.sum_eq_single_of_mem i0 (mem_univ _)]
  · unfold projP
    rw [if_pos hi0.symm, one_mul]
  · intro i _ hi
    unfold projP
    rw [if_neg, zero_mul]
    intro h
    exact hi (idx_inj hnd (h.symm.trans hi0.symm))

theorem projP_reward (R : State → K) :
    Matrix.diagonal (fun x : LabS enc states N => R (enc (cntF x.val)))
        * (projP enc states N : Matrix _ _ K)
      = projP enc states N * Matrix.diagonal (fun j : Fin states.length => R states[j]) := by
  ext x j
  rw [Matrix.diagonal_mul, Matrix.mul_diagonal]
  unfold projP
  by_cases h : enc (cntF x.val) = states[j]
  · rw [if_pos h, h, mul_comm]
  · rw [if_neg h, mul_zero, zero_mul]

theorem vecMul_projP (x0 : LabS enc states N) :
    (fun x : LabS enc states N => if x = x0 then (1 : K) else 0) ᵥ* projP enc states N
      = fun j : Fin states.length => if states[j] = enc (cntF x0.val) then 1 else 0 := by
  funext j
  show ∑ x, (if x = x0 then (1 : K) else 0) * projP enc states N x j = _
  rw [Finset.sum_eq_single_of_mem x0 (mem_univ _)]
  · unfold projP
    rw [if_pos rfl, one_mul]
    by_cases h : states[j] = enc (cntF x0.val)
    · rw [if_pos h, if_pos h.symm]
    · rw [if_neg h, if_neg (fun h' => h h'.symm)]
  · intro x _ hx
    rw [if_neg hx, zero_mul]

variable {enc states N}

/-- the sum over the labelled states that selects the successor, against a function of the count
state that vanishes off the listed states -/
theorem sum_select (hN : ∀ c, enc c ∈ states → ∑ t, c t ≤ N) (z : List T) (j : Fin states.length) :
    (∑ y : LabS enc states N, if z = y.val then (projP enc states N : Matrix _ _ K) y j else 0)
      = if enc (cntF z) = states[j] then 1 else 0 := by
  by_cases h : enc (cntF z) = states[j]
  · have hmem : enc (cntF z) ∈ states := h ▸ List.getElem_mem j.isLt
    have hlen : z.length ≤ N := by rw [length_eq_sum_cntF]; exact hN _ hmem
    let y0 : LabS enc states N := ⟨z, hlen, hmem⟩
    rw [Finset.sum_eq_single_of_mem y0 (mem_univ _), if_pos h]
    · rw [if_pos (show z = y0.val from rfl)]
      unfold projP
      exact if_pos h
    · intro y _ hy
      refine if_neg fun h' => hy ?_
      exact LabP.val_injective (h'.symm.trans (show z = y0.val from rfl))
  · rw [if_neg h]
    refine Finset.sum_eq_zero fun y _ => ?_
    split_ifs with h'
    · unfold projP
      rw [← h']
      exact if_neg h
    · rfl

/-- **Intertwining.**  If every row of the code matrix `S` (over the state list `states`)
represents the count generator `QCs rate res`, read through the injective encoding `enc`, then
`S` is intertwined with the matrix of the labelled generator by the 0/1 matrix of the lumping
map. -/
theorem lab_intertwine (henc : Function.Injective enc) (hnd : states.Nodup)
    (hN : ∀ c, enc c ∈ states → ∑ t, c t ≤ N)
    (rate : ε → (T → ℕ) → (T → ℕ) → ℚ) (res : ε → (T → ℕ) → (T → ℕ))
    (new : ε → (T → ℕ) → List T) (hnew : ∀ ev κ, cntF (new ev κ) = res ev κ)
    (S : Matrix (Fin states.length) (Fin states.length) ℚ)
    (hrow : ∀ i : Fin states.length, ∃ c, states[i] = enc c ∧ ∀ f : State → ℚ,
      ∑ j, S i j * f states[j] = QCs rate res (fun c' => f (enc c')) c) :
    QLmat (castRate (K := K) rate) new (LabP.val : LabS enc states N → List T)
        * projP enc states N
      = projP enc states N * S.map (fun q : ℚ => (q : K)) := by
  ext x j
  obtain ⟨i0, hi0⟩ := exists_idx x.2.2
  rw [projP_mul_apply enc states N hnd _ x i0 hi0 j, Matrix.mul_apply, QLmat_mulVec_raw]
  simp only [sum_select hN]
  -- the left side is the labelled generator applied to a function of the counts
  have hres : (fun ev κ => cntF (new ev κ)) = res := by funext ev κ; exact hnew ev κ
  have hL := QLsfull_lumping (castRate (K := K) rate) new
    (fun c => if enc c = states[j] then (1 : K) else 0) x.val
  unfold QLsfull QLfull at hL
  have hx : (projP enc states N : Matrix _ _ K) x j
      = if enc (cntF x.val) = states[j] then 1 else 0 := rfl
  rw [hx]
  refine hL.trans ?_
  rw [hres]
  -- the count generator, read in `ℚ`, is the row of the code matrix
  obtain ⟨c, hc, hrowc⟩ := hrow i0
  have hcx : c = cntF x.val := henc (hc.symm.trans hi0)
  have hq := hrowc (fun s => if s = states[j] then 1 else 0)
  rw [Finset.sum_eq_single_of_mem j (mem_univ _)] at hq
  · rw [if_pos rfl, mul_one] at hq
    rw [Matrix.map_apply, hq, QCs_cast, hcx]
    congr 1
    funext c'
    split_ifs <;> simp
  · intro j' _ hj'
    rw [if_neg, mul_zero]
    intro h
    exact hj' (idx_inj hnd h)

variable (L : ExpLaw K) {k : ℕ}

/-- **Generic assembly, moments.**  The code's lumped chain and the labelled chain have the same
(cross-)moments of every order `k`, for every list of factors (epoch index, duration), every
`ExpLaw`. -/
theorem generic_accum (henc : Function.Injective enc) (hnd : states.Nodup)
    (hN : ∀ c, enc c ∈ states → ∑ t, c t ≤ N)
    (rate : ℕ → ε → (T → ℕ) → (T → ℕ) → ℚ) (res : ε → (T → ℕ) → (T → ℕ))
    (new : ε → (T → ℕ) → List T) (hnew : ∀ ev κ, cntF (new ev κ) = res ev κ)
    (S : ℕ → Matrix (Fin states.length) (Fin states.length) ℚ)
    (hrow : ∀ e, ∀ i : Fin states.length, ∃ c, states[i] = enc c ∧ ∀ f : State → ℚ,
      ∑ j, S e i j * f states[j] = QCs (rate e) res (fun c' => f (enc c')) c)
    (R : Fin k → State → ℚ) (x0 : LabS enc states N) (fs : List (ℕ × K)) :
    accumVal L (fun e => QLmat (castRate (K := K) (rate e)) new
          (LabP.val : LabS enc states N → List T))
        (fun a x => ((R a (enc (cntF x.val)) : ℚ) : K))
        (fun x => if x = x0 then 1 else 0) fs
      = accumVal L (fun e => (S e).map (fun q : ℚ => (q : K)))
          (fun a j => ((R a states[j] : ℚ) : K))
          (fun j => if states[j] = enc (cntF x0.val) then 1 else 0) fs :=
  lump_accum L _ _ _ _ _ _ (projP enc states N)
    (fun e => lab_intertwine henc hnd hN (rate e) res new hnew (S e) (hrow e))
    (fun a => projP_reward enc states N (fun s => ((R a s : ℚ) : K)))
    (projP_rowsum enc states N hnd) (vecMul_projP enc states N x0).symm fs

/-- **Generic assembly, cdf.** -/
theorem generic_cdf (henc : Function.Injective enc) (hnd : states.Nodup)
    (hN : ∀ c, enc c ∈ states → ∑ t, c t ≤ N)
    (rate : ℕ → ε → (T → ℕ) → (T → ℕ) → ℚ) (res : ε → (T → ℕ) → (T → ℕ))
    (new : ε → (T → ℕ) → List T) (hnew : ∀ ev κ, cntF (new ev κ) = res ev κ)
    (S : ℕ → Matrix (Fin states.length) (Fin states.length) ℚ)
    (hrow : ∀ e, ∀ i : Fin states.length, ∃ c, states[i] = enc c ∧ ∀ f : State → ℚ,
      ∑ j, S e i j * f states[j] = QCs (rate e) res (fun c' => f (enc c')) c)
    (E : State → ℚ) (x0 : LabS enc states N) (fs : List (ℕ × K)) :
    cdfVal L (fun e => QLmat (castRate (K := K) (rate e)) new
          (LabP.val : LabS enc states N → List T))
        (fun x => if x = x0 then 1 else 0)
        (fun x => ((E (enc (cntF x.val)) : ℚ) : K)) fs
      = cdfVal L (fun e => (S e).map (fun q : ℚ => (q : K)))
          (fun j => if states[j] = enc (cntF x0.val) then 1 else 0)
          (fun j => ((E states[j] : ℚ) : K)) fs := by
  have h := lump_cdf L (fun e => QLmat (castRate (K := K) (rate e)) new
      (LabP.val : LabS enc states N → List T)) (fun e => (S e).map (fun q : ℚ => (q : K)))
    (fun x => if x = x0 then 1 else 0)
    (fun j => if states[j] = enc (cntF x0.val) then 1 else 0)
    (fun j => ((E states[j] : ℚ) : K)) (projP enc states N)
    (fun e => lab_intertwine henc hnd hN (rate e) res new hnew (S e) (hrow e))
    (vecMul_projP enc states N x0).symm fs
  rw [← h]
  congr 1
  funext x
  exact (projP_mulVec enc states N hnd (fun s => ((E s : ℚ) : K)) x).symm

/-- **The labelled matrix is the labelled generator (no killing)** on the labelled state space
`LabS`, as soon as the listed count states are closed under the non-zero-rate events. -/
theorem generic_represents (hN : ∀ c, enc c ∈ states → ∑ t, c t ≤ N)
    (rate : ε → (T → ℕ) → (T → ℕ) → ℚ) (res : ε → (T → ℕ) → (T → ℕ))
    (new : ε → (T → ℕ) → List T) (hnew : ∀ ev κ, cntF (new ev κ) = res ev κ)
    (x : LabS enc states N)
    (hcl : ∀ ev κ, κ ≤ cntF x.val → rate ev (cntF x.val) κ ≠ 0 →
      enc (cntF x.val - κ + res ev κ) ∈ states)
    (F : List T → K) :
    ∑ y, QLmat (castRate (K := K) rate) new (LabP.val : LabS enc states N → List T) x y
        * F y.val
      = QLsfull (castRate (K := K) rate) new F x.val := by
  apply QLmat_represents _ _ _ LabP.val_injective
  intro ev Ksub hK h0
  have hsub : Ksub.Sublist x.val := List.mem_sublists'.mp hK
  have hle : cntF Ksub ≤ cntF x.val := fun t => hsub.count_le t
  have h0' : rate ev (cntF x.val) (cntF Ksub) ≠ 0 := by
    intro h; apply h0; unfold castRate; rw [h]; simp
  have hmem := hcl ev (cntF Ksub) hle h0'
  rw [← hnew, ← cntF_succL] at hmem
  have hlen : (succL (new ev (cntF Ksub)) x.val Ksub).length ≤ N := by
    rw [length_eq_sum_cntF]; exact hN _ hmem
  exact ⟨⟨_, hlen, hmem⟩, rfl⟩

end Generic

/-! ## Generic closure from non-negative rates -/
section ClosedNonneg
variable {T : Type} [DecidableEq T] [Fintype T] {ε : Type} [Fintype ε]

omit [DecidableEq T] in
theorem wt_pos_of_le {c κ : T → ℕ} (h : κ ≤ c) : 0 < wt c κ := by
  unfold wt
  exact Finset.prod_pos fun t _ => Nat.choose_pos (h t)

/-- if the rates out of the count state `c` are non-negative and a row of a matrix over the state
list represents the count generator at `c`, every event of non-zero rate leads to a listed
state -/
theorem closed_of_nonneg (enc : (T → ℕ) → State) (states : List State)
    (rate : ε → (T → ℕ) → (T → ℕ) → ℚ) (res : ε → (T → ℕ) → (T → ℕ))
    (row : Fin states.length → ℚ) (c : T → ℕ) (hc : enc c ∈ states)
    (hrow : ∀ f : State → ℚ, ∑ j, row j * f states[j] = QCs rate res (fun c' => f (enc c')) c)
    (hnn : ∀ ev κ, 0 ≤ rate ev c κ) (ev : ε) (κ : T → ℕ) (hκ : κ ≤ c) (hr : rate ev c κ ≠ 0) :
    enc (c - κ + res ev κ) ∈ states := by
  classical
  by_contra hnot
  have h := hrow (fun s => if s ∈ states then 0 else 1)
  have hL : ∑ j, row j * (fun s => if s ∈ states then (0 : ℚ) else 1) states[j] = 0 := by
    refine Finset.sum_eq_zero fun j _ => ?_
    show row j * (if states[j] ∈ states then (0 : ℚ) else 1) = 0
    have hm : states[j] ∈ states := List.getElem_mem j.isLt
    rw [if_pos hm, mul_zero]
  rw [hL] at h
  unfold QCs QC at h
  simp only [if_pos hc, sub_zero] at h
  have hterm : ∀ ev' ∈ (univ : Finset ε), 0 ≤ ∑ κ' ∈ Iic c, (wt c κ' : ℚ) *
      (rate ev' c κ' * if enc (c - κ' + res ev' κ') ∈ states then 0 else 1) := by
    intro ev' _
    refine Finset.sum_nonneg fun κ' _ => mul_nonneg (Nat.cast_nonneg _) (mul_nonneg (hnn ev' κ') ?_)
    split_ifs <;> norm_num
  have h1 := (Finset.sum_eq_zero_iff_of_nonneg hterm).mp h.symm ev (mem_univ _)
  have hterm2 : ∀ κ' ∈ Iic c, 0 ≤ (wt c κ' : ℚ) *
      (rate ev c κ' * if enc (c - κ' + res ev κ') ∈ states then 0 else 1) := by
    intro κ' _
    refine mul_nonneg (Nat.cast_nonneg _) (mul_nonneg (hnn ev κ') ?_)
    split_ifs <;> norm_num
  have h2 := (Finset.sum_eq_zero_iff_of_nonneg hterm2).mp h1 κ (Finset.mem_Iic.mpr hκ)
  rw [if_neg hnot, mul_one] at h2
  have hw : (wt c κ : ℚ) ≠ 0 := by exact_mod_cast (wt_pos_of_le hκ).ne'
  exact hr ((mul_eq_zero.mp h2).resolve_left hw)


variable {K : Type} [Field K] [LinearOrder K] [IsStrictOrderedRing K]

/-- **The labelled matrix is the labelled generator (no killing)** whenever the rates are
non-negative: closedness of the listed states then follows from the row identity. -/
theorem generic_represents_of_nonneg {enc : (T → ℕ) → State} {states : List State} {N : ℕ}
    (henc : Function.Injective enc) (hN : ∀ c, enc c ∈ states → ∑ t, c t ≤ N)
    (rate : ε → (T → ℕ) → (T → ℕ) → ℚ) (res : ε → (T → ℕ) → (T → ℕ))
    (new : ε → (T → ℕ) → List T) (hnew : ∀ ev κ, cntF (new ev κ) = res ev κ)
    (S : Matrix (Fin states.length) (Fin states.length) ℚ)
    (hrow : ∀ i : Fin states.length, ∃ c, states[i] = enc c ∧ ∀ f : State → ℚ,
      ∑ j, S i j * f states[j] = QCs rate res (fun c' => f (enc c')) c)
    (hnn : ∀ ev c κ, 0 ≤ rate ev c κ)
    (x : LabS enc states N) (F : List T → K) :
    ∑ y, QLmat (castRate (K := K) rate) new (LabP.val : LabS enc states N → List T) x y
        * F y.val
      = QLsfull (castRate (K := K) rate) new F x.val := by
  apply generic_represents hN rate res new hnew x
  intro ev κ hκ hr
  obtain ⟨i0, hi0⟩ := exists_idx x.2.2
  obtain ⟨c, hc, hrowc⟩ := hrow i0
  have hcx : c = cntF x.val := henc (hc.symm.trans hi0)
  subst hcx
  exact closed_of_nonneg enc states rate res (S i0) _ x.2.2 hrowc (fun ev κ => hnn ev _ κ)
    ev κ hκ hr

end ClosedNonneg

/-! ## Part B (i). The visited list of the search does not depend on the rates -/

section BFSCongr

/-- the "next sources" accumulator of the search only looks at the keys -/
theorem foldl_dedup_keys (targets : Targets) (newT : List State) :
    targets.foldl (fun acc (p : State × ℚ) => if acc.contains p.1 then acc else acc ++ [p.1]) newT
      = (keys targets).foldl (fun acc t => if acc.contains t then acc else acc ++ [t]) newT := by
  unfold keys
  rw [List.foldl_map]

theorem bfsSweep_congr (step step' : State → Targets) (Q : State → Prop)
    (hQ : ∀ s, Q s → ∀ t ∈ keys (step s), Q t)
    (hk : ∀ s, Q s → keys (step s) = keys (step' s))
    (sources : List State) (hs : ∀ s ∈ sources, Q s) (g g' : Graph)
    (hv : g.visited = g'.visited) :
    (bfsSweep step g sources).1.visited = (bfsSweep step' g' sources).1.visited ∧
    (bfsSweep step g sources).2 = (bfsSweep step' g' sources).2 ∧
    ∀ s ∈ (bfsSweep step g sources).2, Q s := by
  unfold bfsSweep
  suffices H : ∀ (sources : List State) (hs : ∀ s ∈ sources, Q s) (a a' : Graph × List State),
      a.1.visited = a'.1.visited → a.2 = a'.2 → (∀ s ∈ a.2, Q s) →
      (sources.foldl (fun (x : Graph × List State) src =>
          if x.1.visited.contains src then (x.1, x.2) else
          ({ visited := x.1.visited ++ [src]
             transitions := x.1.transitions ++ (step src).map fun (t, r) => ((src, t), r) },
           (step src).foldl (fun acc (t, _) => if acc.contains t then acc else acc ++ [t]) x.2))
          a).1.visited
        = (sources.foldl (fun (x : Graph × List State) src =>
          if x.1.visited.contains src then (x.1, x.2) else
          ({ visited := x.1.visited ++ [src]
             transitions := x.1.transitions ++ (step' src).map fun (t, r) => ((src, t), r) },
           (step' src).foldl (fun acc (t, _) => if acc.contains t then acc else acc ++ [t]) x.2))
          a').1.visited ∧
      (sources.foldl (fun (x : Graph × List State) src =>
          if x.1.visited.contains src then (x.1, x.2) else
          ({ visited := x.1.visited ++ [src]
             transitions := x.1.transitions ++ (step src).map fun (t, r) => ((src, t), r) },
           (step src).foldl (fun acc (t, _) => if acc.contains t then acc else acc ++ [t]) x.2))
          a).2
        = (sources.foldl (fun (x : Graph × List State) src =>
          if x.1.visited.contains src then (x.1, x.2) else
          ({ visited := x.1.visited ++ [src]
             transitions := x.1.transitions ++ (step' src).map fun (t, r) => ((src, t), r) },
           (step' src).foldl (fun acc (t, _) => if acc.contains t then acc else acc ++ [t]) x.2))
          a').2 ∧
      ∀ s ∈ (sources.foldl (fun (x : Graph × List State) src =>
          if x.1.visited.contains src then (x.1, x.2) else
          ({ visited := x.1.visited ++ [src]
             transitions := x.1.transitions ++ (step src).map fun (t, r) => ((src, t), r) },
           (step src).foldl (fun acc (t, _) => if acc.contains t then acc else acc ++ [t]) x.2))
          a).2, Q s by
    exact H sources hs (g, []) (g', []) hv rfl (by simp)
  intro sources
  induction sources with
  | nil => intro _ a a' h1 h2 h3; exact ⟨h1, h2, h3⟩
  | cons src rest ih =>
    intro hs a a' h1 h2 h3
    rw [List.foldl_cons, List.foldl_cons]
    have hsrc : Q src := hs src List.mem_cons_self
    apply ih (fun s h => hs s (List.mem_cons_of_mem _ h))
    · rw [← h1]
      split_ifs
      · exact h1
      · simp [h1]
    · rw [← h1]
      split_ifs
      · exact h2
      · show (step src).foldl _ a.2 = (step' src).foldl _ a'.2
        rw [foldl_dedup_keys, foldl_dedup_keys, hk src hsrc, h2]
    · split_ifs
      · exact h3
      · intro s hs'
        change s ∈ (step src).foldl _ a.2 at hs'
        rw [mem_foldl_dedup] at hs'
        rcases hs' with h | h
        · exact h3 s h
        · exact hQ src hsrc s h

theorem bfs_go_congr (step step' : State → Targets) (Q : State → Prop)
    (hQ : ∀ s, Q s → ∀ t ∈ keys (step s), Q t)
    (hk : ∀ s, Q s → keys (step s) = keys (step' s))
    (fuel : ℕ) : ∀ (fuel' : ℕ) (g g' : Graph) (sources : List State) (r r' : Graph),
      (∀ s ∈ sources, Q s) → g.visited = g'.visited →
      bfs.go step fuel g sources = some r → bfs.go step' fuel' g' sources = some r' →
      r.visited = r'.visited := by
  induction fuel with
  | zero => intro fuel' g g' sources r r' _ _ h; simp [bfs.go] at h
  | succ fuel ih =>
    intro fuel' g g' sources r r' hs hv h h'
    cases fuel' with
    | zero => simp [bfs.go] at h'
    | succ fuel' =>
      obtain ⟨e1, e2, e3⟩ := bfsSweep_congr step step' Q hQ hk sources hs g g' hv
      unfold bfs.go at h h'
      generalize bfsSweep step g sources = a at h e1 e2 e3
      generalize bfsSweep step' g' sources = a' at h' e1 e2
      obtain ⟨g1, n1⟩ := a
      obtain ⟨g1', n1'⟩ := a'
      dsimp only at h h' e1 e2 e3
      subst e2
      split_ifs at h h' with he
      · rw [Option.some.injEq] at h h'
        subst h; subst h'
        exact e1
      · exact ih fuel' g1 g1' n1 r r' e3 e1 h h'

/-- **The search visits the same states, in the same order, for two step functions with the same
key lists** (on a class `Q` of states containing the initial state and closed under the step). -/
theorem bfs_visited_congr (step step' : State → Targets) (Q : State → Prop)
    (hQ : ∀ s, Q s → ∀ t ∈ keys (step s), Q t)
    (hk : ∀ s, Q s → keys (step s) = keys (step' s))
    (init : State) (hinit : Q init) (fuel fuel' : ℕ) (g g' : Graph)
    (h : bfs step init fuel = some g) (h' : bfs step' init fuel' = some g') :
    g.visited = g'.visited := by
  unfold bfs at h h'
  exact bfs_go_congr step step' Q hQ hk fuel fuel' _ _ [init] g g'
    (by intro s hs; rw [List.mem_singleton] at hs; exact hs ▸ hinit) rfl h h'

end BFSCongr

/-! ## Part B. Lineage counting -/

section LineageKeys
variable {D : ℕ}

/-- the key list of a sequence of `add_target`s only depends on the keys -/
theorem keys_addAll_congr {κ : Type} [BEq κ] [LawfulBEq κ] (L L' : List (κ × ℚ))
    (hL : keys L = keys L') : ∀ d d' : Dict κ ℚ, keys d = keys d' →
      keys (addAll d L) = keys (addAll d' L') := by
  induction L generalizing L' with
  | nil =>
    intro d d' hd
    cases L' with
    | nil => simpa using hd
    | cons q L' => simp [keys] at hL
  | cons q L ih =>
    intro d d' hd
    cases L' with
    | nil => simp [keys] at hL
    | cons q' L' =>
      rw [keys_cons, keys_cons, List.cons.injEq] at hL
      rw [addAll_cons, addAll_cons]
      apply ih L' hL.2
      by_cases hmem : q.1 ∈ keys d
      · rw [keys_addTarget_of_mem d q.1 q.2 hmem,
          keys_addTarget_of_mem d' q'.1 q'.2 (by rw [← hL.1, ← hd]; exact hmem), hd]
      · rw [keys_addTarget_of_not_mem d q.1 q.2 hmem,
          keys_addTarget_of_not_mem d' q'.1 q'.2 (by rw [← hL.1, ← hd]; exact hmem), hd, hL.1]

theorem keys_migList (mig mig' : Fin D → Fin D → ℚ) (c : Fin D → ℕ) :
    keys (migList mig c) = keys (migList mig' c) := by
  unfold migList keys
  rw [List.map_map, List.map_map]
  rfl

theorem keys_coalList (m : Model) (ts ts' : Fin D → ℚ) (c : Fin D → ℕ) :
    keys (coalList m ts c) = keys (coalList m ts' c) := by
  unfold coalList keys
  rw [List.map_flatMap, List.map_flatMap]
  simp only [List.map_map]
  rfl

/-- **The key list of `transit` at a count state does not depend on the rates of the epoch**
(targets of rate zero are listed all the same). -/
theorem keys_transit_enc_indep (m : Model) (ts ts' : Fin D → ℚ) (mig mig' : Fin D → Fin D → ℚ)
    (r r' : ℚ) (c : Fin D → ℕ) :
    keys (transit m (mkEpoch ts mig r) (encLC c)) = keys (transit m (mkEpoch ts' mig' r') (encLC c)) := by
  have hmig : keys (migrate (mkEpoch ts mig r) (encLC c))
      = keys (migrate (mkEpoch ts' mig' r') (encLC c)) := by
    rw [migrate_enc, migrate_enc]
    exact keys_addAll_congr _ _ (keys_migList mig mig' c) _ _ rfl
  by_cases hc : ∑ d, c d = 1
  · rw [transit_enc_absorbing m ts mig r c hc, transit_enc_absorbing m ts' mig' r' c hc, hmig]
  · rw [transit_enc m ts mig r c hc, transit_enc m ts' mig' r' c hc, keys_append, keys_append, hmig,
      coalesce1_enc, coalesce1_enc]
    congr 1
    exact keys_addAll_congr _ _ (keys_coalList m ts ts' c) _ _ rfl

theorem mem_finPairs (d d' : Fin D) : (d, d') ∈ finPairs D := by
  unfold finPairs
  simp [List.mem_flatMap]

/-- every migration move of one lineage is listed by `transit` (whatever its rate) -/
theorem mem_keys_transit_mig (m : Model) (ts : Fin D → ℚ) (mig : Fin D → Fin D → ℚ) (r : ℚ)
    (c : Fin D → ℕ) (d d' : Fin D) (hdd : d ≠ d') (hpos : 0 < c d) :
    encLC (c - e1 d + e1 d') ∈ keys (transit m (mkEpoch ts mig r) (encLC c)) := by
  have hmig : encLC (c - e1 d + e1 d') ∈ keys (migrate (mkEpoch ts mig r) (encLC c)) := by
    rw [migrate_enc, mem_keys_addAll]
    right
    unfold migList keys
    rw [List.map_map, List.mem_map]
    refine ⟨(d, d'), ?_, rfl⟩
    rw [List.mem_filter]
    exact ⟨mem_finPairs d d', by simp [hdd, hpos]⟩
  by_cases hc : ∑ d, c d = 1
  · rw [transit_enc_absorbing m ts mig r c hc]; exact hmig
  · rw [transit_enc m ts mig r c hc, keys_append, List.mem_append]; exact Or.inl hmig

/-- every `k`-merger in one deme is listed by `transit` (only `k = 2` for Kingman) -/
theorem mem_keys_transit_coal (m : Model) (ts : Fin D → ℚ) (mig : Fin D → Fin D → ℚ) (r : ℚ)
    (c : Fin D → ℕ) (d : Fin D) (k : ℕ) (h2 : 2 ≤ k) (hk : k ≤ c d) (hm : m = .kingman → k = 2) :
    encLC (c - (k - 1) • e1 d) ∈ keys (transit m (mkEpoch ts mig r) (encLC c)) := by
  have hc : ∑ d, c d ≠ 1 := by
    have : c d ≤ ∑ d, c d := Finset.single_le_sum (f := c) (fun _ _ => Nat.zero_le _) (mem_univ d)
    omega
  rw [transit_enc m ts mig r c hc, keys_append, List.mem_append]
  right
  rw [coalesce1_enc, mem_keys_addAll]
  right
  unfold coalList keys
  rw [List.mem_map]
  have hq : ∃ q ∈ coalesceBlocks m [c d], q.1 = [c d - (k - 1)] := by
    by_cases hmk : m = .kingman
    · have hk2 := hm hmk
      subst hmk; subst hk2
      rw [coalesceBlocks_kingman_single, if_pos (by omega)]
      exact ⟨_, List.mem_singleton_self _, rfl⟩
    · rw [coalesceBlocks_mm_single m hmk]
      refine ⟨_, List.mem_map_of_mem (List.mem_range.mpr (show k - 2 < c d - 1 by omega)), ?_⟩
      show [c d - (k - 2 + 1)] = _
      congr 2
      omega
  obtain ⟨q, hq, hq1⟩ := hq
  refine ⟨(_, q.2 / ts d), List.mem_flatMap.mpr ⟨d, List.mem_finRange d,
    List.mem_map_of_mem hq⟩, ?_⟩
  show ({ encLC c with lin := (encLC c).lin.modify 0 fun x => x.set d.val q.1 } : State) = _
  rw [hq1, coalTarget_enc, update_eq_sub]

/-- a labelled particle of deme `d'` (migration) or `d` (merger) replaces the participants -/
def linNew : LKind D → (Fin D → ℕ) → List (Fin D)
  | .inl (_, d'), _ => [d']
  | .inr d, _ => [d]

theorem cntF_singleton {T : Type} [DecidableEq T] (t : T) : cntF [t] = e1 t := by
  funext s
  by_cases h : s = t
  · subst h; simp [cntF, e1]
  · simp [cntF, e1, h, Ne.symm h]

theorem cntF_linNew (ev : LKind D) (κ : Fin D → ℕ) : cntF (linNew ev κ) = linRes ev κ := by
  rcases ev with ⟨d, d'⟩ | d <;> exact cntF_singleton _

/-- the states listed by the search are closed under the events of non-zero rate of the lineage
process -/
theorem lineage_closed (m : Model) (ts : Fin D → ℚ) (mig : Fin D → Fin D → ℚ) (r : ℚ)
    (c0 : Fin D → ℕ) (fuel : ℕ) (g : Graph)
    (h : bfs (transit m (mkEpoch ts mig r)) (encLC c0) fuel = some g)
    (c : Fin D → ℕ) (hc : encLC c ∈ g.visited) (ev : LKind D) (κ : Fin D → ℕ) (hκ : κ ≤ c)
    (hr : linRate (lam m) ts mig ev c κ ≠ 0) :
    encLC (c - κ + linRes ev κ) ∈ g.visited := by
  obtain ⟨_, _, hcl, _, _⟩ := bfs_spec _ _ fuel g h
  have key : encLC (c - κ + linRes ev κ) ∈ keys (transit m (mkEpoch ts mig r) (encLC c)) := by
    rcases ev with ⟨d, d'⟩ | d
    · simp only [linRate] at hr
      have hcond : κ = e1 d ∧ d ≠ d' := by
        by_contra hne; exact hr (if_neg hne)
      obtain ⟨rfl, hdd⟩ := hcond
      have hpos : 0 < c d := by have := hκ d; simp [e1] at this; omega
      exact mem_keys_transit_mig m ts mig r c d d' hdd hpos
    · simp only [linRate] at hr
      have hcond : κ = Pi.single d (κ d) ∧ 2 ≤ κ d := by
        by_contra hne; exact hr (if_neg hne)
      rw [if_pos hcond] at hr
      have hlam : lam m (c d) (κ d) ≠ 0 := by
        intro h0; apply hr; rw [h0, zero_div]
      have heq : c - κ + linRes (.inr d) κ = c - (κ d - 1) • e1 d := by
        rw [hcond.1]
        funext t
        by_cases ht : t = d
        · subst ht; simp [linRes, e1]; have h1 : κ t ≤ c t := hκ t; have h2 := hcond.2; omega
        · simp [linRes, e1, ht]
      rw [heq]
      refine mem_keys_transit_coal m ts mig r c d (κ d) hcond.2 (hκ d) ?_
      rintro rfl
      by_contra hne
      exact hlam (by simp [lam, hne])
  unfold keys at key
  rw [List.mem_map] at key
  obtain ⟨p, hp, hp1⟩ := key
  rw [← hp1]
  exact hcl _ hc p hp

end LineageKeys

/-! ## Part A, continued: the labelled generator matrix on `Lab T N` -/

section PartA2
variable {T : Type} [DecidableEq T] [Fintype T]
variable {K : Type*} [CommRing K] {ε : Type*} [Fintype ε]

/-- the particle list of a labelled state -/
def Lab.val {N : ℕ} (x : Lab T N) : List T := Subtype.val x

theorem Lab.val_injective {N : ℕ} : Function.Injective (Lab.val : Lab T N → List T) :=
  Subtype.val_injective

/-- **The matrix of the labelled generator on `Lab T N`.**  If no event of non-zero rate out of
`x` produces more than `N` particles, row `x` of `QLmat` is the labelled generator at `x`. -/
theorem QLmat_Lab_represents (N : ℕ) (rate : ε → (T → ℕ) → (T → ℕ) → K)
    (new : ε → (T → ℕ) → List T) (x : Lab T N)
    (hlen : ∀ ev, ∀ Ksub ∈ x.val.sublists', rate ev (cntF x.val) (cntF Ksub) ≠ 0 →
      (succL (new ev (cntF Ksub)) x.val Ksub).length ≤ N)
    (F : List T → K) :
    ∑ y, QLmat rate new (Lab.val : Lab T N → List T) x y * F y.val
      = QLsfull rate new F x.val :=
  QLmat_represents rate new Lab.val Lab.val_injective x
    (fun ev Ksub hK h0 => ⟨⟨_, hlen ev Ksub hK h0⟩, rfl⟩) F

omit [Fintype T] in
theorem length_succL (nw x Ksub : List T) (h : Ksub.Sublist x) :
    (succL nw x Ksub).length = x.length - Ksub.length + nw.length := by
  unfold succL
  rw [List.length_append]
  congr 1
  have hp : (Ksub ++ x.diff Ksub).Perm x := by
    rw [List.perm_iff_count]
    intro a
    rw [List.count_append, List.count_diff]
    have := h.count_le a
    omega
  have := hp.length_eq
  rw [List.length_append] at this
  omega

/-- one locus: the number of particles never increases, so the labelled lineage process lives on
`Lab (Fin D) N` for every `N` -/
theorem lineage_Lab_represents {D : ℕ} {K : Type*} [Field K] (N : ℕ) (lam : ℕ → ℕ → K)
    (ts : Fin D → K) (mig : Fin D → Fin D → K) (x : Lab (Fin D) N) (F : List (Fin D) → K) :
    ∑ y, QLmat (linRate lam ts mig) linNew (Lab.val : Lab (Fin D) N → List (Fin D)) x y * F y.val
      = QLsfull (linRate lam ts mig) linNew F x.val := by
  apply QLmat_Lab_represents
  intro ev Ksub hK h0
  have hsub : Ksub.Sublist x.val := List.mem_sublists'.mp hK
  rw [length_succL _ _ _ hsub]
  have hx : x.val.length ≤ N := x.2
  have hle := hsub.length_le
  rcases ev with ⟨d, d'⟩ | d
  · simp only [linRate] at h0
    have hcond : cntF Ksub = e1 d ∧ d ≠ d' := by
      by_contra hne; exact h0 (if_neg hne)
    have hl : Ksub.length = 1 := by
      rw [length_eq_sum_cntF, hcond.1]; simp [e1, Finset.sum_pi_single']
    simp only [linNew, List.length_singleton]
    omega
  · simp only [linRate] at h0
    have hcond : cntF Ksub = Pi.single d (cntF Ksub d) ∧ 2 ≤ cntF Ksub d := by
      by_contra hne; exact h0 (if_neg hne)
    have hl : 2 ≤ Ksub.length := by
      rw [length_eq_sum_cntF]
      exact hcond.2.trans (Finset.single_le_sum (f := cntF Ksub) (fun _ _ => Nat.zero_le _)
        (mem_univ d))
    simp only [linNew, List.length_singleton]
    omega

end PartA2

section LineageAlpha
variable {D : ℕ}

theorem pops_enc (c c0 : Fin D → ℕ) :
    ((List.range 1).all fun l => (List.range (List.ofFn c0).length).all fun d =>
      get3 (encLC c).lin l d 0 == getN (List.ofFn c0) d) = decide (encLC c = encLC c0) := by
  rw [Bool.eq_iff_iff]
  simp only [List.range_one, List.all_cons, List.all_nil, Bool.and_true, List.all_eq_true,
    List.mem_range, List.length_ofFn, beq_iff_eq, decide_eq_true_eq]
  constructor
  · intro h
    congr 1
    funext d
    have := h d.val d.isLt
    simp only [encLC] at this
    rw [get3_enc, getN_ofFn] at this
    exact this
  · intro h d hd
    have hc : c = c0 := encLC_injective h
    subst hc
    have h1 := get3_enc c ⟨d, hd⟩
    have h2 := getN_ofFn c ⟨d, hd⟩
    simp only [encLC]
    exact h1.trans h2.symm

theorem alphaVec_lineage (states : List State) (c0 : Fin D → ℕ) (hnd : states.Nodup)
    (hmem : encLC c0 ∈ states) (henc : ∀ s ∈ states, ∃ c : Fin D → ℕ, s = encLC c) :
    alphaVec states (List.ofFn c0) 1 0
      = states.map fun s => if s = encLC c0 then (1 : ℚ) else 0 := by
  unfold alphaVec
  simp only [if_true]
  have hind : List.map (fun s => if (((List.range 1).all fun l =>
        (List.range (List.ofFn c0).length).all fun d =>
          get3 s.lin l d 0 == getN (List.ofFn c0) d) && true) = true then (1 : ℚ) else 0) states
      = states.map fun s => if s = encLC c0 then (1 : ℚ) else 0 := by
    apply List.map_congr_left
    intro s hs
    obtain ⟨c, rfl⟩ := henc s hs
    rw [pops_enc]
    simp
  rw [hind]
  have htot : sumRat (states.map fun s => if s = encLC c0 then (1 : ℚ) else 0) = 1 := by
    rw [sumRat_eq]
    have h := sum_map_ite_nodup states hnd (encLC c0) hmem 1 (fun _ => 1)
    simp only [mul_one] at h
    refine Eq.trans ?_ h
    congr 1
    apply List.map_congr_left
    intro s _
    by_cases hs : s = encLC c0
    · rw [if_pos hs, if_pos hs.symm]
    · rw [if_neg hs, if_neg (fun h' => hs h'.symm)]
  rw [htot]
  simp

/-- entries of `alphaVec` -/
theorem alphaVec_lineage_getD (states : List State) (c0 : Fin D → ℕ) (hnd : states.Nodup)
    (hmem : encLC c0 ∈ states) (henc : ∀ s ∈ states, ∃ c : Fin D → ℕ, s = encLC c)
    (j : Fin states.length) :
    (alphaVec states (List.ofFn c0) 1 0).getD j.val 0
      = if states[j] = encLC c0 then 1 else 0 := by
  rw [alphaVec_lineage states c0 hnd hmem henc, List.getD_eq_getElem?_getD,
    List.getElem?_map, List.getElem?_eq_getElem j.isLt]
  rfl

end LineageAlpha

/-- a set of count vectors containing `cinit` and closed under moving one particle from one
type to another contains every count vector with the same total -/
theorem all_configs_of_moves {D : ℕ} (V : (Fin D → ℕ) → Prop) (cinit : Fin D → ℕ) (hinit : V cinit)
    (step : ∀ (c' : Fin D → ℕ) (d d' : Fin D), d ≠ d' → 0 < c' d → V c' → V (c' - e1 d + e1 d'))
    (c : Fin D → ℕ) (hc : ∑ d, c d = ∑ d, cinit d) : V c := by
  -- induction on the `ℓ¹` distance between `c` and `cinit`
  suffices H : ∀ (k : ℕ) (c : Fin D → ℕ), ∑ d, c d = ∑ d, cinit d →
      ∑ d, (c d - cinit d) = k → V c from H _ c hc rfl
  intro k
  induction k with
  | zero =>
    intro c hc hk
    have hle : ∀ d, c d ≤ cinit d := by
      intro d
      have := (Finset.sum_eq_zero_iff.mp hk) d (mem_univ d)
      omega
    have heq : c = cinit := by
      funext d
      by_contra hne
      have hlt : c d < cinit d := lt_of_le_of_ne (hle d) hne
      have : ∑ d, c d < ∑ d, cinit d :=
        Finset.sum_lt_sum (fun d _ => hle d) ⟨d, mem_univ d, hlt⟩
      omega
    rw [heq]; exact hinit
  | succ k ih =>
    intro c hc hk
    -- some deme has too many lineages, some other too few
    have h1 : ∃ d, cinit d < c d := by
      by_contra hno
      push Not at hno
      have : ∑ d, (c d - cinit d) = 0 :=
        Finset.sum_eq_zero fun d _ => Nat.sub_eq_zero_of_le (hno d)
      omega
    obtain ⟨d, hd⟩ := h1
    have h2 : ∃ d', c d' < cinit d' := by
      by_contra hno
      push Not at hno
      have : ∑ d, cinit d < ∑ d, c d :=
        Finset.sum_lt_sum (fun d _ => hno d) ⟨d, mem_univ d, hd⟩
      omega
    obtain ⟨d', hd'⟩ := h2
    have hdd : d ≠ d' := by rintro rfl; omega
    -- `c` is one migration step away from `c'`, which is closer to `cinit`
    let c' : Fin D → ℕ := c - e1 d + e1 d'
    have hc'd : c' d = c d - 1 := by simp [c', e1, hdd]
    have hc'd' : c' d' = c d' + 1 := by simp [c', e1, hdd.symm]
    have hc'o : ∀ t, t ≠ d → t ≠ d' → c' t = c t := by
      intro t h1 h2; simp [c', e1, h1, h2]
    have hback : c = c' - e1 d' + e1 d := by
      funext t
      by_cases h1 : t = d
      · subst h1; simp [c', e1, hdd, hdd.symm]; omega
      · by_cases h2 : t = d'
        · subst h2; simp [c', e1, hdd, hdd.symm, h1]
        · simp [c', e1, h1, h2]
    have hsum' : ∑ t, c' t = ∑ t, cinit t := by
      rw [← hc]
      have e1s : ∀ a : Fin D, ∑ t, (e1 a : Fin D → ℕ) t = 1 := fun a => by
        simp [e1, Finset.sum_pi_single']
      have : ∑ t, c' t + ∑ t, (e1 d : Fin D → ℕ) t = ∑ t, c t + ∑ t, (e1 d' : Fin D → ℕ) t := by
        rw [← Finset.sum_add_distrib, ← Finset.sum_add_distrib]
        refine Finset.sum_congr rfl fun t _ => ?_
        by_cases h1 : t = d
        · subst h1; simp [c', e1, hdd, hdd.symm]; omega
        · simp [c', e1, h1]
      rw [e1s, e1s] at this
      omega
    have hk' : ∑ t, (c' t - cinit t) = k := by
      have : ∑ t, (c' t - cinit t) + 1 = ∑ t, (c t - cinit t) := by
        rw [← Finset.add_sum_erase _ _ (mem_univ d), ← Finset.add_sum_erase _ (fun t => c t - cinit t)
          (mem_univ d)]
        have hrest : ∑ t ∈ univ.erase d, (c' t - cinit t) = ∑ t ∈ univ.erase d, (c t - cinit t) := by
          refine Finset.sum_congr rfl fun t ht => ?_
          have h1 : t ≠ d := (Finset.mem_erase.mp ht).1
          by_cases h2 : t = d'
          · subst h2; rw [hc'd']; omega
          · rw [hc'o t h1 h2]
        rw [hrest, hc'd]
        omega
      omega
    have hmem' := ih c' hsum' hk'
    rw [hback]
    exact step c' d' d hdd.symm (by rw [hc'd']; omega) hmem'


section LineageMain
variable {D : ℕ} {K : Type} [Field K] [LinearOrder K] [IsStrictOrderedRing K]

theorem castRate_linRate (lam : ℕ → ℕ → ℚ) (ts : Fin D → ℚ) (mig : Fin D → Fin D → ℚ) :
    castRate (K := K) (linRate lam ts mig)
      = linRate (fun b k => ((lam b k : ℚ) : K)) (fun d => ((ts d : ℚ) : K))
          (fun d d' => ((mig d d' : ℚ) : K)) := by
  funext ev c κ
  rcases ev with ⟨d, d'⟩ | d
  · simp only [castRate, linRate]
    split_ifs <;> simp
  · simp only [castRate, linRate]
    split_ifs <;> simp

/-- row statement of `lineage_matrix_row`, over a state list known to be the visited list -/
theorem lineage_row_states (m : Model) (ts : Fin D → ℚ) (mig : Fin D → Fin D → ℚ) (r : ℚ)
    (c0 : Fin D → ℕ) (fuel : ℕ) (g : Graph)
    (h : bfs (transit m (mkEpoch ts mig r)) (encLC c0) fuel = some g)
    (states : List State) (hv : g.visited = states) (i : Fin states.length) :
    ∃ c : Fin D → ℕ, states[i] = encLC c ∧ ∑ d, c d ≤ ∑ d, c0 d ∧
      (∀ f : State → ℚ,
        ∑ j : Fin states.length, rateEntry states g.transitions i j * f states[j]
          = QCs (linRate (lam m) ts mig) linRes (fun c' => f (encLC c')) c) := by
  subst hv
  obtain ⟨c, h1, h2, h3, _⟩ := lineage_matrix_row m ts mig r c0 fuel g h i.val i.isLt
  exact ⟨c, h1, h2, h3⟩

/-- the code's rate matrix of epoch `e` (`_graph_to_matrix`), over the common state list -/
def codeMat (G : ℕ → Graph) (e : ℕ) :
    Matrix (Fin (G 0).visited.length) (Fin (G 0).visited.length) ℚ :=
  fun i j => rateEntry (G 0).visited (G e).transitions i j

variable (m : Model) (cinit : Fin D → ℕ) (ts : ℕ → Fin D → ℚ) (mig : ℕ → Fin D → Fin D → ℚ)
  (r : ℕ → ℚ) (fuel : ℕ → ℕ) (G : ℕ → Graph)

/-- **Part B (i).** The list of visited states is the same for all epochs. -/
theorem visited_indep
    (hG : ∀ e, bfs (transit m (mkEpoch (ts e) (mig e) (r e))) (encLC cinit) (fuel e) = some (G e))
    (e : ℕ) : (G e).visited = (G 0).visited := by
  refine bfs_visited_congr _ _ (fun s => ∃ c : Fin D → ℕ, s = encLC c) ?_ ?_ (encLC cinit)
    ⟨cinit, rfl⟩ (fuel e) (fuel 0) (G e) (G 0) (hG e) (hG 0)
  · rintro s ⟨c, rfl⟩ t ht
    obtain ⟨c', h', _⟩ := transit_enc_keys m (ts e) (mig e) (r e) c t ht
    exact ⟨c', h'⟩
  · rintro s ⟨c, rfl⟩
    exact keys_transit_enc_indep m _ _ _ _ _ _ c

variable {m cinit ts mig r fuel G}

theorem lineage_hrow
    (hG : ∀ e, bfs (transit m (mkEpoch (ts e) (mig e) (r e))) (encLC cinit) (fuel e) = some (G e))
    (e : ℕ) (i : Fin (G 0).visited.length) :
    ∃ c : Fin D → ℕ, (G 0).visited[i] = encLC c ∧ ∀ f : State → ℚ,
      ∑ j, codeMat G e i j * f (G 0).visited[j]
        = QCs (linRate (lam m) (ts e) (mig e)) linRes (fun c' => f (encLC c')) c := by
  obtain ⟨c, h1, _, h3⟩ := lineage_row_states m (ts e) (mig e) (r e) cinit (fuel e) (G e) (hG e)
    (G 0).visited (visited_indep m cinit ts mig r fuel G hG e) i
  exact ⟨c, h1, h3⟩

theorem lineage_hN
    (hG : ∀ e, bfs (transit m (mkEpoch (ts e) (mig e) (r e))) (encLC cinit) (fuel e) = some (G e))
    (c : Fin D → ℕ) (hc : encLC c ∈ (G 0).visited) : ∑ t, c t ≤ ∑ d, cinit d := by
  obtain ⟨i, hi⟩ := exists_idx hc
  obtain ⟨c', h1, h2, _⟩ := lineage_row_states m (ts 0) (mig 0) (r 0) cinit (fuel 0) (G 0) (hG 0)
    (G 0).visited rfl i
  have : c = c' := encLC_injective (hi.symm.trans h1)
  subst this
  exact h2

theorem lineage_nodup
    (hG : ∀ e, bfs (transit m (mkEpoch (ts e) (mig e) (r e))) (encLC cinit) (fuel e) = some (G e)) :
    (G 0).visited.Nodup := (bfs_spec _ _ _ _ (hG 0)).1

theorem lineage_init_mem
    (hG : ∀ e, bfs (transit m (mkEpoch (ts e) (mig e) (r e))) (encLC cinit) (fuel e) = some (G e)) :
    encLC cinit ∈ (G 0).visited := (bfs_spec _ _ _ _ (hG 0)).2.1

/-- **All sample configurations are found by the search**: every count vector with the same
number of lineages as the initial one is visited (the migration edges are listed whatever their
rate). -/
theorem lineage_all_configs_visited
    (hG : ∀ e, bfs (transit m (mkEpoch (ts e) (mig e) (r e))) (encLC cinit) (fuel e) = some (G e))
    (c : Fin D → ℕ) (hc : ∑ d, c d = ∑ d, cinit d) : encLC c ∈ (G 0).visited := by
  obtain ⟨_, hinit, hcl, _, _⟩ := bfs_spec _ _ _ _ (hG 0)
  refine all_configs_of_moves (fun c => encLC c ∈ (G 0).visited) cinit hinit ?_ c hc
  intro c' d d' hdd hpos hmem
  have key := mem_keys_transit_mig m (ts 0) (mig 0) (r 0) c' d d' hdd hpos
  unfold keys at key
  rw [List.mem_map] at key
  obtain ⟨p, hp, hp1⟩ := key
  rw [← hp1]
  exact hcl _ hmem p hp

/-- every labelled configuration with as many particles as the initial state of the search is a
state of the labelled chain -/
theorem exists_labInit
    (hG : ∀ e, bfs (transit m (mkEpoch (ts e) (mig e) (r e))) (encLC cinit) (fuel e) = some (G e))
    (x : List (Fin D)) (hx : x.length = ∑ d, cinit d) :
    ∃ x0 : LabS (encLC (D := D)) (G 0).visited (∑ d, cinit d), x0.val = x := by
  refine ⟨⟨x, hx.le, ?_⟩, rfl⟩
  show encLC (cntF x) ∈ (G 0).visited
  exact lineage_all_configs_visited hG _ (by rw [sum_cntF, hx])

/-- the initial vector `alpha` of the code is the point mass at the state `encLC c0` -/
theorem lineage_alpha
    (hG : ∀ e, bfs (transit m (mkEpoch (ts e) (mig e) (r e))) (encLC cinit) (fuel e) = some (G e))
    (c0 : Fin D → ℕ) (hc0 : encLC c0 ∈ (G 0).visited) (j : Fin (G 0).visited.length) :
    (alphaVec (G 0).visited (List.ofFn c0) 1 0).getD j.val 0
      = if (G 0).visited[j] = encLC c0 then 1 else 0 := by
  refine alphaVec_lineage_getD _ c0 (lineage_nodup hG) hc0 ?_ j
  intro s hs
  obtain ⟨i, hi⟩ := exists_idx hs
  obtain ⟨c, h1, _⟩ := lineage_hrow hG 0 i
  exact ⟨c, hi.symm.trans h1⟩

/-- **C01 (moments), assembled.**  For the single-locus lineage-counting state space -- any number
of demes `D`, any sample configuration `c0`, each of the three coalescent models, all rates, any
number of epochs, all orders `k`, any rewards, any `ExpLaw` -- the (cross-)moment which the code
computes from its rate matrices `_graph_to_matrix` (search started at any count state `cinit`,
e.g. `_get_initial`), its reward vectors and its initial vector `alpha` (the sample configuration
`c0`) equals the moment of the LABELLED ancestral process started from any labelled configuration
`x0` with count vector `c0`. -/
theorem C01_moments_eq_labelled
    (hG : ∀ e, bfs (transit m (mkEpoch (ts e) (mig e) (r e))) (encLC cinit) (fuel e) = some (G e))
    (L : ExpLaw K) (n : ℕ) {k : ℕ} (rs : Fin k → Reward) (c0 : Fin D → ℕ)
    (x0 : LabS (encLC (D := D)) (G 0).visited (∑ d, cinit d)) (hx0 : cntF x0.val = c0)
    (fs : List (ℕ × K)) :
    accumVal L
        (fun e => QLmat (castRate (K := K) (linRate (lam m) (ts e) (mig e))) linNew
          (LabP.val : LabS (encLC (D := D)) (G 0).visited (∑ d, cinit d) → List (Fin D)))
        (fun a x => ((Reward.eval n (encLC (cntF x.val)) (rs a) : ℚ) : K))
        (fun x => if x = x0 then 1 else 0) fs
      = accumVal L (fun e => (codeMat G e).map (fun q : ℚ => (q : K)))
          (fun a j => ((Reward.eval n (G 0).visited[j] (rs a) : ℚ) : K))
          (fun j => (((alphaVec (G 0).visited (List.ofFn c0) 1 0).getD j.val 0 : ℚ) : K)) fs := by
  have hc0 : encLC c0 ∈ (G 0).visited := hx0 ▸ x0.2.2
  have hα : (fun j : Fin (G 0).visited.length =>
        (((alphaVec (G 0).visited (List.ofFn c0) 1 0).getD j.val 0 : ℚ) : K))
      = fun j => if (G 0).visited[j] = encLC (cntF x0.val) then 1 else 0 := by
    funext j
    rw [lineage_alpha hG c0 hc0 j, hx0]
    split_ifs <;> simp
  rw [hα]
  exact generic_accum L encLC_injective (lineage_nodup hG) (lineage_hN hG)
    (fun e => linRate (lam m) (ts e) (mig e)) linRes linNew cntF_linNew (codeMat G)
    (lineage_hrow hG) (fun a s => Reward.eval n s (rs a)) x0 fs

/-- **C03 (cdf of the tree height), assembled.** -/
theorem C03_cdf_eq_labelled
    (hG : ∀ e, bfs (transit m (mkEpoch (ts e) (mig e) (r e))) (encLC cinit) (fuel e) = some (G e))
    (L : ExpLaw K) (n : ℕ) (c0 : Fin D → ℕ)
    (x0 : LabS (encLC (D := D)) (G 0).visited (∑ d, cinit d)) (hx0 : cntF x0.val = c0)
    (fs : List (ℕ × K)) :
    cdfVal L
        (fun e => QLmat (castRate (K := K) (linRate (lam m) (ts e) (mig e))) linNew
          (LabP.val : LabS (encLC (D := D)) (G 0).visited (∑ d, cinit d) → List (Fin D)))
        (fun x => if x = x0 then 1 else 0)
        (fun x => ((Reward.eval n (encLC (cntF x.val)) .treeHeight : ℚ) : K)) fs
      = cdfVal L (fun e => (codeMat G e).map (fun q : ℚ => (q : K)))
          (fun j => (((alphaVec (G 0).visited (List.ofFn c0) 1 0).getD j.val 0 : ℚ) : K))
          (fun j => ((Reward.eval n (G 0).visited[j] .treeHeight : ℚ) : K)) fs := by
  have hc0 : encLC c0 ∈ (G 0).visited := hx0 ▸ x0.2.2
  have hα : (fun j : Fin (G 0).visited.length =>
        (((alphaVec (G 0).visited (List.ofFn c0) 1 0).getD j.val 0 : ℚ) : K))
      = fun j => if (G 0).visited[j] = encLC (cntF x0.val) then 1 else 0 := by
    funext j
    rw [lineage_alpha hG c0 hc0 j, hx0]
    split_ifs <;> simp
  rw [hα]
  exact generic_cdf L encLC_injective (lineage_nodup hG) (lineage_hN hG)
    (fun e => linRate (lam m) (ts e) (mig e)) linRes linNew cntF_linNew (codeMat G)
    (lineage_hrow hG) (fun s => Reward.eval n s .treeHeight) x0 fs

/-- **The labelled matrices of C01/C03 are the labelled generator** (no killing, nothing left
out): row `x`, applied to any function `F` of the labelled configuration, is the generator
`QLsfull` of the labelled particle system applied to `F` at `x`. -/
theorem lineage_labelled_is_generator
    (hG : ∀ e, bfs (transit m (mkEpoch (ts e) (mig e) (r e))) (encLC cinit) (fuel e) = some (G e))
    (e : ℕ) (x : LabS (encLC (D := D)) (G 0).visited (∑ d, cinit d)) (F : List (Fin D) → K) :
    ∑ y, QLmat (castRate (K := K) (linRate (lam m) (ts e) (mig e))) linNew
          (LabP.val : LabS (encLC (D := D)) (G 0).visited (∑ d, cinit d) → List (Fin D)) x y
        * F y.val
      = QLsfull (castRate (K := K) (linRate (lam m) (ts e) (mig e))) linNew F x.val := by
  apply generic_represents (lineage_hN hG) _ linRes linNew cntF_linNew x
  intro ev κ hκ hr
  have hv := visited_indep m cinit ts mig r fuel G hG e
  have hmem : encLC (cntF x.val) ∈ (G e).visited := by rw [hv]; exact x.2.2
  have h := lineage_closed m (ts e) (mig e) (r e) cinit (fuel e) (G e) (hG e) _ hmem ev κ hκ hr
  rwa [hv] at h

end LineageMain

section LineageInit
variable {D : ℕ} [NeZero D]

/-- `_get_initial` of the lineage-counting state space: all `n` lineages in deme `0` -/
theorem initialState_eq_encLC (n : ℕ) :
    initialState 1 D 1 n = encLC (Function.update (fun _ : Fin D => 0) 0 n) := by
  unfold initialState encLC
  have hz : List.replicate 1 (List.replicate D (List.replicate 1 0))
      = [List.ofFn fun _ : Fin D => [0]] := by
    simp [List.ofFn_const]
  simp only [hz, List.range_one, List.foldl_cons, List.foldl_nil]
  have := modify3_enc (fun _ : Fin D => 0) 0 (fun _ => n)
  simp only [Fin.val_zero] at this
  rw [this]
end LineageInit

section LineageRewards
variable {D : ℕ}

theorem total_enc (c : Fin D → ℕ) : (encLC c).total = ∑ d, c d := by
  unfold State.total
  rw [nLoci_enc]
  simp [sumNat_eq, locusTotal_enc]

theorem demeTotal_enc (c : Fin D → ℕ) (d : Fin D) : (encLC c).demeTotal d.val = c d := by
  unfold State.demeTotal
  rw [nLoci_enc]
  simp only [List.range_one, List.map_cons, List.map_nil]
  rw [blocks_enc]
  simp [sumNat_eq]

/-- the rewards of the code, read on a labelled configuration `x` through its counts -/
theorem eval_treeHeight_lab (n : ℕ) (x : List (Fin D)) :
    Reward.eval n (encLC (cntF x)) .treeHeight = if 1 < x.length then 1 else 0 := by
  simp only [Reward.eval, nLoci_enc, List.range_one, List.any_cons, List.any_nil, Bool.or_false,
    locusTotal_enc, sum_cntF, gt_iff_lt, decide_eq_true_eq]

theorem eval_totalBranchLength_lab (n : ℕ) (x : List (Fin D)) :
    Reward.eval n (encLC (cntF x)) .totalBranchLength
      = if 1 < x.length then (x.length : ℚ) else 0 := by
  simp only [Reward.eval, nLoci_enc, List.range_one, List.map_cons, List.map_nil,
    locusTotal_enc, sum_cntF, sumRat_eq, List.sum_cons, List.sum_nil, add_zero, gt_iff_lt]

theorem eval_unit_lab (n : ℕ) (x : List (Fin D)) :
    Reward.eval n (encLC (cntF x)) .unit = 1 := by
  simp only [Reward.eval]

theorem eval_lineage_lab (n j : ℕ) (x : List (Fin D)) :
    Reward.eval n (encLC (cntF x)) (.lineage j) = if x.length = j then 1 else 0 := by
  simp only [Reward.eval, total_enc, sum_cntF]

theorem eval_deme_lab (n : ℕ) (d : Fin D) (x : List (Fin D)) :
    Reward.eval n (encLC (cntF x)) (.deme d.val) = (x.count d : ℚ) / (x.length : ℚ) := by
  simp only [Reward.eval, total_enc, sum_cntF, demeTotal_enc]
  rfl

end LineageRewards
/-! ## Part C. Block counting -/
section BlockMain
variable {D n : ℕ} [NeZero n] {K : Type} [Field K] [LinearOrder K] [IsStrictOrderedRing K]

/-- migration: the block moves; merger in deme `d`: one block of the total size -/
def blkNew : BKind D n → (Fin D × Fin n → ℕ) → List (Fin D × Fin n)
  | .inl (_, d', i), _ => [(d', i)]
  | .inr d, κ => [(d, Fin.ofNat n (blkSize (fib d κ) - 1))]

theorem cntF_blkNew (ev : BKind D n) (κ : Fin D × Fin n → ℕ) :
    cntF (blkNew ev κ) = blkRes ev κ := by
  rcases ev with ⟨d, d', i⟩ | d <;> exact cntF_singleton _

theorem keys_migListBC (mig mig' : Fin D → Fin D → ℚ) (c : Fin D × Fin n → ℕ) :
    keys (migListBC mig c) = keys (migListBC mig' c) := by
  unfold migListBC keys
  rw [List.map_flatMap, List.map_flatMap]
  simp only [List.map_map]
  rfl

theorem keys_coalListBC (m : Model) (ts ts' : Fin D → ℚ) (c : Fin D × Fin n → ℕ) :
    keys (coalListBC m ts c) = keys (coalListBC m ts' c) := by
  unfold coalListBC keys
  rw [List.map_flatMap, List.map_flatMap]
  simp only [List.map_map]
  rfl

theorem keys_transit_encBC_indep (m : Model) (ts ts' : Fin D → ℚ) (mig mig' : Fin D → Fin D → ℚ)
    (r r' : ℚ) (c : Fin D × Fin n → ℕ) (hn : 2 ≤ n) (hmass : massBC c ≤ n) :
    keys (transit m (mkEpoch ts mig r) (encBC c))
      = keys (transit m (mkEpoch ts' mig' r') (encBC c)) := by
  have hmig : keys (migrate (mkEpoch ts mig r) (encBC c))
      = keys (migrate (mkEpoch ts' mig' r') (encBC c)) := by
    rw [migrate_encBC, migrate_encBC]
    exact keys_addAll_congr _ _ (keys_migListBC mig mig' c) _ _ rfl
  by_cases hc : ∑ d, ∑ i, c (d, i) = 1
  · rw [transit_encBC_absorbing m ts mig r c hc, transit_encBC_absorbing m ts' mig' r' c hc, hmig]
  · rw [transit_encBC m ts mig r c hn hmass hc, transit_encBC m ts' mig' r' c hn hmass hc,
      keys_append, keys_append, hmig, coalesce1_encBC, coalesce1_encBC]
    congr 1
    exact keys_addAll_congr _ _ (keys_coalListBC m ts ts' c) _ _ rfl

theorem block_row_states (m : Model) (ts : Fin D → ℚ) (mig : Fin D → Fin D → ℚ) (r : ℚ)
    (c0 : Fin D × Fin n → ℕ) (hn : 2 ≤ n) (hmass : massBC c0 ≤ n) (fuel : ℕ) (g : Graph)
    (h : bfs (transit m (mkEpoch ts mig r)) (encBC c0) fuel = some g)
    (states : List State) (hv : g.visited = states) (i : Fin states.length) :
    ∃ c : Fin D × Fin n → ℕ, states[i] = encBC c ∧ massBC c = massBC c0 ∧
      (∀ f : State → ℚ,
        ∑ j : Fin states.length, rateEntry states g.transitions i j * f states[j]
          = QCs (blkRate (lam m) ts mig) blkRes (fun c' => f (encBC c')) c) := by
  subst hv
  obtain ⟨c, h1, h2, h3, _⟩ := block_matrix_row_from m ts mig r c0 hn hmass fuel g h i.val i.isLt
  exact ⟨c, h1, h2, h3⟩

theorem sum_le_massBC (c : Fin D × Fin n → ℕ) : ∑ t, c t ≤ massBC c := by
  rw [massBC_eq_wsum]
  unfold wsum
  refine Finset.sum_le_sum fun t _ => ?_
  exact Nat.le_mul_of_pos_left _ (Nat.succ_pos _)

variable (m : Model) (cinit : Fin D × Fin n → ℕ) (ts : ℕ → Fin D → ℚ)
  (mig : ℕ → Fin D → Fin D → ℚ) (r : ℕ → ℚ) (fuel : ℕ → ℕ) (G : ℕ → Graph)

/-- the list of visited block-counting states is the same for all epochs -/
theorem visited_indep_bc (hn : 2 ≤ n) (hmass : massBC cinit ≤ n)
    (hG : ∀ e, bfs (transit m (mkEpoch (ts e) (mig e) (r e))) (encBC cinit) (fuel e) = some (G e))
    (e : ℕ) : (G e).visited = (G 0).visited := by
  refine bfs_visited_congr _ _
    (fun s => ∃ c : Fin D × Fin n → ℕ, s = encBC c ∧ massBC c = massBC cinit) ?_ ?_ (encBC cinit)
    ⟨cinit, rfl, rfl⟩ (fuel e) (fuel 0) (G e) (G 0) (hG e) (hG 0)
  · rintro s ⟨c, rfl, hm⟩ t ht
    obtain ⟨c', h', hm', _⟩ := transit_encBC_keys m (ts e) (mig e) (r e) c hn (by omega) t ht
    exact ⟨c', h', hm'.trans hm⟩
  · rintro s ⟨c, rfl, hm⟩
    exact keys_transit_encBC_indep m _ _ _ _ _ _ c hn (by omega)

variable {m cinit ts mig r fuel G}

theorem block_hrow (hn : 2 ≤ n) (hmass : massBC cinit ≤ n)
    (hG : ∀ e, bfs (transit m (mkEpoch (ts e) (mig e) (r e))) (encBC cinit) (fuel e) = some (G e))
    (e : ℕ) (i : Fin (G 0).visited.length) :
    ∃ c : Fin D × Fin n → ℕ, (G 0).visited[i] = encBC c ∧ ∀ f : State → ℚ,
      ∑ j, codeMat G e i j * f (G 0).visited[j]
        = QCs (blkRate (lam m) (ts e) (mig e)) blkRes (fun c' => f (encBC c')) c := by
  obtain ⟨c, h1, _, h3⟩ := block_row_states m (ts e) (mig e) (r e) cinit hn hmass (fuel e) (G e)
    (hG e) (G 0).visited (visited_indep_bc m cinit ts mig r fuel G hn hmass hG e) i
  exact ⟨c, h1, h3⟩

theorem block_hN (hn : 2 ≤ n) (hmass : massBC cinit ≤ n)
    (hG : ∀ e, bfs (transit m (mkEpoch (ts e) (mig e) (r e))) (encBC cinit) (fuel e) = some (G e))
    (c : Fin D × Fin n → ℕ) (hc : encBC c ∈ (G 0).visited) : ∑ t, c t ≤ n := by
  obtain ⟨i, hi⟩ := exists_idx hc
  obtain ⟨c', h1, h2, _⟩ := block_row_states m (ts 0) (mig 0) (r 0) cinit hn hmass (fuel 0) (G 0)
    (hG 0) (G 0).visited rfl i
  have : c = c' := encBC_injective (hi.symm.trans h1)
  subst this
  exact (sum_le_massBC c).trans (by omega)

/-- **C02 (site-frequency spectrum), assembled.**  For the block-counting state space -- any
number of demes, any `n ≥ 2`, each of the three coalescent models, all rates, any number of
epochs, all orders `k`, any rewards (in particular `.unfoldedSFS i`, `.foldedSFS i` and their
products with `.unit`, `.deme d`), any `ExpLaw` -- the (cross-)moment computed by the code on its
rate matrices equals the moment of the LABELLED process of typed blocks, started from any
labelled configuration `x0` whose block-count state is in the state space (the code's `alpha`
is the point mass at that state). -/
theorem C02_sfs_eq_labelled (hn : 2 ≤ n) (hmass : massBC cinit ≤ n)
    (hG : ∀ e, bfs (transit m (mkEpoch (ts e) (mig e) (r e))) (encBC cinit) (fuel e) = some (G e))
    (L : ExpLaw K) (n' : ℕ) {k : ℕ} (rs : Fin k → Reward)
    (x0 : LabS (encBC (D := D) (n := n)) (G 0).visited n) (fs : List (ℕ × K)) :
    accumVal L
        (fun e => QLmat (castRate (K := K) (blkRate (lam m) (ts e) (mig e))) blkNew
          (LabP.val : LabS (encBC (D := D) (n := n)) (G 0).visited n → List (Fin D × Fin n)))
        (fun a x => ((Reward.eval n' (encBC (cntF x.val)) (rs a) : ℚ) : K))
        (fun x => if x = x0 then 1 else 0) fs
      = accumVal L (fun e => (codeMat G e).map (fun q : ℚ => (q : K)))
          (fun a j => ((Reward.eval n' (G 0).visited[j] (rs a) : ℚ) : K))
          (fun j => if (G 0).visited[j] = encBC (cntF x0.val) then 1 else 0) fs :=
  generic_accum L encBC_injective (bfs_spec _ _ _ _ (hG 0)).1 (block_hN hn hmass hG)
    (fun e => blkRate (lam m) (ts e) (mig e)) blkRes blkNew cntF_blkNew (codeMat G)
    (block_hrow hn hmass hG) (fun a s => Reward.eval n' s (rs a)) x0 fs

/-- the cdf version for block counting -/
theorem C02_cdf_eq_labelled (hn : 2 ≤ n) (hmass : massBC cinit ≤ n)
    (hG : ∀ e, bfs (transit m (mkEpoch (ts e) (mig e) (r e))) (encBC cinit) (fuel e) = some (G e))
    (L : ExpLaw K) (n' : ℕ)
    (x0 : LabS (encBC (D := D) (n := n)) (G 0).visited n) (fs : List (ℕ × K)) :
    cdfVal L
        (fun e => QLmat (castRate (K := K) (blkRate (lam m) (ts e) (mig e))) blkNew
          (LabP.val : LabS (encBC (D := D) (n := n)) (G 0).visited n → List (Fin D × Fin n)))
        (fun x => if x = x0 then 1 else 0)
        (fun x => ((Reward.eval n' (encBC (cntF x.val)) .treeHeight : ℚ) : K)) fs
      = cdfVal L (fun e => (codeMat G e).map (fun q : ℚ => (q : K)))
          (fun j => if (G 0).visited[j] = encBC (cntF x0.val) then 1 else 0)
          (fun j => ((Reward.eval n' (G 0).visited[j] .treeHeight : ℚ) : K)) fs :=
  generic_cdf L encBC_injective (bfs_spec _ _ _ _ (hG 0)).1 (block_hN hn hmass hG)
    (fun e => blkRate (lam m) (ts e) (mig e)) blkRes blkNew cntF_blkNew (codeMat G)
    (block_hrow hn hmass hG) (fun s => Reward.eval n' s .treeHeight) x0 fs

theorem blkRate_nonneg (hm : m.Valid) (ts0 : Fin D → ℚ) (mig0 : Fin D → Fin D → ℚ)
    (hts : ∀ d, 0 ≤ ts0 d) (hmig : ∀ d d', 0 ≤ mig0 d d') (ev : BKind D n)
    (c κ : Fin D × Fin n → ℕ) : 0 ≤ blkRate (lam m) ts0 mig0 ev c κ := by
  rcases ev with ⟨d, d', i⟩ | d
  · simp only [blkRate]
    split_ifs
    · exact hmig d d'
    · exact le_refl _
  · simp only [blkRate]
    split_ifs
    · exact div_nonneg (lam_nonneg m hm _ _) (hts d)
    · exact le_refl _

/-- for a valid model and non-negative rates, the labelled matrices of C02 are the labelled
generator of the process of typed blocks (no killing) -/
theorem block_labelled_is_generator (hn : 2 ≤ n) (hmass : massBC cinit ≤ n)
    (hG : ∀ e, bfs (transit m (mkEpoch (ts e) (mig e) (r e))) (encBC cinit) (fuel e) = some (G e))
    (hm : m.Valid) (e : ℕ) (hts : ∀ d, 0 ≤ ts e d) (hmig : ∀ d d', 0 ≤ mig e d d')
    (x : LabS (encBC (D := D) (n := n)) (G 0).visited n) (F : List (Fin D × Fin n) → K) :
    ∑ y, QLmat (castRate (K := K) (blkRate (lam m) (ts e) (mig e))) blkNew
          (LabP.val : LabS (encBC (D := D) (n := n)) (G 0).visited n → List (Fin D × Fin n)) x y
        * F y.val
      = QLsfull (castRate (K := K) (blkRate (lam m) (ts e) (mig e))) blkNew F x.val :=
  generic_represents_of_nonneg encBC_injective (block_hN hn hmass hG) _ blkRes blkNew cntF_blkNew
    (codeMat G e) (block_hrow hn hmass hG e) (blkRate_nonneg hm _ _ hts hmig) x F

end BlockMain
section AlphaGeneric

/-- **`alpha` is a point mass** whenever exactly one listed state matches the sample
configuration. -/
theorem alphaVec_point (states : List State) (nVec : List ℕ) (nLoci nUnl : ℕ) (s0 : State)
    (hnd : states.Nodup) (hmem : s0 ∈ states)
    (hchar : ∀ s ∈ states,
      (((List.range nLoci).all fun l => (List.range nVec.length).all fun d =>
          get3 s.lin l d 0 == getN nVec d) &&
        (if nLoci = 1 then true else (List.range nLoci).all fun l =>
          sumNat ((s.lnk.getD l []).map sumNat) == sumNat nVec - nUnl)) = decide (s = s0)) :
    alphaVec states nVec nLoci nUnl = states.map fun s => if s = s0 then (1 : ℚ) else 0 := by
  unfold alphaVec
  simp only []
  have hind : List.map (fun s => if (((List.range nLoci).all fun l =>
        (List.range nVec.length).all fun d => get3 s.lin l d 0 == getN nVec d) &&
        (if nLoci = 1 then true else (List.range nLoci).all fun l =>
          sumNat ((s.lnk.getD l []).map sumNat) == sumNat nVec - nUnl)) = true
        then (1 : ℚ) else 0) states
      = states.map fun s => if s = s0 then (1 : ℚ) else 0 := by
    apply List.map_congr_left
    intro s hs
    rw [hchar s hs]
    simp
  rw [hind]
  have htot : sumRat (states.map fun s => if s = s0 then (1 : ℚ) else 0) = 1 := by
    rw [sumRat_eq]
    have h := sum_map_ite_nodup states hnd s0 hmem 1 (fun _ => 1)
    simp only [mul_one] at h
    refine Eq.trans ?_ h
    congr 1
    apply List.map_congr_left
    intro s _
    by_cases hs : s = s0
    · rw [if_pos hs, if_pos hs.symm]
    · rw [if_neg hs, if_neg (fun h' => hs h'.symm)]
  rw [htot]
  simp

theorem alphaVec_point_getD (states : List State) (nVec : List ℕ) (nLoci nUnl : ℕ) (s0 : State)
    (hnd : states.Nodup) (hmem : s0 ∈ states)
    (hchar : ∀ s ∈ states,
      (((List.range nLoci).all fun l => (List.range nVec.length).all fun d =>
          get3 s.lin l d 0 == getN nVec d) &&
        (if nLoci = 1 then true else (List.range nLoci).all fun l =>
          sumNat ((s.lnk.getD l []).map sumNat) == sumNat nVec - nUnl)) = decide (s = s0))
    (j : Fin states.length) :
    (alphaVec states nVec nLoci nUnl).getD j.val 0 = if states[j] = s0 then 1 else 0 := by
  rw [alphaVec_point states nVec nLoci nUnl s0 hnd hmem hchar, List.getD_eq_getElem?_getD,
    List.getElem?_map, List.getElem?_eq_getElem j.isLt]
  rfl

end AlphaGeneric

section BlockAlpha
variable {D n : ℕ} [NeZero n]

/-- the sample configuration `nv` (numbers of sampled lineages per deme) as a block-count state:
`nv d` singleton blocks in deme `d` -/
def sampleBC (nv : Fin D → ℕ) : Fin D × Fin n → ℕ := fun t => if t.2 = 0 then nv t.1 else 0

theorem massBC_sampleBC (nv : Fin D → ℕ) : massBC (sampleBC (n := n) nv) = ∑ d, nv d := by
  unfold massBC sampleBC
  refine Finset.sum_congr rfl fun d _ => ?_
  rw [Finset.sum_eq_single_of_mem (0 : Fin n) (mem_univ _)]
  · simp
  · intro i _ hi; simp [hi]

/-- a block-count state of mass `∑ nv` whose singleton counts are `nv` is the sample state -/
theorem eq_sampleBC (nv : Fin D → ℕ) (c : Fin D × Fin n → ℕ) (hm : massBC c = ∑ d, nv d)
    (h0 : ∀ d, c (d, 0) = nv d) : c = sampleBC nv := by
  have hle : sampleBC (n := n) nv ≤ c := by
    rintro ⟨d, i⟩
    unfold sampleBC
    split_ifs with hi
    · simp only at hi; subst hi; exact (h0 d).ge
    · exact Nat.zero_le _
  have h1 := wsum_sub_add (fun t : Fin D × Fin n => t.2.val + 1) c (sampleBC nv) 0 hle
  rw [← massBC_eq_wsum c, ← massBC_eq_wsum (sampleBC nv), massBC_sampleBC, hm, add_zero] at h1
  have h2 : wsum (fun t : Fin D × Fin n => t.2.val + 1) (0 : Fin D × Fin n → ℕ) = 0 := by
    simp [wsum]
  have h3 : wsum (fun t : Fin D × Fin n => t.2.val + 1) (c - sampleBC (n := n) nv) = 0 := by omega
  unfold wsum at h3
  funext t
  have h4 := (Finset.sum_eq_zero_iff.mp h3) t (mem_univ t)
  have h5 : (c - sampleBC (n := n) nv) t = 0 := by
    rcases Nat.mul_eq_zero.mp h4 with h | h
    · exact absurd h (Nat.succ_ne_zero _)
    · exact h
  have h6 : sampleBC nv t ≤ c t := hle t
  simp only [Pi.sub_apply] at h5
  omega

theorem pops_encBC (c : Fin D × Fin n → ℕ) (nv : Fin D → ℕ) (hm : massBC c = ∑ d, nv d) :
    (((List.range 1).all fun l => (List.range (List.ofFn nv).length).all fun d =>
        get3 (encBC c).lin l d 0 == getN (List.ofFn nv) d) &&
      (if (1 : ℕ) = 1 then true else (List.range 1).all fun l =>
        sumNat (((encBC c).lnk.getD l []).map sumNat) == sumNat (List.ofFn nv) - 0))
      = decide (encBC c = encBC (sampleBC (n := n) nv)) := by
  rw [Bool.eq_iff_iff]
  simp only [List.range_one, List.all_cons, List.all_nil, Bool.and_true, List.all_eq_true,
    List.mem_range, List.length_ofFn, beq_iff_eq, decide_eq_true_eq, if_true]
  constructor
  · intro h
    congr 1
    apply eq_sampleBC nv c hm
    intro d
    have := h d.val d.isLt
    simp only [encBC] at this
    have h1 := get3_ofFn c d (0 : Fin n)
    simp only [Fin.val_zero] at h1
    rw [h1, getN_ofFn] at this
    exact this
  · intro h d hd
    have hc : c = sampleBC (n := n) nv := encBC_injective h
    have h1 := get3_ofFn c ⟨d, hd⟩ (0 : Fin n)
    have h2 := getN_ofFn nv ⟨d, hd⟩
    simp only [Fin.val_zero] at h1
    simp only [encBC]
    rw [h1, h2, hc]
    simp [sampleBC]

end BlockAlpha

section BlockAlphaMain
variable {D n : ℕ} [NeZero n] {K : Type} [Field K] [LinearOrder K] [IsStrictOrderedRing K]
variable {m : Model} {cinit : Fin D × Fin n → ℕ} {ts : ℕ → Fin D → ℚ}
  {mig : ℕ → Fin D → Fin D → ℚ} {r : ℕ → ℚ} {fuel : ℕ → ℕ} {G : ℕ → Graph}

/-- for block counting, the code's initial vector `alpha` is the point mass at the state with
`nv d` singleton blocks in deme `d` -/
theorem block_alpha (hn : 2 ≤ n) (hmass : massBC cinit ≤ n)
    (hG : ∀ e, bfs (transit m (mkEpoch (ts e) (mig e) (r e))) (encBC cinit) (fuel e) = some (G e))
    (nv : Fin D → ℕ) (hnv : ∑ d, nv d = massBC cinit)
    (hmem : encBC (sampleBC (n := n) nv) ∈ (G 0).visited) (j : Fin (G 0).visited.length) :
    (alphaVec (G 0).visited (List.ofFn nv) 1 0).getD j.val 0
      = if (G 0).visited[j] = encBC (sampleBC (n := n) nv) then 1 else 0 := by
  refine alphaVec_point_getD _ _ _ _ _ (bfs_spec _ _ _ _ (hG 0)).1 hmem ?_ j
  intro s hs
  obtain ⟨i, hi⟩ := exists_idx hs
  obtain ⟨c, h1, h2, _⟩ := block_row_states m (ts 0) (mig 0) (r 0) cinit hn hmass (fuel 0) (G 0)
    (hG 0) (G 0).visited rfl i
  have hsc : s = encBC c := hi.symm.trans h1
  rw [hsc]
  exact pops_encBC c nv (h2.trans hnv.symm)

/-- **C02 with the code's `alpha`.**  As `C02_sfs_eq_labelled`, with the initial vector computed
by the code (`alphaVec`) for the sample configuration `nv`, against the labelled process started
from a labelled configuration `x0` of `nv d` singleton blocks in deme `d`. -/
theorem C02_sfs_eq_labelled_alpha (hn : 2 ≤ n) (hmass : massBC cinit ≤ n)
    (hG : ∀ e, bfs (transit m (mkEpoch (ts e) (mig e) (r e))) (encBC cinit) (fuel e) = some (G e))
    (L : ExpLaw K) (n' : ℕ) {k : ℕ} (rs : Fin k → Reward)
    (nv : Fin D → ℕ) (hnv : ∑ d, nv d = massBC cinit)
    (x0 : LabS (encBC (D := D) (n := n)) (G 0).visited n)
    (hx0 : cntF x0.val = sampleBC nv) (fs : List (ℕ × K)) :
    accumVal L
        (fun e => QLmat (castRate (K := K) (blkRate (lam m) (ts e) (mig e))) blkNew
          (LabP.val : LabS (encBC (D := D) (n := n)) (G 0).visited n → List (Fin D × Fin n)))
        (fun a x => ((Reward.eval n' (encBC (cntF x.val)) (rs a) : ℚ) : K))
        (fun x => if x = x0 then 1 else 0) fs
      = accumVal L (fun e => (codeMat G e).map (fun q : ℚ => (q : K)))
          (fun a j => ((Reward.eval n' (G 0).visited[j] (rs a) : ℚ) : K))
          (fun j => (((alphaVec (G 0).visited (List.ofFn nv) 1 0).getD j.val 0 : ℚ) : K)) fs := by
  have hc0 : encBC (sampleBC (n := n) nv) ∈ (G 0).visited := hx0 ▸ x0.2.2
  have hα : (fun j : Fin (G 0).visited.length =>
        (((alphaVec (G 0).visited (List.ofFn nv) 1 0).getD j.val 0 : ℚ) : K))
      = fun j => if (G 0).visited[j] = encBC (cntF x0.val) then 1 else 0 := by
    funext j
    rw [block_alpha hn hmass hG nv hnv hc0 j, hx0]
    split_ifs <;> simp
  rw [hα]
  exact C02_sfs_eq_labelled hn hmass hG L n' rs x0 fs

end BlockAlphaMain

section BlockReach
variable {D n : ℕ} [NeZero n]

/-- every migration move of one block is listed by `transit` (whatever its rate) -/
theorem mem_keys_transit_mig_bc (m : Model) (ts : Fin D → ℚ) (mig : Fin D → Fin D → ℚ) (r : ℚ)
    (c : Fin D × Fin n → ℕ) (hn : 2 ≤ n) (hmass : massBC c ≤ n) (d d' : Fin D) (i : Fin n)
    (hdd : d ≠ d') (hpos : 0 < c (d, i)) :
    encBC (c - e1 (d, i) + e1 (d', i)) ∈ keys (transit m (mkEpoch ts mig r) (encBC c)) := by
  have hmig : encBC (c - e1 (d, i) + e1 (d', i)) ∈ keys (migrate (mkEpoch ts mig r) (encBC c)) := by
    rw [migrate_encBC, mem_keys_addAll]
    right
    unfold migListBC keys
    rw [List.mem_map]
    refine ⟨(encBC (c - e1 (d, i) + e1 (d', i)), mig d d' * (c (d, i) : ℚ)), ?_, rfl⟩
    rw [List.mem_flatMap]
    refine ⟨(d, d'), ?_, ?_⟩
    · rw [List.mem_filter]
      exact ⟨mem_finPairs d d', by simp [hdd]⟩
    · rw [List.mem_map]
      refine ⟨i, ?_, rfl⟩
      rw [List.mem_filter]
      exact ⟨List.mem_finRange i, by simp [hpos]⟩
  by_cases hc : ∑ d, ∑ i, c (d, i) = 1
  · rw [transit_encBC_absorbing m ts mig r c hc]; exact hmig
  · rw [transit_encBC m ts mig r c hn hmass hc, keys_append, List.mem_append]; exact Or.inl hmig

theorem sampleBC_move (nv : Fin D → ℕ) (d d' : Fin D) :
    sampleBC (n := n) (nv - e1 d + e1 d') = sampleBC nv - e1 (d, 0) + e1 (d', 0) := by
  funext ⟨a, i⟩
  by_cases hi : i = 0
  · subst hi
    simp only [sampleBC, e1, Pi.add_apply, Pi.sub_apply, Pi.single_apply, Prod.mk.injEq,
      and_true, if_true]
  · simp [sampleBC, e1, hi]

variable {m : Model} {cinit : Fin D × Fin n → ℕ} {ts : ℕ → Fin D → ℚ}
  {mig : ℕ → Fin D → Fin D → ℚ} {r : ℕ → ℚ} {fuel : ℕ → ℕ} {G : ℕ → Graph}

/-- **All sample configurations are found by the block-counting search**, when it starts from a
state made of singleton blocks (as `_get_initial` does). -/
theorem block_samples_visited (hn : 2 ≤ n) (nv0 : Fin D → ℕ) (hmass : ∑ d, nv0 d ≤ n)
    (hG : ∀ e, bfs (transit m (mkEpoch (ts e) (mig e) (r e))) (encBC (sampleBC (n := n) nv0))
      (fuel e) = some (G e))
    (nv : Fin D → ℕ) (hnv : ∑ d, nv d = ∑ d, nv0 d) :
    encBC (sampleBC (n := n) nv) ∈ (G 0).visited := by
  have hmass' : massBC (sampleBC (n := n) nv0) ≤ n := by rw [massBC_sampleBC]; exact hmass
  obtain ⟨_, hinit, hcl, _, _⟩ := bfs_spec _ _ _ _ (hG 0)
  refine all_configs_of_moves (fun nv => encBC (sampleBC (n := n) nv) ∈ (G 0).visited) nv0 hinit
    ?_ nv hnv
  intro nv' d d' hdd hpos hmem
  -- the mass of a visited state is that of the initial state
  obtain ⟨i, hi⟩ := exists_idx hmem
  obtain ⟨c, h1, h2, _⟩ := block_row_states m (ts 0) (mig 0) (r 0) _ hn hmass' (fuel 0) (G 0)
    (hG 0) (G 0).visited rfl i
  have hc : sampleBC (n := n) nv' = c := encBC_injective (hi.symm.trans h1)
  have hm' : massBC (sampleBC (n := n) nv') ≤ n := by rw [hc, h2]; exact hmass'
  have key := mem_keys_transit_mig_bc m (ts 0) (mig 0) (r 0) (sampleBC (n := n) nv') hn hm' d d' 0
    hdd (by simpa [sampleBC] using hpos)
  rw [sampleBC_move]
  unfold keys at key
  rw [List.mem_map] at key
  obtain ⟨p, hp, hp1⟩ := key
  rw [← hp1]
  exact hcl _ hmem p hp

theorem initBC_eq_sampleBC [NeZero D] :
    initBC D n = sampleBC (n := n) (Function.update (fun _ : Fin D => 0) 0 n) := by
  funext ⟨a, i⟩
  unfold initBC sampleBC
  by_cases h : (a, i) = ((0 : Fin D), (0 : Fin n))
  · rw [h]; simp
  · rw [Function.update_of_ne h]
    by_cases hi : i = 0
    · subst hi
      have ha : a ≠ 0 := fun h' => h (by rw [h'])
      simp [ha]
    · simp [hi]

/-- every labelled configuration of singleton blocks (`nv d` of them in deme `d`) is a state of the
labelled chain of C02, when the search starts from singleton blocks -/
theorem exists_labInit_bc (hn : 2 ≤ n) (nv0 : Fin D → ℕ) (hmass : ∑ d, nv0 d ≤ n)
    (hG : ∀ e, bfs (transit m (mkEpoch (ts e) (mig e) (r e))) (encBC (sampleBC (n := n) nv0))
      (fuel e) = some (G e))
    (nv : Fin D → ℕ) (hnv : ∑ d, nv d = ∑ d, nv0 d) (x : List (Fin D × Fin n))
    (hx : cntF x = sampleBC nv) :
    ∃ x0 : LabS (encBC (D := D) (n := n)) (G 0).visited n, x0.val = x := by
  have hmass' : massBC (sampleBC (n := n) nv0) ≤ n := by rw [massBC_sampleBC]; exact hmass
  have hmem : encBC (cntF x) ∈ (G 0).visited := by
    rw [hx]; exact block_samples_visited hn nv0 hmass hG nv hnv
  refine ⟨⟨x, ?_, hmem⟩, rfl⟩
  rw [length_eq_sum_cntF]
  exact block_hN hn hmass' hG _ hmem

end BlockReach

section BlockRewards
variable {D n : ℕ}

theorem blockTotal_encBC (c : Fin D × Fin n → ℕ) (i : Fin n) :
    (encBC c).blockTotal i.val = ∑ d, c (d, i) := by
  unfold State.blockTotal
  rw [nLoci_encBC]
  simp only [List.range_one, List.map_cons, List.map_nil, encBC, List.getD_cons_zero]
  rw [List.map_ofFn]
  simp only [Function.comp_def, getN_ofFn, sumNat_ofFn]
  simp [sumNat_eq]

/-- the unfolded-SFS reward of the code, read on a labelled configuration of typed blocks: the
number of blocks of size `i + 1` -/
theorem eval_unfoldedSFS_lab (n' : ℕ) (i : Fin n) (x : List (Fin D × Fin n)) :
    Reward.eval n' (encBC (cntF x)) (.unfoldedSFS (i.val + 1))
      = ((∑ d, cntF x (d, i) : ℕ) : ℚ) := by
  simp only [Reward.eval, Nat.add_sub_cancel, blockTotal_encBC]

end BlockRewards
/-! ## Part C. Two loci -/
section TwoLocusMain
variable {D : ℕ} {K : Type} [Field K] [LinearOrder K] [IsStrictOrderedRing K]
open LCls

instance instDecidableAbsorbing2 (c : Fin D × LCls → ℕ) : Decidable (Absorbing2 c) := by
  unfold Absorbing2; infer_instance

/-- migration: the lineage moves; recombination: a linked lineage splits into its two loci;
merger: one lineage of the class `p.out` -/
def argNew : AKind D → (Fin D × LCls → ℕ) → List (Fin D × LCls)
  | .inl (_, d', cl), _ => [(d', cl)]
  | .inr (.inl d), _ => [(d, U1), (d, U2)]
  | .inr (.inr (d, p)), _ => [(d, p.out)]

theorem cntF_argNew (ev : AKind D) (κ : Fin D × LCls → ℕ) :
    cntF (argNew ev κ) = argRes ev κ := by
  rcases ev with ⟨d, d', cl⟩ | d | ⟨d, p⟩
  · exact cntF_singleton _
  · show cntF [(d, U1), (d, U2)] = e1 (d, U1) + e1 (d, U2)
    rw [cntF_cons, cntF_singleton, add_comm]
  · exact cntF_singleton _

/-- the rates of the labelled comparison process: the ancestral recombination graph STOPPED AT
ABSORPTION, i.e. (like the code's chain) with all recombination and merger events switched off
once both loci have a single lineage left.  The stopping rule depends on the counts only. -/
def argRateStop (r : ℚ) (ts : Fin D → ℚ) (mig : Fin D → Fin D → ℚ) :
    AKind D → (Fin D × LCls → ℕ) → (Fin D × LCls → ℕ) → ℚ
  | .inl e, c, κ => argRate r ts mig (.inl e) c κ
  | .inr e, c, κ => if Absorbing2 c then 0 else argRate r ts mig (.inr e) c κ

theorem QCs_argRateStop (r : ℚ) (ts : Fin D → ℚ) (mig : Fin D → Fin D → ℚ)
    (g : (Fin D × LCls → ℕ) → ℚ) (c : Fin D × LCls → ℕ) :
    QCs (argRateStop r ts mig) argRes g c
      = if Absorbing2 c then Marginal.argMig r ts mig g c
        else QCs (argRate r ts mig) argRes g c := by
  rw [Marginal.QCs_arg_split]
  unfold QCs
  rw [Fintype.sum_sum_type]
  have hmig : ∑ e : Fin D × Fin D × LCls, QC (argRateStop r ts mig (.inl e)) (argRes (.inl e)) g c
      = Marginal.argMig r ts mig g c := rfl
  rw [hmig]
  split_ifs with h
  · have hz : ∑ e : Fin D ⊕ (Fin D × PairK),
        QC (argRateStop r ts mig (.inr e)) (argRes (.inr e)) g c = 0 := by
      refine Finset.sum_eq_zero fun e _ => ?_
      unfold QC
      refine Finset.sum_eq_zero fun κ _ => ?_
      simp only [argRateStop, if_pos h, zero_mul, mul_zero]
    rw [hz, add_zero]
  · congr 1
    unfold Marginal.argCoal
    refine Finset.sum_congr rfl fun e _ => ?_
    unfold QC
    refine Finset.sum_congr rfl fun κ _ => ?_
    simp only [argRateStop, if_neg h]

theorem keys_migList2 (mig mig' : Fin D → Fin D → ℚ) (c : Fin D × LCls → ℕ) (cl : LCls) :
    keys (migList2 mig c cl) = keys (migList2 mig' c cl) := by
  unfold migList2 keys
  rw [List.map_map, List.map_map]
  rfl

theorem keys_recList2 (r r' : ℚ) (c : Fin D × LCls → ℕ) :
    keys (recList2 r c) = keys (recList2 r' c) := by
  unfold recList2 keys
  rw [List.map_map, List.map_map]
  rfl

theorem keys_coalStep (ts ts' : Fin D → ℚ) (c : Fin D × LCls → ℕ) (d : Fin D) (x : Cls × Cls) :
    keys (coalStep ts c d x) = keys (coalStep ts' c d x) := by
  obtain ⟨a, b⟩ := x
  cases a <;> cases b <;> simp only [coalStep] <;> first | rfl | (split_ifs <;> rfl)

theorem keys_coalList2 (ts ts' : Fin D → ℚ) (c : Fin D × LCls → ℕ) :
    keys (coalList2 ts c) = keys (coalList2 ts' c) := by
  unfold coalList2
  have hk : ∀ (l : List (State × ℚ)), keys l = l.map Prod.fst := fun _ => rfl
  rw [hk, hk, List.map_flatMap, List.map_flatMap]
  congr 1
  funext d
  rw [List.map_flatMap, List.map_flatMap]
  congr 1
  funext x
  exact keys_coalStep ts ts' c d x

theorem keys_transit_enc2_indep (ts ts' : Fin D → ℚ) (mig mig' : Fin D → Fin D → ℚ)
    (r r' : ℚ) (c : Fin D × LCls → ℕ) :
    keys (transit .kingman (mkEpoch ts mig r) (enc2 c))
      = keys (transit .kingman (mkEpoch ts' mig' r') (enc2 c)) := by
  have hmig : keys (migrate (mkEpoch ts mig r) (enc2 c))
      = keys (migrate (mkEpoch ts' mig' r') (enc2 c)) := by
    rw [migrate_enc2, migrate_enc2, keys_append, keys_append]
    congr 1
    · exact keys_addAll_congr _ _ (keys_migList2 mig mig' c L) _ _ rfl
    · refine keys_addAll_congr _ _ ?_ _ _ rfl
      rw [keys_append, keys_append, keys_migList2 mig mig' c U1, keys_migList2 mig mig' c U2]
  by_cases hc : Absorbing2 c
  · rw [transit_enc2_absorbing _ ts mig r c hc, transit_enc2_absorbing _ ts' mig' r' c hc, hmig]
  · rw [transit_enc2 ts mig r c hc, transit_enc2 ts' mig' r' c hc]
    simp only [keys_append]
    rw [hmig, coalesce2_enc2, coalesce2_enc2, recombine_enc2, recombine_enc2]
    congr 1
    · congr 1
      exact keys_addAll_congr _ _ (keys_coalList2 ts ts' c) _ _ rfl
    · exact keys_addAll_congr _ _ (keys_recList2 r r' c) _ _ rfl

theorem two_locus_row_states (ts : Fin D → ℚ) (mig : Fin D → Fin D → ℚ) (r : ℚ)
    (c0 : Fin D × LCls → ℕ) (fuel : ℕ) (g : Graph)
    (h : bfs (transit .kingman (mkEpoch ts mig r)) (enc2 c0) fuel = some g)
    (states : List State) (hv : g.visited = states) (i : Fin states.length) :
    ∃ c : Fin D × LCls → ℕ, states[i] = enc2 c ∧
      (∀ f : State → ℚ,
        ∑ j : Fin states.length, rateEntry states g.transitions i j * f states[j]
          = QCs (argRateStop r ts mig) argRes (fun c' => f (enc2 c')) c) := by
  subst hv
  obtain ⟨c, h1, h2, h3, _⟩ := two_locus_matrix_row ts mig r c0 fuel g h i.val i.isLt
  refine ⟨c, h1, fun f => ?_⟩
  rw [QCs_argRateStop]
  split_ifs with ha
  · rw [Marginal.argMig_closed]
    exact h3 ha f
  · exact h2 ha f

/-- an upper bound for the number of particles of the labelled states: the largest (here: the
sum over the listed states of the) total number of lineages at the two loci -/
def bound2 (states : List State) : ℕ := (states.map fun s => s.locusTotal 0 + s.locusTotal 1).sum

theorem sum_le_bound2 (states : List State) (c : Fin D × LCls → ℕ) (hc : enc2 c ∈ states) :
    ∑ t, c t ≤ bound2 states := by
  have h1 : (enc2 c).locusTotal 0 + (enc2 c).locusTotal 1 ≤ bound2 states :=
    List.le_sum_of_mem (List.mem_map_of_mem (f := fun s => s.locusTotal 0 + s.locusTotal 1) hc)
  refine le_trans ?_ h1
  rw [locusTotal0_enc2, locusTotal1_enc2, Fintype.sum_prod_type, ← Finset.sum_add_distrib]
  refine Finset.sum_le_sum fun d _ => ?_
  rw [sum_LCls]
  omega

variable (cinit : Fin D × LCls → ℕ) (ts : ℕ → Fin D → ℚ)
  (mig : ℕ → Fin D → Fin D → ℚ) (r : ℕ → ℚ) (fuel : ℕ → ℕ) (G : ℕ → Graph)

/-- the list of visited two-locus states is the same for all epochs -/
theorem visited_indep_2
    (hG : ∀ e, bfs (transit .kingman (mkEpoch (ts e) (mig e) (r e))) (enc2 cinit) (fuel e)
      = some (G e))
    (e : ℕ) : (G e).visited = (G 0).visited := by
  refine bfs_visited_congr _ _ (fun s => ∃ c : Fin D × LCls → ℕ, s = enc2 c) ?_ ?_ (enc2 cinit)
    ⟨cinit, rfl⟩ (fuel e) (fuel 0) (G e) (G 0) (hG e) (hG 0)
  · rintro s ⟨c, rfl⟩ t ht
    obtain ⟨c', h', _⟩ := transit_enc2_keys (ts e) (mig e) (r e) c t ht
    exact ⟨c', h'⟩
  · rintro s ⟨c, rfl⟩
    exact keys_transit_enc2_indep _ _ _ _ _ _ c

variable {cinit ts mig r fuel G}

theorem two_locus_hrow
    (hG : ∀ e, bfs (transit .kingman (mkEpoch (ts e) (mig e) (r e))) (enc2 cinit) (fuel e)
      = some (G e))
    (e : ℕ) (i : Fin (G 0).visited.length) :
    ∃ c : Fin D × LCls → ℕ, (G 0).visited[i] = enc2 c ∧ ∀ f : State → ℚ,
      ∑ j, codeMat G e i j * f (G 0).visited[j]
        = QCs (argRateStop (r e) (ts e) (mig e)) argRes (fun c' => f (enc2 c')) c :=
  two_locus_row_states (ts e) (mig e) (r e) cinit (fuel e) (G e) (hG e) (G 0).visited
    (visited_indep_2 cinit ts mig r fuel G hG e) i

/-- **C06 (two loci), assembled.**  For the two-locus lineage-counting state space -- any number
of demes, any initial state, all migration rates, time scales and recombination rates, any number
of epochs, all orders `k`, any rewards, any `ExpLaw` -- the (cross-)moment computed by the code on
its rate matrices equals the moment of the LABELLED ancestral recombination graph stopped at
absorption (rates `argRateStop`), started from any labelled configuration `x0` whose count state
is in the state space (the code's `alpha` is then the point mass at that state). -/
theorem C06_arg_eq_labelled
    (hG : ∀ e, bfs (transit .kingman (mkEpoch (ts e) (mig e) (r e))) (enc2 cinit) (fuel e)
      = some (G e))
    (L : ExpLaw K) (n' : ℕ) {k : ℕ} (rs : Fin k → Reward)
    (x0 : LabS (enc2 (D := D)) (G 0).visited (bound2 (G 0).visited)) (fs : List (ℕ × K)) :
    accumVal L
        (fun e => QLmat (castRate (K := K) (argRateStop (r e) (ts e) (mig e))) argNew
          (LabP.val : LabS (enc2 (D := D)) (G 0).visited (bound2 (G 0).visited)
            → List (Fin D × LCls)))
        (fun a x => ((Reward.eval n' (enc2 (cntF x.val)) (rs a) : ℚ) : K))
        (fun x => if x = x0 then 1 else 0) fs
      = accumVal L (fun e => (codeMat G e).map (fun q : ℚ => (q : K)))
          (fun a j => ((Reward.eval n' (G 0).visited[j] (rs a) : ℚ) : K))
          (fun j => if (G 0).visited[j] = enc2 (cntF x0.val) then 1 else 0) fs :=
  generic_accum L enc2_injective (bfs_spec _ _ _ _ (hG 0)).1 (sum_le_bound2 (G 0).visited)
    (fun e => argRateStop (r e) (ts e) (mig e)) argRes argNew cntF_argNew (codeMat G)
    (two_locus_hrow hG) (fun a s => Reward.eval n' s (rs a)) x0 fs

/-- the cdf version for two loci (time until both loci have found their common ancestor) -/
theorem C06_cdf_eq_labelled
    (hG : ∀ e, bfs (transit .kingman (mkEpoch (ts e) (mig e) (r e))) (enc2 cinit) (fuel e)
      = some (G e))
    (L : ExpLaw K) (n' : ℕ)
    (x0 : LabS (enc2 (D := D)) (G 0).visited (bound2 (G 0).visited)) (fs : List (ℕ × K)) :
    cdfVal L
        (fun e => QLmat (castRate (K := K) (argRateStop (r e) (ts e) (mig e))) argNew
          (LabP.val : LabS (enc2 (D := D)) (G 0).visited (bound2 (G 0).visited)
            → List (Fin D × LCls)))
        (fun x => if x = x0 then 1 else 0)
        (fun x => ((Reward.eval n' (enc2 (cntF x.val)) .treeHeight : ℚ) : K)) fs
      = cdfVal L (fun e => (codeMat G e).map (fun q : ℚ => (q : K)))
          (fun j => if (G 0).visited[j] = enc2 (cntF x0.val) then 1 else 0)
          (fun j => ((Reward.eval n' (G 0).visited[j] .treeHeight : ℚ) : K)) fs :=
  generic_cdf L enc2_injective (bfs_spec _ _ _ _ (hG 0)).1 (sum_le_bound2 (G 0).visited)
    (fun e => argRateStop (r e) (ts e) (mig e)) argRes argNew cntF_argNew (codeMat G)
    (two_locus_hrow hG) (fun s => Reward.eval n' s .treeHeight) x0 fs

theorem argRateStop_nonneg (r0 : ℚ) (ts0 : Fin D → ℚ) (mig0 : Fin D → Fin D → ℚ) (hr : 0 ≤ r0)
    (hts : ∀ d, 0 ≤ ts0 d) (hmig : ∀ d d', 0 ≤ mig0 d d') (ev : AKind D)
    (c κ : Fin D × LCls → ℕ) : 0 ≤ argRateStop r0 ts0 mig0 ev c κ := by
  rcases ev with ⟨d, d', cl⟩ | d | ⟨d, p⟩
  · simp only [argRateStop, argRate]
    split_ifs
    · exact hmig d d'
    · exact le_refl _
  · simp only [argRateStop, argRate]
    split_ifs
    · exact le_refl _
    · exact hr
    · exact le_refl _
  · simp only [argRateStop, argRate]
    split_ifs
    · exact le_refl _
    · exact div_nonneg zero_le_one (hts d)
    · exact le_refl _

/-- for non-negative rates, the labelled matrices of C06 are the labelled generator of the
stopped ancestral recombination graph (no killing) -/
theorem two_locus_labelled_is_generator
    (hG : ∀ e, bfs (transit .kingman (mkEpoch (ts e) (mig e) (r e))) (enc2 cinit) (fuel e)
      = some (G e))
    (e : ℕ) (hr : 0 ≤ r e) (hts : ∀ d, 0 ≤ ts e d) (hmig : ∀ d d', 0 ≤ mig e d d')
    (x : LabS (enc2 (D := D)) (G 0).visited (bound2 (G 0).visited))
    (F : List (Fin D × LCls) → K) :
    ∑ y, QLmat (castRate (K := K) (argRateStop (r e) (ts e) (mig e))) argNew
          (LabP.val : LabS (enc2 (D := D)) (G 0).visited (bound2 (G 0).visited)
            → List (Fin D × LCls)) x y
        * F y.val
      = QLsfull (castRate (K := K) (argRateStop (r e) (ts e) (mig e))) argNew F x.val :=
  generic_represents_of_nonneg enc2_injective (sum_le_bound2 (G 0).visited) _ argRes argNew
    cntF_argNew (codeMat G e) (two_locus_hrow hG e) (argRateStop_nonneg _ _ _ hr hts hmig) x F

end TwoLocusMain
section TwoLocusAlpha
variable {D : ℕ}
open LCls

/-- the sample configuration `nv` as a two-locus count state: all lineages linked -/
def sample2 (nv : Fin D → ℕ) : Fin D × LCls → ℕ := fun t => if t.2 = L then nv t.1 else 0

theorem lnkTotal0_enc2 (c : Fin D × LCls → ℕ) :
    sumNat (((enc2 c).lnk.getD 0 []).map sumNat) = ∑ d, c (d, L) := by
  rw [sumNat_eq, Fin.sum_univ_def]
  simp [enc2, List.ofFn_eq_map, sumNat_eq, Function.comp_def]

theorem lnkTotal1_enc2 (c : Fin D × LCls → ℕ) :
    sumNat (((enc2 c).lnk.getD 1 []).map sumNat) = ∑ d, c (d, L) := by
  rw [sumNat_eq, Fin.sum_univ_def]
  simp [enc2, List.ofFn_eq_map, sumNat_eq, Function.comp_def]

theorem pops_enc2 (c : Fin D × LCls → ℕ) (nv : Fin D → ℕ) :
    (((List.range 2).all fun l => (List.range (List.ofFn nv).length).all fun d =>
        get3 (enc2 c).lin l d 0 == getN (List.ofFn nv) d) &&
      (if (2 : ℕ) = 1 then true else (List.range 2).all fun l =>
        sumNat (((enc2 c).lnk.getD l []).map sumNat) == sumNat (List.ofFn nv) - 0))
      = decide (enc2 c = enc2 (sample2 nv)) := by
  rw [Bool.eq_iff_iff]
  simp only [range_two, List.all_cons, List.all_nil, Bool.and_true, List.all_eq_true,
    List.mem_range, List.length_ofFn, beq_iff_eq, decide_eq_true_eq, Bool.and_eq_true,
    lnkTotal0_enc2, lnkTotal1_enc2, sumNat_ofFn, Nat.sub_zero,
    show ((2 : ℕ) = 1) = False from by simp, if_false]
  constructor
  · rintro ⟨⟨h0, h1⟩, hl, _⟩
    have e0 : ∀ d : Fin D, c (d, L) + c (d, U1) = nv d := by
      intro d
      have := h0 d.val d.isLt
      rwa [get3_lin0_enc2, getN_ofFn] at this
    have e1' : ∀ d : Fin D, c (d, L) + c (d, U2) = nv d := by
      intro d
      have := h1 d.val d.isLt
      rwa [get3_lin1_enc2, getN_ofFn] at this
    have hU1 : ∑ d, c (d, U1) = 0 := by
      have : ∑ d, (c (d, L) + c (d, U1)) = ∑ d, nv d := Finset.sum_congr rfl fun d _ => e0 d
      rw [Finset.sum_add_distrib] at this
      omega
    have hU2 : ∑ d, c (d, U2) = 0 := by
      have : ∑ d, (c (d, L) + c (d, U2)) = ∑ d, nv d := Finset.sum_congr rfl fun d _ => e1' d
      rw [Finset.sum_add_distrib] at this
      omega
    congr 1
    funext ⟨d, cl⟩
    have z1 := (Finset.sum_eq_zero_iff.mp hU1) d (mem_univ d)
    have z2 := (Finset.sum_eq_zero_iff.mp hU2) d (mem_univ d)
    have := e0 d
    cases cl <;> simp [sample2] <;> omega
  · intro h
    have hc : c = sample2 nv := enc2_injective h
    subst hc
    refine ⟨⟨?_, ?_⟩, ?_, ?_⟩
    · intro d hd
      rw [get3_lin0_enc2 _ ⟨d, hd⟩, getN_ofFn nv ⟨d, hd⟩]
      simp [sample2]
    · intro d hd
      rw [get3_lin1_enc2 _ ⟨d, hd⟩, getN_ofFn nv ⟨d, hd⟩]
      simp [sample2]
    · simp [sample2]
    · simp [sample2]

variable {K : Type} [Field K] [LinearOrder K] [IsStrictOrderedRing K]
variable {cinit : Fin D × LCls → ℕ} {ts : ℕ → Fin D → ℚ}
  {mig : ℕ → Fin D → Fin D → ℚ} {r : ℕ → ℚ} {fuel : ℕ → ℕ} {G : ℕ → Graph}

/-- for two loci and a fully linked sample (`n_unlinked = 0`), the code's initial vector `alpha`
is the point mass at the state with `nv d` linked lineages in deme `d` -/
theorem two_locus_alpha
    (hG : ∀ e, bfs (transit .kingman (mkEpoch (ts e) (mig e) (r e))) (enc2 cinit) (fuel e)
      = some (G e))
    (nv : Fin D → ℕ) (hmem : enc2 (sample2 nv) ∈ (G 0).visited) (j : Fin (G 0).visited.length) :
    (alphaVec (G 0).visited (List.ofFn nv) 2 0).getD j.val 0
      = if (G 0).visited[j] = enc2 (sample2 nv) then 1 else 0 := by
  refine alphaVec_point_getD _ _ _ _ _ (bfs_spec _ _ _ _ (hG 0)).1 hmem ?_ j
  intro s hs
  obtain ⟨i, hi⟩ := exists_idx hs
  obtain ⟨c, h1, _⟩ := two_locus_hrow hG 0 i
  have hsc : s = enc2 c := hi.symm.trans h1
  rw [hsc]
  exact pops_enc2 c nv

/-- **C06 with the code's `alpha`** (fully linked sample `nv`). -/
theorem C06_arg_eq_labelled_alpha
    (hG : ∀ e, bfs (transit .kingman (mkEpoch (ts e) (mig e) (r e))) (enc2 cinit) (fuel e)
      = some (G e))
    (L' : ExpLaw K) (n' : ℕ) {k : ℕ} (rs : Fin k → Reward) (nv : Fin D → ℕ)
    (x0 : LabS (enc2 (D := D)) (G 0).visited (bound2 (G 0).visited))
    (hx0 : cntF x0.val = sample2 nv) (fs : List (ℕ × K)) :
    accumVal L'
        (fun e => QLmat (castRate (K := K) (argRateStop (r e) (ts e) (mig e))) argNew
          (LabP.val : LabS (enc2 (D := D)) (G 0).visited (bound2 (G 0).visited)
            → List (Fin D × LCls)))
        (fun a x => ((Reward.eval n' (enc2 (cntF x.val)) (rs a) : ℚ) : K))
        (fun x => if x = x0 then 1 else 0) fs
      = accumVal L' (fun e => (codeMat G e).map (fun q : ℚ => (q : K)))
          (fun a j => ((Reward.eval n' (G 0).visited[j] (rs a) : ℚ) : K))
          (fun j => (((alphaVec (G 0).visited (List.ofFn nv) 2 0).getD j.val 0 : ℚ) : K)) fs := by
  have hc0 : enc2 (sample2 nv) ∈ (G 0).visited := hx0 ▸ x0.2.2
  have hα : (fun j : Fin (G 0).visited.length =>
        (((alphaVec (G 0).visited (List.ofFn nv) 2 0).getD j.val 0 : ℚ) : K))
      = fun j => if (G 0).visited[j] = enc2 (cntF x0.val) then 1 else 0 := by
    funext j
    rw [two_locus_alpha hG nv hc0 j, hx0]
    split_ifs <;> simp
  rw [hα]
  exact C06_arg_eq_labelled hG L' n' rs x0 fs

end TwoLocusAlpha
end Assembly
end PG

#print axioms PG.Assembly.QLfull_comp_cntF
#print axioms PG.Assembly.QLsfull_lumping
#print axioms PG.Assembly.QLmat_represents
#print axioms PG.Assembly.QLmat_Lab_represents
#print axioms PG.Assembly.lineage_Lab_represents
#print axioms PG.Assembly.lab_intertwine
#print axioms PG.Assembly.generic_accum
#print axioms PG.Assembly.generic_cdf
#print axioms PG.Assembly.generic_represents
#print axioms PG.Assembly.generic_represents_of_nonneg
#print axioms PG.Assembly.bfs_visited_congr
#print axioms PG.Assembly.keys_transit_enc_indep
#print axioms PG.Assembly.visited_indep
#print axioms PG.Assembly.lineage_all_configs_visited
#print axioms PG.Assembly.lineage_alpha
#print axioms PG.Assembly.exists_labInit
#print axioms PG.Assembly.C01_moments_eq_labelled
#print axioms PG.Assembly.C03_cdf_eq_labelled
#print axioms PG.Assembly.lineage_labelled_is_generator
#print axioms PG.Assembly.visited_indep_bc
#print axioms PG.Assembly.C02_sfs_eq_labelled
#print axioms PG.Assembly.C02_cdf_eq_labelled
#print axioms PG.Assembly.C02_sfs_eq_labelled_alpha
#print axioms PG.Assembly.block_samples_visited
#print axioms PG.Assembly.exists_labInit_bc
#print axioms PG.Assembly.block_labelled_is_generator
#print axioms PG.Assembly.visited_indep_2
#print axioms PG.Assembly.C06_arg_eq_labelled
#print axioms PG.Assembly.C06_cdf_eq_labelled
#print axioms PG.Assembly.C06_arg_eq_labelled_alpha
#print axioms PG.Assembly.two_locus_labelled_is_generator
