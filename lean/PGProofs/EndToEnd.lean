/-
PGProofs.EndToEnd — CAPSTONE: the composition "what the user asked ↦ what the mathematics says".

The layers proved separately elsewhere
  (L1) state level  `Assembly.C01_moments_eq_labelled`, `Glue.code_accumulate_pointwise`
  (L2) call layer   `PGModel/Api.lean`, `ApiThm.accumulateCall_eq`
  (L3) input glue   `ConfigThm.config_listing_order_irrelevant`
  (L4) relabelling  `DemePerm.C08_moments_named`
are composed here.

A. `accumulateModel` (centring / permutation average) is a fixed combination of raw moments of
   tuples made of entries of the reward tuple: congruence (`accumulateModel_congr`, restricted to
   those tuples), pull-back along a map of rewards (`accumulateModel_map`), irrelevance of the
   `Inhabited` default.  Any value type `V` with `MomVal V`.
B. The call layer of `PGModel/Api.lean` has its `raw` fixed to `Rat`; the moments of the code model
   live in the field `K` of the `ExpLaw` (ℝ for `realExpLaw`).  `accumulateCallK` / `momentCallK` are
   the SAME lines with `K`-valued `raw` (times stay rational; `accumulateModel` itself is reused at
   `V := K`); for `K = ℚ` they ARE `Api.accumulateCall` / `Api.momentCall`
   (`accumulateCallK_rat`, `momentCallK_rat`).  Normal form `accumulateCallK_eq` (the error
   function is `Api.accErr` itself) and the transport lemmas `accumulateCallK_map` /
   `momentCallK_map`.
C. `codeRaw`: the instance of `raw` which the code model provides; `raw_of_code`: it is what the
   sorted sweep `_accumulate` returns for every entry of every time vector.
D. `moment_call_eq_labelled` (THE CAPSTONE), `accumulate_call_vector_eq_labelled`,
   `momentCallK_code_eq_lab` (all calls, all variants, exceptions included).
E. `moment_call_named_invariant`: composition with the input glue (rewards given by NAME);
   `moment_call_named_eq_labelled`: D and E at once.
F. closed instances of D and of E (graphs evaluated by the kernel).

NOT composed (the types do not meet):
  * the epoch list `eps` and the per-epoch tables `ts e`, `mig e` are free parameters of every
    statement here (as they are in `C01_moments_eq_labelled`, which holds for all of them).  That `eps`
    is the output of the `Demography.epochs` generator and `ts e`, `mig e` are the values in force
    in epoch `e` (`DemographyThm.epochs_tiling`, `value_in_force'`) is not plugged in:
    `DemographyThm` keys populations by `ℕ` (`Key`, `Epoch.value`, `specValue`), `ConfigThm` by NAME
    (`sizeAt`, `rateAt`, read at a representative time `te e` of epoch `e`), (L1) by `Fin D` after
    the model's time scale `tsOf`; no theorem of the project relates `Config.valueAt` to
    `specValue`.
  * single-locus lineage-counting state space only (that of `C01`); the block-counting (`C02`)
    and two-locus (`C06`) analogues are not instantiated.
  * `DemeReward` of a name that is not on the axis (`ValueError` of `list.index` in Python) is
    excluded by `NamedReward.OnAxis`.
-/
import PGProofs.Assembly
import PGProofs.Glue
import PGProofs.ApiThm
import PGProofs.ConfigThm

namespace PG
namespace EndToEnd

open PG.Api

/-! ## A. `accumulateModel` as a combination of raw ingredients -/

section Algebra
variable {ρ V : Type} [MomVal V]

theorem insertEverywhere_map {α β : Type} (f : α → β) (x : α) (l : List α) :
    insertEverywhere (f x) (l.map f) = (insertEverywhere x l).map (List.map f) := by
  induction l with
  | nil => rfl
  | cons y ys ih =>
    simp only [List.map_cons, insertEverywhere, ih, List.map_map]
    congr 1

theorem perms_map {α β : Type} (f : α → β) (l : List α) :
    perms (l.map f) = (perms l).map (List.map f) := by
  induction l with
  | nil => rfl
  | cons x xs ih =>
    simp only [List.map_cons, perms, ih, List.flatMap_map, List.map_flatMap]
    refine List.flatMap_congr fun p _ => ?_
    exact insertEverywhere_map f x p

/-- the (optionally permuted) uncentred moment only reads `raw` on rearrangements of the tuple -/
theorem uncentred_congr (raw raw' : List ρ → V) (p : Bool) (l : List ρ)
    (h : ∀ l', l'.Perm l → raw l' = raw' l') : uncentred raw p l = uncentred raw' p l := by
  unfold uncentred permuted
  rw [h l (List.Perm.refl l)]
  have : (perms l).map raw = (perms l).map raw' :=
    List.map_congr_left fun q hq => h q (mem_perms.mp hq)
  rw [this]

/-- **Congruence.**  `accumulate(k, rewards, center, permute)` is a fixed combination (products,
sums, rational multiples) of raw moments of tuples made of entries of `rewards`: two `raw`s which
agree on those tuples give the same result.  Any value type. -/
theorem accumulateModel_congr [Inhabited ρ] (raw raw' : List ρ → V) (c p : Bool) (rs : List ρ)
    (h : ∀ l', l' ⊆ rs → raw l' = raw' l') :
    accumulateModel raw c p rs = accumulateModel raw' c p rs := by
  have hun : ∀ (q : Bool) (l : List ρ), l ⊆ rs → uncentred raw q l = uncentred raw' q l :=
    fun q l hl => uncentred_congr raw raw' q l fun l' hp => h l' (fun x hx => hl (hp.subset hx))
  have hmeans : (rs.map fun r => uncentred raw true [r]) = rs.map fun r => uncentred raw' true [r] :=
    List.map_congr_left fun r hr => hun true [r] (by simpa using hr)
  unfold accumulateModel
  simp only []
  rw [hmeans]
  split_ifs with hc
  · congr 1
    refine List.flatMap_congr fun i _ => ?_
    refine List.map_congr_left fun idx hidx => ?_
    rw [hun p _ ?_]
    intro x hx
    obtain ⟨j, hj, rfl⟩ := List.mem_map.mp hx
    have : j < rs.length := by simpa using (mem_combinations.mp hidx).1.subset hj
    simp [List.getD_eq_getElem?_getD, this]
  · exact hun p rs (List.Subset.refl _)

/-- unrestricted form -/
theorem accumulateModel_congr' [Inhabited ρ] (raw raw' : List ρ → V) (c p : Bool) (rs : List ρ)
    (h : ∀ l', raw l' = raw' l') : accumulateModel raw c p rs = accumulateModel raw' c p rs :=
  accumulateModel_congr raw raw' c p rs fun l' _ => h l'

theorem uncentred_map {α : Type} (f : α → ρ) (raw : List ρ → V) (p : Bool) (l : List α) :
    uncentred raw p (l.map f) = uncentred (fun l' => raw (l'.map f)) p l := by
  unfold uncentred permuted
  simp only [perms_map, List.map_map, List.isEmpty_map, List.length_map, Function.comp_def]

/-- **Pull-back along a map of rewards** (e.g. "resolve the NAMED reward to the deme index"). -/
theorem accumulateModel_map {α : Type} [Inhabited α] [Inhabited ρ] (f : α → ρ) (raw : List ρ → V)
    (c p : Bool) (l : List α) :
    accumulateModel raw c p (l.map f) = accumulateModel (fun l' => raw (l'.map f)) c p l := by
  have hmeans : ((l.map f).map fun r => uncentred raw true [r])
      = l.map fun a => uncentred (fun l' => raw (l'.map f)) true [a] := by
    rw [List.map_map]
    exact List.map_congr_left fun a _ => uncentred_map f raw true [a]
  unfold accumulateModel
  simp only [List.length_map]
  rw [hmeans]
  split_ifs with hc
  · congr 1
    refine List.flatMap_congr fun i _ => ?_
    refine List.map_congr_left fun idx hidx => ?_
    have hidx' : (idx.map fun j => (l.map f).getD j default)
        = (idx.map fun j => l.getD j default).map f := by
      rw [List.map_map]
      refine List.map_congr_left fun j hj => ?_
      have : j < l.length := by simpa using (mem_combinations.mp hidx).1.subset hj
      simp [List.getD_eq_getElem?_getD, this]
    rw [hidx', uncentred_map]
  · exact uncentred_map f raw p l

/-- the `default` of `Inhabited ρ` is never read (all positions are in range) -/
theorem accumulateModel_inhabited_irrel (i₁ i₂ : Inhabited ρ) (raw : List ρ → V) (c p : Bool)
    (rs : List ρ) :
    @accumulateModel ρ V _ i₁ raw c p rs = @accumulateModel ρ V _ i₂ raw c p rs := by
  unfold accumulateModel
  simp only []
  split_ifs with hc
  · congr 1
    refine List.flatMap_congr fun i _ => ?_
    refine List.map_congr_left fun idx hidx => ?_
    have : (idx.map fun j => rs.getD j i₁.default) = idx.map fun j => rs.getD j i₂.default := by
      refine List.map_congr_left fun j hj => ?_
      have : j < rs.length := by simpa using (mem_combinations.mp hidx).1.subset hj
      simp [List.getD_eq_getElem?_getD, this]
    rw [this]
  · rfl

end Algebra

/-! ## B. the call layer with `K`-valued moments -/

section Twin
variable {ρ K : Type} [Field K]

/-- the value type `K` of the moments: rational scaling through the cast `ℚ → K` -/
@[reducible] def momValK (K : Type) [Field K] : MomVal K :=
  ⟨0, 1, (· + ·), (· * ·), fun c x => (c : K) * x⟩

theorem momValK_rat : momValK ℚ = (inferInstance : MomVal Rat) := by
  rfl

/-- `Api.DistCtx` with `K`-valued `raw` (end times stay rational) -/
structure DistCtxK (ρ K : Type) where
  defaultReward : ρ
  startDefault : Rat
  tMax : Rat
  raw : List ρ → Rat → K

/-- a rational-valued context, as a `DistCtxK` -/
def ofCtx (ctx : DistCtx ρ) : DistCtxK ρ ℚ :=
  ⟨ctx.defaultReward, ctx.startDefault, ctx.tMax, ctx.raw⟩

/-- `Api.resolveRewards` -/
def resolveRewardsK (dr : ρ) (k : Int) (rewards : Option (List ρ)) : List ρ :=
  rewards.getD (List.replicate k.toNat dr)

/-- `Api.accAt` -/
def accAtK (ctx : DistCtxK ρ K) (k : Int) (rs : List ρ) (center permute : Bool) (t : Rat) : K :=
  haveI : Inhabited ρ := ⟨ctx.defaultReward⟩
  letI := momValK K
  accumulateModel (fun l => ctx.raw l t) center permute (rs.take k.toNat)

/-- `Api.accumulateCall`, line by line -/
def accumulateCallK (v : Variant) (ctx : DistCtxK ρ K) (k : Int) (rewards : Option (List ρ))
    (endTimes : List Rat) (center permute : Bool) : Except ApiErr (List K) :=
  let rs := resolveRewardsK ctx.defaultReward k rewards
  if v ≠ .noLengthCheck ∧ (rs.length : Int) ≠ k then .error .valueError
  else if k = 0 then .ok (endTimes.map fun _ => 1)
  else if center = true ∧ k > 1 then
    match rs with
    | [] => .error .indexError
    | _ :: _ =>
      if negTimes endTimes then .error .valueError
      else if rs.length < k.toNat then .error .indexError
      else .ok (endTimes.map (accAtK ctx k rs center permute))
  else
    if negTimes endTimes then .error .valueError
    else if (rs.length : Int) ≠ k then .error .valueError
    else .ok (endTimes.map (accAtK ctx k rs center permute))

/-- `Api.momentCall`, line by line -/
def momentCallK (v : Variant) (ctx : DistCtxK ρ K) (c : MomentCall ρ) : Except ApiErr K :=
  let s := resolveTime v c.startTime ctx.startDefault
  let e := resolveTime v c.endTime ctx.tMax
  if s > 0 then
    (accumulateCallK v ctx c.k c.rewards [s, e] c.center c.permute).map
      fun l => l.getD 1 0 - l.getD 0 0
  else
    (accumulateCallK v ctx c.k c.rewards [e] c.center c.permute).map fun l => l.getD 0 0

/-! ### for `K = ℚ` the twin IS the model of `PGModel/Api.lean` -/

theorem accAtK_rat (ctx : DistCtx ρ) : accAtK (ofCtx ctx) = accAt ctx := by
  funext k rs center permute t
  rfl

theorem accumulateCallK_rat (v : Variant) (ctx : DistCtx ρ) (k : Int) (rewards : Option (List ρ))
    (ts : List Rat) (center permute : Bool) :
    accumulateCallK v (ofCtx ctx) k rewards ts center permute
      = accumulateCall v ctx k rewards ts center permute := by
  unfold accumulateCallK accumulateCall
  rw [accAtK_rat]
  rfl

theorem momentCallK_rat (v : Variant) (ctx : DistCtx ρ) (c : MomentCall ρ) :
    momentCallK v (ofCtx ctx) c = momentCall v ctx c := by
  unfold momentCallK momentCall
  simp only [accumulateCallK_rat]
  rfl

/-! ### normal form (as `ApiThm.accumulateCall_eq`) -/

theorem accAtK_order0 (ctx : DistCtxK ρ K) (rs : List ρ) (center permute : Bool) (t : Rat) :
    accAtK ctx 0 rs center permute t = 1 := by
  simp [accAtK, accumulateModel, uncentred]
  rfl

theorem accAtK_order0_fun (ctx : DistCtxK ρ K) (rs : List ρ) (center permute : Bool) :
    accAtK ctx 0 rs center permute = fun _ => 1 :=
  funext (accAtK_order0 ctx rs center permute)

/-- raises exactly when the mirrored checks (`Api.accErr`) fire, else the per-time value at every
end time -/
theorem accumulateCallK_eq (v : Variant) (ctx : DistCtxK ρ K) (k : Int) (rewards : Option (List ρ))
    (ts : List Rat) (center permute : Bool) :
    accumulateCallK v ctx k rewards ts center permute =
      match accErr v k (resolveRewardsK ctx.defaultReward k rewards).length center (negTimes ts) with
      | some e => .error e
      | none => .ok (ts.map
          (accAtK ctx k (resolveRewardsK ctx.defaultReward k rewards) center permute)) := by
  unfold accumulateCallK accErr
  simp only []
  cases hrs : resolveRewardsK ctx.defaultReward k rewards with
  | nil =>
    split_ifs <;> simp_all [accAtK_order0_fun]
  | cons r rs' =>
    split_ifs <;> simp_all [accAtK_order0_fun]

/-! ### transport along a map of rewards -/

/-- the call with every reward mapped by `f` -/
def mapRewards {α : Type} (f : α → ρ) (c : MomentCall α) : MomentCall ρ :=
  ⟨c.k, c.rewards.map (List.map f), c.startTime, c.endTime, c.center, c.permute⟩

theorem resolveRewardsK_map {α : Type} (f : α → ρ) (dr : α) (k : Int) (rewards : Option (List α)) :
    resolveRewardsK (f dr) k (rewards.map (List.map f)) = (resolveRewardsK dr k rewards).map f := by
  cases rewards <;> simp [resolveRewardsK]

theorem accAtK_map {α ρ' : Type} (ctx : DistCtxK ρ K) (ctx' : DistCtxK ρ' K) (f : α → ρ)
    (f' : α → ρ') (dr : α) (k : Int) (rs : List α) (center permute : Bool) (t : Rat)
    (h : ∀ l, l ⊆ rs → ctx'.raw (l.map f') t = ctx.raw (l.map f) t) :
    accAtK ctx' k (rs.map f') center permute t = accAtK ctx k (rs.map f) center permute t := by
  unfold accAtK
  rw [← List.map_take, ← List.map_take]
  rw [@accumulateModel_map ρ' K (momValK K) α ⟨dr⟩ ⟨ctx'.defaultReward⟩ f',
    @accumulateModel_map ρ K (momValK K) α ⟨dr⟩ ⟨ctx.defaultReward⟩ f]
  exact @accumulateModel_congr α K (momValK K) ⟨dr⟩ _ _ center permute _
    fun l hl => h l (fun x hx => List.take_subset _ _ (hl hx))

/-- **Transport of `accumulate`.**  Two distribution objects over two reward types, two ways `f`,
`f'` of resolving user-level rewards `α` (e.g. names) to them: if the raw moments of corresponding
tuples agree, the two calls return the same result -- exceptions included, any variant. -/
theorem accumulateCallK_map {α ρ' : Type} (v : Variant) (ctx : DistCtxK ρ K) (ctx' : DistCtxK ρ' K)
    (f : α → ρ) (f' : α → ρ') (dr : α) (hd : ctx.defaultReward = f dr)
    (hd' : ctx'.defaultReward = f' dr) (k : Int) (rewards : Option (List α)) (times : List Rat)
    (center permute : Bool)
    (h : ∀ l, l ⊆ resolveRewardsK dr k rewards → ∀ t ∈ times,
      ctx'.raw (l.map f') t = ctx.raw (l.map f) t) :
    accumulateCallK v ctx' k (rewards.map (List.map f')) times center permute
      = accumulateCallK v ctx k (rewards.map (List.map f)) times center permute := by
  rw [accumulateCallK_eq, accumulateCallK_eq, hd, hd', resolveRewardsK_map, resolveRewardsK_map]
  simp only [List.length_map]
  cases accErr v k (resolveRewardsK dr k rewards).length center (negTimes times) with
  | some e => rfl
  | none =>
    simp only []
    congr 1
    refine List.map_congr_left fun t ht => ?_
    exact accAtK_map ctx ctx' f f' dr k _ center permute t fun l hl => h l hl t ht

/-- **Transport of `moment`.** -/
theorem momentCallK_map {α ρ' : Type} (v : Variant) (ctx : DistCtxK ρ K) (ctx' : DistCtxK ρ' K)
    (f : α → ρ) (f' : α → ρ') (dr : α) (hd : ctx.defaultReward = f dr)
    (hd' : ctx'.defaultReward = f' dr) (hsd : ctx'.startDefault = ctx.startDefault)
    (htm : ctx'.tMax = ctx.tMax) (c : MomentCall α)
    (h : ∀ l, l ⊆ resolveRewardsK dr c.k c.rewards → ∀ t,
      ctx'.raw (l.map f') t = ctx.raw (l.map f) t) :
    momentCallK v ctx' (mapRewards f' c) = momentCallK v ctx (mapRewards f c) := by
  unfold momentCallK mapRewards
  simp only [hsd, htm]
  rw [accumulateCallK_map v ctx ctx' f f' dr hd hd' c.k c.rewards _ c.center c.permute
      (fun l hl t _ => h l hl t),
    accumulateCallK_map v ctx ctx' f f' dr hd hd' c.k c.rewards _ c.center c.permute
      (fun l hl t _ => h l hl t)]

end Twin

/-! ## C. the `raw` which the code model provides -/

section Capstone
open Assembly Finset
variable {D : ℕ} {K : Type} [Field K] [LinearOrder K] [IsStrictOrderedRing K]

attribute [local instance] momValK

/-- **The instance of the call layer's `raw`.**  The uncentred, order-conditioned moment of the reward
tuple `rs` accumulated up to time `t`, as the code computes it: `k! · α · (∏ exp(τ · VanLoan(S_e, R)))`
`[0, k]` with the rate matrices `S_e = _graph_to_matrix` of the graphs `G e`, the reward vectors of
`rs` over the visited states, the initial vector `alpha` of the sample configuration `c0` and the
factors `specFactors eps t` of the epochs up to `t` (all rationals cast into the field `K` of the
`ExpLaw`). -/
noncomputable def codeRaw (L : ExpLaw K) (G : ℕ → Graph) (n : ℕ) (c0 : Fin D → ℕ)
    (eps : List EpochT) (rs : List Reward) (t : ℚ) : K :=
  accumVal L (fun e => (codeMat G e).map (fun q : ℚ => (q : K)))
    (fun (a : Fin rs.length) j => ((Reward.eval n (G 0).visited[j] rs[a] : ℚ) : K))
    (fun j => (((alphaVec (G 0).visited (List.ofFn c0) 1 0).getD j.val 0 : ℚ) : K))
    (castF (specFactors eps t))

/-- **`raw_of_code`.**  `codeRaw` IS the numerical part of `_accumulate`: the model of `_accumulate`
(sort the end times, sweep with a running product and an epoch cursor, scatter back;
`PGModel/Accumulate.lean`) returns, for ANY vector of end times (unsorted, repeated), `codeRaw` at
every entry.  [composition with `Glue.code_accumulate_pointwise`] -/
theorem raw_of_code (L : ExpLaw K) (G : ℕ → Graph) (n : ℕ) (c0 : Fin D → ℕ) (eps : List EpochT)
    (rs : List Reward) (times : List ℚ) :
    codeVectorised (fun fs =>
        accumVal L (fun e => (codeMat G e).map (fun q : ℚ => (q : K)))
          (fun (a : Fin rs.length) j => ((Reward.eval n (G 0).visited[j] rs[a] : ℚ) : K))
          (fun j => (((alphaVec (G 0).visited (List.ofFn c0) 1 0).getD j.val 0 : ℚ) : K))
          (castF fs)) eps times
      = times.map (codeRaw L G n c0 eps rs) :=
  code_accumulate_pointwise L _ _ _ eps times

/-- the distribution object of the code model: default reward, default start time, horizon, and
`raw := codeRaw` -/
noncomputable def codeCtx (L : ExpLaw K) (G : ℕ → Graph) (n : ℕ) (c0 : Fin D → ℕ)
    (eps : List EpochT) (dr : Reward) (sd tm : ℚ) : DistCtxK Reward K :=
  ⟨dr, sd, tm, codeRaw L G n c0 eps⟩

/-- The same moment for the LABELLED structured coalescent: generator `QLmat` of the labelled
particle system (rates `linRate (lam m) (ts e) (mig e)` of epoch `e`), rewards read on the labelled
configuration through its counts, started in the labelled configuration `x0`. -/
noncomputable def labRaw (L : ExpLaw K) (m : Model) (ts : ℕ → Fin D → ℚ)
    (mig : ℕ → Fin D → Fin D → ℚ) (G : ℕ → Graph) (cinit : Fin D → ℕ) (n : ℕ)
    (x0 : LabS (encLC (D := D)) (G 0).visited (∑ d, cinit d))
    (eps : List EpochT) (rs : List Reward) (t : ℚ) : K :=
  accumVal L
    (fun e => QLmat (castRate (K := K) (linRate (lam m) (ts e) (mig e))) linNew
      (LabP.val : LabS (encLC (D := D)) (G 0).visited (∑ d, cinit d) → List (Fin D)))
    (fun (a : Fin rs.length) x => ((Reward.eval n (encLC (cntF x.val)) rs[a] : ℚ) : K))
    (fun x => if x = x0 then 1 else 0)
    (castF (specFactors eps t))

/-- the labelled process as a distribution object -/
noncomputable def labCtx (L : ExpLaw K) (m : Model) (ts : ℕ → Fin D → ℚ)
    (mig : ℕ → Fin D → Fin D → ℚ) (G : ℕ → Graph) (cinit : Fin D → ℕ) (n : ℕ)
    (x0 : LabS (encLC (D := D)) (G 0).visited (∑ d, cinit d))
    (eps : List EpochT) (dr : Reward) (sd tm : ℚ) : DistCtxK Reward K :=
  ⟨dr, sd, tm, labRaw L m ts mig G cinit n x0 eps⟩

variable {m : Model} {cinit : Fin D → ℕ} {ts : ℕ → Fin D → ℚ} {mig : ℕ → Fin D → Fin D → ℚ}
  {r : ℕ → ℚ} {fuel : ℕ → ℕ} {G : ℕ → Graph}

/-- every raw ingredient: `C01_moments_eq_labelled` at the reward tuple `rs` and the factor list of
the time `t` -/
theorem codeRaw_eq_labRaw
    (hG : ∀ e, bfs (transit m (mkEpoch (ts e) (mig e) (r e))) (encLC cinit) (fuel e) = some (G e))
    (L : ExpLaw K) (n : ℕ) (c0 : Fin D → ℕ)
    (x0 : LabS (encLC (D := D)) (G 0).visited (∑ d, cinit d)) (hx0 : cntF x0.val = c0)
    (eps : List EpochT) :
    codeRaw L G n c0 eps = labRaw L m ts mig G cinit n x0 eps := by
  funext rs t
  exact (C01_moments_eq_labelled hG L n (fun a : Fin rs.length => rs[a]) c0 x0 hx0 _).symm

/-! ## D. the capstones -/

/-- **All calls, all variants, exceptions included**: `moment(...)` on the code model and on the
labelled process return the same result. -/
theorem momentCallK_code_eq_lab
    (hG : ∀ e, bfs (transit m (mkEpoch (ts e) (mig e) (r e))) (encLC cinit) (fuel e) = some (G e))
    (L : ExpLaw K) (n : ℕ) (c0 : Fin D → ℕ)
    (x0 : LabS (encLC (D := D)) (G 0).visited (∑ d, cinit d)) (hx0 : cntF x0.val = c0)
    (eps : List EpochT) (dr : Reward) (sd tm : ℚ) (v : Variant) (c : MomentCall Reward) :
    momentCallK v (codeCtx L G n c0 eps dr sd tm) c
      = momentCallK v (labCtx L m ts mig G cinit n x0 eps dr sd tm) c := by
  unfold codeCtx labCtx
  rw [codeRaw_eq_labRaw hG L n c0 x0 hx0 eps]

/-- the per-time value of the call layer on the code model, for a tuple of the right length: the
centring / permutation combination `accumulateModel` of LABELLED moments
[`C01_moments_eq_labelled` pushed through `accumulateModel_congr`] -/
theorem accAtK_code_eq_labelled
    (hG : ∀ e, bfs (transit m (mkEpoch (ts e) (mig e) (r e))) (encLC cinit) (fuel e) = some (G e))
    (L : ExpLaw K) (n : ℕ) (c0 : Fin D → ℕ)
    (x0 : LabS (encLC (D := D)) (G 0).visited (∑ d, cinit d)) (hx0 : cntF x0.val = c0)
    (eps : List EpochT) (dr : Reward) (sd tm : ℚ) (k : Int) (rs : List Reward)
    (hlen : (rs.length : Int) = k) (center permute : Bool) (t : ℚ) :
    accAtK (codeCtx L G n c0 eps dr sd tm) k rs center permute t
      = accumulateModel (fun l => labRaw L m ts mig G cinit n x0 eps l t) center permute rs := by
  unfold accAtK
  simp only [codeCtx]
  rw [List.take_of_length_le (by omega)]
  refine (@accumulateModel_congr' Reward K _ ⟨dr⟩ (fun l => codeRaw L G n c0 eps l t)
    (fun l => labRaw L m ts mig G cinit n x0 eps l t) center permute rs
    (fun l' => congrFun (congrFun (codeRaw_eq_labRaw hG L n c0 x0 hx0 eps) l') t)).trans ?_
  exact accumulateModel_inhabited_irrel _ _ _ _ _ _

theorem resolveRewardsK_length (dr : Reward) (k : Int) (rewards : Option (List Reward))
    (hk : 0 ≤ k) (hlen : ∀ rs, rewards = some rs → (rs.length : Int) = k) :
    ((resolveRewardsK dr k rewards).length : Int) = k := by
  cases hr : rewards with
  | none => simp [resolveRewardsK]; omega
  | some rs => simpa [resolveRewardsK] using hlen rs hr

theorem accErr_wellformed (k : Int) (n : ℕ) (center : Bool) (hk : 1 ≤ k) (hn : (n : Int) = k) :
    accErr .current k n center false = none := by
  have h1 : ¬ (n < k.toNat) := by omega
  have h2 : n ≠ 0 := by omega
  have h3 : k ≠ 0 := by omega
  unfold accErr
  split_ifs <;> simp_all

theorem negTimes_eq_false {times : List ℚ} (h : ∀ t ∈ times, 0 ≤ t) : negTimes times = false := by
  unfold negTimes
  rw [List.any_eq_false]
  intro t ht
  simpa using h t ht

/-- **`accumulate` on ANY list of end times** (unsorted, repeated), well-formed call (order `k ≥ 1`,
`rewards` = `None` or a tuple of length `k`, no negative time, current code): no exception, and
entry `i` is the centring / permutation combination of LABELLED moments at time `times[i]`. -/
theorem accumulate_call_vector_eq_labelled
    (hG : ∀ e, bfs (transit m (mkEpoch (ts e) (mig e) (r e))) (encLC cinit) (fuel e) = some (G e))
    (L : ExpLaw K) (n : ℕ) (c0 : Fin D → ℕ)
    (x0 : LabS (encLC (D := D)) (G 0).visited (∑ d, cinit d)) (hx0 : cntF x0.val = c0)
    (eps : List EpochT) (dr : Reward) (sd tm : ℚ)
    (k : Int) (rewards : Option (List Reward)) (times : List ℚ) (center permute : Bool)
    (hk : 1 ≤ k) (hlen : ∀ rs, rewards = some rs → (rs.length : Int) = k)
    (hnn : ∀ t ∈ times, 0 ≤ t) :
    accumulateCallK .current (codeCtx L G n c0 eps dr sd tm) k rewards times center permute
      = .ok (times.map fun t =>
          accumulateModel (fun l => labRaw L m ts mig G cinit n x0 eps l t) center permute
            (resolveRewardsK dr k rewards)) := by
  have hn := resolveRewardsK_length dr k rewards (by omega) hlen
  rw [accumulateCallK_eq]
  show (match accErr .current k (resolveRewardsK dr k rewards).length center (negTimes times) with
    | some e => Except.error e
    | none => Except.ok (times.map
        (accAtK (codeCtx L G n c0 eps dr sd tm) k (resolveRewardsK dr k rewards) center permute)))
    = _
  rw [negTimes_eq_false hnn, accErr_wellformed k _ center hk hn]
  simp only []
  congr 1
  refine List.map_congr_left fun t _ => ?_
  exact accAtK_code_eq_labelled hG L n c0 x0 hx0 eps dr sd tm k _ hn center permute t

/-- entry `i`, spelled out -/
theorem accumulate_call_entry_eq_labelled
    (hG : ∀ e, bfs (transit m (mkEpoch (ts e) (mig e) (r e))) (encLC cinit) (fuel e) = some (G e))
    (L : ExpLaw K) (n : ℕ) (c0 : Fin D → ℕ)
    (x0 : LabS (encLC (D := D)) (G 0).visited (∑ d, cinit d)) (hx0 : cntF x0.val = c0)
    (eps : List EpochT) (dr : Reward) (sd tm : ℚ)
    (k : Int) (rewards : Option (List Reward)) (times : List ℚ) (center permute : Bool)
    (hk : 1 ≤ k) (hlen : ∀ rs, rewards = some rs → (rs.length : Int) = k)
    (hnn : ∀ t ∈ times, 0 ≤ t) :
    ∃ out : List K,
      accumulateCallK .current (codeCtx L G n c0 eps dr sd tm) k rewards times center permute
        = .ok out ∧ out.length = times.length ∧
      ∀ (i : ℕ) (hi : i < times.length), out.getD i 0 =
        accumulateModel (fun l => labRaw L m ts mig G cinit n x0 eps l times[i]) center permute
          (resolveRewardsK dr k rewards) := by
  refine ⟨_, accumulate_call_vector_eq_labelled hG L n c0 x0 hx0 eps dr sd tm k rewards times
    center permute hk hlen hnn, by simp, fun i hi => ?_⟩
  simp [List.getD_eq_getElem?_getD, hi]

/-- **THE CAPSTONE.**  A well-formed call `moment(k, rewards, start_time, end_time, center, permute)`
of the current code (order `k ≥ 1`, `rewards` = `None` or a tuple of length `k`, resolved end time
`≥ 0`) on the code model -- state space by `bfs (transit …)`, rate matrices `_graph_to_matrix`,
reward vectors, `alpha`, the sorted sweep over the epochs, Van Loan blocks, centring and
permutation average, window arithmetic -- returns without exception
`acc(end) - acc(start)` (resolved start time `> 0`) resp. `acc(end)`, where `acc(t)` is the
centring / permutation combination `accumulateModel · center permute` of the moments of the
LABELLED structured coalescent accumulated up to `t`. -/
theorem moment_call_eq_labelled
    (hG : ∀ e, bfs (transit m (mkEpoch (ts e) (mig e) (r e))) (encLC cinit) (fuel e) = some (G e))
    (L : ExpLaw K) (n : ℕ) (c0 : Fin D → ℕ)
    (x0 : LabS (encLC (D := D)) (G 0).visited (∑ d, cinit d)) (hx0 : cntF x0.val = c0)
    (eps : List EpochT) (dr : Reward) (sd tm : ℚ) (c : MomentCall Reward)
    (hk : 1 ≤ c.k) (hlen : ∀ rs, c.rewards = some rs → (rs.length : Int) = c.k)
    (he : 0 ≤ resolveTime .current c.endTime tm) :
    momentCallK .current (codeCtx L G n c0 eps dr sd tm) c
      = .ok (if 0 < resolveTime .current c.startTime sd then
          accumulateModel (fun l => labRaw L m ts mig G cinit n x0 eps l
              (resolveTime .current c.endTime tm)) c.center c.permute
              (resolveRewardsK dr c.k c.rewards)
            - accumulateModel (fun l => labRaw L m ts mig G cinit n x0 eps l
              (resolveTime .current c.startTime sd)) c.center c.permute
              (resolveRewardsK dr c.k c.rewards)
        else
          accumulateModel (fun l => labRaw L m ts mig G cinit n x0 eps l
              (resolveTime .current c.endTime tm)) c.center c.permute
              (resolveRewardsK dr c.k c.rewards)) := by
  unfold momentCallK
  show (if resolveTime .current c.startTime sd > 0 then _ else _) = _
  split_ifs with hpos
  · rw [accumulate_call_vector_eq_labelled hG L n c0 x0 hx0 eps dr sd tm c.k c.rewards _ c.center
      c.permute hk hlen (by
        intro t ht
        simp only [List.mem_cons, List.not_mem_nil, or_false] at ht
        rcases ht with rfl | rfl
        · exact le_of_lt hpos
        · exact he)]
    rfl
  · rw [accumulate_call_vector_eq_labelled hG L n c0 x0 hx0 eps dr sd tm c.k c.rewards _ c.center
      c.permute hk hlen (by
        intro t ht
        simp only [List.mem_cons, List.not_mem_nil, or_false] at ht
        rcases ht with rfl
        exact he)]
    rfl

/-- **The capstone is never vacuous**: for every sample configuration `c0` with as many lineages
as the start state of the search, a labelled start configuration `x0` with these counts exists
(and the statement holds for every such `x0`). -/
theorem moment_call_eq_labelled_exists
    (hG : ∀ e, bfs (transit m (mkEpoch (ts e) (mig e) (r e))) (encLC cinit) (fuel e) = some (G e))
    (L : ExpLaw K) (n : ℕ) (c0 : Fin D → ℕ) (hc0 : ∑ d, c0 d = ∑ d, cinit d)
    (eps : List EpochT) (dr : Reward) (sd tm : ℚ) (c : MomentCall Reward)
    (hk : 1 ≤ c.k) (hlen : ∀ rs, c.rewards = some rs → (rs.length : Int) = c.k)
    (he : 0 ≤ resolveTime .current c.endTime tm) :
    ∃ x0 : LabS (encLC (D := D)) (G 0).visited (∑ d, cinit d), cntF x0.val = c0 ∧
      momentCallK .current (codeCtx L G n c0 eps dr sd tm) c
        = .ok (if 0 < resolveTime .current c.startTime sd then
            accumulateModel (fun l => labRaw L m ts mig G cinit n x0 eps l
                (resolveTime .current c.endTime tm)) c.center c.permute
                (resolveRewardsK dr c.k c.rewards)
              - accumulateModel (fun l => labRaw L m ts mig G cinit n x0 eps l
                (resolveTime .current c.startTime sd)) c.center c.permute
                (resolveRewardsK dr c.k c.rewards)
          else
            accumulateModel (fun l => labRaw L m ts mig G cinit n x0 eps l
                (resolveTime .current c.endTime tm)) c.center c.permute
                (resolveRewardsK dr c.k c.rewards)) := by
  obtain ⟨x, hx⟩ := exists_list_cntF c0
  have hlx : x.length = ∑ d, cinit d := by rw [← hc0, ← hx, sum_cntF]
  obtain ⟨x0, hx0⟩ := exists_labInit hG x hlx
  have h0 : cntF x0.val = c0 := by rw [hx0]; exact hx
  exact ⟨x0, h0, moment_call_eq_labelled hG L n c0 x0 h0 eps dr sd tm c hk hlen he⟩

end Capstone

/-! ## E. composition with the input glue: the answer depends on the NAMES only -/

section Named
open Assembly Finset DemePerm
open Config (Input axis initFn sizesFn migFn demeIndex nOf rawDemNames ValidSetOrder Name)
variable {K : Type} [Field K] [LinearOrder K] [IsStrictOrderedRing K]

attribute [local instance] momValK

/-- user-level rewards of the single-locus lineage-counting state space: `DemeReward(name)` is
attached to the population NAME; the others do not mention populations -/
inductive NamedReward where
  | deme (p : Name)
  | treeHeight
  | totalTreeHeight
  | totalBranchLength
  | lineage (j : ℕ)
  | unit
  deriving Inhabited

/-- what the code makes of it for the configuration `I`: `DemeReward(p)._get` looks the name up on
the deme axis (`Config.demeIndex`) -/
def NamedReward.resolve (I : Input) : NamedReward → Reward
  | .deme p => .deme (demeIndex .current I p)
  | .treeHeight => .treeHeight
  | .totalTreeHeight => .totalTreeHeight
  | .totalBranchLength => .totalBranchLength
  | .lineage j => .lineage j
  | .unit => .unit

/-- the population of a `DemeReward` exists -/
def NamedReward.OnAxis (I : Input) : NamedReward → Prop
  | .deme p => p ∈ axis I
  | _ => True

theorem accumVal_cast_index {ι : Type} [Fintype ι] [DecidableEq ι] (L : ExpLaw K)
    (S : ℕ → Matrix ι ι K) (α : ι → K) (fs : List (ℕ × K)) {k k' : ℕ} (h : k' = k)
    (R : Fin k → ι → K) :
    accumVal L S R α fs = accumVal L S (fun a : Fin k' => R (Fin.cast h a)) α fs := by
  subst h; rfl

/-- `codeRaw` of a mapped tuple, indexed by the positions of the original tuple -/
theorem codeRaw_map {D : ℕ} {α : Type} (f : α → Reward) (L : ExpLaw K) (G : ℕ → Graph) (n : ℕ)
    (c0 : Fin D → ℕ) (eps : List EpochT) (l : List α) (t : ℚ) :
    codeRaw L G n c0 eps (l.map f) t
      = accumVal L (fun e => (codeMat G e).map (fun q : ℚ => (q : K)))
          (fun (a : Fin l.length) j => ((Reward.eval n (G 0).visited[j] (f l[a]) : ℚ) : K))
          (fun j => (((alphaVec (G 0).visited (List.ofFn c0) 1 0).getD j.val 0 : ℚ) : K))
          (castF (specFactors eps t)) := by
  unfold codeRaw
  rw [accumVal_cast_index L _ _ _ (List.length_map f).symm]
  congr 1
  funext a j
  simp

/-- **The raw ingredients** (generalises `config_moments_listing_order_irrelevant` from tuples of
`DemeReward`s to tuples of all named rewards): `C08_moments_named` with the permutation "match
the names" supplied by `config_listing_order_irrelevant`. -/
theorem codeRaw_named_invariant (I I' : Input)
    (hN : I.linNames.Nodup) (hV : ValidSetOrder I)
    (hN' : I'.linNames.Nodup) (hV' : ValidSetOrder I')
    (hsz : I'.sizes.Perm I.sizes) (hszk : (I.sizes.map (·.1)).Nodup)
    (hmg : I'.mig.Perm I.mig) (hmgk : (I.mig.map (·.1)).Nodup)
    (hcnt : (I'.n.toDict.filter fun e => e.2 ≠ 0).Perm (I.n.toDict.filter fun e => e.2 ≠ 0))
    (hz : ∀ p ∈ I.linNames, nOf I p = 0 → p ∈ I'.linNames ∨ p ∈ rawDemNames I.sizes I.mig)
    (hz' : ∀ p ∈ I'.linNames, nOf I' p = 0 → p ∈ I.linNames ∨ p ∈ rawDemNames I.sizes I.mig)
    {m : Model} (tsOf : ℚ → ℚ) (te : ℕ → ℚ)
    {cinit cinit' : Fin (axis I).length → ℕ} {r r' : ℕ → ℚ} {fuel fuel' : ℕ → ℕ}
    {G G' : ℕ → Graph}
    (hG : ∀ e, bfs (transit m (mkEpoch
        (fun d => tsOf (sizesFn .current I (te e) (axis I).length d))
        (migFn .current I (te e) (axis I).length) (r e))) (encLC cinit) (fuel e) = some (G e))
    (hG' : ∀ e, bfs (transit m (mkEpoch
        (fun d => tsOf (sizesFn .current I' (te e) (axis I).length d))
        (migFn .current I' (te e) (axis I).length) (r' e))) (encLC cinit') (fuel' e) = some (G' e))
    (hsum : ∑ d, cinit' d = ∑ d, cinit d)
    (L : ExpLaw K) (n : ℕ)
    (hc0 : ∑ d, initFn I (axis I).length d = ∑ d, cinit d) (eps : List EpochT)
    (nrs : List NamedReward) (hon : ∀ nr ∈ nrs, nr.OnAxis I) (t : ℚ) :
    codeRaw L G' n (initFn I' (axis I).length) eps (nrs.map (NamedReward.resolve I')) t
      = codeRaw L G n (initFn I (axis I).length) eps (nrs.map (NamedReward.resolve I)) t := by
  obtain ⟨hlen, σ, hσ, hS, hM, hI, hD⟩ := Config.config_listing_order_irrelevant I I' hN hV hN' hV'
    hsz hszk hmg hmgk hcnt hz hz'
  have hperm : ∀ nr : NamedReward, nr.OnAxis I →
      RewardPerm σ (nr.resolve I) (nr.resolve I') := by
    intro nr hnr
    cases nr with
    | deme p =>
      have hlt : (axis I).idxOf p < (axis I).length := List.idxOf_lt_length_of_mem hnr
      obtain ⟨q, hq⟩ : ∃ q : Fin (axis I).length, (axis I)[q] = p :=
        ⟨⟨(axis I).idxOf p, hlt⟩, List.getElem_idxOf hlt⟩
      show RewardPerm σ (.deme (demeIndex .current I p)) (.deme (demeIndex .current I' p))
      rw [← hq, (hD q).1, (hD q).2]
      exact RewardPerm.deme q
    | treeHeight => exact RewardPerm.treeHeight
    | totalTreeHeight => exact RewardPerm.totalTreeHeight
    | totalBranchLength => exact RewardPerm.totalBranchLength
    | lineage j => exact RewardPerm.lineage j
    | unit => exact RewardPerm.unit
  have hG'' : ∀ e, bfs (transit m (mkEpoch
      (permTs σ (fun d => tsOf (sizesFn .current I (te e) (axis I).length d)))
      (permMig σ (migFn .current I (te e) (axis I).length)) (r' e))) (encLC cinit') (fuel' e)
      = some (G' e) := fun e => by
    have := hG' e
    rw [hS, hM] at this
    exact this
  rw [codeRaw_map, codeRaw_map, hI]
  exact C08_moments_named (K := K) σ
    (ts := fun e d => tsOf (sizesFn .current I (te e) (axis I).length d))
    (mig := fun e => migFn .current I (te e) (axis I).length) hG hG'' hsum L n
    (fun a : Fin nrs.length => (nrs[a]).resolve I) (fun a => (nrs[a]).resolve I')
    (fun a => hperm _ (hon _ (List.getElem_mem a.isLt)))
    (initFn I (axis I).length) hc0 _

/-- **`moment(...)` depends on the user's input through the NAMES only.**  Two inputs `I`, `I'`
which differ by the listing order of the size / migration dicts and of the sample configuration, by
listing unsampled populations with 0 lineages or omitting them, and by the iteration order of the
Python `set` of unsampled populations (hypotheses of `config_listing_order_irrelevant`); state
spaces, rate matrices, `alpha` built from the tables the glue derives from each; rewards given by
NAME and resolved against each deme axis.  Then every call `moment(k, rewards, start_time,
end_time, center, permute)` returns the same result -- any order, any flags, any variant of the call
layer, exceptions included.
[`config_listing_order_irrelevant` + `C08_moments_named` for the raw ingredients,
`accumulateModel_map` + `accumulateModel_congr` through centring / permutation, `accumulateCallK_eq`
through the checks and the window arithmetic] -/
theorem moment_call_named_invariant (I I' : Input)
    (hN : I.linNames.Nodup) (hV : ValidSetOrder I)
    (hN' : I'.linNames.Nodup) (hV' : ValidSetOrder I')
    (hsz : I'.sizes.Perm I.sizes) (hszk : (I.sizes.map (·.1)).Nodup)
    (hmg : I'.mig.Perm I.mig) (hmgk : (I.mig.map (·.1)).Nodup)
    (hcnt : (I'.n.toDict.filter fun e => e.2 ≠ 0).Perm (I.n.toDict.filter fun e => e.2 ≠ 0))
    (hz : ∀ p ∈ I.linNames, nOf I p = 0 → p ∈ I'.linNames ∨ p ∈ rawDemNames I.sizes I.mig)
    (hz' : ∀ p ∈ I'.linNames, nOf I' p = 0 → p ∈ I.linNames ∨ p ∈ rawDemNames I.sizes I.mig)
    {m : Model} (tsOf : ℚ → ℚ) (te : ℕ → ℚ)
    {cinit cinit' : Fin (axis I).length → ℕ} {r r' : ℕ → ℚ} {fuel fuel' : ℕ → ℕ}
    {G G' : ℕ → Graph}
    (hG : ∀ e, bfs (transit m (mkEpoch
        (fun d => tsOf (sizesFn .current I (te e) (axis I).length d))
        (migFn .current I (te e) (axis I).length) (r e))) (encLC cinit) (fuel e) = some (G e))
    (hG' : ∀ e, bfs (transit m (mkEpoch
        (fun d => tsOf (sizesFn .current I' (te e) (axis I).length d))
        (migFn .current I' (te e) (axis I).length) (r' e))) (encLC cinit') (fuel' e) = some (G' e))
    (hsum : ∑ d, cinit' d = ∑ d, cinit d)
    (L : ExpLaw K) (n : ℕ)
    (hc0 : ∑ d, initFn I (axis I).length d = ∑ d, cinit d) (eps : List EpochT)
    (dr : NamedReward) (sd tm : ℚ) (v : Variant) (c : MomentCall NamedReward)
    (hdr : dr.OnAxis I) (hc : ∀ rs, c.rewards = some rs → ∀ nr ∈ rs, nr.OnAxis I) :
    momentCallK v (codeCtx L G' n (initFn I' (axis I).length) eps (dr.resolve I') sd tm)
        (mapRewards (NamedReward.resolve I') c)
      = momentCallK v (codeCtx L G n (initFn I (axis I).length) eps (dr.resolve I) sd tm)
        (mapRewards (NamedReward.resolve I) c) := by
  refine momentCallK_map v
    (codeCtx L G n (initFn I (axis I).length) eps (dr.resolve I) sd tm)
    (codeCtx L G' n (initFn I' (axis I).length) eps (dr.resolve I') sd tm)
    (NamedReward.resolve I) (NamedReward.resolve I') dr rfl rfl rfl rfl c fun l hl t => ?_
  refine codeRaw_named_invariant I I' hN hV hN' hV' hsz hszk hmg hmgk hcnt hz hz' tsOf te hG hG'
    hsum L n hc0 eps l (fun nr hnr => ?_) t
  have hmem := hl hnr
  cases hr : c.rewards with
  | none =>
    rw [hr] at hmem
    simp only [resolveRewardsK, Option.getD_none, List.mem_replicate] at hmem
    rw [hmem.2]; exact hdr
  | some rs =>
    rw [hr] at hmem
    exact hc rs hr nr hmem

/-- **Both compositions at once.**  For a well-formed call, the run on the re-listed input `I'`
returns the centring / permutation combination of the moments of the LABELLED process of the
input `I` (rewards resolved against the axis of `I`).
[`moment_call_named_invariant` then `moment_call_eq_labelled`] -/
theorem moment_call_named_eq_labelled (I I' : Input)
    (hN : I.linNames.Nodup) (hV : ValidSetOrder I)
    (hN' : I'.linNames.Nodup) (hV' : ValidSetOrder I')
    (hsz : I'.sizes.Perm I.sizes) (hszk : (I.sizes.map (·.1)).Nodup)
    (hmg : I'.mig.Perm I.mig) (hmgk : (I.mig.map (·.1)).Nodup)
    (hcnt : (I'.n.toDict.filter fun e => e.2 ≠ 0).Perm (I.n.toDict.filter fun e => e.2 ≠ 0))
    (hz : ∀ p ∈ I.linNames, nOf I p = 0 → p ∈ I'.linNames ∨ p ∈ rawDemNames I.sizes I.mig)
    (hz' : ∀ p ∈ I'.linNames, nOf I' p = 0 → p ∈ I.linNames ∨ p ∈ rawDemNames I.sizes I.mig)
    {m : Model} (tsOf : ℚ → ℚ) (te : ℕ → ℚ)
    {cinit cinit' : Fin (axis I).length → ℕ} {r r' : ℕ → ℚ} {fuel fuel' : ℕ → ℕ}
    {G G' : ℕ → Graph}
    (hG : ∀ e, bfs (transit m (mkEpoch
        (fun d => tsOf (sizesFn .current I (te e) (axis I).length d))
        (migFn .current I (te e) (axis I).length) (r e))) (encLC cinit) (fuel e) = some (G e))
    (hG' : ∀ e, bfs (transit m (mkEpoch
        (fun d => tsOf (sizesFn .current I' (te e) (axis I).length d))
        (migFn .current I' (te e) (axis I).length) (r' e))) (encLC cinit') (fuel' e) = some (G' e))
    (hsum : ∑ d, cinit' d = ∑ d, cinit d)
    (L : ExpLaw K) (n : ℕ)
    (hc0 : ∑ d, initFn I (axis I).length d = ∑ d, cinit d) (eps : List EpochT)
    (x0 : LabS (encLC (D := (axis I).length)) (G 0).visited (∑ d, cinit d))
    (hx0 : cntF x0.val = initFn I (axis I).length)
    (dr : NamedReward) (sd tm : ℚ) (c : MomentCall NamedReward)
    (hdr : dr.OnAxis I) (hc : ∀ rs, c.rewards = some rs → ∀ nr ∈ rs, nr.OnAxis I)
    (hk : 1 ≤ c.k) (hlen : ∀ rs, c.rewards = some rs → (rs.length : Int) = c.k)
    (he : 0 ≤ resolveTime .current c.endTime tm) :
    momentCallK .current (codeCtx L G' n (initFn I' (axis I).length) eps (dr.resolve I') sd tm)
        (mapRewards (NamedReward.resolve I') c)
      = .ok (if 0 < resolveTime .current c.startTime sd then
          accumulateModel (fun l => labRaw L m
              (fun e d => tsOf (sizesFn .current I (te e) (axis I).length d))
              (fun e => migFn .current I (te e) (axis I).length) G cinit n x0 eps l
              (resolveTime .current c.endTime tm)) c.center c.permute
              ((resolveRewardsK dr c.k c.rewards).map (NamedReward.resolve I))
            - accumulateModel (fun l => labRaw L m
              (fun e d => tsOf (sizesFn .current I (te e) (axis I).length d))
              (fun e => migFn .current I (te e) (axis I).length) G cinit n x0 eps l
              (resolveTime .current c.startTime sd)) c.center c.permute
              ((resolveRewardsK dr c.k c.rewards).map (NamedReward.resolve I))
        else
          accumulateModel (fun l => labRaw L m
              (fun e d => tsOf (sizesFn .current I (te e) (axis I).length d))
              (fun e => migFn .current I (te e) (axis I).length) G cinit n x0 eps l
              (resolveTime .current c.endTime tm)) c.center c.permute
              ((resolveRewardsK dr c.k c.rewards).map (NamedReward.resolve I))) := by
  rw [moment_call_named_invariant I I' hN hV hN' hV' hsz hszk hmg hmgk hcnt hz hz' tsOf te hG hG'
    hsum L n hc0 eps dr sd tm .current c hdr hc]
  have hlen' : ∀ rs, (mapRewards (NamedReward.resolve I) c).rewards = some rs →
      (rs.length : Int) = (mapRewards (NamedReward.resolve I) c).k := by
    intro rs h
    simp only [mapRewards, Option.map_eq_some_iff] at h
    obtain ⟨rs0, h0, rfl⟩ := h
    simpa [mapRewards] using hlen rs0 h0
  have := moment_call_eq_labelled
    (ts := fun e d => tsOf (sizesFn .current I (te e) (axis I).length d))
    (mig := fun e => migFn .current I (te e) (axis I).length) hG L n
    (initFn I (axis I).length) x0 hx0 eps (dr.resolve I) sd tm
    (mapRewards (NamedReward.resolve I) c) hk hlen' he
  rw [this]
  simp only [mapRewards, resolveRewardsK_map]

end Named

/-! ## F. a closed instance: the hypotheses of the capstone are satisfiable -/

section Instance
open Assembly Finset

attribute [local instance] momValK

/-- one deme, Kingman, population size 1, no migration, no recombination -/
def exStep : State → Targets :=
  transit .kingman (mkEpoch (D := 1) (fun _ => 1) (fun _ _ => 0) 0)

/-- the graph which `get_transitions` finds from the state "2 lineages in the deme" -/
def exG : Graph := (bfs exStep (encLC (D := 1) fun _ => 2) 5).getD default

theorem exG_spec : bfs exStep (encLC (D := 1) fun _ => 2) 5 = some exG := by
  have h : (bfs exStep (encLC (D := 1) fun _ => 2) 5).isSome = true := by decide +kernel
  unfold exG
  cases hb : bfs exStep (encLC (D := 1) fun _ => 2) 5 with
  | none => rw [hb] at h; cases h
  | some g => rfl

/-- the search finds the two states `2 lineages`, `1 lineage` and the single coalescence at rate 1 -/
theorem exG_eq :
    exG.visited = [encLC (D := 1) (fun _ => 2), encLC (D := 1) (fun _ => 1)] ∧
    exG.transitions = [((encLC (D := 1) (fun _ => 2), encLC (D := 1) (fun _ => 1)), 1)] := by
  decide +kernel

/-- **Non-vacuity of the capstone** (n = 2, one deme, Kingman, one epoch `[0, ∞)`, the REAL matrix
exponential): the variance of the tree height up to the horizon `tm`, asked for as
`moment(2, rewards=None, start_time=0, end_time=None, center=True, permute=True)`, is returned
without exception and equals the centred second moment of the labelled process started with
both labelled lineages in the deme. -/
theorem capstone_instance (sd tm : ℚ) (htm : 0 ≤ tm) :
    ∃ x0 : LabS (encLC (D := 1)) ((fun _ : ℕ => exG) 0).visited (∑ _d : Fin 1, 2),
      x0.val = [0, 0] ∧
      momentCallK .current
          (codeCtx realExpLaw (fun _ => exG) 2 (cntF ([0, 0] : List (Fin 1)))
            [{ start := 0, stop := none }] .treeHeight sd tm)
          ⟨2, none, some 0, none, true, true⟩
        = .ok (accumulateModel
            (fun l => labRaw realExpLaw .kingman (fun _ _ => 1) (fun _ _ _ => 0) (fun _ => exG)
              (fun _ => 2) 2 x0 [{ start := 0, stop := none }] l tm)
            true true [.treeHeight, .treeHeight]) := by
  have hG : ∀ e : ℕ, bfs (transit .kingman (mkEpoch (D := 1) ((fun _ _ => 1) e)
      ((fun _ _ _ => 0) e) ((fun _ => 0) e))) (encLC (D := 1) fun _ => 2) ((fun _ => 5) e)
      = some ((fun _ => exG) e) := fun _ => exG_spec
  obtain ⟨x0, hx0⟩ := exists_labInit hG ([0, 0] : List (Fin 1)) (by simp)
  refine ⟨x0, hx0, ?_⟩
  have := moment_call_eq_labelled hG realExpLaw 2 (cntF ([0, 0] : List (Fin 1))) x0
    (by rw [hx0]) [{ start := 0, stop := none }] .treeHeight sd tm
    ⟨2, none, some 0, none, true, true⟩ (by decide) (by intro rs h; cases h)
    (by simpa [resolveTime] using htm)
  rw [this]
  simp [resolveTime, resolveRewardsK]

/-! ### a closed instance of the hypotheses of `moment_call_named_invariant` -/

/-- `n = {'a': 1, 'b': 1}`, `pop_sizes = {'a': 1, 'b': 2}`, `migration_rates = {('a','b'): 1/2}` -/
def exI : Config.Input where
  n := .dict [("a", 1), ("b", 1)]
  sizes := [("a", [(0, 1)]), ("b", [(0, 2)])]
  mig := [(("a", "b"), [(0, 1/2)])]
  setOrder := []

/-- the same, every dict listed in the other order -/
def exI' : Config.Input where
  n := .dict [("b", 1), ("a", 1)]
  sizes := [("b", [(0, 2)]), ("a", [(0, 1)])]
  mig := [(("a", "b"), [(0, 1/2)])]
  setOrder := []

/-- `transit` with the tables the glue derives from the input `J` (time scale = size: Kingman) -/
def exStepI (J : Config.Input) : State → Targets :=
  transit .kingman (mkEpoch (D := (Config.axis exI).length)
    (fun d => Config.sizesFn .current J 0 (Config.axis exI).length d)
    (Config.migFn .current J 0 (Config.axis exI).length) 0)

def exGI (J : Config.Input) : Graph :=
  (bfs (exStepI J) (encLC (Config.initFn J (Config.axis exI).length)) 10).getD default

theorem exGI_spec (J : Config.Input)
    (h : (bfs (exStepI J) (encLC (Config.initFn J (Config.axis exI).length)) 10).isSome = true) :
    bfs (exStepI J) (encLC (Config.initFn J (Config.axis exI).length)) 10 = some (exGI J) := by
  unfold exGI
  cases hb : bfs (exStepI J) (encLC (Config.initFn J (Config.axis exI).length)) 10 with
  | none => rw [hb] at h; cases h
  | some g => rfl

/-- the two runs have differently ordered deme axes; both find five states, and the SAME state
list carries different rates (e.g. the state `[0, 2]` is "two lineages in `b`" (size 2, rate 1/2)
in the first run and "two lineages in `a`" (size 1, rate 1) in the second) -/
theorem exGI_facts :
    Config.axis exI = ["a", "b"] ∧ Config.axis exI' = ["b", "a"] ∧
    (exGI exI).visited.length = 5 ∧ (exGI exI).visited = (exGI exI').visited ∧
    (exGI exI).transitions ≠ (exGI exI').transitions := by
  decide +kernel

/-- **Non-vacuity of `moment_call_named_invariant`**: all its hypotheses hold for the pair
`exI`, `exI'`; e.g. the centred cross moment of `DemeReward('a')` and the tree height is the same
for both listings, for every `ExpLaw`, every epoch list, every variant of the call layer. -/
theorem named_invariant_instance {K : Type} [Field K] [LinearOrder K] [IsStrictOrderedRing K]
    (L : ExpLaw K) (n : ℕ) (eps : List EpochT) (sd tm : ℚ) (v : Variant) :
    momentCallK v (codeCtx L (fun _ => exGI exI') n
          (Config.initFn exI' (Config.axis exI).length) eps
          (NamedReward.resolve exI' .treeHeight) sd tm)
        (mapRewards (NamedReward.resolve exI')
          ⟨2, some [.deme "a", .treeHeight], none, none, true, true⟩)
      = momentCallK v (codeCtx L (fun _ => exGI exI) n
          (Config.initFn exI (Config.axis exI).length) eps
          (NamedReward.resolve exI .treeHeight) sd tm)
        (mapRewards (NamedReward.resolve exI)
          ⟨2, some [.deme "a", .treeHeight], none, none, true, true⟩) := by
  refine moment_call_named_invariant exI exI' (by decide) ((Config.validSetOrder_iff _).1 (by decide))
    (by decide) ((Config.validSetOrder_iff _).1 (by decide))
    (List.Perm.swap _ _ []) (by decide) (List.Perm.refl _) (by decide)
    (List.Perm.swap _ _ []) (by decide) (by decide) (m := .kingman) id (fun _ => 0)
    (cinit := Config.initFn exI (Config.axis exI).length)
    (cinit' := Config.initFn exI' (Config.axis exI).length)
    (r := fun _ => 0) (r' := fun _ => 0) (fuel := fun _ => 10) (fuel' := fun _ => 10)
    (fun _ => exGI_spec exI (by decide +kernel)) (fun _ => exGI_spec exI' (by decide +kernel))
    (by decide +kernel) L n rfl eps .treeHeight sd tm v _ trivial ?_
  intro rs hrs nr hnr
  cases hrs
  simp only [List.mem_cons, List.not_mem_nil, or_false] at hnr
  rcases hnr with rfl | rfl
  · show "a" ∈ Config.axis exI
    decide
  · trivial

end Instance

end EndToEnd
end PG

#print axioms PG.EndToEnd.accumulateModel_congr
#print axioms PG.EndToEnd.accumulateModel_map
#print axioms PG.EndToEnd.accumulateModel_inhabited_irrel
#print axioms PG.EndToEnd.accumulateCallK_rat
#print axioms PG.EndToEnd.momentCallK_rat
#print axioms PG.EndToEnd.accumulateCallK_eq
#print axioms PG.EndToEnd.accumulateCallK_map
#print axioms PG.EndToEnd.momentCallK_map
#print axioms PG.EndToEnd.raw_of_code
#print axioms PG.EndToEnd.codeRaw_eq_labRaw
#print axioms PG.EndToEnd.momentCallK_code_eq_lab
#print axioms PG.EndToEnd.accAtK_code_eq_labelled
#print axioms PG.EndToEnd.accumulate_call_vector_eq_labelled
#print axioms PG.EndToEnd.accumulate_call_entry_eq_labelled
#print axioms PG.EndToEnd.moment_call_eq_labelled
#print axioms PG.EndToEnd.moment_call_eq_labelled_exists
#print axioms PG.EndToEnd.codeRaw_named_invariant
#print axioms PG.EndToEnd.moment_call_named_invariant
#print axioms PG.EndToEnd.moment_call_named_eq_labelled
#print axioms PG.EndToEnd.exGI_facts
#print axioms PG.EndToEnd.exG_spec
#print axioms PG.EndToEnd.exG_eq
#print axioms PG.EndToEnd.capstone_instance
#print axioms PG.EndToEnd.named_invariant_instance
