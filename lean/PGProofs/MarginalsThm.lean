/-
PGProofs.MarginalsThm — C12 / C06 at the level where the observables are ASSEMBLED
(`PGModel/Marginals.lean`, mirror of `MarginalDemeDistributions` / `MarginalLocusDistributions`,
`phasegen/distributions.py` l.162–385).

Value type.  The raw moment functional is `raw : List Reward → K` for ANY field `K` of characteristic
zero whose `MomVal` operations are the field operations (`LawfulMomVal`): `K = ℚ` with the instance of
`PGModel/Moments.lean` (the driver), and every `K` with `EndToEnd.momValK K` (the field of an `ExpLaw`,
`ℝ` for `realExpLaw`: the code model's functional `EndToEnd.codeRaw`).

A. closed forms of `moment` at orders 1 and 2 (`moment_one`, `moment_two`, `moment_two_noperm`).
B. for the variant `current` and ANY `raw` (no hypothesis; this is the symmetry of the permutation
   average, `accumulate_perm` / `accumulate_swap` of `MomentsThm` at `K = ℚ`):
   `getCov_symm`, `cov_diag_eq_margVar`, `covMatrix_current` (the guards never fire on the matrix),
   `cov_matrix_entry` (TRANSPOSE layout: `cov[i][j] = get_cov(j, i)`), `cov_matrix_symm`,
   `cov_matrix_entry'` (so `cov[i][j] = get_cov(i, j)` as well), `cov_matrix_diag`.
C. `SlotAdditiveOn n S raw`: `raw` reads a reward only through its values on the states in `S` and is
   additive in every slot w.r.t. pointwise sums.  `IsPartition`: the part rewards sum to the reward of
   the distribution on every state of `S`.  `mean_sum_eq_mean`, `cov_sum_eq_var`,
   `cov_matrix_sum_eq_var`; `isPartition_demes` (`deme_prod_sum`), `isPartition_loci_tbl`
   (`tbl_eq_sum_tblLocus`, `combined_tbl_locus`).
D. correlations: `getCorr_eq` (normal form), `corr_is_normalised_cov`
   (`corr² · var_a · var_b = cov²`, `corr · (sd_a · sd_b) = cov`), `corr_diag_one`, `getCorr_symm`,
   `getCorr_zeroDivision`, `getCorr_valueError`, `corrMatrix_current`.
E. `empty_part_zero`: a part whose reward kills `raw` (`KillsPart`; from `SlotAdditiveOn` when the
   reward vanishes on every state, `killsPart_of_vanishing`, `deme_part_vanishes`; for the code's
   functional from `Corollaries.C12_lineage_code`, `codeRaw_killsPart`) has mean 0, variance 0 and
   zero covariances with every part.
F. the hypothesis is met: `matRaw` (`accumVal` of the reward vectors of a tuple over any enumerated
   state list, any generators, any `ExpLaw`) is `SlotAdditiveOn` (`accumVal_update_sum`, i.e.
   `accumVal_slot_linear`); `EndToEnd.codeRaw` (one locus) and `EndToEnd.codeRaw2` (two loci) ARE
   `matRaw`s (`codeRaw_eq_matRaw`, `codeRaw2_eq_matRaw`, `rfl`); `code_deme_marginals`,
   `code2_loci_tbl_marginals`, `mat_deme_marginals`, `mat_loci_tbl_marginals`: B–C composed for the
   code's functionals.
G. kernel-checked instances: each of the three variants violates its theorem on a concrete `raw`
   (Green-matrix moments of a 3-state chain, rewards read by `Reward.eval` on concrete states) on which
   `current` satisfies all of them.

NOT proved here: `|corr| ≤ 1` and positive semi-definiteness of `cov` (they need the probabilistic
reading of `raw`, not its algebra); the locus means of the TREE HEIGHT do not sum to its mean (no
such identity holds) — `isPartition_loci_tbl` is for the total branch length only.
-/
import PGProofs.EndToEnd
import PGProofs.EndToEnd2
import PGProofs.Conservation
import PGProofs.Corollaries
import PGModel.Marginals

set_option linter.unusedSectionVars false
set_option linter.unusedVariables false
set_option linter.unusedSimpArgs false
set_option linter.unnecessarySeqFocus false

namespace PG
namespace Marginals

open Finset

/-- the `MomVal` operations of `K` are the field operations -/
class LawfulMomVal (K : Type) [Field K] [MomVal K] : Prop where
  zero_eq : (MomVal.zero : K) = 0
  one_eq : (MomVal.one : K) = 1
  add_eq : ∀ a b : K, MomVal.add a b = a + b
  mul_eq : ∀ a b : K, MomVal.mul a b = a * b
  smul_eq : ∀ (c : ℚ) (a : K), MomVal.smul c a = (c : K) * a

/-- the instance of `PGModel/Moments.lean` (the driver's value type) -/
instance : LawfulMomVal ℚ := ⟨rfl, rfl, fun _ _ => rfl, fun _ _ => rfl, fun c a => by simp⟩

/-- the value type of the code model's moments (`EndToEnd.momValK`) -/
instance lawful_momValK (K : Type) [Field K] : @LawfulMomVal K _ (EndToEnd.momValK K) :=
  @LawfulMomVal.mk K _ (EndToEnd.momValK K) rfl rfl (fun _ _ => rfl) (fun _ _ => rfl)
    (fun _ _ => rfl)

/-! ## A. closed forms -/

section Closed
variable {K : Type} [Field K] [CharZero K] [MomVal K] [LawfulMomVal K]

open LawfulMomVal in
/-- order 1: `moment(k=1, rewards=(r,))` is the raw first moment, whatever `center` / `permute` -/
theorem moment_one (raw : List Reward → K) (c p : Bool) (r : Reward) :
    moment raw [r] c p = raw [r] := by
  cases c <;> cases p <;>
  simp [moment, accumulateModel, uncentred, permuted, perms, insertEverywhere, sumV, factorial,
    zero_eq, one_eq, add_eq, mul_eq, smul_eq]

open LawfulMomVal in
/-- order 2, `center=True, permute=True`: symmetrised raw second moment minus product of the means -/
theorem moment_two (raw : List Reward → K) (a b : Reward) :
    moment raw [a, b] true true = (raw [a, b] + raw [b, a]) / 2 - raw [a] * raw [b] := by
  simp [moment, accumulateModel, uncentred, permuted, perms, insertEverywhere, combinations,
    List.range_succ, sumV, prodV, factorial, zero_eq, one_eq, add_eq, mul_eq, smul_eq]
  ring

open LawfulMomVal in
/-- order 2, `center=True, permute=False`: ORDERED raw second moment minus product of the means -/
theorem moment_two_noperm (raw : List Reward → K) (a b : Reward) :
    moment raw [a, b] true false = raw [a, b] - raw [a] * raw [b] := by
  simp [moment, accumulateModel, uncentred, permuted, perms, insertEverywhere, combinations,
    List.range_succ, sumV, prodV, factorial, zero_eq, one_eq, add_eq, mul_eq, smul_eq]
  ring

theorem distMean_eq (raw : List Reward → K) (r : Reward) : distMean raw r = raw [r] :=
  moment_one raw true true r

theorem distVar_eq (raw : List Reward → K) (r : Reward) :
    distVar raw r = raw [r, r] - raw [r] ^ 2 := by
  unfold distVar
  rw [moment_two]; ring

theorem margMean_eq (raw : List Reward → K) (r : Reward) (k : Kind) (i : ℕ) :
    margMean raw r k i = raw [subReward r k i] := distMean_eq raw _

theorem margVar_eq (raw : List Reward → K) (r : Reward) (k : Kind) (i : ℕ) :
    margVar raw r k i = raw [subReward r k i, subReward r k i] - raw [subReward r k i] ^ 2 :=
  distVar_eq raw _

/-! ## B. `get_cov`, `cov` for the current code: symmetry, diagonal, layout -/

/-- `get_cov` of the current code behind its guard: `moment(k=2, …, center=True)` with `permute=True` -/
theorem covCore_current (d : Dist) (raw : List Reward → K) (k : Kind) (a b : ℕ) :
    covCore .current d raw k a b
      = moment raw [subReward d.reward k a, subReward d.reward k b] true true := by
  simp [covCore, covPermute]

theorem covCore_current_eq (d : Dist) (raw : List Reward → K) (k : Kind) (a b : ℕ) :
    covCore .current d raw k a b
      = (raw [subReward d.reward k a, subReward d.reward k b]
          + raw [subReward d.reward k b, subReward d.reward k a]) / 2
        - raw [subReward d.reward k a] * raw [subReward d.reward k b] := by
  rw [covCore_current, moment_two]

theorem covCore_symm (d : Dist) (raw : List Reward → K) (k : Kind) (a b : ℕ) :
    covCore .current d raw k a b = covCore .current d raw k b a := by
  rw [covCore_current_eq, covCore_current_eq]; ring

/-- **`get_cov(a, b) = get_cov(b, a)`** for every `raw` (results AND exceptions). -/
theorem getCov_symm (d : Dist) (raw : List Reward → K) (k : Kind) (a b : ℕ) :
    getCov .current d raw k a b = getCov .current d raw k b a := by
  unfold getCov
  rw [covCore_symm d raw k a b]
  by_cases ha : a < d.size k <;> by_cases hb : b < d.size k <;> simp [ha, hb]

/-- the same at `K = ℚ` from `MomentsThm.accumulate_swap` (= `accumulate_perm` on a pair): the
symmetry is that of the permutation average, for the centred moment of any order -/
theorem covCore_symm_rat (d : Dist) (raw : List Reward → ℚ) (k : Kind) (a b : ℕ) :
    covCore .current d raw k a b = covCore .current d raw k b a := by
  rw [covCore_current, covCore_current]
  exact accumulate_swap raw true _ _

/-- **`get_cov(i, i)` is the variance of sub-distribution `i`** -/
theorem cov_diag_eq_margVar (d : Dist) (raw : List Reward → K) (k : Kind) (a : ℕ)
    (ha : a < d.size k) :
    getCov .current d raw k a a = .ok (margVar raw d.reward k a) := by
  simp [getCov, ha, covCore_current, margVar, distVar]

theorem getCov_ok (v : Variant) (d : Dist) (raw : List Reward → K) (k : Kind) (a b : ℕ)
    (ha : a < d.size k) (hb : b < d.size k) :
    getCov v d raw k a b = .ok (covCore v d raw k a b) := by
  simp [getCov, ha, hb]

/-- the `ValueError` guard -/
theorem getCov_valueError (v : Variant) (d : Dist) (raw : List Reward → K) (k : Kind) (a b : ℕ)
    (h : ¬ (a < d.size k ∧ b < d.size k)) :
    getCov v d raw k a b = .error .valueError := by
  simp only [getCov, h, if_false]

end Closed

theorem mapM_ok {ε α β : Type} (f : α → Except ε β) (g : α → β) :
    ∀ (l : List α), (∀ x ∈ l, f x = .ok (g x)) → l.mapM f = .ok (l.map g)
  | [], _ => rfl
  | x :: xs, h => by
    rw [List.mapM_cons, h x List.mem_cons_self,
      mapM_ok f g xs (fun y hy => h y (List.mem_cons_of_mem _ hy))]
    rfl

theorem entry_tabulate {V : Type} [MomVal V] (n : ℕ) (f : ℕ → ℕ → V) (i j : ℕ) (hi : i < n)
    (hj : j < n) :
    entry ((List.range n).map fun p2 => (List.range n).map fun p1 => f p1 p2) i j = f j i := by
  simp [entry, List.getD_eq_getElem?_getD, hi, hj]

section Matrix
variable {K : Type} [Field K] [CharZero K] [MomVal K] [LawfulMomVal K]

/-- **the covariance matrix of the current code**: no guard fires; row `p2`, column `p1` holds
`get_cov(p1, p2)`. -/
theorem covMatrix_current (d : Dist) (raw : List Reward → K) (k : Kind) :
    covMatrix .current d raw k
      = .ok ((List.range (d.size k)).map fun p2 => (List.range (d.size k)).map fun p1 =>
          covCore .current d raw k p1 p2) := by
  unfold covMatrix
  simp only [bind, Except.bind]
  rw [mapM_ok _ (fun p2 => (List.range (d.size k)).map fun p1 => covCore .current d raw k p1 p2)]
  · simp [pure, Except.pure]
  · intro p2 h2
    refine mapM_ok _ _ _ fun p1 h1 => ?_
    exact getCov_ok _ _ _ _ _ _ (List.mem_range.mp h1) (List.mem_range.mp h2)

/-- TRANSPOSE layout: `cov[i][j] = get_cov(j, i)` -/
theorem cov_matrix_entry (d : Dist) (raw : List Reward → K) (k : Kind) (M : List (List K))
    (hM : covMatrix .current d raw k = .ok M) (i j : ℕ) (hi : i < d.size k) (hj : j < d.size k) :
    entry M i j = covCore .current d raw k j i := by
  rw [covMatrix_current] at hM
  injection hM with hM
  rw [← hM, entry_tabulate _ _ _ _ hi hj]

/-- … which is harmless: `cov[i][j] = get_cov(i, j)` as well -/
theorem cov_matrix_entry' (d : Dist) (raw : List Reward → K) (k : Kind) (M : List (List K))
    (hM : covMatrix .current d raw k = .ok M) (i j : ℕ) (hi : i < d.size k) (hj : j < d.size k) :
    entry M i j = covCore .current d raw k i j := by
  rw [cov_matrix_entry d raw k M hM i j hi hj, covCore_symm]

/-- **`cov` is symmetric** -/
theorem cov_matrix_symm (d : Dist) (raw : List Reward → K) (k : Kind) (M : List (List K))
    (hM : covMatrix .current d raw k = .ok M) (i j : ℕ) (hi : i < d.size k) (hj : j < d.size k) :
    entry M i j = entry M j i := by
  rw [cov_matrix_entry d raw k M hM i j hi hj, cov_matrix_entry' d raw k M hM j i hj hi]

/-- **the diagonal of `cov` holds the marginal variances** -/
theorem cov_matrix_diag (d : Dist) (raw : List Reward → K) (k : Kind) (M : List (List K))
    (hM : covMatrix .current d raw k = .ok M) (i : ℕ) (hi : i < d.size k) :
    entry M i i = margVar raw d.reward k i := by
  rw [cov_matrix_entry d raw k M hM i i hi hi, covCore_current]
  rfl

theorem covMatrix_shape (d : Dist) (raw : List Reward → K) (k : Kind) (M : List (List K))
    (hM : covMatrix .current d raw k = .ok M) :
    M.length = d.size k ∧ ∀ row ∈ M, row.length = d.size k := by
  rw [covMatrix_current] at hM
  injection hM with hM
  subst hM
  refine ⟨by simp, ?_⟩
  intro row hrow
  obtain ⟨p2, _, rfl⟩ := List.mem_map.mp hrow
  simp

end Matrix

/-! ## C. the parts decompose the total -/

section Sums
variable {K : Type} [Field K] [CharZero K] [MomVal K] [LawfulMomVal K]

/-- **The hypothesis on `raw`.**  `raw` reads a reward only through its values on the states in `S`
(`n` is `lineage_config.n`, the parameter of `Reward.eval`) and is additive in every slot with
respect to pointwise sums of rewards: if `r = Σ_{i<m} p i` on every state of `S`, then
`raw (… r …) = Σ_{i<m} raw (… p i …)`.  (`m = 1`: extensionality; `m = 0`: a reward vanishing on `S`
kills the moment; `p = ![a, b]`, `r = Reward.sum [a, b]`: `MomentsThm.SlotAdditive`.) -/
def SlotAdditiveOn (n : ℕ) (S : State → Prop) (raw : List Reward → K) : Prop :=
  ∀ (l₁ l₂ : List Reward) (r : Reward) (m : ℕ) (p : ℕ → Reward),
    (∀ s, S s → Reward.eval n s r = ∑ i ∈ range m, Reward.eval n s (p i)) →
    raw (l₁ ++ r :: l₂) = ∑ i ∈ range m, raw (l₁ ++ p i :: l₂)

omit [CharZero K] [MomVal K] [LawfulMomVal K] in
theorem SlotAdditiveOn.mono {n : ℕ} {S S' : State → Prop} {raw : List Reward → K}
    (h : SlotAdditiveOn n S raw) (hSS : ∀ s, S s → S' s) : SlotAdditiveOn n S' raw :=
  fun l₁ l₂ r m p hp => h l₁ l₂ r m p fun s hs => hp s (hSS s hs)

omit [CharZero K] [MomVal K] [LawfulMomVal K] in
/-- extensionality on `S` -/
theorem SlotAdditiveOn.congr {n : ℕ} {S : State → Prop} {raw : List Reward → K}
    (h : SlotAdditiveOn n S raw) (l₁ l₂ : List Reward) (r r' : Reward)
    (hr : ∀ s, S s → Reward.eval n s r = Reward.eval n s r') :
    raw (l₁ ++ r :: l₂) = raw (l₁ ++ r' :: l₂) := by
  have := h l₁ l₂ r 1 (fun _ => r') (fun s hs => by simpa using hr s hs)
  simpa using this

omit [CharZero K] [MomVal K] [LawfulMomVal K] in
/-- a reward vanishing on `S` kills the moment -/
theorem SlotAdditiveOn.zero {n : ℕ} {S : State → Prop} {raw : List Reward → K}
    (h : SlotAdditiveOn n S raw) (l₁ l₂ : List Reward) (r : Reward)
    (hr : ∀ s, S s → Reward.eval n s r = 0) : raw (l₁ ++ r :: l₂) = 0 := by
  have := h l₁ l₂ r 0 (fun _ => r) (fun s hs => by simpa using hr s hs)
  simpa using this

/-- at `K = ℚ` the hypothesis contains `MomentsThm.SlotAdditive` for the formal sum
`Reward.sum [a, b]` of two rewards -/
theorem SlotAdditiveOn.slotAdditive {n : ℕ} {S : State → Prop} {raw : List Reward → ℚ}
    (h : SlotAdditiveOn n S raw) : SlotAdditive (fun a b => Reward.sum [a, b]) raw := by
  intro l₁ a b l₂
  have := h l₁ l₂ (.sum [a, b]) 2 (fun i => if i = 0 then a else b) (fun s _ => by
    simp [Reward.eval, Reward.evalSum, Finset.sum_range_succ])
  simpa [Finset.sum_range_succ] using this

/-- the part rewards sum to the reward of the distribution on every state of `S` -/
def IsPartition (n : ℕ) (S : State → Prop) (d : Dist) (k : Kind) : Prop :=
  ∀ s, S s → Reward.eval n s d.reward
    = ∑ i ∈ range (d.size k), Reward.eval n s (subReward d.reward k i)

omit [CharZero K] [MomVal K] [LawfulMomVal K] in
theorem raw_one_sum {n : ℕ} {S : State → Prop} {raw : List Reward → K}
    (h : SlotAdditiveOn n S raw) (r : Reward) (m : ℕ) (p : ℕ → Reward)
    (hp : ∀ s, S s → Reward.eval n s r = ∑ i ∈ range m, Reward.eval n s (p i)) :
    raw [r] = ∑ i ∈ range m, raw [p i] := by
  simpa using h [] [] r m p hp

omit [CharZero K] [MomVal K] [LawfulMomVal K] in
theorem raw_two_sum {n : ℕ} {S : State → Prop} {raw : List Reward → K}
    (h : SlotAdditiveOn n S raw) (r : Reward) (m : ℕ) (p : ℕ → Reward)
    (hp : ∀ s, S s → Reward.eval n s r = ∑ i ∈ range m, Reward.eval n s (p i)) :
    raw [r, r] = ∑ i ∈ range m, ∑ j ∈ range m, raw [p i, p j] := by
  have h1 : raw [r, r] = ∑ i ∈ range m, raw [p i, r] := by simpa using h [] [r] r m p hp
  rw [h1]
  refine sum_congr rfl fun i _ => ?_
  simpa using h [p i] [] r m p hp

/-- **per-part means sum to the mean** -/
theorem mean_sum_eq_mean {n : ℕ} {S : State → Prop} {raw : List Reward → K} (d : Dist) (k : Kind)
    (h : SlotAdditiveOn n S raw) (hp : IsPartition n S d k) :
    ∑ i ∈ range (d.size k), margMean raw d.reward k i = distMean raw d.reward := by
  simp only [margMean_eq, distMean_eq]
  exact (raw_one_sum h d.reward (d.size k) (subReward d.reward k) hp).symm

/-- **the entries of `get_cov` sum to the variance** -/
theorem cov_sum_eq_var {n : ℕ} {S : State → Prop} {raw : List Reward → K} (d : Dist) (k : Kind)
    (h : SlotAdditiveOn n S raw) (hp : IsPartition n S d k) :
    ∑ a ∈ range (d.size k), ∑ b ∈ range (d.size k), covCore .current d raw k a b
      = distVar raw d.reward := by
  simp only [covCore_current_eq]
  rw [distVar_eq, raw_two_sum h d.reward (d.size k) (subReward d.reward k) hp,
    raw_one_sum h d.reward (d.size k) (subReward d.reward k) hp]
  simp only [sum_sub_distrib, sum_add_distrib, ← sum_div]
  rw [sum_comm (f := fun a b => raw [subReward d.reward k b, subReward d.reward k a]), sq,
    sum_mul_sum]
  ring

theorem list_sum_map_range {M : Type} [AddCommMonoid M] (n : ℕ) (g : ℕ → M) :
    ((List.range n).map g).sum = ∑ i ∈ range n, g i := by
  induction n with
  | zero => simp
  | succ n ih => simp [List.range_succ, Finset.sum_range_succ, ih]

/-- **`cov.sum()` is the variance** -/
theorem cov_matrix_sum_eq_var {n : ℕ} {S : State → Prop} {raw : List Reward → K} (d : Dist)
    (k : Kind) (h : SlotAdditiveOn n S raw) (hp : IsPartition n S d k) (M : List (List K))
    (hM : covMatrix .current d raw k = .ok M) :
    (M.map List.sum).sum = distVar raw d.reward := by
  rw [covMatrix_current] at hM
  injection hM with hM
  subst hM
  rw [List.map_map, list_sum_map_range]
  simp only [Function.comp, list_sum_map_range]
  rw [sum_comm]
  exact cov_sum_eq_var d k h hp

/-- **`sum(dist.demes[p].mean for p) = dist.mean`** as lists -/
theorem meanVector_sum {n : ℕ} {S : State → Prop} {raw : List Reward → K} (d : Dist) (k : Kind)
    (h : SlotAdditiveOn n S raw) (hp : IsPartition n S d k) :
    (meanVector d raw k).sum = distMean raw d.reward := by
  unfold meanVector
  rw [list_sum_map_range]
  exact mean_sum_eq_mean d k h hp

end Sums

/-! ### the two partitions -/

theorem combine_deme (r : Reward) (i : ℕ) :
    combineRewards 2 [r, .deme i] = [r, .deme i] := by
  cases r <;> rfl

/-- `CombinedReward([r, DemeReward(p)])` is the product, for every `r` -/
theorem eval_sub_deme (n : ℕ) (s : State) (r : Reward) (i : ℕ) :
    Reward.eval n s (subReward r .demes i) = Reward.eval n s r * Reward.eval n s (.deme i) := by
  show Reward.eval n s (.prod (combineRewards 2 [r, .deme i])) = _
  rw [combine_deme, eval_prod_pair]

/-- the shape of the states of a `D`-deme state space: at least one lineage, `D` demes at every
locus -/
def DemeShape (D : ℕ) (s : State) : Prop :=
  0 < s.total ∧ ∀ l < s.nLoci, (s.lin.getD l []).length = D

/-- **demes partition every reward** (`RewardsThm.deme_prod_sum`, i.e. `deme_rewards_sum_one`) -/
theorem isPartition_demes (n : ℕ) (S : State → Prop) (d : Dist)
    (hS : ∀ s, S s → DemeShape d.nDemes s) : IsPartition n S d .demes := by
  intro s hs
  obtain ⟨hpos, hD⟩ := hS s hs
  simp only [eval_sub_deme]
  have := deme_prod_sum n s d.nDemes d.reward hpos hD
  simp only [eval_prod_pair] at this
  exact this.symm

/-- **loci partition the total branch length** (`RewardsThm.tbl_eq_sum_tblLocus`,
`combined_tbl_locus`) -/
theorem isPartition_loci_tbl (n : ℕ) (S : State → Prop) (d : Dist)
    (hr : d.reward = .totalBranchLength) (hS : ∀ s, S s → s.nLoci = d.nLoci) :
    IsPartition n S d .loci := by
  intro s hs
  rw [hr, tbl_eq_sum_tblLocus, hS s hs]
  refine sum_congr rfl fun l _ => ?_
  exact (combined_tbl_locus n s l).symm

/-! ## D. correlations -/

section Corr
variable {K : Type} [Field K] [CharZero K] [MomVal K] [LawfulMomVal K]

/-- `div` is the division of `K`, `isZero` its zero test (`sqrt` is unconstrained here) -/
structure CorrOps.Lawful (ops : CorrOps K) : Prop where
  div_eq : ∀ a b, ops.div a b = a / b
  isZero_iff : ∀ a, ops.isZero a = true ↔ a = 0

theorem ratOps_lawful (sqrt : ℚ → ℚ) : (ratOps sqrt).Lawful :=
  ⟨fun _ _ => rfl, fun a => by simp [ratOps]⟩

open Classical in
/-- normal form of `get_corr` of the current code -/
theorem getCorr_eq (ops : CorrOps K) (hops : ops.Lawful) (d : Dist) (raw : List Reward → K)
    (k : Kind) (a b : ℕ) :
    getCorr ops .current d raw k a b =
      if a < d.size k ∧ b < d.size k then
        if ops.sqrt (margVar raw d.reward k a) * ops.sqrt (margVar raw d.reward k b) = 0 then
          .error .zeroDivision
        else .ok (covCore .current d raw k a b
          / (ops.sqrt (margVar raw d.reward k a) * ops.sqrt (margVar raw d.reward k b)))
      else .error .valueError := by
  unfold getCorr getCov
  by_cases hab : a < d.size k ∧ b < d.size k
  · by_cases hz : ops.sqrt (margVar raw d.reward k a) * ops.sqrt (margVar raw d.reward k b) = 0
    · have hz' := (hops.isZero_iff _).mpr hz
      simp [hab, hz, LawfulMomVal.mul_eq, hz', (hops.isZero_iff 0).mpr rfl, bind, Except.bind]
    · have hz' : ops.isZero (ops.sqrt (margVar raw d.reward k a)
          * ops.sqrt (margVar raw d.reward k b)) = false := by
        rw [Bool.eq_false_iff]; exact fun h => hz ((hops.isZero_iff _).mp h)
      simp [hab, hz, LawfulMomVal.mul_eq, hz', hops.div_eq, bind, Except.bind]
  · simp [hab, bind, Except.bind]

/-- **`corr` is the normalised covariance.**  For a square root which is exact on the two marginal
variances (both non-zero): `get_corr(a, b)` returns a value `c` with `c · (sd_a · sd_b) = cov(a, b)`
and `c² · var_a · var_b = cov(a, b)²`. -/
theorem corr_is_normalised_cov (ops : CorrOps K) (hops : ops.Lawful) (d : Dist)
    (raw : List Reward → K) (k : Kind) (a b : ℕ) (ha : a < d.size k) (hb : b < d.size k)
    (hsa : ops.sqrt (margVar raw d.reward k a) * ops.sqrt (margVar raw d.reward k a)
      = margVar raw d.reward k a)
    (hsb : ops.sqrt (margVar raw d.reward k b) * ops.sqrt (margVar raw d.reward k b)
      = margVar raw d.reward k b)
    (hva : margVar raw d.reward k a ≠ 0) (hvb : margVar raw d.reward k b ≠ 0) :
    ∃ c, getCorr ops .current d raw k a b = .ok c
      ∧ c * (ops.sqrt (margVar raw d.reward k a) * ops.sqrt (margVar raw d.reward k b))
          = covCore .current d raw k a b
      ∧ c ^ 2 * margVar raw d.reward k a * margVar raw d.reward k b
          = covCore .current d raw k a b ^ 2 := by
  set sa := ops.sqrt (margVar raw d.reward k a) with hsa_def
  set sb := ops.sqrt (margVar raw d.reward k b) with hsb_def
  have hsa0 : sa ≠ 0 := fun h => hva (by rw [← hsa, h, zero_mul])
  have hsb0 : sb ≠ 0 := fun h => hvb (by rw [← hsb, h, zero_mul])
  have hden : sa * sb ≠ 0 := mul_ne_zero hsa0 hsb0
  refine ⟨covCore .current d raw k a b / (sa * sb), ?_, ?_, ?_⟩
  · rw [getCorr_eq ops hops]
    simp only [ha, hb, and_self, if_true, ← hsa_def, ← hsb_def, hden, if_false]
  · field_simp
  · rw [← hsa, ← hsb]
    field_simp

/-- **`corr[a][a] = 1`** when the variance is non-zero (and the square root exact on it) -/
theorem corr_diag_one (ops : CorrOps K) (hops : ops.Lawful) (d : Dist) (raw : List Reward → K)
    (k : Kind) (a : ℕ) (ha : a < d.size k)
    (hsa : ops.sqrt (margVar raw d.reward k a) * ops.sqrt (margVar raw d.reward k a)
      = margVar raw d.reward k a)
    (hva : margVar raw d.reward k a ≠ 0) :
    getCorr ops .current d raw k a a = .ok 1 := by
  have hcov : covCore .current d raw k a a = margVar raw d.reward k a := by
    rw [covCore_current]; rfl
  rw [getCorr_eq ops hops, hcov, hsa]
  simp [ha, hva]

/-- `get_corr(a, b) = get_corr(b, a)` (results and exceptions) -/
theorem getCorr_symm (ops : CorrOps K) (hops : ops.Lawful) (d : Dist) (raw : List Reward → K)
    (k : Kind) (a b : ℕ) :
    getCorr ops .current d raw k a b = getCorr ops .current d raw k b a := by
  rw [getCorr_eq ops hops, getCorr_eq ops hops, covCore_symm d raw k a b,
    mul_comm (ops.sqrt (margVar raw d.reward k a))]
  by_cases ha : a < d.size k <;> by_cases hb : b < d.size k <;> simp [ha, hb]

/-- `ZeroDivisionError`: a part with standard deviation `0` -/
theorem getCorr_zeroDivision (ops : CorrOps K) (hops : ops.Lawful) (d : Dist)
    (raw : List Reward → K) (k : Kind) (a b : ℕ) (ha : a < d.size k) (hb : b < d.size k)
    (hz : ops.sqrt (margVar raw d.reward k a) = 0 ∨ ops.sqrt (margVar raw d.reward k b) = 0) :
    getCorr ops .current d raw k a b = .error .zeroDivision := by
  rw [getCorr_eq ops hops]
  have : ops.sqrt (margVar raw d.reward k a) * ops.sqrt (margVar raw d.reward k b) = 0 := by
    rcases hz with h | h <;> simp [h]
  simp [ha, hb, this]

/-- `ValueError`: a part that does not exist (raised by `get_cov`, before any lookup) -/
theorem getCorr_valueError (ops : CorrOps K) (hops : ops.Lawful) (d : Dist)
    (raw : List Reward → K) (k : Kind) (a b : ℕ) (h : ¬ (a < d.size k ∧ b < d.size k)) :
    getCorr ops .current d raw k a b = .error .valueError := by
  rw [getCorr_eq ops hops]
  simp only [h, if_false]

/-- the correlation matrix when no standard deviation product vanishes: entry `[i][j]` is
`get_corr(j, i)`, the normalised covariance -/
theorem corrMatrix_current (ops : CorrOps K) (hops : ops.Lawful) (d : Dist)
    (raw : List Reward → K) (k : Kind)
    (hnz : ∀ a < d.size k, ops.sqrt (margVar raw d.reward k a) ≠ 0) :
    corrMatrix ops .current d raw k
      = .ok ((List.range (d.size k)).map fun p2 => (List.range (d.size k)).map fun p1 =>
          covCore .current d raw k p1 p2
            / (ops.sqrt (margVar raw d.reward k p1) * ops.sqrt (margVar raw d.reward k p2))) := by
  unfold corrMatrix
  refine mapM_ok _ _ _ fun p2 h2 => mapM_ok _ _ _ fun p1 h1 => ?_
  have h1' := List.mem_range.mp h1
  have h2' := List.mem_range.mp h2
  rw [getCorr_eq ops hops]
  simp [h1', h2', hnz p1 h1', hnz p2 h2']

end Corr

/-! ## E. a part that never holds anything -/

section Empty
variable {K : Type} [Field K] [CharZero K] [MomVal K] [LawfulMomVal K]

/-- every raw moment with the reward `p` in some slot vanishes -/
def KillsPart (raw : List Reward → K) (p : Reward) : Prop :=
  ∀ l₁ l₂ : List Reward, raw (l₁ ++ p :: l₂) = 0

omit [CharZero K] [MomVal K] [LawfulMomVal K] in
/-- a reward vanishing on every state is killed by an additive `raw` -/
theorem killsPart_of_vanishing {n : ℕ} {S : State → Prop} {raw : List Reward → K}
    (h : SlotAdditiveOn n S raw) (p : Reward) (hz : ∀ s, S s → Reward.eval n s p = 0) :
    KillsPart raw p := fun l₁ l₂ => h.zero l₁ l₂ p hz

/-- the reward of a deme without lineage in any state vanishes on every state -/
theorem deme_part_vanishes (n : ℕ) (S : State → Prop) (r : Reward) (i : ℕ)
    (hS : ∀ s, S s → s.demeTotal i = 0) :
    ∀ s, S s → Reward.eval n s (subReward r .demes i) = 0 := by
  intro s hs
  rw [eval_sub_deme]
  simp [Reward.eval, hS s hs]

/-- **a part that can never hold a lineage has mean 0, variance 0 and zero covariances** -/
theorem empty_part_zero (d : Dist) (raw : List Reward → K) (k : Kind) (i : ℕ)
    (hz : KillsPart raw (subReward d.reward k i)) :
    margMean raw d.reward k i = 0 ∧ margVar raw d.reward k i = 0
      ∧ ∀ a, covCore .current d raw k a i = 0 ∧ covCore .current d raw k i a = 0 := by
  have h1 : raw [subReward d.reward k i] = 0 := hz [] []
  have h2 : ∀ x, raw [subReward d.reward k i, x] = 0 := fun x => hz [] [x]
  have h3 : ∀ x, raw [x, subReward d.reward k i] = 0 := fun x => hz [x] []
  refine ⟨by rw [margMean_eq, h1], by rw [margVar_eq, h1, h2]; ring, fun a => ⟨?_, ?_⟩⟩
  · rw [covCore_current_eq, h1, h2, h3]; ring
  · rw [covCore_current_eq, h1, h2, h3]; ring

/-- … and the `cov` matrix has a zero row and a zero column there -/
theorem empty_part_zero_matrix (d : Dist) (raw : List Reward → K) (k : Kind) (i : ℕ)
    (hi : i < d.size k) (hz : KillsPart raw (subReward d.reward k i)) (M : List (List K))
    (hM : covMatrix .current d raw k = .ok M) (a : ℕ) (ha : a < d.size k) :
    entry M i a = 0 ∧ entry M a i = 0 := by
  obtain ⟨_, _, h⟩ := empty_part_zero d raw k i hz
  rw [cov_matrix_entry d raw k M hM i a hi ha, cov_matrix_entry d raw k M hM a i ha hi]
  exact ⟨(h a).1, (h a).2⟩

end Empty

/-! ## F. the hypothesis is met by the code model's functional -/

section Bridge
open PG.Conservation PG.EndToEnd
variable {K : Type} [Field K] [LinearOrder K] [IsStrictOrderedRing K]
variable {ι : Type} [Fintype ι] [DecidableEq ι]

/-- the raw moment of a reward tuple at the level where the project proves multilinearity:
`accumVal` (`k! · α · (∏ E(τ · VanLoan(S_e, R)))[0, k] · 1`) of the reward VECTORS of the tuple over
an enumerated state list `dec`, for arbitrary generators `S`, initial vector `α`, factor list `fs`
and exponential `L`. -/
noncomputable def matRaw (L : ExpLaw K) (S : ℕ → Matrix ι ι K) (n : ℕ) (dec : ι → State)
    (α : ι → K) (fs : List (ℕ × K)) (rs : List Reward) : K :=
  accumVal L S (fun (a : Fin rs.length) i => ((Reward.eval n (dec i) rs[a] : ℚ) : K)) α fs

theorem matRaw_map {β : Type} (f : β → Reward) (L : ExpLaw K) (S : ℕ → Matrix ι ι K) (n : ℕ)
    (dec : ι → State) (α : ι → K) (fs : List (ℕ × K)) (l : List β) :
    matRaw L S n dec α fs (l.map f)
      = accumVal L S (fun (a : Fin l.length) i => ((Reward.eval n (dec i) (f l[a]) : ℚ) : K))
          α fs := by
  unfold matRaw
  rw [accumVal_cast_index L _ _ _ (List.length_map f).symm]
  congr 1
  funext a j
  simp

/-- **`matRaw` is additive in every slot w.r.t. pointwise sums on its states**
(`Conservation.accumVal_update_sum`, the finite-sum form of `accumVal_slot_linear`). -/
theorem matRaw_slotAdditiveOn (L : ExpLaw K) (S : ℕ → Matrix ι ι K) (n : ℕ) (dec : ι → State)
    (α : ι → K) (fs : List (ℕ × K)) :
    SlotAdditiveOn n (fun s => ∃ i, dec i = s) (matRaw L S n dec α fs) := by
  intro l₁ l₂ r m p hp
  -- all tuples as images of ONE index list
  let l : List (Option Reward) := l₁.map some ++ none :: l₂.map some
  have hl : ∀ x : Reward, l₁ ++ x :: l₂ = l.map (fun o => o.getD x) := by
    intro x
    simp [l, List.map_map, Function.comp_def]
  have hlen : l₁.length < l.length := by simp [l]
  let a₀ : Fin l.length := ⟨l₁.length, hlen⟩
  let R₀ : Fin l.length → ι → K := fun a i =>
    ((Reward.eval n (dec i) ((l[a]).getD default) : ℚ) : K)
  have hget : ∀ a : Fin l.length, a ≠ a₀ → ∃ r', l[a] = some r' := by
    intro a ha
    have hne : a.val ≠ l₁.length := fun h => ha (Fin.ext h)
    have ha2 := a.isLt
    simp only [l, List.length_append, List.length_map, List.length_cons] at ha2
    simp only [l, Fin.getElem_fin, List.getElem_append, List.length_map]
    split_ifs with h1
    · exact ⟨_, List.getElem_map _⟩
    · rw [List.getElem_cons]
      split_ifs with h2
      · omega
      · exact ⟨_, List.getElem_map _⟩
  have hnone : l[a₀] = none := by
    simp [l, a₀]
  have key : ∀ x : Reward,
      (fun (a : Fin l.length) i => ((Reward.eval n (dec i) ((l[a]).getD x) : ℚ) : K))
        = Function.update R₀ a₀ (fun i => ((Reward.eval n (dec i) x : ℚ) : K)) := by
    intro x
    funext a
    by_cases ha : a = a₀
    · subst ha
      rw [Function.update_self]
      funext i
      rw [hnone]; rfl
    · rw [Function.update_of_ne ha]
      obtain ⟨r', hr'⟩ := hget a ha
      funext i
      simp only [R₀, hr']; rfl
  have hvec : (fun i => ((Reward.eval n (dec i) r : ℚ) : K))
      = fun i => ∑ j ∈ range m, ((Reward.eval n (dec i) (p j) : ℚ) : K) := by
    funext i
    rw [hp (dec i) ⟨i, rfl⟩]
    push_cast
    rfl
  rw [hl r, matRaw_map, key r, hvec,
    accumVal_update_sum L S R₀ a₀ (range m)
      (fun j i => ((Reward.eval n (dec i) (p j) : ℚ) : K)) α fs]
  refine sum_congr rfl fun j _ => ?_
  rw [hl (p j), matRaw_map, key (p j)]

open Assembly in
/-- **the code model's functional IS a `matRaw`**: rate matrices `codeMat G e` (cast), states
`(G 0).visited`, the initial vector of the sample configuration, the factors of the epochs up to
`t`. -/
theorem codeRaw_eq_matRaw {D : ℕ} (L : ExpLaw K) (G : ℕ → Graph) (n : ℕ) (c0 : Fin D → ℕ)
    (eps : List EpochT) (rs : List Reward) (t : ℚ) :
    codeRaw L G n c0 eps rs t
      = matRaw L (fun e => (codeMat G e).map (fun q : ℚ => (q : K))) n
          (fun j : Fin (G 0).visited.length => (G 0).visited[j])
          (fun j => (((alphaVec (G 0).visited (List.ofFn c0) 1 0).getD j.val 0 : ℚ) : K))
          (castF (specFactors eps t)) rs := rfl

/-- **the code model's `raw` satisfies the hypothesis of C**, on its visited states -/
theorem codeRaw_slotAdditiveOn {D : ℕ} (L : ExpLaw K) (G : ℕ → Graph) (n : ℕ) (c0 : Fin D → ℕ)
    (eps : List EpochT) (t : ℚ) :
    SlotAdditiveOn n (fun s => s ∈ (G 0).visited) (fun rs => codeRaw L G n c0 eps rs t) := by
  have h := matRaw_slotAdditiveOn L
    (fun e => (Assembly.codeMat G e).map (fun q : ℚ => (q : K))) n
    (fun j : Fin (G 0).visited.length => (G 0).visited[j])
    (fun j => (((alphaVec (G 0).visited (List.ofFn c0) 1 0).getD j.val 0 : ℚ) : K))
    (castF (specFactors eps t))
  intro l₁ l₂ r m p hp
  exact h l₁ l₂ r m p fun s ⟨i, hi⟩ => hp s (hi ▸ List.getElem_mem i.isLt)

attribute [local instance] momValK

/-- **C12 (a)–(c) for the code's functional, demes**: on a state space whose visited states have
`D` demes and at least one lineage, for the moments `codeRaw` the code model computes at any time
`t`, any base reward: the per-deme means sum to the mean, the entries of `get_cov` sum to the
variance, `get_cov` is symmetric with the marginal variances on its diagonal. -/
theorem code_deme_marginals {D : ℕ} (L : ExpLaw K) (G : ℕ → Graph) (n : ℕ) (c0 : Fin D → ℕ)
    (eps : List EpochT) (t : ℚ) (d : Dist)
    (hS : ∀ s ∈ (G 0).visited, DemeShape d.nDemes s) :
    let raw : List Reward → K := fun rs => codeRaw L G n c0 eps rs t
    (∑ i ∈ range d.nDemes, margMean raw d.reward .demes i = distMean raw d.reward)
    ∧ (∑ a ∈ range d.nDemes, ∑ b ∈ range d.nDemes, covCore .current d raw .demes a b
        = distVar raw d.reward)
    ∧ (∀ a b, getCov .current d raw .demes a b = getCov .current d raw .demes b a)
    ∧ (∀ a < d.nDemes, getCov .current d raw .demes a a = .ok (margVar raw d.reward .demes a)) := by
  intro raw
  have hadd := codeRaw_slotAdditiveOn L G n c0 eps t
  have hpart := isPartition_demes n (fun s => s ∈ (G 0).visited) d hS
  exact ⟨mean_sum_eq_mean d .demes hadd hpart, cov_sum_eq_var d .demes hadd hpart,
    fun a b => getCov_symm d raw .demes a b, fun a ha => cov_diag_eq_margVar d raw .demes a ha⟩


/-- **C12 (d) for `matRaw`, loci**: on any enumerated state list whose states all have
`d.nLoci` loci (two-locus state spaces included), for the total branch length: the per-locus means
sum to the mean, the entries of `get_cov` sum to the variance, `get_cov` is symmetric with the
marginal variances on its diagonal. -/
theorem mat_loci_tbl_marginals (L : ExpLaw K) (S : ℕ → Matrix ι ι K) (n : ℕ) (dec : ι → State)
    (α : ι → K) (fs : List (ℕ × K)) (d : Dist) (hr : d.reward = .totalBranchLength)
    (hS : ∀ i, (dec i).nLoci = d.nLoci) :
    let raw : List Reward → K := matRaw L S n dec α fs
    (∑ i ∈ range d.nLoci, margMean raw d.reward .loci i = distMean raw d.reward)
    ∧ (∑ a ∈ range d.nLoci, ∑ b ∈ range d.nLoci, covCore .current d raw .loci a b
        = distVar raw d.reward)
    ∧ (∀ a b, getCov .current d raw .loci a b = getCov .current d raw .loci b a)
    ∧ (∀ a < d.nLoci, getCov .current d raw .loci a a = .ok (margVar raw d.reward .loci a)) := by
  intro raw
  have hadd := matRaw_slotAdditiveOn L S n dec α fs
  have hpart := isPartition_loci_tbl n (fun s => ∃ i, dec i = s) d hr
    (fun s ⟨i, hi⟩ => hi ▸ hS i)
  exact ⟨mean_sum_eq_mean d .loci hadd hpart, cov_sum_eq_var d .loci hadd hpart,
    fun a b => getCov_symm d raw .loci a b, fun a ha => cov_diag_eq_margVar d raw .loci a ha⟩

/-- the same for demes, any base reward, any `matRaw` whose states have `d.nDemes` demes and at
least one lineage (block-counting and two-locus state spaces included) -/
theorem mat_deme_marginals (L : ExpLaw K) (S : ℕ → Matrix ι ι K) (n : ℕ) (dec : ι → State)
    (α : ι → K) (fs : List (ℕ × K)) (d : Dist) (hS : ∀ i, DemeShape d.nDemes (dec i)) :
    let raw : List Reward → K := matRaw L S n dec α fs
    (∑ i ∈ range d.nDemes, margMean raw d.reward .demes i = distMean raw d.reward)
    ∧ (∑ a ∈ range d.nDemes, ∑ b ∈ range d.nDemes, covCore .current d raw .demes a b
        = distVar raw d.reward)
    ∧ (∀ a b, getCov .current d raw .demes a b = getCov .current d raw .demes b a)
    ∧ (∀ a < d.nDemes, getCov .current d raw .demes a a = .ok (margVar raw d.reward .demes a)) := by
  intro raw
  have hadd := matRaw_slotAdditiveOn L S n dec α fs
  have hpart := isPartition_demes n (fun s => ∃ i, dec i = s) d (fun s ⟨i, hi⟩ => hi ▸ hS i)
  exact ⟨mean_sum_eq_mean d .demes hadd hpart, cov_sum_eq_var d .demes hadd hpart,
    fun a b => getCov_symm d raw .demes a b, fun a ha => cov_diag_eq_margVar d raw .demes a ha⟩

open Assembly in
/-- the TWO-LOCUS functional of the code model (`EndToEnd.codeRaw2`, fully linked sample) is a
`matRaw` as well -/
theorem codeRaw2_eq_matRaw {D : ℕ} (L : ExpLaw K) (G : ℕ → Graph) (n' : ℕ) (nv : Fin D → ℕ)
    (eps : List EpochT) (rs : List Reward) (t : ℚ) :
    codeRaw2 L G n' nv eps rs t
      = matRaw L (fun e => (codeMat G e).map (fun q : ℚ => (q : K))) n'
          (fun j : Fin (G 0).visited.length => (G 0).visited[j])
          (fun j => (((alphaVec (G 0).visited (List.ofFn nv) 2 0).getD j.val 0 : ℚ) : K))
          (castF (specFactors eps t)) rs := rfl

/-- **C12 (d) / C06 for the code's two-locus functional**: total branch length on a state space
whose visited states all have two loci: `loci[0].mean + loci[1].mean = mean`, the entries of
`loci.get_cov` sum to the variance, `get_cov` is symmetric with `loci[l].var` on the diagonal. -/
theorem code2_loci_tbl_marginals {D : ℕ} (L : ExpLaw K) (G : ℕ → Graph) (n' : ℕ) (nv : Fin D → ℕ)
    (eps : List EpochT) (t : ℚ) (d : Dist) (hr : d.reward = .totalBranchLength)
    (hS : ∀ s ∈ (G 0).visited, s.nLoci = d.nLoci) :
    let raw : List Reward → K := fun rs => codeRaw2 L G n' nv eps rs t
    (∑ i ∈ range d.nLoci, margMean raw d.reward .loci i = distMean raw d.reward)
    ∧ (∑ a ∈ range d.nLoci, ∑ b ∈ range d.nLoci, covCore .current d raw .loci a b
        = distVar raw d.reward)
    ∧ (∀ a b, getCov .current d raw .loci a b = getCov .current d raw .loci b a)
    ∧ (∀ a < d.nLoci, getCov .current d raw .loci a a = .ok (margVar raw d.reward .loci a)) :=
  mat_loci_tbl_marginals L (fun e => (Assembly.codeMat G e).map (fun q : ℚ => (q : K))) n'
    (fun j : Fin (G 0).visited.length => (G 0).visited[j])
    (fun j => (((alphaVec (G 0).visited (List.ofFn nv) 2 0).getD j.val 0 : ℚ) : K))
    (castF (specFactors eps t)) d hr (fun i => hS _ (List.getElem_mem i.isLt))

/-- **C12 (e) for the code's functional** (`Corollaries.C12_lineage_code`): lineage counting, no
lineage sampled in deme `p`, no migration into `p` (backwards in time) in any epoch. Then the
reward `CombinedReward([r, DemeReward(p)])` kills every raw moment the code model computes, … -/
theorem codeRaw_killsPart {D : ℕ} {m : Model} {cinit : Fin D → ℕ} {ts : ℕ → Fin D → ℚ}
    {mig : ℕ → Fin D → Fin D → ℚ} {r : ℕ → ℚ} {fuel : ℕ → ℕ} {G : ℕ → Graph}
    (hG : ∀ e, bfs (transit m (mkEpoch (ts e) (mig e) (r e))) (encLC cinit) (fuel e) = some (G e))
    (L : ExpLaw K) (n : ℕ) (c0 : Fin D → ℕ) (hc0 : encLC c0 ∈ (G 0).visited)
    (p : Fin D) (hp0 : c0 p = 0) (hmig : ∀ e d, d ≠ p → mig e d p = 0)
    (eps : List EpochT) (t : ℚ) (rw : Reward) :
    KillsPart (fun rs => codeRaw L G n c0 eps rs t) (subReward rw .demes p.val) := by
  intro l₁ l₂
  have hadd := codeRaw_slotAdditiveOn L G n c0 eps t
  have hcongr := hadd.congr l₁ l₂ (subReward rw .demes p.val) (.prod [.deme p.val, rw])
    (fun s _ => by rw [eval_sub_deme, eval_prod_pair, mul_comm])
  show codeRaw L G n c0 eps (l₁ ++ subReward rw .demes p.val :: l₂) t = 0
  rw [hcongr]
  unfold codeRaw
  refine Corollaries.C12_lineage_code L hG p hmig _ ?_ n
    (fun a : Fin (l₁ ++ Reward.prod [.deme p.val, rw] :: l₂).length =>
      (l₁ ++ Reward.prod [.deme p.val, rw] :: l₂)[a])
    ⟨l₁.length, by simp⟩ [rw] (by simp) _
  intro j c hj hcp
  rw [Assembly.lineage_alpha hG c0 hc0 j, if_neg, Rat.cast_zero]
  intro h
  have : c = c0 := encLC_injective (hj.symm.trans h)
  exact hcp (this ▸ hp0)

/-- … hence deme `p` has mean 0, variance 0 and zero covariances with every deme -/
theorem code_empty_deme_zero {D : ℕ} {m : Model} {cinit : Fin D → ℕ} {ts : ℕ → Fin D → ℚ}
    {mig : ℕ → Fin D → Fin D → ℚ} {r : ℕ → ℚ} {fuel : ℕ → ℕ} {G : ℕ → Graph}
    (hG : ∀ e, bfs (transit m (mkEpoch (ts e) (mig e) (r e))) (encLC cinit) (fuel e) = some (G e))
    (L : ExpLaw K) (n : ℕ) (c0 : Fin D → ℕ) (hc0 : encLC c0 ∈ (G 0).visited)
    (p : Fin D) (hp0 : c0 p = 0) (hmig : ∀ e d, d ≠ p → mig e d p = 0)
    (eps : List EpochT) (t : ℚ) (d : Dist) :
    let raw : List Reward → K := fun rs => codeRaw L G n c0 eps rs t
    margMean raw d.reward .demes p.val = 0 ∧ margVar raw d.reward .demes p.val = 0
      ∧ ∀ a, covCore .current d raw .demes a p.val = 0
          ∧ covCore .current d raw .demes p.val a = 0 :=
  empty_part_zero d _ .demes p.val (codeRaw_killsPart hG L n c0 hc0 p hp0 hmig eps t d.reward)

end Bridge

/-! ## G. kernel-checked instances: every seeded variant violates its theorem, `current` does not -/

namespace Examples

/-- `k! · α · (U Δ(r₁)) ⋯ (U Δ(r_k)) · 1`: the moments at `t = ∞` of a chain with Green matrix
`U = (-S)⁻¹` over the transient states `states`, rewards read by `Reward.eval` (an instance of the
raw functional: order-conditioned, additive in every slot) -/
def greenRaw (n : ℕ) (states : List State) (U : List (List ℚ)) (alpha : List ℚ)
    (rs : List Reward) : ℚ :=
  let dot := fun (x y : List ℚ) => sumRat (List.zipWith (· * ·) x y)
  let v := rs.foldr (fun r v =>
      U.map fun row => dot row (List.zipWith (· * ·) (states.map fun s => Reward.eval n s r) v))
    (states.map fun _ => 1)
  (factorial rs.length : ℚ) * dot alpha v

/-! ### demes: two lineages, two demes, lineage counting; both sampled in deme 0
(coalescence rate 1 within a deme, migration rate 1 per lineage; transient states `(2,0)`, `(1,1)`,
`(0,2)`, generator `[[-3,2,0],[1,-2,1],[0,2,-3]]`, Green matrix `1/6 · [[4,6,2],[3,9,3],[2,6,4]]`) -/

def statesA : List State :=
  [⟨[[[2], [0]]], [[[0], [0]]]⟩, ⟨[[[1], [1]]], [[[0], [0]]]⟩, ⟨[[[0], [2]]], [[[0], [0]]]⟩]
def greenA : List (List ℚ) := [[4/6, 6/6, 2/6], [3/6, 9/6, 3/6], [2/6, 6/6, 4/6]]
def rawA : List Reward → ℚ := greenRaw 2 statesA greenA [1, 0, 0]
/-- tree height, two demes -/
def distA : Dist := ⟨.treeHeight, 2, 1, 0⟩

/-- the raw second cross moment depends on the ORDER of the two deme rewards (time is spent in
deme 0 first) -/
theorem rawA_ordered :
    rawA [subReward .treeHeight .demes 0, subReward .treeHeight .demes 1] = 85 / 36
    ∧ rawA [subReward .treeHeight .demes 1, subReward .treeHeight .demes 0] = 65 / 36 := by
  decide +kernel

/-- `demeCovNoPermute` violates `getCov_symm`: `get_cov(0, 1) = 25/18 ≠ 5/6 = get_cov(1, 0)` … -/
theorem demeCovNoPermute_violates_getCov_symm :
    covCore .demeCovNoPermute distA rawA .demes 0 1 = 25 / 18
    ∧ covCore .demeCovNoPermute distA rawA .demes 1 0 = 5 / 6 := by
  decide +kernel

/-- … and `getCorr_symm`, for every choice of `sqrt` that does not vanish on the two variances:
`get_corr(0, 1) ≠ get_corr(1, 0)` (here with `sqrt := id`; the denominators agree) … -/
theorem demeCovNoPermute_violates_getCorr_symm :
    (getCorr (ratOps id) .demeCovNoPermute distA rawA .demes 0 1).toOption
      ≠ (getCorr (ratOps id) .demeCovNoPermute distA rawA .demes 1 0).toOption := by
  decide +kernel

/-- … while its `.cov` (symmetrised afterwards) is the `.cov` of the current code: the defect is
invisible in `.cov` -/
theorem demeCovNoPermute_cov_matrix_unchanged :
    (covMatrix .demeCovNoPermute distA rawA .demes).toOption
      = (covMatrix .current distA rawA .demes).toOption := by
  decide +kernel

/-- `current` on the same instance: symmetric `get_cov` (`10/9` both ways), diagonal = marginal
variances, means sum to the mean (`7/6 + 5/6 = 2`), entries sum to the variance -/
theorem current_ok_A :
    covCore .current distA rawA .demes 0 1 = 10 / 9
    ∧ covCore .current distA rawA .demes 1 0 = 10 / 9
    ∧ (getCorr (ratOps id) .current distA rawA .demes 0 1).toOption
        = (getCorr (ratOps id) .current distA rawA .demes 1 0).toOption
    ∧ covCore .current distA rawA .demes 0 0 = margVar rawA .treeHeight .demes 0
    ∧ covCore .current distA rawA .demes 1 1 = margVar rawA .treeHeight .demes 1
    ∧ meanVector distA rawA .demes = [7 / 6, 5 / 6]
    ∧ distMean rawA .treeHeight = 2
    ∧ (covMatrix .current distA rawA .demes).toOption.map (fun M => (M.map List.sum).sum)
        = some (distVar rawA .treeHeight) := by
  decide +kernel

/-! ### loci: two lineages, one deme, two loci, all lineages UNLINKED at the start, recombination
rate 0: the two locus trees are independent (each locus coalesces at rate 1; transient states by
lineages per locus `(2,2)`, `(1,2)`, `(2,1)`, Green matrix `[[1/2,1/2,1/2],[0,1,0],[0,0,1]]`) -/

def statesB : List State :=
  [⟨[[[2]], [[2]]], [[[0]], [[0]]]⟩, ⟨[[[1]], [[2]]], [[[0]], [[0]]]⟩, ⟨[[[2]], [[1]]], [[[0]], [[0]]]⟩]
def greenB : List (List ℚ) := [[1/2, 1/2, 1/2], [0, 1, 0], [0, 0, 1]]
def rawB : List Reward → ℚ := greenRaw 2 statesB greenB [1, 0, 0]
/-- total branch length, two loci, recombination rate 0 -/
def distB : Dist := ⟨.totalBranchLength, 1, 2, 0⟩
/-- a square root which is exact on the two marginal variances (both `4`) -/
def sqrtB : ℚ → ℚ := fun x => if x = 4 then 2 else 0

/-- `locusDiagJointVar` violates `cov_diag_eq_margVar` (`get_cov(0, 0) = 8`, the JOINT variance,
but `loci[0].var = 4`) and `cov_sum_eq_var` (the entries sum to `16`, the variance is `8`) -/
theorem locusDiagJointVar_violates :
    covCore .locusDiagJointVar distB rawB .loci 0 0 = 8
    ∧ margVar rawB .totalBranchLength .loci 0 = 4
    ∧ (covMatrix .locusDiagJointVar distB rawB .loci).toOption.map (fun M => (M.map List.sum).sum)
        = some 16
    ∧ distVar rawB .totalBranchLength = 8 := by
  decide +kernel

/-- `locusCorrOneAtR0` violates `corr_is_normalised_cov`: `get_corr(0, 1) = 1` although
`get_cov(0, 1) = 0` (independent loci) and both standard deviations are `2` -/
theorem locusCorrOneAtR0_violates :
    (getCorr (ratOps sqrtB) .locusCorrOneAtR0 distB rawB .loci 0 1).toOption = some 1
    ∧ covCore .locusCorrOneAtR0 distB rawB .loci 0 1 = 0
    ∧ sqrtB (margVar rawB .totalBranchLength .loci 0) = 2
    ∧ sqrtB (margVar rawB .totalBranchLength .loci 1) = 2 := by
  decide +kernel

/-- `current` on the same instance: diagonal = marginal variances (`4`), locus means sum to the
mean (`2 + 2 = 4`), entries sum to the variance (`8`), `corr = [[1, 0], [0, 1]]` -/
theorem current_ok_B :
    (covMatrix .current distB rawB .loci).toOption = some [[4, 0], [0, 4]]
    ∧ varVector distB rawB .loci = [4, 4]
    ∧ meanVector distB rawB .loci = [2, 2]
    ∧ distMean rawB .totalBranchLength = 4
    ∧ distVar rawB .totalBranchLength = 8
    ∧ (corrMatrix (ratOps sqrtB) .current distB rawB .loci).toOption = some [[1, 0], [0, 1]] := by
  decide +kernel

/-- the guards: a part that does not exist raises `ValueError` in `get_cov` and in `get_corr`; a
part with variance 0 would raise `ZeroDivisionError` (here: `sqrt := 0`) -/
theorem guards_B :
    (getCov .current distB rawB .loci 0 2).toOption = none
    ∧ (match getCorr (ratOps sqrtB) .current distB rawB .loci 2 0 with
        | .error .valueError => true | _ => false) = true
    ∧ (match getCorr (ratOps fun _ => 0) .current distB rawB .loci 0 1 with
        | .error .zeroDivision => true | _ => false) = true
    ∧ (match marg? distB .loci 2 with | .error .keyError => true | _ => false) = true := by
  decide +kernel

end Examples

end Marginals
end PG

#print axioms PG.Marginals.moment_two
#print axioms PG.Marginals.getCov_symm
#print axioms PG.Marginals.covCore_symm_rat
#print axioms PG.Marginals.cov_diag_eq_margVar
#print axioms PG.Marginals.covMatrix_current
#print axioms PG.Marginals.cov_matrix_entry
#print axioms PG.Marginals.cov_matrix_entry'
#print axioms PG.Marginals.cov_matrix_symm
#print axioms PG.Marginals.cov_matrix_diag
#print axioms PG.Marginals.SlotAdditiveOn.slotAdditive
#print axioms PG.Marginals.mean_sum_eq_mean
#print axioms PG.Marginals.cov_sum_eq_var
#print axioms PG.Marginals.cov_matrix_sum_eq_var
#print axioms PG.Marginals.meanVector_sum
#print axioms PG.Marginals.isPartition_demes
#print axioms PG.Marginals.isPartition_loci_tbl
#print axioms PG.Marginals.getCorr_eq
#print axioms PG.Marginals.corr_is_normalised_cov
#print axioms PG.Marginals.corr_diag_one
#print axioms PG.Marginals.getCorr_symm
#print axioms PG.Marginals.getCorr_zeroDivision
#print axioms PG.Marginals.getCorr_valueError
#print axioms PG.Marginals.corrMatrix_current
#print axioms PG.Marginals.killsPart_of_vanishing
#print axioms PG.Marginals.deme_part_vanishes
#print axioms PG.Marginals.empty_part_zero
#print axioms PG.Marginals.empty_part_zero_matrix
#print axioms PG.Marginals.matRaw_slotAdditiveOn
#print axioms PG.Marginals.codeRaw_eq_matRaw
#print axioms PG.Marginals.codeRaw_slotAdditiveOn
#print axioms PG.Marginals.code_deme_marginals
#print axioms PG.Marginals.mat_loci_tbl_marginals
#print axioms PG.Marginals.mat_deme_marginals
#print axioms PG.Marginals.codeRaw2_eq_matRaw
#print axioms PG.Marginals.code2_loci_tbl_marginals
#print axioms PG.Marginals.codeRaw_killsPart
#print axioms PG.Marginals.code_empty_deme_zero
#print axioms PG.Marginals.Examples.rawA_ordered
#print axioms PG.Marginals.Examples.demeCovNoPermute_violates_getCov_symm
#print axioms PG.Marginals.Examples.demeCovNoPermute_violates_getCorr_symm
#print axioms PG.Marginals.Examples.demeCovNoPermute_cov_matrix_unchanged
#print axioms PG.Marginals.Examples.current_ok_A
#print axioms PG.Marginals.Examples.locusDiagJointVar_violates
#print axioms PG.Marginals.Examples.locusCorrOneAtR0_violates
#print axioms PG.Marginals.Examples.current_ok_B
#print axioms PG.Marginals.Examples.guards_B
