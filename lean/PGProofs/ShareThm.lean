/-
PGProofs.ShareThm — theorems about state-space sharing in `Inference.get_coal` (`PGModel.Share`, C17 / C19).

* `eqKey_current_iff_of_same_order`  for keys that list the populations in the same order, the pinned `__eq__`
                                     holds exactly for equal keys
* `eqKey_current_ignores_deme_order` … but NOT in general: `LineageConfig.__eq__` compares Python dicts, which
                                     ignores the order of the populations (kernel-checked pair of keys)
* `compat_of_eq_iff`, `compat_of_order_invariant`  where the hypothesis of `share_refinement` comes from
* `share_refinement`                 pinned `__eq__`, compatible `compute`: every read of `S` through every
                                     coalescent handed out, after every interleaving of `get_coal` and state-space
                                     operations, returns `compute (its own key) (epoch in force on its space)`
* `share_read_own`                   indexed form under the consumer discipline: the matrix of its own key in the
                                     epoch it has just set
* `share_cache_flag_irrelevant`      … hence the answers with `cache=True` and `cache=False` coincide
* `share_cache_flag_irrelevant_checked`, `loci_mix_raises`  the same including the `NotImplementedError` corner
* `forgetsLocus_stale`               seeded defect: the second coalescent reads the matrix of the first one's
                                     recombination rate
-/
import PGModel.Share
import PGProofs.CacheThm

set_option linter.unusedSectionVars false

namespace PG.Share

open PG

variable {E M : Type} [BEq E] [LawfulBEq E]

/-! ### What the pinned `__eq__` identifies -/

theorem dictEq_refl_of_nodup (a : List (String × Nat)) (h : (a.map Prod.fst).Nodup) : dictEq a a = true := by
  unfold dictEq
  simp only [beq_self_eq_true, Bool.true_and, List.all_eq_true, beq_iff_eq]
  induction a with
  | nil => simp
  | cons p a ih =>
    intro q hq
    simp only [List.map_cons, List.nodup_cons] at h
    rcases List.mem_cons.mp hq with rfl | hq
    · simp [List.lookup]
    · have hne : (q.1 == p.1) = false := by
        apply beq_false_of_ne
        intro he
        exact h.1 (he ▸ List.mem_map_of_mem hq)
      rw [List.lookup_cons, hne]
      exact ih h.2 q hq

/-- two dicts listing the same populations in the same order are equal as dicts iff equal as lists -/
theorem dictEq_iff_of_same_keys (a b : List (String × Nat)) (hk : a.map Prod.fst = b.map Prod.fst)
    (hb : (b.map Prod.fst).Nodup) : dictEq a b = true ↔ a = b := by
  constructor
  · intro h
    unfold dictEq at h
    simp only [Bool.and_eq_true, beq_iff_eq, List.all_eq_true] at h
    obtain ⟨hlen, hall⟩ := h
    induction a generalizing b with
    | nil => cases b with
      | nil => rfl
      | cons q b => simp at hk
    | cons p a ih =>
      cases b with
      | nil => simp at hk
      | cons q b =>
        simp only [List.map_cons, List.cons.injEq] at hk
        simp only [List.map_cons, List.nodup_cons] at hb
        have hp := hall p (by simp)
        have hpq : (p.1 == q.1) = true := by simp [hk.1]
        rw [List.lookup_cons, hpq] at hp
        simp only [Option.some.injEq] at hp
        have hpq' : p = q := Prod.ext hk.1 hp.symm
        subst hpq'
        congr 1
        apply ih b hk.2 hb.2 (by simpa using hlen)
        intro r hr
        have hr' := hall r (by simp [hr])
        have hne : (r.1 == p.1) = false := by
          apply beq_false_of_ne
          intro he
          apply hb.1
          rw [← hk.2, ← he]
          exact List.mem_map_of_mem hr
        rw [List.lookup_cons, hne] at hr'
        exact hr'
  · rintro rfl
    exact dictEq_refl_of_nodup a hb

/-- **The pinned key, populations in the same order.**  `StateSpace.__eq__` holds exactly for equal keys. -/
theorem eqKey_current_iff_of_same_order (k k' : SSKey)
    (hk : k.lineages.map Prod.fst = k'.lineages.map Prod.fst) (hn : (k'.lineages.map Prod.fst).Nodup) :
    eqKey .current k k' = true ↔ k = k' := by
  constructor
  · intro h
    simp only [eqKey, lineageEq, locusEq, modelEq, Bool.and_eq_true, beq_iff_eq] at h
    obtain ⟨⟨⟨h1, h2⟩, ⟨⟨h3, h4⟩, h5⟩⟩, ⟨h6, h7⟩⟩ := h
    have h2' := (dictEq_iff_of_same_keys _ _ hk hn).mp h2
    cases k; cases k'; simp_all
  · rintro rfl
    simp [eqKey, lineageEq, locusEq, modelEq, dictEq_refl_of_nodup _ hn]

/-- **Finding (kernel-checked on the model, reproduced on the real code).**  The pinned `__eq__` identifies two
configurations that list the same populations in another order, although the state space (and the rate matrix)
is laid out in that order. -/
theorem eqKey_current_ignores_deme_order :
    let k : SSKey := ⟨.lineage, [("a", 2), ("b", 1)], 1, 0, 0, "standard", []⟩
    let k' : SSKey := ⟨.lineage, [("b", 1), ("a", 2)], 1, 0, 0, "standard", []⟩
    eqKey .current k k' = true ∧ k ≠ k' := by
  decide

/-- The hypothesis of `share_refinement`. -/
def Compat (compute : SSKey → E → M) : Prop :=
  ∀ k k', eqKey .current k k' = true → compute k = compute k'

/-- If `__eq__` were the identity of keys, every `compute` would be compatible.  (It is not:
`eqKey_current_ignores_deme_order`.) -/
theorem compat_of_eq_iff (compute : SSKey → E → M)
    (h : ∀ k k', eqKey .current k k' = true ↔ k = k') : Compat compute := by
  intro k k' hkk
  rw [(h k k').mp hkk]

/-- What is really needed: `compute` does not depend on the order in which the populations are listed
(rate matrices taken up to the induced relabelling of the states; every consumer of a state space reads the
lineage configuration from the state space itself, distributions.py l.535, so this is what it sees). -/
theorem compat_of_order_invariant (compute : SSKey → E → M)
    (h : ∀ k k', dictEq k.lineages k'.lineages = true → { k with lineages := k'.lineages } = k' →
      compute k = compute k') : Compat compute := by
  intro k k' hkk
  simp only [eqKey, lineageEq, locusEq, modelEq, Bool.and_eq_true, beq_iff_eq] at hkk
  obtain ⟨⟨⟨h1, h2⟩, ⟨⟨h3, h4⟩, h5⟩⟩, ⟨h6, h7⟩⟩ := hkk
  apply h k k' h2
  cases k; cases k'; simp_all

/-! ### Refinement -/

/-- the specification state an implementation state stands for -/
def absSpec (s : Inf E M) : Spec E :=
  { variant := s.variant, useShare := s.useShare, key0 := s.key0, sharedEpoch := s.shared.epoch,
    coals := s.coals.map fun c => (c.key, c.space.map (·.epoch)) }

/-- every state space satisfies the cache invariant for the configuration it was built from, and every
coalescent holding the shared space has a configuration with the same rate matrices -/
structure Good (compute : SSKey → E → M) (s : Inf E M) : Prop where
  variant_current : s.variant = .current
  shared_ok : Cache.Inv (compute s.key0) s.shared
  own_ok : ∀ c ∈ s.coals, ∀ st, c.space = some st → Cache.Inv (compute c.key) st
  ref_ok : ∀ c ∈ s.coals, c.space = none → compute c.key = compute s.key0

theorem good_init (compute : SSKey → E → M) (b : Bool) (key0 : SSKey) (e0 : E) :
    Good compute (Inf.init .current b key0 e0 : Inf E M) :=
  ⟨rfl, Cache.inv_init _ _ _, by simp [Inf.init], by simp [Inf.init]⟩

/-- the answer of one state-space operation, from `C17_refinement` -/
theorem cache_step_ans (compute : E → M) (s : Cache.State E M) (h : Cache.Inv compute s) (op : Cache.Op E) :
    (Cache.step compute s op).2 = (Cache.specRun compute s.epoch [op]).head?.join := by
  have h1 := Cache.C17_refinement compute s h [op]
  have h2 : (Cache.run compute s [op]).2 = [(Cache.step compute s op).2] := rfl
  rw [h2] at h1
  rw [← h1]; rfl

theorem cache_step_epoch (compute : E → M) (s : Cache.State E M) (op : Cache.Op E) :
    (Cache.step compute s op).1.epoch = (match op with | .updateEpoch e => e | _ => s.epoch) := by
  rw [Cache.step_epoch]; cases op <;> rfl

theorem set_self_of_getElem? {α : Type} (l : List α) (i : Nat) (x : α) (h : l[i]? = some x) : l.set i x = l := by
  obtain ⟨hi, rfl⟩ := List.getElem?_eq_some_iff.mp h
  exact List.set_getElem_self hi

theorem getCoal_of_shares (s : Inf E M) (k : SSKey) (e : E) (h : shares s.variant s.useShare s.key0 k = true) :
    getCoal s k e = { s with coals := s.coals ++ [{ key := k, space := none }] } := by
  simp [getCoal, h]

theorem getCoal_of_not_shares (s : Inf E M) (k : SSKey) (e : E)
    (h : shares s.variant s.useShare s.key0 k = false) :
    getCoal s k e = { s with coals := s.coals ++ [{ key := k, space := some (Cache.State.init e true) }] } := by
  simp [getCoal, h]

theorem getCoal_good (compute : SSKey → E → M) (hc : Compat compute) (s : Inf E M) (h : Good compute s)
    (k : SSKey) (e : E) : Good compute (getCoal s k e) := by
  cases hs : shares s.variant s.useShare s.key0 k with
  | true =>
    rw [getCoal_of_shares s k e hs]
    refine ⟨h.variant_current, h.shared_ok, ?_, ?_⟩
    · intro c hc' st hst
      simp only [List.mem_append, List.mem_singleton] at hc'
      rcases hc' with hc' | rfl
      · exact h.own_ok c hc' st hst
      · simp at hst
    · intro c hc' hnone
      simp only [List.mem_append, List.mem_singleton] at hc'
      rcases hc' with hc' | rfl
      · exact h.ref_ok c hc' hnone
      · simp only [shares, Bool.and_eq_true, h.variant_current] at hs
        exact hc _ _ hs.2
  | false =>
    rw [getCoal_of_not_shares s k e hs]
    refine ⟨h.variant_current, h.shared_ok, ?_, ?_⟩
    · intro c hc' st hst
      simp only [List.mem_append, List.mem_singleton] at hc'
      rcases hc' with hc' | rfl
      · exact h.own_ok c hc' st hst
      · simp only [Option.some.injEq] at hst
        subst hst
        exact Cache.inv_init _ _ _
    · intro c hc' hnone
      simp only [List.mem_append, List.mem_singleton] at hc'
      rcases hc' with hc' | rfl
      · exact h.ref_ok c hc' hnone
      · simp at hnone

theorem getCoal_abs (s : Inf E M) (k : SSKey) (e : E) (compute : SSKey → E → M) :
    specStep compute (absSpec s) (.getCoal k e) = (absSpec (getCoal s k e), none) := by
  cases hs : shares s.variant s.useShare s.key0 k with
  | true => rw [getCoal_of_shares s k e hs]; simp [specStep, absSpec, hs]
  | false => rw [getCoal_of_not_shares s k e hs]; simp [specStep, absSpec, hs, Cache.State.init]

theorem query_of_none (compute : SSKey → E → M) (s : Inf E M) (i : Nat) (op : Cache.Op E)
    (hi : s.coals[i]? = none) : query compute s i op = (s, none) := by
  simp [query, hi]

theorem query_of_shared (compute : SSKey → E → M) (s : Inf E M) (i : Nat) (op : Cache.Op E) (c : Coal E M)
    (hi : s.coals[i]? = some c) (hsp : c.space = none) :
    query compute s i op
      = ({ s with shared := (Cache.step (compute s.key0) s.shared op).1 },
          (Cache.step (compute s.key0) s.shared op).2) := by
  simp [query, hi, hsp]

theorem query_of_own (compute : SSKey → E → M) (s : Inf E M) (i : Nat) (op : Cache.Op E) (c : Coal E M)
    (st : Cache.State E M) (hi : s.coals[i]? = some c) (hsp : c.space = some st) :
    query compute s i op
      = ({ s with coals := s.coals.set i { c with space := some (Cache.step (compute c.key) st op).1 } },
          (Cache.step (compute c.key) st op).2) := by
  simp [query, hi, hsp]

theorem query_good (compute : SSKey → E → M) (s : Inf E M) (h : Good compute s) (i : Nat) (op : Cache.Op E) :
    Good compute (query compute s i op).1 := by
  cases hi : s.coals[i]? with
  | none => rw [query_of_none compute s i op hi]; exact h
  | some c =>
    have hmem : c ∈ s.coals := List.mem_of_getElem? hi
    cases hsp : c.space with
    | none =>
      rw [query_of_shared compute s i op c hi hsp]
      exact ⟨h.variant_current, Cache.inv_preserved _ _ _ h.shared_ok, h.own_ok, h.ref_ok⟩
    | some st =>
      rw [query_of_own compute s i op c st hi hsp]
      refine ⟨h.variant_current, h.shared_ok, ?_, ?_⟩
      · intro c' hc' st' hst'
        rcases List.mem_or_eq_of_mem_set hc' with hc' | rfl
        · exact h.own_ok c' hc' st' hst'
        · simp only [Option.some.injEq] at hst'
          subst hst'
          exact Cache.inv_preserved _ _ _ (h.own_ok c hmem st hsp)
      · intro c' hc' hnone
        rcases List.mem_or_eq_of_mem_set hc' with hc' | rfl
        · exact h.ref_ok c' hc' hnone
        · simp at hnone

theorem query_abs (compute : SSKey → E → M) (s : Inf E M) (h : Good compute s) (i : Nat) (op : Cache.Op E) :
    specStep compute (absSpec s) (.query i op)
      = (absSpec (query compute s i op).1, (query compute s i op).2) := by
  cases hi : s.coals[i]? with
  | none =>
    rw [query_of_none compute s i op hi]
    simp [specStep, absSpec, hi]
  | some c =>
    have hmem : c ∈ s.coals := List.mem_of_getElem? hi
    cases hsp : c.space with
    | none =>
      rw [query_of_shared compute s i op c hi hsp]
      have ha := cache_step_ans (compute s.key0) s.shared h.shared_ok op
      have he := cache_step_epoch (compute s.key0) s.shared op
      have hk := h.ref_ok c hmem hsp
      cases op <;> simp_all [specStep, absSpec, Cache.specRun]
    | some st =>
      rw [query_of_own compute s i op c st hi hsp]
      have ha := cache_step_ans (compute c.key) st (h.own_ok c hmem st hsp) op
      have he := cache_step_epoch (compute c.key) st op
      cases op <;> simp_all [specStep, absSpec, Cache.specRun, List.map_set]
      all_goals
        symm
        apply set_self_of_getElem?
        simp [hi, hsp]

theorem step_good (compute : SSKey → E → M) (hc : Compat compute) (s : Inf E M) (h : Good compute s)
    (op : Op E) : Good compute (step compute s op).1 := by
  cases op with
  | getCoal k e => exact getCoal_good compute hc s h k e
  | query i op => exact query_good compute s h i op

theorem step_abs (compute : SSKey → E → M) (s : Inf E M) (h : Good compute s) (op : Op E) :
    specStep compute (absSpec s) op = (absSpec (step compute s op).1, (step compute s op).2) := by
  cases op with
  | getCoal k e => exact getCoal_abs s k e compute
  | query i op => exact query_abs compute s h i op

/-- from any good state, the answers of every history are those of the specification -/
theorem run_refines (compute : SSKey → E → M) (hc : Compat compute) (s : Inf E M) (h : Good compute s)
    (ops : List (Op E)) : (run compute s ops).2 = specRun compute (absSpec s) ops := by
  induction ops generalizing s with
  | nil => rfl
  | cons op ops ih =>
    have h1 : (run compute s (op :: ops)).2
        = (step compute s op).2 :: (run compute (step compute s op).1 ops).2 := rfl
    have h2 : specRun compute (absSpec s) (op :: ops)
        = (specStep compute (absSpec s) op).2 :: specRun compute (specStep compute (absSpec s) op).1 ops := rfl
    rw [h1, h2, step_abs compute s h op, ih _ (step_good compute hc s h op)]

/-- **share_refinement.**  Pinned `__eq__`; `compute` gives the same rate matrices for configurations that
`__eq__` identifies.  Whether sharing is on or off, after every interleaving of `get_coal` calls and state-space
operations (`update_epoch`, `S`, `drop_S`, `drop_cache`, `states`) through the coalescents handed out, every read
of `S` through coalescent `i` returns `compute key_i e`, where `key_i` is the configuration of THAT coalescent and
`e` the epoch in force on the space it holds (`specRun`): neither the rate-matrix caches nor the substitution of
the shared space can be observed. -/
theorem share_refinement (compute : SSKey → E → M) (hc : Compat compute) (useShare : Bool) (key0 : SSKey)
    (e0 : E) (ops : List (Op E)) :
    (run compute (Inf.init .current useShare key0 e0 : Inf E M) ops).2
      = specRun compute (Spec.init .current useShare key0 e0) ops :=
  run_refines compute hc _ (good_init compute useShare key0 e0) ops

/-! ### Indexed form and irrelevance of the `cache` flag -/

/-- specification state after a history -/
def specState (compute : SSKey → E → M) (t : Spec E) : List (Op E) → Spec E
  | [] => t
  | op :: ops => specState compute (specStep compute t op).1 ops

/-- the configurations of the coalescents a history hands out, in order -/
def handedOut : List (Op E) → List SSKey
  | [] => []
  | .getCoal k _ :: ops => k :: handedOut ops
  | .query _ _ :: ops => handedOut ops

theorem specRun_getElem? (compute : SSKey → E → M) (t : Spec E) (ops : List (Op E)) (j : Nat) :
    (specRun compute t ops)[j]?
      = (ops[j]?).map fun op => (specStep compute (specState compute t (ops.take j)) op).2 := by
  induction ops generalizing t j with
  | nil => simp [specRun]
  | cons op ops ih =>
    cases j with
    | zero => simp [specRun, specState]
    | succ j => simp [specRun, specState, ih]

theorem specStep_keys (compute : SSKey → E → M) (t : Spec E) (op : Op E) :
    (specStep compute t op).1.coals.map Prod.fst = t.coals.map Prod.fst ++ handedOut [op] := by
  cases op with
  | getCoal k e => simp [specStep, handedOut]
  | query i op =>
    simp only [specStep, handedOut, List.append_nil]
    cases hi : t.coals[i]? with
    | none => rfl
    | some c =>
      cases op with
      | updateEpoch e =>
        cases hc : c.2 with
        | none => simp [hc]
        | some e' =>
          simp only [hc, List.map_set]
          apply set_self_of_getElem?
          simp [hi]
      | _ => rfl

theorem handedOut_append (a b : List (Op E)) : handedOut (a ++ b) = handedOut a ++ handedOut b := by
  induction a with
  | nil => rfl
  | cons op a ih => cases op <;> simp [handedOut, ih]

theorem specState_keys (compute : SSKey → E → M) (t : Spec E) (ops : List (Op E)) :
    (specState compute t ops).coals.map Prod.fst = t.coals.map Prod.fst ++ handedOut ops := by
  induction ops generalizing t with
  | nil => simp [specState, handedOut]
  | cons op ops ih =>
    rw [specState, ih, specStep_keys, List.append_assoc, ← handedOut_append]; rfl

/-- after `update_epoch(e)` through coalescent `i`, the epoch in force on its space is `e` -/
theorem epochAt_after_update (compute : SSKey → E → M) (t : Spec E) (i : Nat) (e : E) (c : SSKey × Option E)
    (hi : t.coals[i]? = some c) :
    ∃ c', (specStep compute t (.query i (.updateEpoch e))).1.coals[i]? = some c' ∧ c'.1 = c.1 ∧
      c'.2.getD (specStep compute t (.query i (.updateEpoch e))).1.sharedEpoch = e := by
  have hlt : i < t.coals.length := (List.getElem?_eq_some_iff.mp hi).1
  simp only [specStep, hi]
  cases hc : c.2 with
  | none => exact ⟨c, hi, rfl, by simp [hc]⟩
  | some e' => exact ⟨(c.1, some e), by simp [hlt], rfl, rfl⟩

theorem specStep_getS (compute : SSKey → E → M) (t : Spec E) (i : Nat) (c : SSKey × Option E)
    (h : t.coals[i]? = some c) :
    (specStep compute t (.query i .getS)).2 = some (compute c.1 (c.2.getD t.sharedEpoch)) := by
  simp [specStep, h]

/-- **share_read_own** (indexed form).  Pinned `__eq__`, compatible `compute`, sharing on or off.  If operation
`j` of a history is `update_epoch(e)` through coalescent `i` (already handed out, with configuration `k`) and
operation `j + 1` reads `S` through the same coalescent, the answer is `compute k e`: the matrix of ITS OWN
configuration in the epoch it has just set. -/
theorem share_read_own (compute : SSKey → E → M) (hc : Compat compute) (useShare : Bool) (key0 : SSKey)
    (e0 : E) (ops : List (Op E)) (j i : Nat) (e : E) (k : SSKey)
    (hu : ops[j]? = some (.query i (.updateEpoch e))) (hr : ops[j + 1]? = some (.query i .getS))
    (hk : (handedOut (ops.take j))[i]? = some k) :
    (run compute (Inf.init .current useShare key0 e0 : Inf E M) ops).2[j + 1]? = some (some (compute k e)) := by
  rw [share_refinement compute hc, specRun_getElem?, hr]
  simp only [Option.map_some, Option.some.injEq]
  have htake : ops.take (j + 1) = ops.take j ++ [.query i (.updateEpoch e)] := by
    rw [List.take_add_one, hu]; rfl
  have hstate : ∀ (a : List (Op E)) (op : Op E) (t : Spec E),
      specState compute t (a ++ [op]) = (specStep compute (specState compute t a) op).1 := by
    intro a op
    induction a with
    | nil => intro t; rfl
    | cons x a ih => intro t; exact ih _
  rw [htake, hstate]
  set t := specState compute (Spec.init .current useShare key0 e0) (ops.take j) with ht
  have hkeys := specState_keys compute (Spec.init .current useShare key0 e0) (ops.take j)
  rw [← ht] at hkeys
  simp only [Spec.init, List.map_nil, List.nil_append] at hkeys
  have hi : ∃ c, t.coals[i]? = some c ∧ c.1 = k := by
    have := congrArg (fun l => l[i]?) hkeys
    simp only [List.getElem?_map, hk] at this
    cases hc' : t.coals[i]? with
    | none => simp [hc'] at this
    | some c => exact ⟨c, rfl, by simpa [hc'] using this⟩
  obtain ⟨c, hci, hck⟩ := hi
  obtain ⟨c', hc1, hc2, hc3⟩ := epochAt_after_update compute t i e c hci
  rw [specStep_getS compute _ i c' hc1, hc2, hc3, hck]

/-- two specification states have the same configurations, and agree on the epoch of the coalescent that made
the most recent `update_epoch` -/
def Agree (p : Option Nat) (t t' : Spec E) : Prop :=
  t.coals.map Prod.fst = t'.coals.map Prod.fst ∧ ∀ i, p = some i → t.epochAt i = t'.epochAt i

theorem agree_getElem? (p : Option Nat) (t t' : Spec E) (h : Agree p t t') (i : Nat) :
    (t.coals[i]?).map Prod.fst = (t'.coals[i]?).map Prod.fst := by
  have := congrArg (fun l => l[i]?) h.1
  simpa [List.getElem?_map] using this

theorem specRun_agree (compute : SSKey → E → M) (p : Option Nat) (t t' : Spec E) (h : Agree p t t')
    (ops : List (Op E)) (hd : disciplined p ops = true) : specRun compute t ops = specRun compute t' ops := by
  induction ops generalizing p t t' with
  | nil => rfl
  | cons op ops ih =>
    have h2 : ∀ t : Spec E, specRun compute t (op :: ops)
        = (specStep compute t op).2 :: specRun compute (specStep compute t op).1 ops := fun _ => rfl
    rw [h2 t, h2 t']
    cases op with
    | getCoal k e =>
      simp only [disciplined] at hd
      have hA : Agree none (specStep compute t (.getCoal k e)).1 (specStep compute t' (.getCoal k e)).1 := by
        refine ⟨?_, by simp⟩
        rw [specStep_keys, specStep_keys, h.1]
      rw [ih none _ _ hA hd]; rfl
    | query i op =>
      have hk := agree_getElem? p t t' h i
      cases hi : t.coals[i]? with
      | none =>
        have hi' : t'.coals[i]? = none := by simpa [hi] using hk.symm
        have hd' : ∃ p', disciplined p' ops = true ∧ Agree p' t t' := by
          cases op with
          | updateEpoch e =>
            refine ⟨some i, by simpa [disciplined] using hd, h.1, ?_⟩
            intro i' hi''
            simp only [Option.some.injEq] at hi''
            subst hi''
            simp [Spec.epochAt, hi, hi']
          | getS => simp only [disciplined, Bool.and_eq_true] at hd; exact ⟨p, hd.2, h⟩
          | dropS => exact ⟨p, by simpa [disciplined] using hd, h⟩
          | dropCache => exact ⟨p, by simpa [disciplined] using hd, h⟩
          | touchStates => exact ⟨p, by simpa [disciplined] using hd, h⟩
        obtain ⟨p', hd', hA⟩ := hd'
        simp only [specStep, hi, hi']
        rw [ih p' t t' hA hd']
      | some c =>
        obtain ⟨c', hi', hcc⟩ : ∃ c', t'.coals[i]? = some c' ∧ c'.1 = c.1 := by
          cases hi' : t'.coals[i]? with
          | none => simp [hi, hi'] at hk
          | some c' => exact ⟨c', rfl, by simpa [hi, hi'] using hk.symm⟩
        cases op with
        | updateEpoch e =>
          simp only [disciplined] at hd
          obtain ⟨d, hd1, hd2, hd3⟩ := epochAt_after_update compute t i e c hi
          obtain ⟨d', hd1', hd2', hd3'⟩ := epochAt_after_update compute t' i e c' hi'
          have hA : Agree (some i) (specStep compute t (.query i (.updateEpoch e))).1
              (specStep compute t' (.query i (.updateEpoch e))).1 := by
            refine ⟨?_, ?_⟩
            · rw [specStep_keys, specStep_keys, h.1]
            · intro i' hi''
              simp only [Option.some.injEq] at hi''
              subst hi''
              simp only [Spec.epochAt, hd1, hd1', Option.map_some, hd3, hd3']
          rw [ih (some i) _ _ hA hd]
          simp [specStep, hi, hi']
          cases c.2 <;> cases c'.2 <;> rfl
        | getS =>
          simp only [disciplined, Bool.and_eq_true, beq_iff_eq] at hd
          have he := h.2 i hd.1
          simp only [Spec.epochAt, hi, hi', Option.map_some, Option.some.injEq] at he
          simp only [specStep, hi, hi', he, hcc]
          rw [ih p t t' h hd.2]
        | dropS => simp only [specStep, hi, hi']; rw [ih p t t' h (by simpa [disciplined] using hd)]
        | dropCache => simp only [specStep, hi, hi']; rw [ih p t t' h (by simpa [disciplined] using hd)]
        | touchStates => simp only [specStep, hi, hi']; rw [ih p t t' h (by simpa [disciplined] using hd)]

/-- **share_cache_flag_irrelevant.**  Pinned `__eq__`, compatible `compute`: for every history that keeps the
consumer discipline (`update_epoch` through a coalescent before it reads `S`), the answers of an `Inference`
with `cache=True` are those of an `Inference` with `cache=False`. -/
theorem share_cache_flag_irrelevant (compute : SSKey → E → M) (hc : Compat compute) (key0 : SSKey) (e0 : E)
    (ops : List (Op E)) (hd : disciplined none ops = true) :
    (run compute (Inf.init .current true key0 e0 : Inf E M) ops).2
      = (run compute (Inf.init .current false key0 e0 : Inf E M) ops).2 := by
  rw [share_refinement compute hc, share_refinement compute hc]
  exact specRun_agree compute none (Spec.init .current true key0 e0) (Spec.init .current false key0 e0)
    ⟨rfl, by simp⟩ ops hd

/-- the same including the exception: if no `get_coal` of the history raises with `cache=True` -/
theorem share_cache_flag_irrelevant_checked (compute : SSKey → E → M) (hc : Compat compute) (key0 : SSKey)
    (e0 : E) (ops : List (Op E)) (hd : disciplined none ops = true) (hr : raises true key0 ops = false) :
    runChecked compute .current true key0 e0 ops = runChecked compute .current false key0 e0 ops := by
  have hf : raises false key0 ops = false := by
    simp [raises, getCoalRaises]
    intro op _; cases op <;> rfl
  simp only [runChecked, hr, hf, Bool.false_eq_true, if_false]
  exact congrArg some (share_cache_flag_irrelevant compute hc key0 e0 ops hd)

/-! ### The seeded defect, the exception corner, non-vacuity -/

/-- two-locus configurations that differ in the recombination rate only -/
def exK0 : SSKey := ⟨.lineage, [("pop_0", 2)], 2, 0, 1, "standard", []⟩
def exK1 : SSKey := { exK0 with recRate := 2 }

/-- a matrix is named by the recombination rate and the epoch it was computed for -/
def exCompute : SSKey → Nat → Rat × Nat := fun k e => (k.recRate, e)

/-- `x0` has rate 1; a coalescent with rate 1 and one with rate 2 are requested; each sets its epoch and reads `S` -/
def exOps : List (Op Nat) :=
  [.getCoal exK0 0, .getCoal exK1 0, .query 0 (.updateEpoch 0), .query 0 .getS,
   .query 1 (.updateEpoch 0), .query 1 .getS]

/-- **forgetsLocus_stale** (kernel-checked).  With `self.locus_config == self.locus_config` in
`StateSpace.__eq__` the two keys compare equal, and the coalescent with recombination rate 2 reads the rate
matrix of rate 1; with the pinned `__eq__`, or with `cache=False`, it reads its own. -/
theorem forgetsLocus_stale :
    eqKey .current exK1 exK0 = false ∧ eqKey .forgetsLocus exK1 exK0 = true ∧
    (run exCompute (Inf.init .forgetsLocus true exK0 0) exOps).2
      = [none, none, none, some (1, 0), none, some (1, 0)] ∧
    (run exCompute (Inf.init .current true exK0 0) exOps).2
      = [none, none, none, some (1, 0), none, some (2, 0)] ∧
    (run exCompute (Inf.init .forgetsLocus false exK0 0) exOps).2
      = [none, none, none, some (1, 0), none, some (2, 0)] ∧
    disciplined none exOps = true := by
  decide

/-- **loci_mix_raises** (kernel-checked; reproduced on the real code).  `x0` has two loci and a one-locus
coalescent is requested: with `cache=True`, `get_coal` raises (`runChecked = none`), with `cache=False` it
answers. -/
theorem loci_mix_raises :
    let k0 : SSKey := ⟨.block, [("pop_0", 2)], 2, 0, 1, "standard", []⟩
    let k1 : SSKey := ⟨.block, [("pop_0", 2)], 1, 0, 0, "standard", []⟩
    runChecked exCompute .current true k0 0 [.getCoal k1 0, .query 0 .getS] = none ∧
    runChecked exCompute .current false k0 0 [.getCoal k1 0, .query 0 .getS] = some [none, some (0, 0)] := by
  decide

/-- non-vacuity: `exCompute` tells the two configurations apart and satisfies the hypothesis of
`share_refinement`, whose conclusion for the history above is the second list of `forgetsLocus_stale` -/
example : Compat exCompute ∧ exCompute exK0 ≠ exCompute exK1 ∧
    (run exCompute (Inf.init .current true exK0 0) exOps).2
      = specRun exCompute (Spec.init .current true exK0 0) exOps ∧
    specRun exCompute (Spec.init .current true exK0 0) exOps
      = [none, none, none, some (1, 0), none, some (2, 0)] := by
  have hc : Compat exCompute := by
    intro k k' h
    simp only [eqKey, locusEq, Bool.and_eq_true, beq_iff_eq] at h
    funext e
    simp [exCompute, h.1.2.2]
  refine ⟨hc, ?_, share_refinement exCompute hc true exK0 0 exOps, by decide⟩
  intro h
  have := congrFun h 0
  revert this
  decide

/-- non-vacuity of the discipline hypothesis: without it the flag IS observable (the epoch attribute of the shared
space is common to its holders) — the reading coalescent has not set its epoch -/
example :
    (run exCompute (Inf.init .current true exK0 0) [.getCoal exK0 5, .query 0 .getS]).2 = [none, some (1, 0)] ∧
    (run exCompute (Inf.init .current false exK0 0) [.getCoal exK0 5, .query 0 .getS]).2 = [none, some (1, 5)] := by
  decide

end PG.Share

#print axioms PG.Share.eqKey_current_iff_of_same_order
#print axioms PG.Share.eqKey_current_ignores_deme_order
#print axioms PG.Share.compat_of_eq_iff
#print axioms PG.Share.compat_of_order_invariant
#print axioms PG.Share.share_refinement
#print axioms PG.Share.share_read_own
#print axioms PG.Share.share_cache_flag_irrelevant
#print axioms PG.Share.share_cache_flag_irrelevant_checked
#print axioms PG.Share.forgetsLocus_stale
#print axioms PG.Share.loci_mix_raises
