/-
PGProofs.CacheThm — theorems about the rate-matrix cache model `PGModel.Cache` (property C17).

* `inv_preserved`      the cache invariant is preserved by every operation
* `C17_refinement`     every answer of `getS` in every history equals `compute` of the epoch in force
* `C17_getS_at`        the same, indexed by position in the history
* `C17_no_cache`       the same with `useCache := false`
* `computations_bound` with caching, the number of `get_transitions()` calls is at most
                       `(#drop_cache + 1) * #distinct requested epochs + 1`
* `stale_read_defect`  the pinned consumer (no `update_epoch`) returns the matrix of the other epoch
* `repaired_consumer`  the repaired consumer always obtains the matrix of its own epoch
-/
import PGModel.Cache
import Mathlib.Data.List.Nodup
import Mathlib.Data.Finset.Card
import Mathlib.Data.List.Dedup
import Mathlib.Tactic.Ring
import Mathlib.Tactic.Linarith

set_option linter.unusedSectionVars false

namespace PG.Cache

open PG

variable {E M : Type} [BEq E] [LawfulBEq E]

/-! ### `Dict` lemmas -/

theorem any_key_iff (d : Dict E M) (k : E) :
    d.any (fun p => p.1 == k) = true ↔ k ∈ d.map Prod.fst := by
  induction d with
  | nil => simp
  | cons p d ih =>
    simp only [List.any_cons, Bool.or_eq_true, ih, List.map_cons, List.mem_cons, beq_iff_eq]
    constructor
    · rintro (h | h)
      · exact Or.inl h.symm
      · exact Or.inr h
    · rintro (h | h)
      · exact Or.inl h.symm
      · exact Or.inr h

theorem keys_insert_of_mem (d : Dict E M) (k : E) (v : M) (h : k ∈ d.map Prod.fst) :
    (Dict.insert d k v).map Prod.fst = d.map Prod.fst := by
  unfold Dict.insert
  rw [if_pos ((any_key_iff d k).2 h), List.map_map]
  apply List.map_congr_left
  intro p _
  by_cases hp : p.1 == k
  · simp only [Function.comp, hp, if_true]; exact (beq_iff_eq.1 hp).symm
  · simp [Function.comp, hp]

theorem keys_insert_of_not_mem (d : Dict E M) (k : E) (v : M) (h : k ∉ d.map Prod.fst) :
    (Dict.insert d k v).map Prod.fst = d.map Prod.fst ++ [k] := by
  unfold Dict.insert
  have : ¬ d.any (fun p => p.1 == k) = true := fun h' => h ((any_key_iff d k).1 h')
  rw [if_neg this]; simp

theorem mem_insert (d : Dict E M) (k : E) (v : M) (p : E × M) (hp : p ∈ Dict.insert d k v) :
    p ∈ d ∨ p = (k, v) := by
  unfold Dict.insert at hp
  split at hp
  · rcases List.mem_map.1 hp with ⟨q, hq, rfl⟩
    by_cases h : q.1 == k
    · right; simp [h]
    · left; simpa [h] using hq
  · rcases List.mem_append.1 hp with h | h
    · exact Or.inl h
    · right; simpa using h

theorem keys_nodup_insert (d : Dict E M) (k : E) (v : M) (h : (d.map Prod.fst).Nodup) :
    ((Dict.insert d k v).map Prod.fst).Nodup := by
  classical
  by_cases hk : k ∈ d.map Prod.fst
  · rw [keys_insert_of_mem d k v hk]; exact h
  · rw [keys_insert_of_not_mem d k v hk]
    exact List.Nodup.append h (List.nodup_singleton k) (by
      intro a ha hb
      rw [List.mem_singleton] at hb
      exact hk (hb ▸ ha))

theorem keys_subset_insert (d : Dict E M) (k : E) (v : M) (x : E)
    (hx : x ∈ (Dict.insert d k v).map Prod.fst) : x ∈ d.map Prod.fst ∨ x = k := by
  classical
  by_cases hk : k ∈ d.map Prod.fst
  · rw [keys_insert_of_mem d k v hk] at hx; exact Or.inl hx
  · rw [keys_insert_of_not_mem d k v hk] at hx
    rcases List.mem_append.1 hx with h | h
    · exact Or.inl h
    · exact Or.inr (by simpa using h)

theorem length_insert_ge (d : Dict E M) (k : E) (v : M) : d.length ≤ (Dict.insert d k v).length := by
  unfold Dict.insert
  split <;> simp

theorem lookup_mem (d : Dict E M) (k : E) (m : M) (h : List.lookup k d = some m) : (k, m) ∈ d := by
  induction d with
  | nil => simp at h
  | cons p d ih =>
    obtain ⟨a, b⟩ := p
    by_cases hk : k == a
    · rw [List.lookup_cons, hk] at h
      simp only [Option.some.injEq] at h
      rw [beq_iff_eq.1 hk, h]; exact List.mem_cons_self
    · have hk' : (k == a) = false := by simpa using hk
      rw [List.lookup_cons, hk'] at h
      exact List.mem_cons_of_mem _ (ih h)

theorem lookup_none_not_mem (d : Dict E M) (k : E) (h : List.lookup k d = none) :
    k ∉ d.map Prod.fst := by
  induction d with
  | nil => simp
  | cons p d ih =>
    obtain ⟨a, b⟩ := p
    by_cases hk : k == a
    · rw [List.lookup_cons, hk] at h; simp at h
    · have hk' : (k == a) = false := by simpa using hk
      rw [List.lookup_cons, hk'] at h
      simp only [List.map_cons, List.mem_cons, not_or]
      exact ⟨fun e => hk (beq_iff_eq.2 e), ih h⟩

theorem length_insert_of_lookup_none (d : Dict E M) (k : E) (v : M) (h : List.lookup k d = none) :
    (Dict.insert d k v).length = d.length + 1 := by
  have := congrArg List.length (keys_insert_of_not_mem d k v (lookup_none_not_mem d k h))
  simpa using this

/-! ### The invariant -/

/-- `S`, if present, is the matrix of the current epoch; every cache entry is the matrix of its key;
keys are unique. -/
structure Inv (compute : E → M) (s : State E M) : Prop where
  S_ok : ∀ m, s.S = some m → m = compute s.epoch
  cache_ok : ∀ p ∈ s.cache, p.2 = compute p.1
  keys_nodup : (s.cache.map Prod.fst).Nodup

theorem inv_init (compute : E → M) (e : E) (b : Bool) : Inv compute (State.init e b : State E M) :=
  ⟨by simp [State.init], by simp [State.init], by simp [State.init]⟩

theorem store_ok (compute : E → M) (s : State E M) (h : Inv compute s) :
    (∀ p ∈ store compute s, p.2 = compute p.1) ∧ ((store compute s).map Prod.fst).Nodup := by
  unfold store
  split
  · refine ⟨?_, keys_nodup_insert _ _ _ h.keys_nodup⟩
    intro p hp
    rcases mem_insert _ _ _ _ hp with h' | h'
    · exact h.cache_ok p h'
    · rw [h']
  · exact ⟨h.cache_ok, h.keys_nodup⟩

theorem inv_touch (compute : E → M) (s : State E M) (h : Inv compute s) : Inv compute (touch compute s) := by
  unfold touch
  split
  · exact h
  · exact ⟨h.S_ok, (store_ok compute s h).1, (store_ok compute s h).2⟩

@[simp] theorem touch_epoch (compute : E → M) (s : State E M) : (touch compute s).epoch = s.epoch := by
  unfold touch; split <;> rfl

@[simp] theorem touch_S (compute : E → M) (s : State E M) : (touch compute s).S = s.S := by
  unfold touch; split <;> rfl

@[simp] theorem touch_useCache (compute : E → M) (s : State E M) :
    (touch compute s).useCache = s.useCache := by
  unfold touch; split <;> rfl

theorem getRateMatrix_spec (compute : E → M) (s : State E M) (h : Inv compute s) :
    (getRateMatrix compute s).2 = compute s.epoch ∧
    (getRateMatrix compute s).1.epoch = s.epoch ∧
    (getRateMatrix compute s).1.S = s.S ∧
    (∀ p ∈ (getRateMatrix compute s).1.cache, p.2 = compute p.1) ∧
    (((getRateMatrix compute s).1.cache).map Prod.fst).Nodup := by
  unfold getRateMatrix
  split
  next m hm =>
    have hi := inv_touch compute s h
    refine ⟨?_, by simp, by simp, hi.cache_ok, hi.keys_nodup⟩
    unfold hit at hm
    by_cases hc : s.useCache
    · rw [if_pos hc] at hm
      exact h.cache_ok _ (lookup_mem _ _ _ hm)
    · rw [if_neg hc] at hm; exact absurd hm (by simp)
  next hm =>
    have hs := store_ok compute s h
    have hi : Inv compute ({ s with computations := s.computations + 1, cache := store compute s } : State E M) :=
      ⟨h.S_ok, hs.1, hs.2⟩
    have hi' := inv_touch compute _ hi
    exact ⟨rfl, by simp, by simp, hi'.cache_ok, hi'.keys_nodup⟩

theorem getS_spec (compute : E → M) (s : State E M) (h : Inv compute s) :
    (getS compute s).2 = compute s.epoch ∧ (getS compute s).1.epoch = s.epoch ∧
    Inv compute (getS compute s).1 := by
  unfold getS
  split
  next m hm => exact ⟨h.S_ok m hm, rfl, h⟩
  next hm =>
    obtain ⟨h1, h2, _, h4, h5⟩ := getRateMatrix_spec compute s h
    refine ⟨h1, h2, ⟨?_, h4, h5⟩⟩
    intro m hm'
    simp only [Option.some.injEq] at hm'
    rw [← hm', h1]; exact congrArg compute h2.symm

/-- **Invariant preservation**: every operation keeps the cache invariant. -/
theorem inv_preserved (compute : E → M) (s : State E M) (op : Op E) (h : Inv compute s) :
    Inv compute (step compute s op).1 := by
  cases op with
  | updateEpoch e =>
    simp only [step, updateEpoch]
    split
    · exact ⟨by simp, h.cache_ok, h.keys_nodup⟩
    next hne =>
      have he : s.epoch = e := by simpa using hne
      refine ⟨?_, h.cache_ok, h.keys_nodup⟩
      intro m hm
      have := h.S_ok m hm
      simpa [he] using this
  | getS => exact (getS_spec compute s h).2.2
  | dropS => exact ⟨by simp [step, dropS], h.cache_ok, h.keys_nodup⟩
  | dropCache => exact ⟨by simp [step, dropCache], by simp [step, dropCache], by simp [step, dropCache]⟩
  | touchStates => exact inv_touch compute s h

theorem step_epoch (compute : E → M) (s : State E M) (op : Op E) :
    (step compute s op).1.epoch = epochAfter s.epoch [op] := by
  cases op with
  | updateEpoch e => simp only [step, updateEpoch, epochAfter]; split <;> rfl
  | getS =>
    simp only [step, epochAfter, getS]
    split
    · rfl
    · simp only [getRateMatrix]; split <;> simp
  | dropS => rfl
  | dropCache => rfl
  | touchStates => simp [step, epochAfter]

theorem inv_run (compute : E → M) (s : State E M) (ops : List (Op E)) (h : Inv compute s) :
    Inv compute (run compute s ops).1 := by
  induction ops generalizing s with
  | nil => exact h
  | cons op ops ih => exact ih _ (inv_preserved compute s op h)

theorem run_epoch (compute : E → M) (s : State E M) (ops : List (Op E)) :
    (run compute s ops).1.epoch = epochAfter s.epoch ops := by
  induction ops generalizing s with
  | nil => rfl
  | cons op ops ih =>
    have h1 : (run compute s (op :: ops)).1 = (run compute (step compute s op).1 ops).1 := rfl
    rw [h1, ih, step_epoch]
    cases op <;> rfl

/-- **C17 (refinement)**: from any state satisfying the invariant, with or without caching and for
every `compute`, the answers of every history are those of the cache-free specification: each `getS`
returns `compute` of the argument of the last preceding `updateEpoch` (or of the initial epoch). -/
theorem C17_refinement (compute : E → M) (s : State E M) (h : Inv compute s) (ops : List (Op E)) :
    (run compute s ops).2 = specRun compute s.epoch ops := by
  induction ops generalizing s with
  | nil => rfl
  | cons op ops ih =>
    have h2 : (run compute s (op :: ops)).2
        = (step compute s op).2 :: (run compute (step compute s op).1 ops).2 := rfl
    rw [h2, ih _ (inv_preserved compute s op h), step_epoch]
    cases op with
    | getS =>
      have : (step compute s .getS).2 = some (compute s.epoch) := by
        simp only [step]; exact congrArg some (getS_spec compute s h).1
      rw [this]; rfl
    | updateEpoch e => rfl
    | dropS => rfl
    | dropCache => rfl
    | touchStates => rfl

theorem specRun_length (compute : E → M) (e0 : E) (ops : List (Op E)) :
    (specRun compute e0 ops).length = ops.length := by
  induction ops generalizing e0 with
  | nil => rfl
  | cons op ops ih => cases op <;> simp [specRun, ih]

theorem specRun_getS_at (compute : E → M) (e0 : E) (ops : List (Op E)) (i : Nat)
    (hi : ops[i]? = some .getS) :
    (specRun compute e0 ops)[i]? = some (some (compute (epochAfter e0 (ops.take i)))) := by
  induction ops generalizing e0 i with
  | nil => simp at hi
  | cons op ops ih =>
    cases i with
    | zero =>
      simp only [List.getElem?_cons_zero, Option.some.injEq] at hi
      subst hi; rfl
    | succ i =>
      simp only [List.getElem?_cons_succ] at hi
      cases op <;> simp only [specRun, List.getElem?_cons_succ, List.take_succ_cons, epochAfter] <;>
        exact ih _ _ hi

/-- **C17, indexed form**: if the `i`-th operation of a history is `getS`, its answer is
`compute` of the epoch in force after the first `i` operations. -/
theorem C17_getS_at (compute : E → M) (s : State E M) (h : Inv compute s) (ops : List (Op E)) (i : Nat)
    (hi : ops[i]? = some .getS) :
    (run compute s ops).2[i]? = some (some (compute (epochAfter s.epoch (ops.take i)))) := by
  rw [C17_refinement compute s h]; exact specRun_getS_at compute _ ops i hi

/-- **C17 without caching**: a fresh object with `cache=False` gives the specified answers. -/
theorem C17_no_cache (compute : E → M) (e0 : E) (ops : List (Op E)) :
    (run compute (State.init e0 false : State E M) ops).2 = specRun compute e0 ops :=
  C17_refinement compute _ (inv_init compute e0 false) ops

/-- **C17 with caching**: a fresh object with `cache=True` gives the specified answers. -/
theorem C17_cache (compute : E → M) (e0 : E) (ops : List (Op E)) :
    (run compute (State.init e0 true : State E M) ops).2 = specRun compute e0 ops :=
  C17_refinement compute _ (inv_init compute e0 true) ops

/-! ### Bound on the number of computations -/

theorem head_mem_requested (e0 : E) (ops : List (Op E)) : e0 ∈ requested e0 ops := by
  induction ops generalizing e0 with
  | nil => simp [requested]
  | cons o os ih => cases o <;> simp [requested, ih]

section Bound

variable [DecidableEq E]

/-- Potential for the bound: `U` is a universe of epochs, `d` the number of `drop_cache` so far. -/
structure Bnd (U : List E) (d : Nat) (s : State E M) : Prop where
  uc : s.useCache = true
  nodup : (s.cache.map Prod.fst).Nodup
  sub : ∀ k ∈ s.cache.map Prod.fst, k ∈ U
  ep : s.epoch ∈ U
  le : s.computations ≤ s.cache.length + (if s.touched then 1 else 0) + d * U.toFinset.card

theorem length_le_card (U : List E) (l : List E) (hn : l.Nodup) (hs : ∀ k ∈ l, k ∈ U) :
    l.length ≤ U.toFinset.card := by
  rw [← List.toFinset_card_of_nodup hn]
  apply Finset.card_le_card
  intro x hx
  rw [List.mem_toFinset] at hx ⊢
  exact hs x hx

theorem bnd_touch (compute : E → M) (U : List E) (d : Nat) (s : State E M) (h : Bnd U d s) :
    Bnd U d (touch compute s) := by
  unfold touch
  split
  · exact h
  next ht =>
    have hst : store compute s = Dict.insert s.cache s.epoch (compute s.epoch) := by
      simp [store, h.uc]
    refine ⟨h.uc, ?_, ?_, h.ep, ?_⟩
    · simp only [hst]; exact keys_nodup_insert _ _ _ h.nodup
    · intro k hk
      simp only [hst] at hk
      rcases keys_subset_insert _ _ _ _ hk with h' | h'
      · exact h.sub k h'
      · rw [h']; exact h.ep
    · have h1 := h.le
      have h2 := length_insert_ge s.cache s.epoch (compute s.epoch)
      have ht' : s.touched = false := by simpa using ht
      simp only [ht', Bool.false_eq_true, if_false, hst, if_true] at h1 ⊢
      omega

theorem bnd_getS (compute : E → M) (U : List E) (d : Nat) (s : State E M) (h : Bnd U d s) :
    Bnd U d (getS compute s).1 := by
  unfold getS
  split
  · exact h
  next hS =>
    suffices hb : Bnd U d (getRateMatrix compute s).1 by
      exact ⟨hb.uc, hb.nodup, hb.sub, hb.ep, hb.le⟩
    unfold getRateMatrix
    split
    · exact bnd_touch compute U d s h
    next hm =>
      apply bnd_touch
      have hl : List.lookup s.epoch s.cache = none := by
        unfold hit at hm
        rw [if_pos h.uc] at hm; exact hm
      have hst : store compute s = Dict.insert s.cache s.epoch (compute s.epoch) := by
        simp [store, h.uc]
      refine ⟨h.uc, ?_, ?_, h.ep, ?_⟩
      · simp only [hst]; exact keys_nodup_insert _ _ _ h.nodup
      · intro k hk
        simp only [hst] at hk
        rcases keys_subset_insert _ _ _ _ hk with h' | h'
        · exact h.sub k h'
        · rw [h']; exact h.ep
      · have h1 := h.le
        have h2 := length_insert_of_lookup_none s.cache s.epoch (compute s.epoch) hl
        simp only [hst, h2]
        omega

theorem bnd_run (compute : E → M) (U : List E) (d : Nat) (s : State E M) (ops : List (Op E))
    (h : Bnd U d s) (hU : ∀ e ∈ requested s.epoch ops, e ∈ U) :
    Bnd U (d + drops ops) (run compute s ops).1 := by
  induction ops generalizing s d with
  | nil => exact h
  | cons op ops ih =>
    have h1 : (run compute s (op :: ops)).1 = (run compute (step compute s op).1 ops).1 := rfl
    rw [h1]
    cases op with
    | updateEpoch e =>
      have hreq : requested s.epoch (Op.updateEpoch e :: ops) = s.epoch :: requested e ops := rfl
      have he : e ∈ U := by
        apply hU; rw [hreq]
        exact List.mem_cons_of_mem _ (head_mem_requested e ops)
      have hs : Bnd U d (step compute s (.updateEpoch e)).1 := by
        simp only [step, updateEpoch]
        split
        · exact ⟨h.uc, h.nodup, h.sub, he, h.le⟩
        · exact ⟨h.uc, h.nodup, h.sub, he, h.le⟩
      have hep : (step compute s (.updateEpoch e)).1.epoch = e := by
        simp only [step, updateEpoch]; split <;> rfl
      have := ih d _ hs (by
        rw [hep]; intro x hx; apply hU; rw [hreq]; exact List.mem_cons_of_mem _ hx)
      simpa [drops] using this
    | getS =>
      have hs : Bnd U d (step compute s .getS).1 := bnd_getS compute U d s h
      have hep : (step compute s .getS).1.epoch = s.epoch := by
        rw [step_epoch]; rfl
      have := ih d _ hs (by rw [hep]; exact hU)
      simpa [drops] using this
    | dropS =>
      have hs : Bnd U d (step compute s .dropS).1 := ⟨h.uc, h.nodup, h.sub, h.ep, h.le⟩
      have := ih d _ hs hU
      simpa [drops] using this
    | touchStates =>
      have hs : Bnd U d (step compute s .touchStates).1 := bnd_touch compute U d s h
      have hep : (step compute s .touchStates).1.epoch = s.epoch := by simp [step]
      have := ih d _ hs (by rw [hep]; exact hU)
      simpa [drops] using this
    | dropCache =>
      have hs : Bnd U (d + 1) (step compute s .dropCache).1 := by
        refine ⟨h.uc, by simp [step, dropCache], by simp [step, dropCache], h.ep, ?_⟩
        have h1 := h.le
        have h2 := length_le_card U _ h.nodup h.sub
        simp only [List.length_map] at h2
        simp only [step, dropCache, List.length_nil]
        have : (d + 1) * U.toFinset.card = d * U.toFinset.card + U.toFinset.card := by ring
        rw [this]
        generalize d * U.toFinset.card = x at h1 ⊢
        generalize U.toFinset.card = c at h2 ⊢
        rcases Bool.eq_false_or_eq_true s.touched with ht | ht <;> simp [ht] at h1 ⊢ <;> omega
      have := ih (d + 1) _ hs hU
      have e : d + drops (Op.dropCache :: ops) = d + 1 + drops ops := by simp [drops]; omega
      rw [e]; exact this

/-- **Bound on the computations with caching**: on a fresh object with `cache=True`, the number of
`get_transitions()` calls in any history is at most
`(number of drop_cache calls + 1) * (number of distinct epochs requested) + 1`. -/
theorem computations_bound (compute : E → M) (e0 : E) (ops : List (Op E)) :
    (run compute (State.init e0 true : State E M) ops).1.computations
      ≤ (drops ops + 1) * (requested e0 ops).toFinset.card + 1 := by
  have h0 : Bnd (requested e0 ops) 0 (State.init e0 true : State E M) := by
    refine ⟨rfl, by simp [State.init], by simp [State.init], ?_, by simp [State.init]⟩
    exact head_mem_requested e0 ops
  have h := bnd_run compute (requested e0 ops) 0 _ ops h0 (fun e he => he)
  have h1 := h.le
  have h2 := length_le_card (requested e0 ops) _ h.nodup h.sub
  simp only [List.length_map] at h2
  have h3 : (if (run compute (State.init e0 true : State E M) ops).1.touched then 1 else 0) ≤ 1 := by
    split <;> omega
  have : (drops ops + 1) * (requested e0 ops).toFinset.card
      = (0 + drops ops) * (requested e0 ops).toFinset.card + (requested e0 ops).toFinset.card := by ring
  rw [this]
  omega

/-- Without `drop_cache`: at most one computation per distinct epoch requested, plus one. -/
theorem computations_bound_no_drop (compute : E → M) (e0 : E) (ops : List (Op E))
    (hd : drops ops = 0) :
    (run compute (State.init e0 true : State E M) ops).1.computations
      ≤ (requested e0 ops).toFinset.card + 1 := by
  have := computations_bound (M := M) compute e0 ops
  simpa [hd] using this

end Bound

/-! ### The repaired defect -/

/-- The repaired consumer always obtains the matrix of its own epoch, whatever the shared state
space went through before. -/
theorem repaired_consumer (compute : E → M) (s : State E M) (h : Inv compute s) (own : E) :
    (consumerGet true compute s own).2 = some (compute own) := by
  have := C17_refinement compute s h (consumerRead true own)
  simp only [consumerGet, consumerRead, if_true] at this ⊢
  rw [this]; rfl

/-- **The defect**: a state space created for epoch `0` and shared; the first consumer (epoch `0`)
reads `S`; the second consumer, whose own epoch is `1`, reads `S` without `update_epoch` and gets
the matrix of epoch `0`.  (`compute := id`, so a matrix is named by its epoch.) -/
theorem stale_read_defect :
    let s0 : State Nat Nat := State.init 0 true
    let s1 := (consumerGet false id s0 0).1
    (getS_stale id s1 1).2 = some 0 ∧ (0 : Nat) ≠ 1 ∧
    (consumerGet true id s1 1).2 = some 1 := by
  decide

/-- The same as a 2-step history of the model. -/
theorem stale_read_history :
    (run id (State.init 0 true : State Nat Nat) (consumerRead false 0 ++ consumerRead false 1)).2
      = [some 0, some 0] ∧
    (run id (State.init 0 true : State Nat Nat) (consumerRead false 0 ++ consumerRead true 1)).2
      = [some 0, none, some 1] := by
  decide

end PG.Cache

#print axioms PG.Cache.inv_preserved
#print axioms PG.Cache.C17_refinement
#print axioms PG.Cache.C17_getS_at
#print axioms PG.Cache.C17_no_cache
#print axioms PG.Cache.computations_bound
#print axioms PG.Cache.repaired_consumer
#print axioms PG.Cache.stale_read_defect
#print axioms PG.Cache.stale_read_history
