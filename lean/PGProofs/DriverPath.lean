/-
PGProofs.DriverPath — "driver-path lemmas": the functions which the compiled driver (`Main.lean`)
actually runs coincide with the functions the theorems of `PGProofs` talk about.

1. `denseGen n (sparseRows states tr)` has the entries `rateEntry states tr i j`.
2. `getP` returns an exactly certified two-sided inverse: matrix view of its outputs.
3. `mutConfigProb` is the abstract formula `α · U(q_c) · p_total` of `PGProofs.MutConfig`.
-/
import PGModel.Eval
import PGProofs.RatesThm
import PGProofs.Bridge
import PGProofs.MutConfig
import PGProofs.Assembly
import Mathlib.Data.Matrix.Basic
import Mathlib.Data.Matrix.Mul
import Mathlib.Data.Matrix.Diagonal
import Mathlib.LinearAlgebra.Matrix.NonsingularInverse
import Mathlib.Algebra.BigOperators.Fin
import Mathlib.Algebra.BigOperators.Group.List.Basic
import Mathlib.Algebra.Order.Field.Rat
import Mathlib.Tactic.Ring
import Mathlib.Tactic.Linarith

set_option linter.unusedSectionVars false
set_option linter.unusedVariables false

namespace PG

/-! ## 1. The dense generator of the driver -/

section Dense

/-- the row-filling loop of `denseGen` -/
def fillRow (n : ℕ) (L : List (ℕ × ℚ)) : Array ℚ :=
  L.foldl (fun a (p : ℕ × ℚ) => if p.1 < n then a.set! p.1 p.2 else a) (Array.replicate n 0)

theorem fillRow_concat (n : ℕ) (L : List (ℕ × ℚ)) (p : ℕ × ℚ) :
    fillRow n (L ++ [p]) = if p.1 < n then (fillRow n L).set! p.1 p.2 else fillRow n L := by
  unfold fillRow
  rw [List.foldl_append]
  rfl

theorem size_fillRow (n : ℕ) (L : List (ℕ × ℚ)) : (fillRow n L).size = n := by
  induction L using List.reverseRecOn with
  | nil => simp [fillRow]
  | append_singleton L p ih =>
    rw [fillRow_concat]
    split_ifs <;> simp [ih]

/-- the cell `j` of the filled row holds the LAST value written to it (`0` if none) -/
theorem getD_fillRow (n : ℕ) (L : List (ℕ × ℚ)) (j : ℕ) (hj : j < n) :
    (fillRow n L).getD j 0 = (((L.filter fun p => p.1 == j).getLast?).map (·.2)).getD 0 := by
  induction L using List.reverseRecOn with
  | nil => simp [fillRow, Array.getD, hj]
  | append_singleton L p ih =>
    rw [fillRow_concat, List.filter_append]
    have hs := size_fillRow n L
    by_cases hpj : p.1 = j
    · subst hpj
      simp [hj, Array.getD, hs]
    · have : (p.1 == j) = false := by simpa using hpj
      simp only [List.filter_cons, List.filter_nil, this, Bool.false_eq_true, if_false,
        List.append_nil]
      rw [← ih]
      split_ifs with hp
      · simp [Array.getD, hs, hj, hpj]
      · rfl

theorem array_foldl_add (a : Array ℚ) :
    a.foldl (· + ·) 0 = ((List.range a.size).map fun j => a.getD j 0).sum := by
  rw [← Array.foldl_toList, ← sumRat, sumRat_eq]
  congr 1
  apply List.ext_getElem
  · simp
  · intro j h1 h2
    simp only [Array.length_toList] at h1
    simp [Array.getD, h1]

/-- the entries of `denseGen` in terms of the row-filling loop -/
theorem denseGen_getD (n : ℕ) (rows : List (List (ℕ × ℚ))) (i j : ℕ) (hi : i < n) (hj : j < n) :
    ((denseGen n rows).getD i #[]).getD j 0
      = if i = j then - ((List.range n).map fun j' => (fillRow n (rows.getD i [])).getD j' 0).sum
        else (fillRow n (rows.getD i [])).getD j 0 := by
  have hrow : (denseGen n rows).getD i #[]
      = (fillRow n (rows.getD i [])).set! i
          (- (fillRow n (rows.getD i [])).foldl (· + ·) 0) := by
    unfold denseGen
    rw [Array.getD_eq_getD_getElem?, Array.getElem?_map, Array.getElem?_range]
    simp only [hi, if_true, Option.map_some, Option.getD_some]
    rfl
  rw [hrow, array_foldl_add, size_fillRow]
  have hs := size_fillRow n (rows.getD i [])
  generalize rows.getD i [] = row at hs ⊢
  generalize hF : fillRow n row = F at hs ⊢
  by_cases hij : i = j
  · subst hij
    rw [if_pos rfl, Array.getD_eq_getD_getElem?, Array.set!_eq_setIfInBounds,
      Array.getElem?_setIfInBounds_self_of_lt (by omega)]
    rfl
  · rw [if_neg hij, Array.getD_eq_getD_getElem?, Array.set!_eq_setIfInBounds,
      Array.getElem?_setIfInBounds_ne hij, ← Array.getD_eq_getD_getElem?]

theorem sparseRows_getD (states : List State) (tr : List ((State × State) × ℚ)) (i : ℕ)
    (hi : i < states.length) :
    (sparseRows states tr).getD i []
      = (tr.filter fun p => p.1.1 == states[i]).map fun p => (states.idxOf p.1.2, p.2) := by
  unfold sparseRows
  rw [List.getD_eq_getElem?_getD, List.getElem?_map, List.getElem?_eq_getElem hi]
  rfl

/-- a filled cell of the driver's sparse row is the `offW` cell of `_graph_to_matrix` -/
theorem fillRow_sparseRows (states : List State) (hn : states.Nodup)
    (tr : List ((State × State) × ℚ)) (i j : ℕ) (hi : i < states.length)
    (hj : j < states.length) :
    (fillRow states.length ((sparseRows states tr).getD i [])).getD j 0
      = offW tr states[i] states[j] := by
  rw [getD_fillRow _ _ _ hj, sparseRows_getD states tr i hi, List.filter_map, List.getLast?_map,
    Option.map_map, List.filter_filter]
  unfold offW
  have hc : ∀ p ∈ tr, (((fun p : ℕ × ℚ => p.1 == j) ∘
        (fun p : (State × State) × ℚ => (states.idxOf p.1.2, p.2))) p && (p.1.1 == states[i]))
      = (p.1.1 == states[i] && p.1.2 == states[j]) := by
    intro p _
    rw [Bool.and_comm]
    congr 1
    simp only [Function.comp_apply]
    rw [Bool.eq_iff_iff, beq_iff_eq, beq_iff_eq]
    constructor
    · intro h
      have hlt : states.idxOf p.1.2 < states.length := h ▸ hj
      have := List.getElem_idxOf hlt
      simp only [h] at this
      exact this.symm
    · intro h
      rw [h]
      exact hn.idxOf_getElem j hj
  rw [List.filter_congr hc]
  rfl

/-- **Driver-path lemma 1.** The dense generator the driver builds from the sparse rows is, entry
by entry, the rate matrix `rateEntry` of `_graph_to_matrix` (for ANY transition list `tr`; only
the state list must be duplicate free, as `bfs_spec` guarantees). -/
theorem denseGen_sparseRows (states : List State) (hn : states.Nodup)
    (tr : List ((State × State) × ℚ)) (i j : ℕ) (hi : i < states.length)
    (hj : j < states.length) :
    ((denseGen states.length (sparseRows states tr)).getD i #[]).getD j 0
      = rateEntry states tr i j := by
  rw [denseGen_getD _ _ _ _ hi hj, rateEntry_def, sumRat_eq]
  by_cases hij : i = j
  · rw [if_pos hij, if_pos hij]
    congr 2
    refine List.map_congr_left fun j' hj' => ?_
    rw [List.mem_range] at hj'
    rw [fillRow_sparseRows states hn tr i j' hi hj', offd_eq states tr i j' hi hj']
  · rw [if_neg hij, if_neg hij, fillRow_sparseRows states hn tr i j hi hj,
      offd_eq states tr i j hi hj]

/-- the same in the form requested: under the hypotheses of `rateEntry_row` (which are not needed
for the entrywise identity, but are those under which `rateEntry_row` describes the row) -/
theorem denseGen_sparseRows_edges (step : State → Targets) (states : List State)
    (hn : states.Nodup)
    (hk : ∀ s ∈ states, (keys (step s)).Nodup) (hself : ∀ s ∈ states, s ∉ keys (step s))
    (hclosed : ∀ s ∈ states, ∀ t ∈ keys (step s), t ∈ states)
    (i j : ℕ) (hi : i < states.length) (hj : j < states.length) :
    ((denseGen states.length (sparseRows states (states.flatMap (edges step)))).getD i #[]).getD j 0
      = rateEntry states (states.flatMap (edges step)) i j :=
  denseGen_sparseRows states hn _ i j hi hj

/-- the generator row identity `rateEntry_row`, stated for the driver's dense matrix -/
theorem denseGen_row (step : State → Targets) (states : List State) (hn : states.Nodup)
    (i : ℕ) (hi : i < states.length)
    (hk : (keys (step states[i])).Nodup) (hself : states[i] ∉ keys (step states[i]))
    (hclosed : ∀ t ∈ keys (step states[i]), t ∈ states) (f : State → ℚ) :
    ∑ j : Fin states.length,
        ((denseGen states.length (sparseRows states (states.flatMap (edges step)))).getD i #[]).getD
          j 0 * f states[j]
      = genOf (step states[i]) f states[i] := by
  rw [← rateEntry_row step states hn i hi hk hself hclosed f]
  refine Finset.sum_congr rfl fun j _ => ?_
  rw [denseGen_sparseRows states hn _ i j hi j.isLt]

/-- the matrix `codeMat` of the headline theorems (`PGProofs.Assembly`) is, entry by entry, the dense
generator `gens[e] = denseGen k (sparseRows states g_e.transitions)` which the driver feeds to the
matrix exponential -/
theorem codeMat_eq_denseGen (G : ℕ → Graph) (hn : (G 0).visited.Nodup) (e : ℕ)
    (i j : Fin (G 0).visited.length) :
    Assembly.codeMat G e i j
      = ((denseGen (G 0).visited.length
            (sparseRows (G 0).visited (G e).transitions)).getD i #[]).getD j 0 :=
  (denseGen_sparseRows (G 0).visited hn (G e).transitions i j i.isLt j.isLt).symm

theorem codeMat_eq_denseGen_bfs (G : ℕ → Graph) (step : State → Targets) (init : State)
    (fuel : ℕ) (h0 : bfs step init fuel = some (G 0)) (e : ℕ)
    (i j : Fin (G 0).visited.length) :
    Assembly.codeMat G e i j
      = ((denseGen (G 0).visited.length
            (sparseRows (G 0).visited (G e).transitions)).getD i #[]).getD j 0 :=
  codeMat_eq_denseGen G (bfs_spec step init fuel (G 0) h0).1 e i j

end Dense

/-! ## 2. `RMat` as matrices; the certified inverse of `getP` -/

section RMatLayer

open Matrix

/-- view an `RMat` as a `k × k` matrix (`getD`-indexing: missing cells read as `0`) -/
def toMatrix (k : ℕ) (a : RMat) : Matrix (Fin k) (Fin k) ℚ := fun i j => a.get i j

theorem toMatrix_apply (k : ℕ) (a : RMat) (i j : Fin k) : toMatrix k a i j = a.get i j := rfl

/-- view an array as a vector -/
def toVec (k : ℕ) (v : Array ℚ) : Fin k → ℚ := fun i => v.getD i 0

theorem getD_map_range {β : Type} (n : ℕ) (F : ℕ → β) (d : β) (i : ℕ) :
    ((Array.range n).map F).getD i d = if i < n then F i else d := by
  rw [Array.getD_eq_getD_getElem?, Array.getElem?_map, Array.getElem?_range]
  split_ifs <;> rfl

theorem size_map_range {β : Type} (n : ℕ) (F : ℕ → β) : ((Array.range n).map F).size = n := by
  simp

/-- entries of a matrix built by two nested `Array.range … |>.map` -/
theorem get_ofFn (n m : ℕ) (F : ℕ → ℕ → ℚ) (i j : ℕ) :
    RMat.get ((Array.range n).map fun i => (Array.range m).map fun j => F i j) i j
      = if i < n ∧ j < m then F i j else 0 := by
  unfold RMat.get
  rw [getD_map_range]
  by_cases hi : i < n
  · rw [if_pos hi, getD_map_range]
    by_cases hj : j < m <;> simp [hi, hj]
  · rw [if_neg hi]
    simp [hi]

theorem foldl_add_map {α : Type} (l : List α) (g : α → ℚ) (c : ℚ) :
    l.foldl (fun acc x => acc + g x) c = c + (l.map g).sum := by
  induction l generalizing c with
  | nil => simp
  | cons x xs ih => rw [List.foldl_cons, ih, List.map_cons, List.sum_cons]; ring

theorem array_range_foldl (p : ℕ) (g : ℕ → ℚ) :
    (Array.range p).foldl (fun acc x => acc + g x) 0 = ∑ x ∈ Finset.range p, g x := by
  rw [← Array.foldl_toList, Array.toList_range, foldl_add_map, zero_add,
    list_sum_range_eq_finset]

theorem sum_range_eq_of_zero (f : ℕ → ℚ) (p k : ℕ) (h : ∀ x, (p ≤ x ∨ k ≤ x) → f x = 0) :
    ∑ x ∈ Finset.range p, f x = ∑ x ∈ Finset.range k, f x := by
  have h1 : ∑ x ∈ Finset.range (min p k), f x = ∑ x ∈ Finset.range p, f x := by
    apply Finset.sum_subset (Finset.range_mono (min_le_left _ _))
    intro x hx hnx
    rw [Finset.mem_range] at hx hnx
    exact h x (by omega)
  have h2 : ∑ x ∈ Finset.range (min p k), f x = ∑ x ∈ Finset.range k, f x := by
    apply Finset.sum_subset (Finset.range_mono (min_le_right _ _))
    intro x hx hnx
    rw [Finset.mem_range] at hx hnx
    exact h x (by omega)
  rw [← h1, h2]

theorem get_of_size_le (a : RMat) (i j : ℕ) (h : a.size ≤ i) : a.get i j = 0 := by
  unfold RMat.get
  rw [Array.getD_eq_getD_getElem? (xs := a), Array.getElem?_eq_none h]
  rfl

theorem get_of_row_le (a : RMat) (i j : ℕ) (h : (a.getD i #[]).size ≤ j) : a.get i j = 0 := by
  unfold RMat.get
  rw [Array.getD_eq_getD_getElem? (xs := a.getD i #[]), Array.getElem?_eq_none h]
  rfl

theorem size_mul (a b : RMat) : (a.mul b).size = a.size := by
  unfold RMat.mul; simp

/-- entries of `RMat.mul` -/
theorem get_mul (a b : RMat) (i j : ℕ) :
    (a.mul b).get i j
      = if i < a.size ∧ j < (b.getD 0 #[]).size then
          ∑ x ∈ Finset.range b.size, a.get i x * b.get x j else 0 := by
  unfold RMat.mul
  simp only
  rw [get_ofFn]
  split_ifs
  · exact array_range_foldl _ _
  · rfl

/-- an `RMat` is `k × k` -/
def WellShaped (k : ℕ) (a : RMat) : Prop := a.size = k ∧ ∀ i < k, (a.getD i #[]).size = k

theorem WellShaped.row0 {k : ℕ} {a : RMat} (h : WellShaped k a) : (a.getD 0 #[]).size = k := by
  rcases Nat.eq_zero_or_pos k with rfl | hk
  · have : a = #[] := Array.eq_empty_of_size_eq_zero h.1
    subst this; rfl
  · exact h.2 0 hk

theorem wellShaped_ofFn (k : ℕ) (F : ℕ → ℕ → ℚ) :
    WellShaped k ((Array.range k).map fun i => (Array.range k).map fun j => F i j) := by
  refine ⟨by simp, fun i hi => ?_⟩
  rw [getD_map_range, if_pos hi]
  simp

theorem toMatrix_ofFn (k : ℕ) (F : ℕ → ℕ → ℚ) :
    toMatrix k ((Array.range k).map fun i => (Array.range k).map fun j => F i j)
      = Matrix.of fun i j : Fin k => F i j := by
  funext i j
  rw [toMatrix_apply, get_ofFn, if_pos ⟨i.isLt, j.isLt⟩]
  rfl

theorem wellShaped_id (k : ℕ) : WellShaped k (RMat.id k) := wellShaped_ofFn k _

theorem toMatrix_id (k : ℕ) : toMatrix k (RMat.id k) = 1 := by
  unfold RMat.id
  rw [toMatrix_ofFn]
  funext i j
  simp [Matrix.one_apply, Fin.ext_iff]

theorem wellShaped_mul {k : ℕ} {a b : RMat} (ha : a.size = k) (hb : WellShaped k b) :
    WellShaped k (a.mul b) := by
  unfold RMat.mul
  simp only
  rw [ha, hb.row0]
  exact wellShaped_ofFn k _

/-- `toMatrix (a * b) = toMatrix a * toMatrix b` when `a` has `k` rows of length `≤ k` and `b` is
`k × k` -/
theorem toMatrix_mul {k : ℕ} {a b : RMat} (ha : a.size = k)
    (ha' : ∀ i x, k ≤ x → a.get i x = 0) (hb : WellShaped k b) :
    toMatrix k (a.mul b) = toMatrix k a * toMatrix k b := by
  funext i j
  rw [Matrix.mul_apply, toMatrix_apply, get_mul,
    if_pos ⟨ha.symm ▸ i.isLt, hb.row0.symm ▸ j.isLt⟩, hb.1,
    Finset.sum_range fun x => a.get i x * b.get x j]
  rfl

theorem WellShaped.get_zero {k : ℕ} {a : RMat} (h : WellShaped k a) (i x : ℕ) (hx : k ≤ x) :
    a.get i x = 0 := by
  by_cases hi : i < k
  · exact get_of_row_le a i x (by rw [h.2 i hi]; exact hx)
  · exact get_of_size_le a i x (by rw [h.1]; omega)

theorem toMatrix_mul' {k : ℕ} {a b : RMat} (ha : WellShaped k a) (hb : WellShaped k b) :
    toMatrix k (a.mul b) = toMatrix k a * toMatrix k b :=
  toMatrix_mul ha.1 ha.get_zero hb

/-- **key lemma**: `isId` decides equality with the identity matrix -/
theorem isId_iff (a : RMat) : a.isId = true ↔ toMatrix a.size a = 1 := by
  unfold RMat.isId
  simp only [List.all_eq_true, List.mem_range, beq_iff_eq]
  constructor
  · intro h
    funext i j
    rw [toMatrix_apply, h i i.isLt j j.isLt, Matrix.one_apply]
    simp [Fin.ext_iff]
  · intro h i hi j hj
    have := congrFun (congrFun h ⟨i, hi⟩) ⟨j, hj⟩
    rw [toMatrix_apply] at this
    rw [this, Matrix.one_apply]
    simp [Fin.ext_iff]

/-- **certificate ⇒ inverse**, with NO shape assumption on the candidate `b`: if `a` has `k` rows
of length `≤ k` and `isId (a.mul b)`, then `toMatrix a * toMatrix b = 1` (and hence also
`toMatrix b * toMatrix a = 1`, the matrices being square over a field) -/
theorem mul_eq_one_of_isId {k : ℕ} {a b : RMat} (ha : a.size = k)
    (ha' : ∀ i x, k ≤ x → a.get i x = 0) (h : (a.mul b).isId = true) :
    toMatrix k a * toMatrix k b = 1 := by
  rw [isId_iff, size_mul] at h
  subst ha
  rw [← h]
  funext i j
  have hij := congrFun (congrFun h j) j
  rw [toMatrix_apply, get_mul] at hij
  have hj : j.val < (b.getD 0 #[]).size := by
    by_contra hc
    rw [if_neg (fun h' => hc h'.2), Matrix.one_apply_eq] at hij
    exact zero_ne_one hij
  rw [toMatrix_apply, get_mul, if_pos ⟨i.isLt, hj⟩, Matrix.mul_apply]
  simp only [toMatrix_apply]
  rw [← Finset.sum_range fun x => a.get i x * b.get x j]
  apply sum_range_eq_of_zero
  rintro x (hx | hx)
  · rw [ha' i x hx, zero_mul]
  · rw [get_of_size_le b x j hx, mul_zero]

end RMatLayer

section GetP

open Matrix

/-- the reward vectors of `getP`/`mutConfigProb` as functions (`getD`-indexing) -/
def rFun (k : ℕ) (R : List (Array ℚ)) : Fin R.length → Fin k → ℚ := fun i s => (R[i]).getD s 0

/-- `r_total` as `getP` computes it -/
def rTotalArr (k : ℕ) (R : List (Array ℚ)) : Array ℚ :=
  (Array.range k).map fun s => R.foldl (fun acc Ri => acc + Ri.getD s 0) 0

/-- the matrix `getP` inverts -/
def getPM (S : RMat) (R : List (Array ℚ)) (θ : ℚ) : RMat :=
  (Array.range S.size).map fun i => (Array.range S.size).map fun j =>
    (if i = j then 1 else 0) - (1 / (rTotalArr S.size R).getD i 0) / θ * S.get i j

/-- what `getP` returns from the certified inverse -/
def getPOut (k : ℕ) (R : List (Array ℚ)) (Ptot : RMat) : List RMat × Array ℚ :=
  (R.map fun Ri => (Array.range k).map fun i => (Array.range k).map fun j =>
      Ptot.get i j * (Ri.getD j 0 / (rTotalArr k R).getD j 0),
   (Array.range k).map fun i =>
      (Array.range k).foldl (fun acc j => acc + ((if i = j then 1 else 0) - Ptot.get i j)) 0)

theorem getP_eq (S : RMat) (R : List (Array ℚ)) (θ : ℚ) :
    getP S R θ
      = match ((getPM S R θ).inv).filter
            (fun Ptot => RMat.isId ((getPM S R θ).mul Ptot) && RMat.isId (Ptot.mul (getPM S R θ))) with
        | none => none
        | some Ptot => some (getPOut S.size R Ptot) := rfl

/-- `getP` succeeds only with an exactly certified Gauss–Jordan result -/
theorem getP_some {S : RMat} {R : List (Array ℚ)} {θ : ℚ} {P : List RMat} {pTot : Array ℚ}
    (h : getP S R θ = some (P, pTot)) :
    ∃ Ptot : RMat, (getPM S R θ).inv = some Ptot ∧
      RMat.isId ((getPM S R θ).mul Ptot) = true ∧ RMat.isId (Ptot.mul (getPM S R θ)) = true ∧
      (P, pTot) = getPOut S.size R Ptot := by
  rw [getP_eq] at h
  split at h
  · exact absurd h (by simp)
  · rename_i Ptot hf
    rw [Option.filter_eq_some_iff, Bool.and_eq_true] at hf
    exact ⟨Ptot, hf.1, hf.2.1, hf.2.2, (Option.some.inj h).symm⟩

theorem rTotalArr_getD (k : ℕ) (R : List (Array ℚ)) (s : Fin k) :
    (rTotalArr k R).getD s 0 = mcRtot (rFun k R) s := by
  unfold rTotalArr mcRtot rFun
  rw [getD_map_range, if_pos s.isLt, foldl_add_map, zero_add,
    ← Fin.sum_univ_fun_getElem R fun Ri => Ri.getD s 0]
  rfl

/-- the matrix the code inverts is `mcCode θ R S` of `PGProofs.MutConfig` (unconditionally) -/
theorem toMatrix_getPM (S : RMat) (R : List (Array ℚ)) (θ : ℚ) :
    toMatrix S.size (getPM S R θ) = mcCode θ (rFun S.size R) (toMatrix S.size S) := by
  unfold getPM
  rw [toMatrix_ofFn]
  funext i j
  unfold mcCode mcDinv
  rw [Matrix.of_apply, Matrix.sub_apply, Matrix.diagonal_mul, Matrix.one_apply, toMatrix_apply,
    rTotalArr_getD, mul_inv, one_div, div_eq_mul_inv, mul_comm (θ⁻¹)]
  simp only [Fin.ext_iff]

theorem wellShaped_getPM (S : RMat) (R : List (Array ℚ)) (θ : ℚ) :
    WellShaped S.size (getPM S R θ) := wellShaped_ofFn _ _

/-- **Driver-path lemma 2 (certified inverse).** If `getP S R θ = some (P, pTot)` then there is a
matrix `Ptot` with `mcCode * Ptot = 1` and `Ptot * mcCode = 1` (`mcCode = 1 - diag((θ r_total)⁻¹) S`),
the returned `P` has one `k × k` entry per reward with `P_i = Ptot · diag(R_i / r_total)`, and
`pTot = (1 - Ptot) 1`. No assumption on `S`, `R`, `θ` (cells are read with `getD`). -/
theorem getP_spec {S : RMat} {R : List (Array ℚ)} {θ : ℚ} {P : List RMat} {pTot : Array ℚ}
    (h : getP S R θ = some (P, pTot)) :
    ∃ Ptot : Matrix (Fin S.size) (Fin S.size) ℚ,
      mcCode θ (rFun S.size R) (toMatrix S.size S) * Ptot = 1 ∧
      Ptot * mcCode θ (rFun S.size R) (toMatrix S.size S) = 1 ∧
      P.length = R.length ∧
      (∀ A ∈ P, WellShaped S.size A) ∧
      (∀ i : Fin R.length, toMatrix S.size (P.getD i (RMat.id S.size))
          = Ptot * diagonal fun s => rFun S.size R i s / mcRtot (rFun S.size R) s) ∧
      toVec S.size pTot = (1 - Ptot) *ᵥ 1 := by
  obtain ⟨Ptot, -, h1, -, hout⟩ := getP_some h
  have hM := mul_eq_one_of_isId (k := S.size) (by unfold getPM; simp)
    (wellShaped_getPM S R θ).get_zero h1
  rw [toMatrix_getPM] at hM
  unfold getPOut at hout
  obtain ⟨hP, hp⟩ := Prod.mk.inj hout
  refine ⟨toMatrix S.size Ptot, hM, (mul_eq_one_comm.mp hM), ?_, ?_, ?_, ?_⟩
  · rw [hP, List.length_map]
  · intro A hA
    rw [hP, List.mem_map] at hA
    obtain ⟨Ri, _, rfl⟩ := hA
    exact wellShaped_ofFn _ _
  · intro i
    rw [hP, List.getD_eq_getElem?_getD, List.getElem?_map, List.getElem?_eq_getElem i.isLt,
      Option.map_some, Option.getD_some, toMatrix_ofFn]
    funext a b
    rw [Matrix.of_apply, Matrix.mul_diagonal, toMatrix_apply, rTotalArr_getD]
    rfl
  · funext a
    unfold toVec
    rw [hp, getD_map_range, if_pos a.isLt, array_range_foldl, Matrix.mulVec, dotProduct,
      Finset.sum_range fun j => (if a.val = j then (1 : ℚ) else 0) - Ptot.get a j]
    refine Finset.sum_congr rfl fun j _ => ?_
    rw [Pi.one_apply, mul_one, Matrix.sub_apply, Matrix.one_apply, toMatrix_apply]
    simp only [Fin.ext_iff]

variable {ι : Type*} [Fintype ι] [DecidableEq ι] {K : Type*} [Field K] {n : ℕ}

/-- from the certified inverse of the code's matrix to the resolvent hypotheses `hGr`/`hGl` of the
`C16_*` theorems: `G := Ptot · (θD)⁻¹` is the two-sided inverse of `θD - S`, and `Ptot` is
`mcPtot G` -/
theorem resolvent_of_code_inverse {θ : K} {R : Fin n → ι → K} {S Ptot : Matrix ι ι K}
    (hθ : θ ≠ 0) (hr : ∀ s, mcRtot R s ≠ 0) (h1 : mcCode θ R S * Ptot = 1)
    (h2 : Ptot * mcCode θ R S = 1) :
    (θ • mcD R - S) * (Ptot * mcDinv θ R) = 1 ∧ (Ptot * mcDinv θ R) * (θ • mcD R - S) = 1 ∧
    mcPtot (Ptot * mcDinv θ R) θ R = Ptot := by
  refine ⟨?_, ?_, ?_⟩
  · have h3 : (θ • mcD R - S) * Ptot = θ • mcD R := by
      calc (θ • mcD R - S) * Ptot
          = ((θ • mcD R) * mcDinv θ R) * ((θ • mcD R - S) * Ptot) := by
            rw [mcD_mul_Dinv hθ hr, Matrix.one_mul]
        _ = (θ • mcD R) * (mcCode θ R S * Ptot) := by
            rw [mcCode_eq hθ hr]; simp only [Matrix.mul_assoc]
        _ = θ • mcD R := by rw [h1, Matrix.mul_one]
    rw [← Matrix.mul_assoc, h3, mcD_mul_Dinv hθ hr]
  · rw [Matrix.mul_assoc, ← mcCode_eq hθ hr, h2]
  · unfold mcPtot
    rw [Matrix.mul_assoc, mcDinv_mul_D hθ hr, Matrix.mul_one]

/-- **Driver-path lemma 2, resolvent form.** For `θ ≠ 0` and non-vanishing total rewards, what `getP`
returns are `mcP G θ R i` and `mcptot G θ R` for a two-sided inverse `G` of `θD - S` — exactly the
objects and hypotheses (`hGl`, `hGr`) of the `C16_*` theorems. -/
theorem getP_resolvent {S : RMat} {R : List (Array ℚ)} {θ : ℚ} {P : List RMat} {pTot : Array ℚ}
    (h : getP S R θ = some (P, pTot)) (hθ : θ ≠ 0) (hr : ∀ s, mcRtot (rFun S.size R) s ≠ 0) :
    ∃ G : Matrix (Fin S.size) (Fin S.size) ℚ,
      (θ • mcD (rFun S.size R) - toMatrix S.size S) * G = 1 ∧
      G * (θ • mcD (rFun S.size R) - toMatrix S.size S) = 1 ∧
      P.length = R.length ∧
      (∀ A ∈ P, WellShaped S.size A) ∧
      (∀ i : Fin R.length,
        toMatrix S.size (P.getD i (RMat.id S.size)) = mcP G θ (rFun S.size R) i) ∧
      toVec S.size pTot = mcptot G θ (rFun S.size R) := by
  obtain ⟨Ptot, h1, h2, hl, hw, hPi, hp⟩ := getP_spec h
  obtain ⟨hGr, hGl, hPt⟩ := resolvent_of_code_inverse hθ hr h1 h2
  refine ⟨Ptot * mcDinv θ (rFun S.size R), hGr, hGl, hl, hw, ?_, ?_⟩
  · intro i
    rw [hPi i]
    unfold mcP
    rw [hPt]
  · rw [hp]
    unfold mcptot
    rw [hPt]

end GetP

/-! ## 3. The executable `mutConfigProb` is the abstract formula -/

section MutCfg

open Matrix

/-- the product of the `P_i` along one ordering, as `mutConfigProb` forms it -/
def wordProd (k : ℕ) (P : List RMat) (ord : List ℕ) : RMat :=
  ord.foldl (fun U i => U.mul (P.getD (i - 1) (RMat.id k))) (RMat.id k)

def zeroMat (k : ℕ) : RMat := (Array.range k).map fun _ => Array.replicate k 0

/-- the sum over the orderings, as `mutConfigProb` forms it -/
def ordSum (k : ℕ) (P : List RMat) (ords : List (List ℕ)) : RMat :=
  ords.foldl (fun acc ord => acc.add (wordProd k P ord)) (zeroMat k)

/-- the number `mutConfigProb` returns from the outputs of `getP` -/
def mutOut (k : ℕ) (alpha : Array ℚ) (Q : RMat) (pTot : Array ℚ) : ℚ :=
  (Array.range k).foldl (fun acc i =>
    acc + alpha.getD i 0 * (Array.range k).foldl (fun a j => a + Q.get i j * pTot.getD j 0) 0) 0

theorem mutConfigProb_eq (S : RMat) (R : List (Array ℚ)) (alpha : Array ℚ) (θ : ℚ)
    (config : List ℕ) :
    mutConfigProb S R alpha θ config
      = match getP S R θ with
        | none => none
        | some (P, pTot) =>
          some (mutOut S.size alpha (ordSum S.size P (distinctOrderings (configWord config))) pTot) :=
  rfl

theorem wellShaped_zeroMat (k : ℕ) : WellShaped k (zeroMat k) := by
  refine ⟨by simp [zeroMat], fun i hi => ?_⟩
  unfold zeroMat
  rw [getD_map_range, if_pos hi]
  simp

theorem toMatrix_zeroMat (k : ℕ) : toMatrix k (zeroMat k) = 0 := by
  funext i j
  rw [toMatrix_apply]
  unfold zeroMat RMat.get
  rw [getD_map_range, if_pos i.isLt]
  simp

theorem get_add (a b : RMat) (i j : ℕ) :
    (a.add b).get i j
      = if i < a.size ∧ j < (a.getD i #[]).size then a.get i j + b.get i j else 0 := by
  unfold RMat.add
  conv_lhs => unfold RMat.get
  rw [getD_map_range]
  by_cases hi : i < a.size
  · rw [if_pos hi, getD_map_range]
    simp only [hi, true_and]
    rfl
  · rw [if_neg hi, if_neg (fun h => hi h.1)]
    rfl

theorem wellShaped_add {k : ℕ} {a : RMat} (b : RMat) (ha : WellShaped k a) :
    WellShaped k (a.add b) := by
  refine ⟨by unfold RMat.add; simp [ha.1], fun i hi => ?_⟩
  unfold RMat.add
  rw [getD_map_range, if_pos (ha.1.symm ▸ hi), size_map_range]
  exact ha.2 i hi

theorem toMatrix_add {k : ℕ} {a : RMat} (b : RMat) (ha : WellShaped k a) :
    toMatrix k (a.add b) = toMatrix k a + toMatrix k b := by
  funext i j
  rw [Matrix.add_apply, toMatrix_apply, get_add,
    if_pos ⟨ha.1.symm ▸ i.isLt, (ha.2 i i.isLt).symm ▸ j.isLt⟩]
  rfl

theorem wellShaped_getD {k : ℕ} {P : List RMat} (hP : ∀ A ∈ P, WellShaped k A) (x : ℕ) :
    WellShaped k (P.getD x (RMat.id k)) := by
  rw [List.getD_eq_getElem?_getD]
  rcases h : P[x]? with _ | A
  · exact wellShaped_id k
  · exact hP A (List.mem_of_getElem? h)

theorem foldl_mul_spec {k : ℕ} {P : List RMat} (hP : ∀ A ∈ P, WellShaped k A) (w : List ℕ)
    (U : RMat) (hU : WellShaped k U) :
    WellShaped k (w.foldl (fun U i => U.mul (P.getD (i - 1) (RMat.id k))) U) ∧
    toMatrix k (w.foldl (fun U i => U.mul (P.getD (i - 1) (RMat.id k))) U)
      = toMatrix k U * (w.map fun x => toMatrix k (P.getD (x - 1) (RMat.id k))).prod := by
  induction w generalizing U with
  | nil => simp [hU]
  | cons x w ih =>
    have hx := wellShaped_getD hP (x - 1)
    obtain ⟨h1, h2⟩ := ih (U.mul (P.getD (x - 1) (RMat.id k))) (wellShaped_mul hU.1 hx)
    refine ⟨h1, ?_⟩
    rw [List.foldl_cons, h2, toMatrix_mul' hU hx, List.map_cons, List.prod_cons, Matrix.mul_assoc]

theorem wordProd_spec {k : ℕ} {P : List RMat} (hP : ∀ A ∈ P, WellShaped k A) (w : List ℕ) :
    WellShaped k (wordProd k P w) ∧
    toMatrix k (wordProd k P w)
      = (w.map fun x => toMatrix k (P.getD (x - 1) (RMat.id k))).prod := by
  obtain ⟨h1, h2⟩ := foldl_mul_spec hP w (RMat.id k) (wellShaped_id k)
  refine ⟨h1, ?_⟩
  unfold wordProd
  rw [h2, toMatrix_id, Matrix.one_mul]

theorem foldl_add_spec {k : ℕ} {P : List RMat} (hP : ∀ A ∈ P, WellShaped k A)
    (ords : List (List ℕ)) (A : RMat) (hA : WellShaped k A) :
    WellShaped k (ords.foldl (fun acc ord => acc.add (wordProd k P ord)) A) ∧
    toMatrix k (ords.foldl (fun acc ord => acc.add (wordProd k P ord)) A)
      = toMatrix k A + (ords.map fun w => toMatrix k (wordProd k P w)).sum := by
  induction ords generalizing A with
  | nil => simp [hA]
  | cons w ords ih =>
    obtain ⟨h1, h2⟩ := ih (A.add (wordProd k P w)) (wellShaped_add _ hA)
    refine ⟨h1, ?_⟩
    rw [List.foldl_cons, h2, toMatrix_add _ hA, List.map_cons, List.sum_cons, add_assoc]

theorem toMatrix_ordSum {k : ℕ} {P : List RMat} (hP : ∀ A ∈ P, WellShaped k A)
    (ords : List (List ℕ)) :
    toMatrix k (ordSum k P ords)
      = (ords.map fun w => (w.map fun x => toMatrix k (P.getD (x - 1) (RMat.id k))).prod).sum := by
  unfold ordSum
  rw [(foldl_add_spec hP ords _ (wellShaped_zeroMat k)).2, toMatrix_zeroMat, zero_add]
  congr 1
  exact List.map_congr_left fun w _ => (wordProd_spec hP w).2

theorem mutOut_eq (k : ℕ) (alpha : Array ℚ) (Q : RMat) (pTot : Array ℚ) :
    mutOut k alpha Q pTot = toVec k alpha ⬝ᵥ (toMatrix k Q *ᵥ toVec k pTot) := by
  unfold mutOut
  rw [array_range_foldl, dotProduct,
    Finset.sum_range fun i => alpha.getD i 0 *
      (Array.range k).foldl (fun a j => a + Q.get i j * pTot.getD j 0) 0]
  refine Finset.sum_congr rfl fun i _ => ?_
  rw [array_range_foldl, Matrix.mulVec, dotProduct,
    Finset.sum_range fun j => Q.get i j * pTot.getD j 0]
  rfl

/-- **Driver-path lemma 3 (uniform form).** If `getP` succeeds, there is ONE two-sided inverse `G` of
`θD - S` such that for every `alpha` and every configuration with at most as many entries as there
are rewards, `mutConfigProb` returns `α · U(q_c) · p_total` with `U = orderingsSum (mcPnat G θ R)`,
`q_c = configWord config`, `p_total = mcptot G θ R`. -/
theorem mutConfigProb_of_getP {S : RMat} {R : List (Array ℚ)} {θ : ℚ} {P : List RMat}
    {pTot : Array ℚ} (hg : getP S R θ = some (P, pTot))
    (hθ : θ ≠ 0) (hr : ∀ s, mcRtot (rFun S.size R) s ≠ 0) :
    ∃ G : Matrix (Fin S.size) (Fin S.size) ℚ,
      (θ • mcD (rFun S.size R) - toMatrix S.size S) * G = 1 ∧
      G * (θ • mcD (rFun S.size R) - toMatrix S.size S) = 1 ∧
      ∀ (alpha : Array ℚ) (config : List ℕ), config.length ≤ R.length →
        mutConfigProb S R alpha θ config = some (toVec S.size alpha ⬝ᵥ
          (orderingsSum (mcPnat G θ (rFun S.size R)) (configWord config) *ᵥ
            mcptot G θ (rFun S.size R))) := by
  obtain ⟨G, hGr, hGl, hl, hw, hPi, hp⟩ := getP_resolvent hg hθ hr
  refine ⟨G, hGr, hGl, fun alpha config hc => ?_⟩
  rw [mutConfigProb_eq, hg]
  simp only
  rw [mutOut_eq, toMatrix_ordSum hw, hp]
  congr 3
  unfold orderingsSum
  congr 1
  refine List.map_congr_left fun w hw' => ?_
  congr 1
  refine List.map_congr_left fun x hx => ?_
  have hxq : x ∈ configWord config :=
    (((distinctOrderings_spec _).2 w).mp hw').mem_iff.mp hx
  have hlt : x - 1 < R.length := by
    have := mem_configWord hxq
    omega
  unfold mcPnat
  rw [dif_pos hlt]
  exact hPi ⟨x - 1, hlt⟩

/-- **Driver-path lemma 3.** What `mutConfigProb` returns is `α · U(q_c) · p_total`, with
`U = orderingsSum (mcPnat G θ R)`, `q_c = configWord config`, `p_total = mcptot G θ R`, for a
two-sided inverse `G` of `θD - S`: the objects of `C16_config_mass`, `C16_mass`, `C16_empty`,
`C16_first_step_vec`.  Hypotheses: `θ ≠ 0`, non-vanishing total rewards, and the configuration has
at most as many entries as there are rewards (otherwise the executable uses the identity for the
missing `P_i`, where `mcPnat` is `0`). -/
theorem mutConfigProb_spec {S : RMat} {R : List (Array ℚ)} {alpha : Array ℚ} {θ : ℚ}
    {config : List ℕ} {p : ℚ} (h : mutConfigProb S R alpha θ config = some p)
    (hθ : θ ≠ 0) (hr : ∀ s, mcRtot (rFun S.size R) s ≠ 0) (hc : config.length ≤ R.length) :
    ∃ G : Matrix (Fin S.size) (Fin S.size) ℚ,
      (θ • mcD (rFun S.size R) - toMatrix S.size S) * G = 1 ∧
      G * (θ • mcD (rFun S.size R) - toMatrix S.size S) = 1 ∧
      p = toVec S.size alpha ⬝ᵥ
        (orderingsSum (mcPnat G θ (rFun S.size R)) (configWord config) *ᵥ
          mcptot G θ (rFun S.size R)) := by
  rcases hg : getP S R θ with _ | ⟨P, pTot⟩
  · rw [mutConfigProb_eq, hg] at h
    exact absurd h (by simp)
  · obtain ⟨G, hGr, hGl, hall⟩ := mutConfigProb_of_getP hg hθ hr
    refine ⟨G, hGr, hGl, ?_⟩
    rw [hall alpha config hc] at h
    exact (Option.some.inj h).symm

/-- the driver's empty configuration (`config` all zero): `prob = α (θD - S)⁻¹ (-S 1)`
(`C16_empty` applied to what the driver prints) -/
theorem mutConfigProb_empty {S : RMat} {R : List (Array ℚ)} {alpha : Array ℚ} {θ : ℚ} {p : ℚ}
    (h : mutConfigProb S R alpha θ [] = some p)
    (hθ : θ ≠ 0) (hr : ∀ s, mcRtot (rFun S.size R) s ≠ 0) :
    ∃ G : Matrix (Fin S.size) (Fin S.size) ℚ,
      (θ • mcD (rFun S.size R) - toMatrix S.size S) * G = 1 ∧
      G * (θ • mcD (rFun S.size R) - toMatrix S.size S) = 1 ∧
      p = toVec S.size alpha ⬝ᵥ (G *ᵥ ((-toMatrix S.size S) *ᵥ 1)) := by
  obtain ⟨G, hGr, hGl, hp⟩ := mutConfigProb_spec h hθ hr (Nat.zero_le _)
  refine ⟨G, hGr, hGl, ?_⟩
  have : configWord [] = [] := rfl
  rw [hp, this, orderingsSum_nil, Matrix.one_mulVec, C16_empty hGl]

/-- the numbers the driver prints for all configurations with exactly `m` mutations sum to
`α · P_total^m · p_total` (`C16_config_mass` applied to what the driver prints); with `C16_mass`
these telescope to `Σα - α P_total^{M+1} 1` -/
theorem mutConfigProb_mass {S : RMat} {R : List (Array ℚ)} {θ : ℚ} {P : List RMat}
    {pTot : Array ℚ} (hg : getP S R θ = some (P, pTot))
    (hθ : θ ≠ 0) (hr : ∀ s, mcRtot (rFun S.size R) s ≠ 0) (hn : 1 ≤ R.length)
    (alpha : Array ℚ) :
    ∃ G : Matrix (Fin S.size) (Fin S.size) ℚ,
      (θ • mcD (rFun S.size R) - toMatrix S.size S) * G = 1 ∧
      G * (θ • mcD (rFun S.size R) - toMatrix S.size S) = 1 ∧
      ∀ m : ℕ, ((partitionsOf m R.length).map fun c =>
          (mutConfigProb S R alpha θ c).getD 0).sum
        = toVec S.size alpha ⬝ᵥ ((mcPtot G θ (rFun S.size R) ^ m) *ᵥ mcptot G θ (rFun S.size R)) := by
  obtain ⟨G, hGr, hGl, hall⟩ := mutConfigProb_of_getP hg hθ hr
  refine ⟨G, hGr, hGl, fun m => ?_⟩
  rw [← C16_config_mass hr hn (toVec S.size alpha) m]
  congr 1
  refine List.map_congr_left fun c hc => ?_
  have hlen : c.length = R.length := (((partitionsOf_spec m R.length hn).2 c).mp hc).1
  rw [hall alpha c hlen.le]
  rfl

end MutCfg

end PG

#print axioms PG.denseGen_sparseRows
#print axioms PG.denseGen_sparseRows_edges
#print axioms PG.denseGen_row
#print axioms PG.codeMat_eq_denseGen_bfs
#print axioms PG.isId_iff
#print axioms PG.toMatrix_mul'
#print axioms PG.mul_eq_one_of_isId
#print axioms PG.toMatrix_getPM
#print axioms PG.getP_spec
#print axioms PG.resolvent_of_code_inverse
#print axioms PG.getP_resolvent
#print axioms PG.mutConfigProb_of_getP
#print axioms PG.mutConfigProb_spec
#print axioms PG.mutConfigProb_empty
#print axioms PG.mutConfigProb_mass
