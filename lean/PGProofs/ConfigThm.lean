/-
  PGProofs/ConfigThm.lean

  C08, the GLUE half: how the user's containers (sample configuration, size dictionary, migration
  dictionary) become the deme axis, the per-epoch size vector and migration matrix, the initial
  lineage vector and the deme index of `DemeReward` (model: PGModel/Config.lean).

  * `config_named_semantics`          position `i` of every table is about the population NAMED
                                      `axis[i]`
  * `config_listing_order_irrelevant` other listing orders / zero-listed or omitted unsampled
                                      populations / another `set` iteration order: the tables are the
                                      `σ`-reindexing (`permTs`, `permMig`, `permC` of
                                      PGProofs/DemePerm.lean), `σ` = "match the names"
  * `config_rename_equivariant`       the same for an injective renaming
  * `config_hash_independent`         the named semantics do not depend on the `set` order
  * `config_moments_listing_order_irrelevant`  plug-in into `C08_moments_deme`
  * kernel-checked counterexamples for the three historic / seeded defects
-/
import PGModel.Config
import PGProofs.DemePerm
import Mathlib.Data.List.NodupEquivFin
import Mathlib.Data.List.Perm.Basic
import Mathlib.Data.String.Basic

set_option linter.unusedSectionVars false
set_option linter.unusedSimpArgs false
set_option linter.unusedVariables false

namespace PG
namespace Config

/-! ## 0. association lists -/

section Assoc
variable {α β : Type} [BEq α] [LawfulBEq α]

theorem lookup_eq_none_of_not_mem {l : List (α × β)} {k : α} (h : k ∉ l.map (·.1)) :
    l.lookup k = none := by
  rw [List.lookup_eq_none_iff]
  intro p hp
  simp only [bne_iff_ne, ne_eq]
  intro hk
  exact h (List.mem_map.2 ⟨p, hp, hk.symm⟩)

theorem lookup_eq_some_of_mem {l : List (α × β)} (hnd : (l.map (·.1)).Nodup) {k : α} {v : β}
    (h : (k, v) ∈ l) : l.lookup k = some v := by
  induction l with
  | nil => cases h
  | cons a l ih =>
    obtain ⟨a1, a2⟩ := a
    rw [List.map_cons, List.nodup_cons] at hnd
    rw [List.lookup_cons]
    rcases List.mem_cons.1 h with h' | h'
    · obtain ⟨rfl, rfl⟩ := Prod.mk.inj h'
      simp
    · have hne : k ≠ a1 := by
        intro hk
        exact hnd.1 (List.mem_map.2 ⟨(k, v), h', hk⟩)
      have : (k == a1) = false := by simpa using hne
      rw [this]
      exact ih hnd.2 h'

theorem mem_of_lookup_eq_some {l : List (α × β)} {k : α} {v : β} (h : l.lookup k = some v) :
    (k, v) ∈ l := by
  induction l with
  | nil => simp at h
  | cons a l ih =>
    obtain ⟨a1, a2⟩ := a
    rw [List.lookup_cons] at h
    by_cases hk : k = a1
    · subst hk
      simp at h
      subst h
      exact List.mem_cons_self
    · have : (k == a1) = false := by simpa using hk
      rw [this] at h
      exact List.mem_cons_of_mem _ (ih h)

/-- a dict does not see its listing order -/
theorem lookup_perm {l l' : List (α × β)} (hp : l'.Perm l) (hnd : (l.map (·.1)).Nodup) (k : α) :
    l'.lookup k = l.lookup k := by
  have hnd' : (l'.map (·.1)).Nodup := ((hp.map (·.1)).nodup_iff).2 hnd
  cases h : l.lookup k with
  | none =>
    apply lookup_eq_none_of_not_mem
    intro hk
    obtain ⟨p, hp1, hp2⟩ := List.mem_map.1 hk
    have : (k, p.2) ∈ l := by
      have := hp.mem_iff.1 hp1
      rw [← hp2]; exact this
    rw [lookup_eq_some_of_mem hnd this] at h
    cases h
  | some v =>
    exact lookup_eq_some_of_mem hnd' (hp.mem_iff.2 (mem_of_lookup_eq_some h))

/-- lookup in the graph of a function over a key list -/
theorem lookup_map_graph (l : List α) (f : α → β) (x : α) :
    (l.map fun p => (p, f p)).lookup x = if x ∈ l then some (f x) else none := by
  induction l with
  | nil => simp
  | cons a l ih =>
    rw [List.map_cons, List.lookup_cons]
    by_cases hx : x = a
    · subst hx; simp
    · have : (x == a) = false := by simpa using hx
      rw [this]
      simp only [ih, List.mem_cons, hx, false_or]

/-- the `i`-th value of a dict with distinct keys is the value of its `i`-th key -/
theorem lookup_getElem {l : List (α × β)} (hnd : (l.map (·.1)).Nodup) (i : ℕ) (hi : i < l.length) :
    l.lookup l[i].1 = some l[i].2 :=
  lookup_eq_some_of_mem hnd (List.getElem_mem hi)

/-- renaming the keys of a dict injectively -/
theorem lookup_map_key {γ : Type} [BEq γ] [LawfulBEq γ] (ρ : α → γ) (hρ : Function.Injective ρ)
    (l : List (α × β)) (k : α) :
    (l.map fun e => (ρ e.1, e.2)).lookup (ρ k) = l.lookup k := by
  induction l with
  | nil => simp
  | cons a l ih =>
    obtain ⟨a1, a2⟩ := a
    rw [List.map_cons, List.lookup_cons, List.lookup_cons]
    by_cases hk : k = a1
    · subst hk; simp
    · have h1 : (k == a1) = false := by simpa using hk
      have h2 : (ρ k == ρ a1) = false := by simpa using fun h => hk (hρ h)
      rw [h1, h2]
      exact ih

end Assoc

/-! ## 1. names -/

theorem mem_insertName (x y : Name) (l : List Name) : y ∈ insertName x l ↔ y = x ∨ y ∈ l := by
  induction l with
  | nil => simp [insertName]
  | cons a l ih =>
    unfold insertName
    split_ifs with h1 h2
    · simp
    · subst h2; simp
    · rw [List.mem_cons, ih, List.mem_cons]; tauto

/-- `sorted(set(l))` has the members of `l` -/
theorem mem_sortDedup (y : Name) (l : List Name) : y ∈ sortDedup l ↔ y ∈ l := by
  induction l with
  | nil => simp [sortDedup]
  | cons a l ih =>
    have : sortDedup (a :: l) = insertName a (sortDedup l) := rfl
    rw [this, mem_insertName, ih, List.mem_cons]

theorem mem_demographyNames (y : Name) (sizes : List (Name × Changes))
    (mig : List ((Name × Name) × Changes)) :
    y ∈ demographyNames sizes mig ↔ y ∈ rawDemNames sizes mig := mem_sortDedup _ _

theorem mem_allNames (I : Input) (y : Name) :
    y ∈ allNames I ↔ y ∈ rawDemNames I.sizes I.mig ∨ y ∈ I.linNames := by
  unfold allNames
  rw [mem_sortDedup, List.mem_append]

/-- **`setOrder` is an enumeration of the `set` difference**
`set(demography.pop_names) - set(lineage_config.pop_names)`: every element exactly once. -/
def ValidSetOrder (I : Input) : Prop :=
  I.setOrder.Nodup ∧
    ∀ x, x ∈ I.setOrder ↔ (x ∈ demographyNames I.sizes I.mig ∧ x ∉ I.linNames)

theorem mem_unsampled (I : Input) (x : Name) :
    x ∈ unsampled I ↔ (x ∈ demographyNames I.sizes I.mig ∧ x ∉ I.linNames) := by
  unfold unsampled
  simp [List.mem_filter]

/-- the executable check of the driver is this predicate -/
theorem validSetOrder_iff (I : Input) : validSetOrder I = true ↔ ValidSetOrder I := by
  unfold validSetOrder ValidSetOrder
  simp only [Bool.and_eq_true, decide_eq_true_eq, List.all_eq_true, List.contains_iff_mem,
    and_assoc]
  constructor
  · rintro ⟨h1, h2, h3⟩
    exact ⟨h1, fun x => ⟨fun hx => (mem_unsampled I x).1 (h2 x hx),
      fun hx => h3 x ((mem_unsampled I x).2 hx)⟩⟩
  · rintro ⟨h1, h2⟩
    exact ⟨h1, fun x hx => (mem_unsampled I x).2 ((h2 x).1 hx),
      fun x hx => (h2 x).2 ((mem_unsampled I x).1 hx)⟩

/-- the deme axis consists of the populations of the sample configuration and of the demography -/
theorem mem_axis {I : Input} (hV : ValidSetOrder I) (x : Name) :
    x ∈ axis I ↔ x ∈ I.linNames ∨ x ∈ rawDemNames I.sizes I.mig := by
  unfold axis
  rw [List.mem_append, hV.2 x, mem_demographyNames]
  tauto

theorem mem_axis_iff_allNames {I : Input} (hV : ValidSetOrder I) (x : Name) :
    x ∈ axis I ↔ x ∈ allNames I := by
  rw [mem_axis hV, mem_allNames]; tauto

theorem axis_nodup {I : Input} (hN : I.linNames.Nodup) (hV : ValidSetOrder I) : (axis I).Nodup := by
  unfold axis
  rw [List.nodup_append]
  refine ⟨hN, hV.1, ?_⟩
  rintro a ha b hb rfl
  exact ((hV.2 a).1 hb).2 ha

/-! ## 2. every table is indexed by the NAME on the axis -/

theorem epochSizes_lookup {I : Input} {p : Name} (hp : p ∈ allNames I) (t : ℚ) :
    (epochSizes I t).lookup p = some (sizeAt I.sizes p t) := by
  unfold epochSizes
  rw [lookup_map_graph, if_pos hp]

theorem epochMig_lookup {I : Input} {p q : Name} (hp : p ∈ allNames I) (hq : q ∈ allNames I)
    (t : ℚ) : (epochMig I t).lookup (p, q) = some (rateAt I.mig (p, q) t) := by
  have h : epochMig I t
      = ((allNames I).flatMap fun p => (allNames I).map fun q => (p, q)).map
          fun pq => (pq, rateAt I.mig pq t) := by
    unfold epochMig
    rw [List.map_flatMap]
    simp only [List.map_map, Function.comp_def]
  rw [h, lookup_map_graph, if_pos]
  rw [List.mem_flatMap]
  exact ⟨p, hp, List.mem_map.2 ⟨q, hq, rfl⟩⟩

theorem length_axis (I : Input) : (axis I).length = I.n.toDict.length + I.setOrder.length := by
  simp [axis, Input.linNames]

/-- **Named semantics.**  Position `i` of the size vector, of row and column `i` of the migration
matrix, of the initial lineage vector is the value attached to the population NAMED `axis[i]`, and
`DemeReward(axis[i])` resolves to position `i`. -/
def NamedSemantics (v : Variant) (I : Input) (t : ℚ) : Prop :=
  (epochTable v I t).1.length = (axis I).length ∧
  (epochTable v I t).2.length = (axis I).length ∧
  (initVec I).length = (axis I).length ∧
  ∀ i (hi : i < (axis I).length),
    (epochTable v I t).1[i]? = some (sizeAt I.sizes (axis I)[i] t) ∧
    (∀ j (hj : j < (axis I).length),
      ((epochTable v I t).2[i]?.bind (·[j]?))
        = some (rateAt I.mig ((axis I)[i], (axis I)[j]) t)) ∧
    (initVec I)[i]? = some (nOf I (axis I)[i]) ∧
    demeIndex v I (axis I)[i] = i

theorem initVec_getElem? {I : Input} (hN : I.linNames.Nodup) (hV : ValidSetOrder I) (i : ℕ)
    (hi : i < (axis I).length) : (initVec I)[i]? = some (nOf I (axis I)[i]) := by
  have hlen : (List.map (·.2) I.n.toDict).length = I.n.toDict.length := List.length_map _
  have hlen' : I.linNames.length = I.n.toDict.length := by simp [Input.linNames]
  unfold initVec nOf
  rw [List.getElem?_append]
  by_cases h : i < I.n.toDict.length
  · rw [hlen, if_pos h]
    have hax : (axis I)[i] = (I.n.toDict[i]).1 := by
      have h1 : (axis I)[i] = I.linNames[i]'(by rw [hlen']; exact h) :=
        List.getElem_append_left (as := I.linNames) (bs := I.setOrder) (by rw [hlen']; exact h)
      rw [h1]
      simp [Input.linNames]
    rw [hax, lookup_getElem hN i h]
    simp [List.getElem?_map, List.getElem?_eq_getElem h]
  · rw [hlen, if_neg h]
    have hi' : i - I.n.toDict.length < I.setOrder.length := by
      rw [length_axis] at hi; omega
    have hax : (axis I)[i] = I.setOrder[i - I.n.toDict.length] := by
      have h1 : (axis I)[i] = I.setOrder[i - I.linNames.length]'(by rw [hlen']; exact hi') :=
        List.getElem_append_right (as := I.linNames) (bs := I.setOrder) (by rw [hlen']; omega)
      rw [h1]
      simp [hlen']
    have hnot : (axis I)[i] ∉ I.linNames := by
      rw [hax]; exact ((hV.2 _).1 (List.getElem_mem hi')).2
    rw [lookup_eq_none_of_not_mem hnot]
    simp [List.getElem?_replicate, hi']

/-- **C08 (glue), named semantics of the current code**: for all sample configurations (dict with
distinct keys, list, scalar), all size / migration dictionaries, all enumerations `setOrder` of the
unsampled populations and all times. -/
theorem config_named_semantics (I : Input) (t : ℚ) (hN : I.linNames.Nodup)
    (hV : ValidSetOrder I) : NamedSemantics .current I t := by
  have hmem : ∀ i (hi : i < (axis I).length), (axis I)[i] ∈ allNames I := fun i hi =>
    (mem_axis_iff_allNames hV _).1 (List.getElem_mem hi)
  refine ⟨by simp [epochTable, sizeVec], by simp [epochTable, migMat, migNames],
    by simp [initVec, axis, Input.linNames], fun i hi => ⟨?_, fun j hj => ?_, ?_, ?_⟩⟩
  · simp only [epochTable, sizeVec, List.getElem?_map, List.getElem?_eq_getElem hi, Option.map_some,
      epochSizes_lookup (hmem i hi), Option.getD_some]
  · simp only [epochTable, migMat, migNames, List.getElem?_map, List.getElem?_eq_getElem hi,
      List.getElem?_eq_getElem hj, Option.map_some, Option.bind_some,
      epochMig_lookup (hmem i hi) (hmem j hj), Option.getD_some]
  · exact initVec_getElem? hN hV i hi
  · exact (axis_nodup hN hV).idxOf_getElem i hi

/-! ## 3. the tables as functions on the deme axis, and the permutation "match the names" -/

open DemePerm

/-- the size vector as the function `Fin D → ℚ` which `mkEpoch` / `C08_moments_perm` take
(composed with the model's time scale) -/
def sizesFn (v : Variant) (I : Input) (t : ℚ) (D : ℕ) : Fin D → ℚ :=
  fun d => (epochTable v I t).1.getD d.val 0

/-- the migration matrix as the function `Fin D → Fin D → ℚ` which `mkEpoch` takes -/
def migFn (v : Variant) (I : Input) (t : ℚ) (D : ℕ) : Fin D → Fin D → ℚ :=
  fun a b => ((epochTable v I t).2.getD a.val []).getD b.val 0

/-- the sample configuration as the function `Fin D → ℕ` (`c0` of `C08_moments_perm`) -/
def initFn (I : Input) (D : ℕ) : Fin D → ℕ := fun d => (initVec I).getD d.val 0

section Named
variable {v : Variant} {I : Input} {t : ℚ}

theorem NamedSemantics.size (h : NamedSemantics v I t) {i : ℕ} {p : Name}
    (hp : (axis I)[i]? = some p) : (epochTable v I t).1.getD i 0 = sizeAt I.sizes p t := by
  obtain ⟨hi, rfl⟩ := List.getElem?_eq_some_iff.1 hp
  rw [List.getD_eq_getElem?_getD, (h.2.2.2 i hi).1, Option.getD_some]

theorem NamedSemantics.rate (h : NamedSemantics v I t) {i j : ℕ} {p q : Name}
    (hp : (axis I)[i]? = some p) (hq : (axis I)[j]? = some q) :
    ((epochTable v I t).2.getD i []).getD j 0 = rateAt I.mig (p, q) t := by
  obtain ⟨hi, rfl⟩ := List.getElem?_eq_some_iff.1 hp
  obtain ⟨hj, rfl⟩ := List.getElem?_eq_some_iff.1 hq
  have := (h.2.2.2 i hi).2.1 j hj
  rw [List.getD_eq_getElem?_getD, List.getD_eq_getElem?_getD]
  cases hrow : (epochTable v I t).2[i]? with
  | none => rw [hrow] at this; simp at this
  | some row =>
    rw [hrow, Option.bind_some] at this
    rw [Option.getD_some, this, Option.getD_some]

theorem NamedSemantics.init (h : NamedSemantics v I t) {i : ℕ} {p : Name}
    (hp : (axis I)[i]? = some p) : (initVec I).getD i 0 = nOf I p := by
  obtain ⟨hi, rfl⟩ := List.getElem?_eq_some_iff.1 hp
  rw [List.getD_eq_getElem?_getD, (h.2.2.2 i hi).2.2.1, Option.getD_some]

theorem NamedSemantics.deme (h : NamedSemantics v I t) {i : ℕ} {p : Name}
    (hp : (axis I)[i]? = some p) : demeIndex v I p = i := by
  obtain ⟨hi, rfl⟩ := List.getElem?_eq_some_iff.1 hp
  exact (h.2.2.2 i hi).2.2.2

end Named

/-- **The permutation "match the names".**  Two duplicate-free axes whose names correspond under
`ρ` differ by the permutation `σ` which sends position `i` to the position of the name `ρ ax[i]`
in the other axis. -/
theorem exists_matchPerm (ax ax' : List Name) (ρ : Name → Name) (hnd : ax.Nodup)
    (hnd' : ax'.Nodup) (hρ : ∀ x ∈ ax, ∀ y ∈ ax, ρ x = ρ y → x = y)
    (hmem : ∀ x, x ∈ ax' ↔ ∃ p ∈ ax, ρ p = x) :
    ax'.length = ax.length ∧
    ∃ σ : Equiv.Perm (Fin ax.length), ∀ i : Fin ax.length,
      (σ i).val = ax'.idxOf (ρ ax[i]) ∧ ax'[(σ i).val]? = some (ρ ax[i]) := by
  have hnd₁ : (ax.map ρ).Nodup := List.Nodup.map_on hρ hnd
  have hperm : (ax.map ρ).Perm ax' := by
    rw [List.perm_ext_iff_of_nodup hnd₁ hnd']
    intro a
    rw [hmem a, List.mem_map]
  have hlen : ax'.length = ax.length := by rw [← hperm.length_eq, List.length_map]
  have hin : ∀ i : Fin ax.length, ρ ax[i] ∈ ax' := fun i =>
    (hmem _).2 ⟨ax[i], List.getElem_mem i.isLt, rfl⟩
  let f : Fin ax.length → Fin ax.length := fun i =>
    ⟨ax'.idxOf (ρ ax[i]), lt_of_lt_of_eq (List.idxOf_lt_length_of_mem (hin i)) hlen⟩
  have hinj : Function.Injective f := by
    intro i j hij
    have h1 : ax'.idxOf (ρ ax[i]) = ax'.idxOf (ρ ax[j]) := congrArg Fin.val hij
    have h2 : ρ ax[i] = ρ ax[j] := (List.idxOf_inj (hin i)).1 h1
    have h3 : ax[i] = ax[j] :=
      hρ _ (List.getElem_mem i.isLt) _ (List.getElem_mem j.isLt) h2
    exact Fin.ext ((hnd.getElem_inj_iff).1 h3)
  refine ⟨hlen, Equiv.ofBijective f (Finite.injective_iff_bijective.1 hinj), fun i => ⟨rfl, ?_⟩⟩
  have hlt : ax'.idxOf (ρ ax[i]) < ax'.length := List.idxOf_lt_length_of_mem (hin i)
  show ax'[ax'.idxOf (ρ ax[i])]? = _
  rw [List.getElem?_eq_getElem hlt, List.getElem_idxOf hlt]

/-- **Transport of the tables along a correspondence of names.**  If the names on the two axes
correspond under `ρ` and the NAMED data (lineage counts, sizes, rates) agree, then all tables of the
second input are the `σ`-reindexing of the tables of the first, `σ` = "match the names". -/
theorem config_transport (I I' : Input) (ρ : Name → Name)
    (hN : I.linNames.Nodup) (hV : ValidSetOrder I)
    (hN' : I'.linNames.Nodup) (hV' : ValidSetOrder I')
    (hρ : ∀ x ∈ axis I, ∀ y ∈ axis I, ρ x = ρ y → x = y)
    (hax : ∀ x, x ∈ axis I' ↔ ∃ p ∈ axis I, ρ p = x)
    (hn : ∀ p ∈ axis I, nOf I' (ρ p) = nOf I p)
    (hs : ∀ p ∈ axis I, ∀ t, sizeAt I'.sizes (ρ p) t = sizeAt I.sizes p t)
    (hm : ∀ p ∈ axis I, ∀ q ∈ axis I, ∀ t,
      rateAt I'.mig (ρ p, ρ q) t = rateAt I.mig (p, q) t) :
    (axis I').length = (axis I).length ∧
    ∃ σ : Equiv.Perm (Fin (axis I).length),
      (∀ i : Fin (axis I).length, (σ i).val = (axis I').idxOf (ρ (axis I)[i]) ∧
        (axis I')[(σ i).val]? = some (ρ (axis I)[i])) ∧
      (∀ t, sizesFn .current I' t (axis I).length
        = permTs σ (sizesFn .current I t (axis I).length)) ∧
      (∀ t, migFn .current I' t (axis I).length
        = permMig σ (migFn .current I t (axis I).length)) ∧
      initFn I' (axis I).length = permC σ (initFn I (axis I).length) ∧
      ∀ i : Fin (axis I).length, demeIndex .current I (axis I)[i] = i.val ∧
        demeIndex .current I' (ρ (axis I)[i]) = (σ i).val := by
  obtain ⟨hlen, σ, hσ⟩ := exists_matchPerm (axis I) (axis I') ρ (axis_nodup hN hV)
    (axis_nodup hN' hV') hρ hax
  have hat : ∀ i : Fin (axis I).length, (axis I)[i.val]? = some (axis I)[i] := fun i =>
    List.getElem?_eq_getElem i.isLt
  have hin : ∀ i : Fin (axis I).length, (axis I)[i] ∈ axis I := fun i =>
    List.getElem_mem i.isLt
  refine ⟨hlen, σ, hσ, fun t => ?_, fun t => ?_, ?_, fun i => ⟨?_, ?_⟩⟩
  · funext d
    obtain ⟨i, rfl⟩ := σ.surjective d
    rw [permTs_apply]
    show (epochTable .current I' t).1.getD (σ i).val 0 = (epochTable .current I t).1.getD i.val 0
    rw [(config_named_semantics I' t hN' hV').size (hσ i).2,
      (config_named_semantics I t hN hV).size (hat i), hs _ (hin i)]
  · funext a b
    obtain ⟨i, rfl⟩ := σ.surjective a
    obtain ⟨j, rfl⟩ := σ.surjective b
    rw [permMig_apply]
    show ((epochTable .current I' t).2.getD (σ i).val []).getD (σ j).val 0
      = ((epochTable .current I t).2.getD i.val []).getD j.val 0
    rw [(config_named_semantics I' t hN' hV').rate (hσ i).2 (hσ j).2,
      (config_named_semantics I t hN hV).rate (hat i) (hat j), hm _ (hin i) _ (hin j)]
  · funext d
    obtain ⟨i, rfl⟩ := σ.surjective d
    rw [permC_apply]
    show (initVec I').getD (σ i).val 0 = (initVec I).getD i.val 0
    rw [(config_named_semantics I' 0 hN' hV').init (hσ i).2,
      (config_named_semantics I 0 hN hV).init (hat i), hn _ (hin i)]
  · exact (config_named_semantics I 0 hN hV).deme (hat i)
  · exact (config_named_semantics I' 0 hN' hV').deme (hσ i).2

/-! ## 4. listing order, zero-listed / omitted unsampled populations, `set` order -/

/-- the lineage count of a name only depends on the SAMPLED entries (count `≠ 0`) of the dict -/
theorem lookup_getD_filter_ne_zero (d : List (Name × ℕ)) (hnd : (d.map (·.1)).Nodup) (p : Name) :
    (d.lookup p).getD 0 = ((d.filter fun e => e.2 ≠ 0).lookup p).getD 0 := by
  have hsub : ((d.filter fun e => e.2 ≠ 0).map (·.1)).Sublist (d.map (·.1)) :=
    List.filter_sublist.map _
  have hnd' := hnd.sublist hsub
  cases h : d.lookup p with
  | none =>
    have hp : p ∉ d.map (·.1) := by
      intro hk
      obtain ⟨e, he1, he2⟩ := List.mem_map.1 hk
      have : (p, e.2) ∈ d := by rw [← he2]; exact he1
      rw [lookup_eq_some_of_mem hnd this] at h
      cases h
    rw [lookup_eq_none_of_not_mem fun hk => hp (hsub.subset hk)]
  | some c =>
    have hmem := mem_of_lookup_eq_some h
    by_cases hc : c = 0
    · subst hc
      cases h' : (d.filter fun e => e.2 ≠ 0).lookup p with
      | none => rfl
      | some w =>
        have hw := List.mem_filter.1 (mem_of_lookup_eq_some h')
        have : some w = some 0 := by rw [← lookup_eq_some_of_mem hnd hw.1, h]
        rw [this]
    · rw [lookup_eq_some_of_mem hnd' (List.mem_filter.2 ⟨hmem, by simpa using hc⟩)]

theorem nOf_eq_of_sampled_perm {I I' : Input} (hN : I.linNames.Nodup) (hN' : I'.linNames.Nodup)
    (hcnt : (I'.n.toDict.filter fun e => e.2 ≠ 0).Perm (I.n.toDict.filter fun e => e.2 ≠ 0))
    (p : Name) : nOf I' p = nOf I p := by
  unfold nOf
  rw [lookup_getD_filter_ne_zero _ hN', lookup_getD_filter_ne_zero _ hN]
  have hnd : ((I.n.toDict.filter fun e => e.2 ≠ 0).map (·.1)).Nodup :=
    List.Nodup.sublist (List.filter_sublist.map _) hN
  rw [lookup_perm hcnt hnd]

theorem mem_linNames_of_nOf_ne_zero {I : Input} {p : Name} (h : nOf I p ≠ 0) :
    p ∈ I.linNames := by
  by_contra hp
  exact h (by unfold nOf; rw [lookup_eq_none_of_not_mem hp]; rfl)

theorem mem_rawDemNames_perm {s s' : List (Name × Changes)} {m m' : List ((Name × Name) × Changes)}
    (hs : s'.Perm s) (hm : m'.Perm m) (x : Name) :
    x ∈ rawDemNames s' m' ↔ x ∈ rawDemNames s m := by
  unfold rawDemNames
  exact ((hs.map _).append (hm.flatMap_right _)).mem_iff

/-- **C08 (glue): the listing order, listing unsampled populations with 0 or omitting them, and the
iteration order of the `set` of unsampled populations are irrelevant.**

`I'` lists the entries of the size dict and of the migration dict in another order (`List.Perm`,
distinct keys), lists the SAMPLED entries of the sample configuration in another order, lists
any unsampled populations of the demography with 0 lineages or omits them (`hz`, `hz'`: an entry with
0 lineages which only one of the two lists is a population of the demography), and has an arbitrary
enumeration `setOrder` of its own set of unsampled populations.  Then the axes have the same length
and, with `σ` the permutation of axis positions that MATCHES THE NAMES
(`σ i` = position in the second axis of the name at position `i` of the first), sizes, migration
matrix, initial vector of the second input are `permTs σ`, `permMig σ`, `permC σ` of those of the
first (the hypotheses of `C08_moments_perm`), and `DemeReward(name)` resolves to `i` resp. `σ i`. -/
theorem config_listing_order_irrelevant (I I' : Input)
    (hN : I.linNames.Nodup) (hV : ValidSetOrder I)
    (hN' : I'.linNames.Nodup) (hV' : ValidSetOrder I')
    (hsz : I'.sizes.Perm I.sizes) (hszk : (I.sizes.map (·.1)).Nodup)
    (hmg : I'.mig.Perm I.mig) (hmgk : (I.mig.map (·.1)).Nodup)
    (hcnt : (I'.n.toDict.filter fun e => e.2 ≠ 0).Perm (I.n.toDict.filter fun e => e.2 ≠ 0))
    (hz : ∀ p ∈ I.linNames, nOf I p = 0 → p ∈ I'.linNames ∨ p ∈ rawDemNames I.sizes I.mig)
    (hz' : ∀ p ∈ I'.linNames, nOf I' p = 0 → p ∈ I.linNames ∨ p ∈ rawDemNames I.sizes I.mig) :
    (axis I').length = (axis I).length ∧
    ∃ σ : Equiv.Perm (Fin (axis I).length),
      (∀ i : Fin (axis I).length, (σ i).val = (axis I').idxOf (axis I)[i] ∧
        (axis I')[(σ i).val]? = some (axis I)[i]) ∧
      (∀ t, sizesFn .current I' t (axis I).length
        = permTs σ (sizesFn .current I t (axis I).length)) ∧
      (∀ t, migFn .current I' t (axis I).length
        = permMig σ (migFn .current I t (axis I).length)) ∧
      initFn I' (axis I).length = permC σ (initFn I (axis I).length) ∧
      ∀ i : Fin (axis I).length, demeIndex .current I (axis I)[i] = i.val ∧
        demeIndex .current I' (axis I)[i] = (σ i).val := by
  have hn : ∀ p, nOf I' p = nOf I p := nOf_eq_of_sampled_perm hN hN' hcnt
  have hraw : ∀ x, x ∈ rawDemNames I'.sizes I'.mig ↔ x ∈ rawDemNames I.sizes I.mig :=
    mem_rawDemNames_perm hsz hmg
  have hax : ∀ x, x ∈ axis I' ↔ ∃ p ∈ axis I, id p = x := by
    intro x
    simp only [id, exists_eq_right]
    rw [mem_axis hV', mem_axis hV, hraw]
    constructor
    · rintro (h | h)
      · by_cases h0 : nOf I' x = 0
        · rcases hz' x h h0 with h | h
          · exact Or.inl h
          · exact Or.inr h
        · exact Or.inl (mem_linNames_of_nOf_ne_zero (by rw [← hn]; exact h0))
      · exact Or.inr h
    · rintro (h | h)
      · by_cases h0 : nOf I x = 0
        · rcases hz x h h0 with h | h
          · exact Or.inl h
          · exact Or.inr h
        · exact Or.inl (mem_linNames_of_nOf_ne_zero (by rw [hn]; exact h0))
      · exact Or.inr h
  exact config_transport I I' id hN hV hN' hV' (fun x _ y _ h => h) hax (fun p _ => hn p)
    (fun p _ t => by unfold sizeAt; rw [id, lookup_perm hsz hszk])
    (fun p _ q _ t => by unfold rateAt; rw [id, id, lookup_perm hmg hmgk])

/-! ## 5. renaming -/

/-- apply the renaming `ρ` to every container (a sample configuration given as a list or a scalar is
renamed as the dict it stands for); `so'` is the `set` order of the renamed run -/
def renameInput (ρ : Name → Name) (I : Input) (so' : List Name) : Input where
  n := .dict (I.n.toDict.map fun e => (ρ e.1, e.2))
  sizes := I.sizes.map fun e => (ρ e.1, e.2)
  mig := I.mig.map fun e => ((ρ e.1.1, ρ e.1.2), e.2)
  setOrder := so'

theorem linNames_rename (ρ : Name → Name) (I : Input) (so' : List Name) :
    (renameInput ρ I so').linNames = I.linNames.map ρ := by
  simp [renameInput, Input.linNames, NInput.toDict, List.map_map, Function.comp_def]

theorem rawDemNames_rename (ρ : Name → Name) (I : Input) (so' : List Name) :
    rawDemNames (renameInput ρ I so').sizes (renameInput ρ I so').mig
      = (rawDemNames I.sizes I.mig).map ρ := by
  simp [renameInput, rawDemNames, List.map_append, List.map_map, List.map_flatMap,
    List.flatMap_map, Function.comp_def]

/-- **C08 (glue): consistent renaming.**  Apply an injective renaming `ρ` to the names in all
containers.  Whatever the `set` order `so'` of the renamed run is (sorting and hashing of the new
names may differ arbitrarily), the renamed axis consists of the renamed names, and with `σ` the
permutation that sends position `i` to the position of `ρ axis[i]` on the renamed axis, all tables
of the renamed run are the `σ`-reindexing of the original ones and `DemeReward(ρ name)` resolves
to `σ` of what `DemeReward(name)` resolved to. -/
theorem config_rename_equivariant (I : Input) (ρ : Name → Name) (hρ : Function.Injective ρ)
    (so' : List Name) (hN : I.linNames.Nodup) (hV : ValidSetOrder I)
    (hV' : ValidSetOrder (renameInput ρ I so')) :
    (axis (renameInput ρ I so')).length = (axis I).length ∧
    ∃ σ : Equiv.Perm (Fin (axis I).length),
      (∀ i : Fin (axis I).length,
        (σ i).val = (axis (renameInput ρ I so')).idxOf (ρ (axis I)[i]) ∧
        (axis (renameInput ρ I so'))[(σ i).val]? = some (ρ (axis I)[i])) ∧
      (∀ t, sizesFn .current (renameInput ρ I so') t (axis I).length
        = permTs σ (sizesFn .current I t (axis I).length)) ∧
      (∀ t, migFn .current (renameInput ρ I so') t (axis I).length
        = permMig σ (migFn .current I t (axis I).length)) ∧
      initFn (renameInput ρ I so') (axis I).length = permC σ (initFn I (axis I).length) ∧
      ∀ i : Fin (axis I).length, demeIndex .current I (axis I)[i] = i.val ∧
        demeIndex .current (renameInput ρ I so') (ρ (axis I)[i]) = (σ i).val := by
  have hN' : (renameInput ρ I so').linNames.Nodup := by
    rw [linNames_rename]; exact hN.map hρ
  have hax : ∀ x, x ∈ axis (renameInput ρ I so') ↔ ∃ p ∈ axis I, ρ p = x := by
    intro x
    rw [mem_axis hV', linNames_rename, rawDemNames_rename, List.mem_map, List.mem_map]
    constructor
    · rintro (⟨p, hp, rfl⟩ | ⟨p, hp, rfl⟩)
      · exact ⟨p, (mem_axis hV p).2 (Or.inl hp), rfl⟩
      · exact ⟨p, (mem_axis hV p).2 (Or.inr hp), rfl⟩
    · rintro ⟨p, hp, rfl⟩
      rcases (mem_axis hV p).1 hp with h | h
      · exact Or.inl ⟨p, h, rfl⟩
      · exact Or.inr ⟨p, h, rfl⟩
  refine config_transport I (renameInput ρ I so') ρ hN hV hN' hV' (fun x _ y _ h => hρ h) hax
    (fun p _ => ?_) (fun p _ t => ?_) (fun p _ q _ t => ?_)
  · unfold nOf
    show ((I.n.toDict.map fun e => (ρ e.1, e.2)).lookup (ρ p)).getD 0 = _
    rw [lookup_map_key ρ hρ]
  · unfold sizeAt
    show valueAt (((I.sizes.map fun e => (ρ e.1, e.2)).lookup (ρ p)).getD []) t 1 = _
    rw [lookup_map_key ρ hρ]
  · unfold rateAt
    show valueAt (((I.mig.map fun e => (Prod.map ρ ρ e.1, e.2)).lookup (Prod.map ρ ρ (p, q))).getD
      []) t 0 = _
    rw [lookup_map_key (Prod.map ρ ρ) (hρ.prodMap hρ)]

/-! ## 6. independence of the `set` iteration order (hash randomisation) -/

/-- the value every table holds at the position `DemeReward(p)` resolves to is the value attached
to the NAME `p`: an expression in which `setOrder` does not occur -/
theorem config_value_at_name (I : Input) (t : ℚ) (hN : I.linNames.Nodup) (hV : ValidSetOrder I)
    (p : Name) (hp : p ∈ axis I) :
    (epochTable .current I t).1.getD (demeIndex .current I p) 0 = sizeAt I.sizes p t ∧
    (∀ q ∈ axis I,
      ((epochTable .current I t).2.getD (demeIndex .current I p) []).getD
        (demeIndex .current I q) 0 = rateAt I.mig (p, q) t) ∧
    (initVec I).getD (demeIndex .current I p) 0 = nOf I p := by
  have key : ∀ x ∈ axis I, (axis I)[demeIndex .current I x]? = some x := by
    intro x hx
    have hlt : (axis I).idxOf x < (axis I).length := List.idxOf_lt_length_of_mem hx
    show (axis I)[(axis I).idxOf x]? = some x
    rw [List.getElem?_eq_getElem hlt, List.getElem_idxOf hlt]
  have h := config_named_semantics I t hN hV
  exact ⟨h.size (key p hp), fun q hq => h.rate (key p hp) (key q hq), h.init (key p hp)⟩

/-- **C08 (glue): no dependence on hash randomisation.**  Two runs of the same script differ at most
in the iteration order of the `set` of unsampled populations (`so`, `so'`: ANY two enumerations).
The axes carry the same names and, for every population name, the size, the migration rates to
every other named population, and the lineage count found at the position `DemeReward(name)`
resolves to are the same in both runs. -/
theorem config_hash_independent (I : Input) (so so' : List Name) (t : ℚ) (hN : I.linNames.Nodup)
    (hV : ValidSetOrder { I with setOrder := so }) (hV' : ValidSetOrder { I with setOrder := so' }) :
    (∀ p, p ∈ axis { I with setOrder := so } ↔ p ∈ axis { I with setOrder := so' }) ∧
    ∀ p ∈ axis { I with setOrder := so },
      (epochTable .current { I with setOrder := so } t).1.getD
          (demeIndex .current { I with setOrder := so } p) 0
        = (epochTable .current { I with setOrder := so' } t).1.getD
          (demeIndex .current { I with setOrder := so' } p) 0 ∧
      (∀ q ∈ axis { I with setOrder := so },
        ((epochTable .current { I with setOrder := so } t).2.getD
            (demeIndex .current { I with setOrder := so } p) []).getD
            (demeIndex .current { I with setOrder := so } q) 0
          = ((epochTable .current { I with setOrder := so' } t).2.getD
            (demeIndex .current { I with setOrder := so' } p) []).getD
            (demeIndex .current { I with setOrder := so' } q) 0) ∧
      (initVec { I with setOrder := so }).getD (demeIndex .current { I with setOrder := so } p) 0
        = (initVec { I with setOrder := so' }).getD
          (demeIndex .current { I with setOrder := so' } p) 0 := by
  have hmem : ∀ p, p ∈ axis { I with setOrder := so } ↔ p ∈ axis { I with setOrder := so' } :=
    fun p => by rw [mem_axis hV, mem_axis hV']; rfl
  refine ⟨hmem, fun p hp => ?_⟩
  obtain ⟨a1, a2, a3⟩ := config_value_at_name { I with setOrder := so } t hN hV p hp
  obtain ⟨b1, b2, b3⟩ :=
    config_value_at_name { I with setOrder := so' } t hN hV' p ((hmem p).1 hp)
  refine ⟨a1.trans b1.symm, fun q hq => (a2 q hq).trans (b2 q ((hmem q).1 hq)).symm,
    a3.trans b3.symm⟩

/-! ## 7. the three shapes of the sample configuration have distinct population names -/

theorem popName_injective : Function.Injective popName := by
  intro i j h
  unfold popName at h
  have h1 : toString i = toString j := (String.append_right_inj _).1 h
  have h2 : i.repr = j.repr := h1
  have h3 : Nat.toDigits 10 i = Nat.toDigits 10 j := by
    rw [← Nat.toList_repr, ← Nat.toList_repr, h2]
  have := congrArg (fun l => Nat.ofDigitChars 10 l 0) h3
  simpa [Nat.ofDigitChars_ten_toDigits] using this

/-- a list `n=[c0, c1, …]` names its populations `pop_0, pop_1, …`: always distinct -/
theorem linNames_nodup_list (l : List ℕ) (sizes mig so) :
    (Input.linNames { n := .list l, sizes := sizes, mig := mig, setOrder := so }).Nodup := by
  simp only [Input.linNames, NInput.toDict, List.map_map, Function.comp_def]
  exact List.nodup_range.map popName_injective

theorem linNames_nodup_scalar (c : ℕ) (sizes mig so) :
    (Input.linNames { n := .scalar c, sizes := sizes, mig := mig, setOrder := so }).Nodup := by
  simp [Input.linNames, NInput.toDict]

/-- a Python dict has distinct keys -/
theorem linNames_nodup_dict (d : List (Name × ℕ)) (hd : (d.map (·.1)).Nodup) (sizes mig so) :
    (Input.linNames { n := .dict d, sizes := sizes, mig := mig, setOrder := so }).Nodup := hd

/-! ## 8. plug-in: the moments the code computes from the two configurations -/

section PlugIn
open Marginal Assembly Finset
variable {K : Type} [Field K] [LinearOrder K] [IsStrictOrderedRing K]

/-- **C08, glue + state level.**  Build the per-epoch rate matrices (`bfs` / `transit` /
`_graph_to_matrix`) from the tables the glue derives from two configurations `I`, `I'` which differ
as in `config_listing_order_irrelevant` (`tsOf` = the model's time scale as a function of the
population size, `te e` = a time in epoch `e`).  Then all (cross-)moments of `DemeReward(name)` for
any names agree: this is `C08_moments_deme` with `σ`, `permTs σ`, `permMig σ`, `permC σ` and the
deme indices supplied by `config_listing_order_irrelevant`. -/
theorem config_moments_listing_order_irrelevant (I I' : Input)
    (hN : I.linNames.Nodup) (hV : ValidSetOrder I)
    (hN' : I'.linNames.Nodup) (hV' : ValidSetOrder I')
    (hsz : I'.sizes.Perm I.sizes) (hszk : (I.sizes.map (·.1)).Nodup)
    (hmg : I'.mig.Perm I.mig) (hmgk : (I.mig.map (·.1)).Nodup)
    (hcnt : (I'.n.toDict.filter fun e => e.2 ≠ 0).Perm (I.n.toDict.filter fun e => e.2 ≠ 0))
    (hz : ∀ p ∈ I.linNames, nOf I p = 0 → p ∈ I'.linNames ∨ p ∈ rawDemNames I.sizes I.mig)
    (hz' : ∀ p ∈ I'.linNames, nOf I' p = 0 → p ∈ I.linNames ∨ p ∈ rawDemNames I.sizes I.mig)
    {m : Model} (tsOf : ℚ → ℚ) (te : ℕ → ℚ)
    {cinit cinit' : Fin (axis I).length → ℕ} {r r' : ℕ → ℚ} {fuel fuel' : ℕ → ℕ}
    {G G' : ℕ → Graph}
    (hG : ∀ e, bfs (transit m (mkEpoch
        (fun d => tsOf (sizesFn .current I (te e) (axis I).length d))
        (migFn .current I (te e) (axis I).length) (r e))) (encLC cinit) (fuel e) = some (G e))
    (hG' : ∀ e, bfs (transit m (mkEpoch
        (fun d => tsOf (sizesFn .current I' (te e) (axis I).length d))
        (migFn .current I' (te e) (axis I).length) (r' e))) (encLC cinit') (fuel' e) = some (G' e))
    (hsum : ∑ d, cinit' d = ∑ d, cinit d)
    (L : ExpLaw K) (n : ℕ) {k : ℕ} (names : Fin k → Name) (hnames : ∀ a, names a ∈ axis I)
    (hc0 : ∑ d, initFn I (axis I).length d = ∑ d, cinit d) (fs : List (ℕ × K)) :
    accumVal L (fun e => (codeMat G' e).map (fun q : ℚ => (q : K)))
        (fun a j => ((Reward.eval n (G' 0).visited[j]
          (.deme (demeIndex .current I' (names a))) : ℚ) : K))
        (fun j => (((alphaVec (G' 0).visited (List.ofFn (initFn I' (axis I).length)) 1 0).getD
          j.val 0 : ℚ) : K)) fs
      = accumVal L (fun e => (codeMat G e).map (fun q : ℚ => (q : K)))
        (fun a i => ((Reward.eval n (G 0).visited[i]
          (.deme (demeIndex .current I (names a))) : ℚ) : K))
        (fun i => (((alphaVec (G 0).visited (List.ofFn (initFn I (axis I).length)) 1 0).getD
          i.val 0 : ℚ) : K)) fs := by
  obtain ⟨hlen, σ, hσ, hS, hM, hI, hD⟩ := config_listing_order_irrelevant I I' hN hV hN' hV' hsz
    hszk hmg hmgk hcnt hz hz'
  -- the axis position of every queried name
  have hlt : ∀ a, (axis I).idxOf (names a) < (axis I).length := fun a =>
    List.idxOf_lt_length_of_mem (hnames a)
  let q : Fin k → Fin (axis I).length := fun a => ⟨(axis I).idxOf (names a), hlt a⟩
  have hq : ∀ a, (axis I)[q a] = names a := fun a => List.getElem_idxOf (hlt a)
  have hd : ∀ a, demeIndex .current I (names a) = (q a).val := fun a => by
    rw [← hq a]; exact (hD (q a)).1
  have hd' : ∀ a, demeIndex .current I' (names a) = (σ (q a)).val := fun a => by
    rw [← hq a]; exact (hD (q a)).2
  have hG'' : ∀ e, bfs (transit m (mkEpoch
      (permTs σ (fun d => tsOf (sizesFn .current I (te e) (axis I).length d)))
      (permMig σ (migFn .current I (te e) (axis I).length)) (r' e))) (encLC cinit') (fuel' e)
      = some (G' e) := fun e => by
    have := hG' e
    rw [hS, hM] at this
    exact this
  have := C08_moments_deme (K := K) σ
    (ts := fun e d => tsOf (sizesFn .current I (te e) (axis I).length d))
    (mig := fun e => migFn .current I (te e) (axis I).length) hG hG'' hsum L n q
    (initFn I (axis I).length) hc0 fs
  simp only [hd, hd', hI]
  exact this

end PlugIn

/-! ## 9. `sortDedup` is Python's `sorted(set(·))`: strictly ascending in the code-point order -/

theorem insertName_sorted (x : Name) (l : List Name) (h : l.Pairwise (· < ·)) :
    (insertName x l).Pairwise (· < ·) := by
  induction l with
  | nil => simp [insertName]
  | cons a l ih =>
    rw [List.pairwise_cons] at h
    unfold insertName
    split_ifs with h1 h2
    · refine List.pairwise_cons.2 ⟨?_, List.pairwise_cons.2 h⟩
      intro b hb
      rcases List.mem_cons.1 hb with rfl | hb
      · exact h1
      · exact lt_trans h1 (h.1 b hb)
    · exact List.pairwise_cons.2 h
    · refine List.pairwise_cons.2 ⟨?_, ih h.2⟩
      intro b hb
      rcases (mem_insertName x b l).1 hb with rfl | hb
      · exact lt_of_le_of_ne (not_lt.1 h1) (Ne.symm h2)
      · exact h.1 b hb

theorem sortDedup_sorted (l : List Name) : (sortDedup l).Pairwise (· < ·) := by
  induction l with
  | nil => simp [sortDedup]
  | cons a l ih => exact insertName_sorted a _ ih

/-- `Demography.pop_names` / `Epoch.pop_names`: strictly ascending, hence duplicate free, and
independent of the order in which the names were collected -/
theorem allNames_sorted (I : Input) : (allNames I).Pairwise (· < ·) := sortDedup_sorted _

theorem demographyNames_sorted (sizes mig) : (demographyNames sizes mig).Pairwise (· < ·) :=
  sortDedup_sorted _

/-- the hypothesis `ValidSetOrder` is never vacuous: the sorted enumeration of the unsampled
populations is one valid `set` order -/
theorem unsampled_valid (I : Input) : ValidSetOrder { I with setOrder := unsampled I } := by
  refine ⟨?_, fun x => mem_unsampled I x⟩
  have h1 : (demographyNames I.sizes I.mig).Nodup :=
    (demographyNames_sorted I.sizes I.mig).imp ne_of_lt
  exact h1.sublist List.filter_sublist

/-! ## 10. the executable check is the predicate; kernel-checked counterexamples -/

theorem namedOK_iff (v : Variant) (I : Input) (t : ℚ) :
    namedOK v I t = true ↔ NamedSemantics v I t := by
  unfold namedOK NamedSemantics
  simp only [Bool.and_eq_true, beq_iff_eq, List.all_eq_true, List.mem_range, and_assoc]
  refine and_congr_right fun _ => and_congr_right fun _ => and_congr_right fun _ => ?_
  refine forall_congr' fun i => forall_congr' fun hi => ?_
  have hgi : (axis I).getD i "" = (axis I)[i] := by
    rw [List.getD_eq_getElem?_getD, List.getElem?_eq_getElem hi, Option.getD_some]
  rw [hgi]
  refine and_congr_right fun _ => and_congr_left' ?_
  refine forall_congr' fun j => forall_congr' fun hj => ?_
  have hgj : (axis I).getD j "" = (axis I)[j] := by
    rw [List.getD_eq_getElem?_getD, List.getElem?_eq_getElem hj, Option.getD_some]
  rw [hgj]

/-- the instance: `n = {'pop_10': 1, 'B': 2}` (unsorted, mixed case), four populations of which
`pop_9` and `a` are unsampled and omitted, the `set` happened to be iterated as `pop_9, a`;
the size of `B` changes at time 1, the rate `pop_10 → B` at time 2.
Axis: `pop_10, B, pop_9, a`;  sorted names: `B, a, pop_10, pop_9`. -/
def exInput : Input where
  n := .dict [("pop_10", 1), ("B", 2)]
  sizes := [("pop_9", [(0, 3)]), ("a", [(0, 2)]), ("pop_10", [(0, 5)]), ("B", [(1, 11), (0, 7)])]
  mig := [(("B", "pop_9"), [(0, 1/2)]), (("pop_10", "B"), [(0, 1/3), (2, 4)]),
    (("a", "pop_10"), [(0, 1/5)])]
  setOrder := ["pop_9", "a"]

theorem exInput_axis : axis exInput = ["pop_10", "B", "pop_9", "a"] := by decide
theorem exInput_allNames : allNames exInput = ["B", "a", "pop_10", "pop_9"] := by decide
theorem exInput_nodup : exInput.linNames.Nodup := by decide
theorem exInput_valid : ValidSetOrder exInput := (validSetOrder_iff _).1 (by decide)

/-- the current code on the instance (times 0, 3/2 and 5/2) -/
theorem exInput_current_tables :
    epochTable .current exInput 0
      = ([5, 7, 3, 2], [[0, 1/3, 0, 0], [0, 0, 1/2, 0], [0, 0, 0, 0], [1/5, 0, 0, 0]]) ∧
    epochTable .current exInput (3/2)
      = ([5, 11, 3, 2], [[0, 1/3, 0, 0], [0, 0, 1/2, 0], [0, 0, 0, 0], [1/5, 0, 0, 0]]) ∧
    epochTable .current exInput (5/2)
      = ([5, 11, 3, 2], [[0, 4, 0, 0], [0, 0, 1/2, 0], [0, 0, 0, 0], [1/5, 0, 0, 0]]) ∧
    initVec exInput = [1, 2, 0, 0] := by
  decide +kernel

/-- non-vacuity: the current variant satisfies the named semantics on the instance (checked by
evaluation, independently of `config_named_semantics`) -/
theorem exInput_current_ok :
    NamedSemantics .current exInput 0 ∧ NamedSemantics .current exInput (3/2) ∧
      NamedSemantics .current exInput (5/2) := by
  refine ⟨(namedOK_iff _ _ _).1 ?_, (namedOK_iff _ _ _).1 ?_, (namedOK_iff _ _ _).1 ?_⟩ <;>
    decide +kernel

/-- **seeded defect `C08-popsizes-dict-order`** (`list(epoch.pop_sizes.values())`): the sizes are in
sorted-name order, position 0 (`pop_10`, size 5) gets the size of `B` -/
theorem sizesByDictOrder_violates :
    ¬ NamedSemantics .sizesByDictOrder exInput 0 ∧
    (epochTable .sizesByDictOrder exInput 0).1 = [7, 2, 5, 3] ∧
    (epochTable .sizesByDictOrder exInput 0).1[0]? ≠ some (sizeAt exInput.sizes "pop_10" 0) := by
  refine ⟨fun h => ?_, by decide +kernel, by decide +kernel⟩
  have := (namedOK_iff _ _ _).2 h
  revert this
  decide +kernel

/-- **seeded defect `C08b-migrate-epoch-popnames`** (`pop_names = epoch.pop_names`): the rate used
for a move from position 0 (`pop_10`) to position 1 (`B`) is the rate `B → a` (= 0), not 1/3 -/
theorem migBySortedNames_violates :
    ¬ NamedSemantics .migBySortedNames exInput 0 ∧
    (epochTable .migBySortedNames exInput 0).2
      = [[0, 0, 0, 1/2], [0, 0, 1/5, 0], [1/3, 0, 0, 0], [0, 0, 0, 0]] ∧
    ((epochTable .migBySortedNames exInput 0).2[0]?.bind (·[1]?))
      ≠ some (rateAt exInput.mig ("pop_10", "B") 0) := by
  refine ⟨fun h => ?_, by decide +kernel, by decide +kernel⟩
  have := (namedOK_iff _ _ _).2 h
  revert this
  decide +kernel

/-- **historic defect (fixed by ab5179a)** (`epoch.pop_names.index(pop)` in `DemeReward._get`):
`DemeReward('pop_10')` resolves to position 2, which holds `pop_9` -/
theorem demeRewardBySortedNames_violates :
    ¬ NamedSemantics .demeRewardBySortedNames exInput 0 ∧
    demeIndex .demeRewardBySortedNames exInput "pop_10" = 2 ∧
    demeIndex .current exInput "pop_10" = 0 := by
  refine ⟨fun h => ?_, by decide +kernel, by decide +kernel⟩
  have := (namedOK_iff _ _ _).2 h
  revert this
  decide +kernel

/-- with the seeded size defect the result additionally depends on the `set` iteration order
(PYTHONHASHSEED): the size used at the position of `pop_9` is 5 for the order `pop_9, a` and 3 for
the order `a, pop_9` -- while the current variant uses 3 in both (`config_hash_independent`) -/
theorem sizesByDictOrder_hash_dependent :
    (epochTable .sizesByDictOrder exInput 0).1.getD (demeIndex .sizesByDictOrder exInput "pop_9") 0
        = 5 ∧
    (epochTable .sizesByDictOrder { exInput with setOrder := ["a", "pop_9"] } 0).1.getD
        (demeIndex .sizesByDictOrder { exInput with setOrder := ["a", "pop_9"] } "pop_9") 0 = 3 ∧
    (epochTable .current exInput 0).1.getD (demeIndex .current exInput "pop_9") 0 = 3 ∧
    (epochTable .current { exInput with setOrder := ["a", "pop_9"] } 0).1.getD
        (demeIndex .current { exInput with setOrder := ["a", "pop_9"] } "pop_9") 0 = 3 := by
  decide +kernel

end Config
end PG

#print axioms PG.Config.lookup_perm
#print axioms PG.Config.mem_sortDedup
#print axioms PG.Config.validSetOrder_iff
#print axioms PG.Config.axis_nodup
#print axioms PG.Config.config_named_semantics
#print axioms PG.Config.exists_matchPerm
#print axioms PG.Config.config_transport
#print axioms PG.Config.config_listing_order_irrelevant
#print axioms PG.Config.config_rename_equivariant
#print axioms PG.Config.config_value_at_name
#print axioms PG.Config.config_hash_independent
#print axioms PG.Config.popName_injective
#print axioms PG.Config.linNames_nodup_list
#print axioms PG.Config.linNames_nodup_scalar
#print axioms PG.Config.linNames_nodup_dict
#print axioms PG.Config.config_moments_listing_order_irrelevant
#print axioms PG.Config.sortDedup_sorted
#print axioms PG.Config.allNames_sorted
#print axioms PG.Config.unsampled_valid
#print axioms PG.Config.namedOK_iff
#print axioms PG.Config.exInput_axis
#print axioms PG.Config.exInput_allNames
#print axioms PG.Config.exInput_valid
#print axioms PG.Config.exInput_current_tables
#print axioms PG.Config.exInput_current_ok
#print axioms PG.Config.sizesByDictOrder_violates
#print axioms PG.Config.migBySortedNames_violates
#print axioms PG.Config.demeRewardBySortedNames_violates
#print axioms PG.Config.sizesByDictOrder_hash_dependent
