/-
PGProofs.TwoLocusInit — the two-locus search started at `_get_initial()` (all `n` lineages of both
loci in deme 0, NOTHING linked) reaches every linkage / sample configuration with `n` lineages at
both loci, and the code's initial vector `alpha` is the uniform distribution on the visited states
matching the sample vector and the number of unlinked lineages.
-/
import PGProofs.Assembly
import Mathlib.Data.Fintype.Pi

set_option linter.unusedSectionVars false
set_option linter.unusedSimpArgs false
set_option linter.unusedVariables false

open Finset

namespace PG
namespace TwoLocusInit

open LCls Assembly

/-! ## 1. `_get_initial` as a count state -/

section Init
variable {D : ℕ} [NeZero D]

/-- all `n` lineages of both loci in deme 0, nothing linked -/
def cAllUnlinked (D : ℕ) [NeZero D] (n : ℕ) : Fin D × LCls → ℕ :=
  fun t => if t.1 = 0 ∧ t.2 ≠ L then n else 0

theorem cAllUnlinked_apply (n : ℕ) (d : Fin D) (cl : LCls) :
    cAllUnlinked D n (d, cl) = if d = 0 ∧ cl ≠ L then n else 0 := rfl

theorem zero_arr2 :
    List.replicate 2 (List.replicate D (List.replicate 1 0))
      = arr2 (fun _ : Fin D => 0) (fun _ : Fin D => 0) := by
  simp [arr2, List.ofFn_const, List.replicate_succ]

/-- **`_get_initial`** of the two-locus state space is the count state with `n` unlinked lineages
of either locus in deme `0`. -/
theorem initialState_eq_enc2 (n : ℕ) : initialState 2 D 1 n = enc2 (cAllUnlinked D n) := by
  unfold initialState
  simp only [zero_arr2, range_two, List.foldl_cons, List.foldl_nil]
  have h0 := modify3_arr2_0 (fun _ : Fin D => 0) (fun _ : Fin D => 0) 0 (fun _ => n)
  simp only [Fin.val_zero] at h0
  rw [h0]
  have h1 := modify3_arr2_1 (Function.update (fun _ : Fin D => 0) 0 n) (fun _ : Fin D => 0) 0
    (fun _ => n)
  simp only [Fin.val_zero] at h1
  rw [h1]
  apply state_eq_enc2
  all_goals
    intro t
    simp only [cAllUnlinked_apply, Function.update_apply]
    split_ifs <;> simp_all

end Init

/-! ## 2. Edges which `transit` lists whatever the rates -/

section Edges
variable {D : ℕ}

theorem cS_wN (c : Fin D × LCls → ℕ) : cS wN c = ∑ d, c (d, L) := by
  unfold cS
  rw [Fintype.sum_prod_type]
  refine sum_congr rfl fun d _ => ?_
  rw [sum_LCls]
  simp [wN]

/-- every migration move of one lineage of class `cl` is listed by `transit`, whatever its rate -/
theorem mem_keys_transit2_mig (ts : Fin D → ℚ) (mig : Fin D → Fin D → ℚ) (r : ℚ)
    (c : Fin D × LCls → ℕ) (cl : LCls) (d d' : Fin D) (hdd : d ≠ d') (hpos : 0 < c (d, cl)) :
    enc2 (c - e1 (d, cl) + e1 (d', cl)) ∈ keys (transit .kingman (mkEpoch ts mig r) (enc2 c)) := by
  have hl : enc2 (c - e1 (d, cl) + e1 (d', cl)) ∈ keys (migList2 mig c cl) := by
    unfold migList2 keys
    rw [List.map_map, List.mem_map]
    refine ⟨(d, d'), ?_, rfl⟩
    rw [List.mem_filter]
    exact ⟨mem_finPairs d d', by simp [hdd, hpos]⟩
  have hmig : enc2 (c - e1 (d, cl) + e1 (d', cl)) ∈ keys (migrate (mkEpoch ts mig r) (enc2 c)) := by
    rw [migrate_enc2, keys_append, List.mem_append, mem_keys_addAll, mem_keys_addAll, keys_append,
      List.mem_append]
    cases cl
    · exact Or.inl (Or.inr hl)
    · exact Or.inr (Or.inr (Or.inl hl))
    · exact Or.inr (Or.inr (Or.inr hl))
  by_cases hc : Absorbing2 c
  · rw [transit_enc2_absorbing _ ts mig r c hc]; exact hmig
  · rw [transit_enc2 ts mig r c hc, keys_append, keys_append, List.mem_append, List.mem_append]
    exact Or.inl (Or.inl hmig)

/-- the locus coalescence `U1 + U2 → L` in a deme holding both kinds of unlinked lineages is
listed by `transit` at every non-absorbing state -/
theorem mem_keys_transit2_lcoal (ts : Fin D → ℚ) (mig : Fin D → Fin D → ℚ) (r : ℚ)
    (c : Fin D × LCls → ℕ) (hc : ¬ Absorbing2 c) (d : Fin D) (h1 : 1 ≤ c (d, U1))
    (h2 : 1 ≤ c (d, U2)) :
    enc2 (c - (e1 (d, U1) + e1 (d, U2)) + e1 (d, L))
      ∈ keys (transit .kingman (mkEpoch ts mig r) (enc2 c)) := by
  rw [transit_enc2 ts mig r c hc, keys_append, keys_append, List.mem_append, List.mem_append]
  refine Or.inl (Or.inr ?_)
  rw [coalesce2_enc2, mem_keys_addAll]
  right
  unfold coalList2 keys
  rw [List.mem_map]
  refine ⟨coalEntry ts c d U1 U2 L ((c (d, U1) : ℚ) * (c (d, U2) : ℚ)), ?_, rfl⟩
  rw [List.mem_flatMap]
  refine ⟨d, List.mem_finRange d, ?_⟩
  rw [List.mem_flatMap]
  refine ⟨(.unlinked1, .unlinked2), by simp [clsPairs], ?_⟩
  simp [coalStep, h1, h2]

end Edges

/-! ## 3. Reachability from the all-unlinked state -/

section Reach2
variable {D : ℕ}

/-- the count state without linked lineages: `a d` lineages carrying only locus 1 and `b d`
carrying only locus 2 in deme `d` -/
def cU (a b : Fin D → ℕ) : Fin D × LCls → ℕ := fun t =>
  match t.2 with
  | .L => 0
  | .U1 => a t.1
  | .U2 => b t.1

theorem cU_moveU1 (a b : Fin D → ℕ) (d d' : Fin D) :
    cU (a - e1 d + e1 d') b = cU a b - e1 (d, U1) + e1 (d', U1) := by
  funext ⟨t, cl⟩
  cases cl <;> simp [cU, e1, Pi.single_apply]

theorem cU_moveU2 (a b : Fin D → ℕ) (d d' : Fin D) :
    cU a (b - e1 d + e1 d') = cU a b - e1 (d, U2) + e1 (d', U2) := by
  funext ⟨t, cl⟩
  cases cl <;> simp [cU, e1, Pi.single_apply]

/-- a set of count states containing one state without linked lineages and closed under moving
one unlinked lineage contains every state without linked lineages and the same numbers of
unlinked lineages -/
theorem all_unlinked_of_moves (V : (Fin D × LCls → ℕ) → Prop) (a0 b0 : Fin D → ℕ)
    (h0 : V (cU a0 b0))
    (hm : ∀ (c : Fin D × LCls → ℕ) (cl : LCls) (d d' : Fin D), cl ≠ L → d ≠ d' → 0 < c (d, cl) →
      V c → V (c - e1 (d, cl) + e1 (d', cl)))
    (a b : Fin D → ℕ) (ha : ∑ d, a d = ∑ d, a0 d) (hb : ∑ d, b d = ∑ d, b0 d) : V (cU a b) := by
  have h1 : V (cU a b0) := by
    refine all_configs_of_moves (fun a => V (cU a b0)) a0 h0 ?_ a ha
    intro a' d d' hdd hpos hV
    rw [cU_moveU1]
    exact hm _ U1 d d' (by decide) hdd hpos hV
  refine all_configs_of_moves (fun b => V (cU a b)) b0 h1 ?_ b hb
  intro b' d d' hdd hpos hV
  rw [cU_moveU2]
  exact hm _ U2 d d' (by decide) hdd hpos hV

theorem rec_totals (c : Fin D × LCls → ℕ) (d : Fin D) (hpos : 0 < c (d, L)) :
    cS w1 (c - e1 (d, L) + (e1 (d, U1) + e1 (d, U2))) = cS w1 c ∧
    cS w2 (c - e1 (d, L) + (e1 (d, U1) + e1 (d, U2))) = cS w2 c ∧
    cS wN (c - e1 (d, L) + (e1 (d, U1) + e1 (d, U2))) + 1 = cS wN c := by
  have hm := fun w => (cS_move w c (e1 (d, L)) (e1 (d, U1) + e1 (d, U2)) (e1_le c _ hpos)).trans
    (congrArg (cS w c + ·) (cS_add w _ _))
  have h1 := hm w1; have h2 := hm w2; have h3 := hm wN
  simp only [cS_e1, w1, w2, wN] at h1 h2 h3
  omega

theorem rec_lcoal (c : Fin D × LCls → ℕ) (d : Fin D) (hpos : 0 < c (d, L)) :
    c = (c - e1 (d, L) + (e1 (d, U1) + e1 (d, U2))) - (e1 (d, U1) + e1 (d, U2)) + e1 (d, L) := by
  funext t
  simp only [Pi.add_apply, Pi.sub_apply, e1_apply]
  split_ifs with h1 h2 h3 h3 h2 h3 h3
  all_goals first | omega | (subst_vars; simp_all; done) | (subst_vars; simp_all; omega)

/-- **The combinatorial core of the reachability statement.** A set of count states which
contains a state without linked lineages and with `n` lineages at both loci, is closed under
moving one unlinked lineage and under pairing a `U1` with a `U2` lineage of the same deme (for
states with `n` lineages at both loci) contains EVERY count state with `n` lineages at both
loci. -/
theorem all_of_moves (V : (Fin D × LCls → ℕ) → Prop) (n : ℕ) (a0 b0 : Fin D → ℕ)
    (ha0 : ∑ d, a0 d = n) (hb0 : ∑ d, b0 d = n) (h0 : V (cU a0 b0))
    (hm : ∀ (c : Fin D × LCls → ℕ) (cl : LCls) (d d' : Fin D), cl ≠ L → d ≠ d' → 0 < c (d, cl) →
      V c → V (c - e1 (d, cl) + e1 (d', cl)))
    (hl : ∀ (c : Fin D × LCls → ℕ) (d : Fin D), 1 ≤ c (d, U1) → 1 ≤ c (d, U2) → cS w1 c = n →
      cS w2 c = n → V c → V (c - (e1 (d, U1) + e1 (d, U2)) + e1 (d, L)))
    (c : Fin D × LCls → ℕ) (h1 : cS w1 c = n) (h2 : cS w2 c = n) : V c := by
  suffices H : ∀ (k : ℕ) (c : Fin D × LCls → ℕ), cS wN c = k → cS w1 c = n → cS w2 c = n → V c from
    H _ c rfl h1 h2
  intro k
  induction k with
  | zero =>
    intro c hk h1 h2
    rw [cS_wN] at hk
    have hL : ∀ d, c (d, L) = 0 := fun d => (Finset.sum_eq_zero_iff.mp hk) d (mem_univ d)
    have hc : c = cU (fun d => c (d, U1)) (fun d => c (d, U2)) := by
      funext ⟨t, cl⟩
      cases cl
      · exact hL t
      · rfl
      · rfl
    rw [hc]
    refine all_unlinked_of_moves V a0 b0 h0 hm _ _ ?_ ?_
    · rw [ha0, ← h1, cS_w1]
      exact sum_congr rfl fun d _ => by rw [hL d, zero_add]
    · rw [hb0, ← h2, cS_w2]
      exact sum_congr rfl fun d _ => by rw [hL d, zero_add]
  | succ k ih =>
    intro c hk h1 h2
    have hex : ∃ d, 0 < c (d, L) := by
      by_contra hno
      push Not at hno
      have : cS wN c = 0 := by
        rw [cS_wN]
        exact Finset.sum_eq_zero fun d _ => Nat.le_zero.mp (hno d)
      omega
    obtain ⟨d, hd⟩ := hex
    obtain ⟨t1, t2, t3⟩ := rec_totals c d hd
    have hV' := ih (c - e1 (d, L) + (e1 (d, U1) + e1 (d, U2))) (by omega) (t1.trans h1)
      (t2.trans h2)
    rw [rec_lcoal c d hd]
    refine hl _ d ?_ ?_ (t1.trans h1) (t2.trans h2) hV'
    · simp [e1_apply]
    · simp [e1_apply]

end Reach2

/-! ## 4. The search started at `_get_initial` -/

section Visited
variable {D : ℕ}

theorem mem_of_key {step : State → Targets} {G : Graph}
    (hcl : ∀ s ∈ G.visited, ∀ p ∈ step s, p.1 ∈ G.visited) {s t : State} (hs : s ∈ G.visited)
    (ht : t ∈ keys (step s)) : t ∈ G.visited := by
  unfold keys at ht
  rw [List.mem_map] at ht
  obtain ⟨p, hp, rfl⟩ := ht
  exact hcl s hs p hp

/-- per-locus totals do not increase, and stay positive -/
def LeTotals (c c' : Fin D × LCls → ℕ) : Prop :=
  cS w1 c' ≤ cS w1 c ∧ cS w2 c' ≤ cS w2 c ∧ (1 ≤ cS w1 c → 1 ≤ cS w1 c') ∧
    (1 ≤ cS w2 c → 1 ≤ cS w2 c')

theorem leTotals_of_same (c c' : Fin D × LCls → ℕ) (h : SameTotals c c') : LeTotals c c' := by
  unfold SameTotals at h; unfold LeTotals; omega

theorem leTotals_of_rec (c c' : Fin D × LCls → ℕ) (h : RecRel c c') : LeTotals c c' := by
  unfold RecRel at h; unfold LeTotals; omega

theorem leTotals_pair (c : Fin D × LCls → ℕ) (d : Fin D) (a b o : LCls)
    (hle : e1 (d, a) + e1 (d, b) ≤ c)
    (h1 : w1 o ≤ w1 a + w1 b) (h2 : w2 o ≤ w2 a + w2 b)
    (h1' : w1 o = 1 ∨ w1 a + w1 b = 0) (h2' : w2 o = 1 ∨ w2 a + w2 b = 0) :
    LeTotals c (c - (e1 (d, a) + e1 (d, b)) + e1 (d, o)) := by
  have e1' := cS_pair w1 c d a b o hle
  have e2 := cS_pair w2 c d a b o hle
  have l1 : w1 o ≤ cS w1 (c - (e1 (d, a) + e1 (d, b)) + e1 (d, o)) := by
    rw [cS_add, cS_e1]; exact Nat.le_add_left _ _
  have l2 : w2 o ≤ cS w2 (c - (e1 (d, a) + e1 (d, b)) + e1 (d, o)) := by
    rw [cS_add, cS_e1]; exact Nat.le_add_left _ _
  unfold LeTotals
  omega

theorem mem_keys_coalStep_le (ts : Fin D → ℚ) (c : Fin D × LCls → ℕ) (d : Fin D) (x : Cls × Cls)
    (t : State) (ht : t ∈ keys (coalStep ts c d x)) : ∃ c', t = enc2 c' ∧ LeTotals c c' := by
  obtain ⟨c1, c2⟩ := x
  have hne : ∀ a b : LCls, a ≠ b → ((d, a) : Fin D × LCls) ≠ (d, b) := fun a b h h' =>
    h (Prod.mk.inj h').2
  cases c1 <;> cases c2 <;> simp only [coalStep] at ht <;> (try split_ifs at ht with h) <;>
    simp only [keys_cons, keys_nil, List.mem_singleton, List.not_mem_nil, coalEntry] at ht
  · exact ⟨_, ht, leTotals_pair c d L L L (e1_two_le c _ h) (by decide) (by decide) (by decide)
      (by decide)⟩
  · exact ⟨_, ht, leTotals_pair c d L U1 L (e1_add_le c _ _ (hne _ _ (by decide)) h.1 h.2)
      (by decide) (by decide) (by decide) (by decide)⟩
  · exact ⟨_, ht, leTotals_pair c d L U2 L (e1_add_le c _ _ (hne _ _ (by decide)) h.1 h.2)
      (by decide) (by decide) (by decide) (by decide)⟩
  · exact ⟨_, ht, leTotals_pair c d U1 U1 U1 (e1_two_le c _ h) (by decide) (by decide) (by decide)
      (by decide)⟩
  · exact ⟨_, ht, leTotals_pair c d U1 U2 L (e1_add_le c _ _ (hne _ _ (by decide)) h.1 h.2)
      (by decide) (by decide) (by decide) (by decide)⟩
  · exact ⟨_, ht, leTotals_pair c d U2 U2 U2 (e1_two_le c _ h) (by decide) (by decide) (by decide)
      (by decide)⟩

theorem coalesce2_keys_le (ts : Fin D → ℚ) (mig : Fin D → Fin D → ℚ) (r : ℚ)
    (c : Fin D × LCls → ℕ) (t : State)
    (ht : t ∈ keys (coalesce2 .kingman (mkEpoch ts mig r) (enc2 c))) :
    ∃ c', t = enc2 c' ∧ LeTotals c c' := by
  rw [coalesce2_enc2, mem_keys_addAll] at ht
  rcases ht with ht | ht
  · simp at ht
  unfold coalList2 keys at ht
  rw [List.mem_map] at ht
  obtain ⟨p, hp, rfl⟩ := ht
  rw [List.mem_flatMap] at hp
  obtain ⟨d, _, hp⟩ := hp
  rw [List.mem_flatMap] at hp
  obtain ⟨x, _, hp⟩ := hp
  exact mem_keys_coalStep_le ts c d x p.1 (List.mem_map_of_mem (f := Prod.fst) hp)

/-- every target of `transit` at a two-locus count state is a two-locus count state whose
per-locus totals are at most those of the source, and positive if those of the source are -/
theorem transit_enc2_keys_le (ts : Fin D → ℚ) (mig : Fin D → Fin D → ℚ) (r : ℚ)
    (c : Fin D × LCls → ℕ) (t : State)
    (ht : t ∈ keys (transit .kingman (mkEpoch ts mig r) (enc2 c))) :
    ∃ c', t = enc2 c' ∧ LeTotals c c' := by
  by_cases hc : Absorbing2 c
  · rw [transit_enc2_absorbing _ ts mig r c hc] at ht
    obtain ⟨c', h, hr⟩ := migrate2_keys ts mig r c t ht
    exact ⟨c', h, leTotals_of_same c c' hr⟩
  · rw [transit_enc2 ts mig r c hc, keys_append, keys_append, List.mem_append,
      List.mem_append] at ht
    rcases ht with (ht | ht) | ht
    · obtain ⟨c', h, hr⟩ := migrate2_keys ts mig r c t ht
      exact ⟨c', h, leTotals_of_same c c' hr⟩
    · exact coalesce2_keys_le ts mig r c t ht
    · obtain ⟨c', h, hr⟩ := recombine2_keys ts mig r c t ht
      exact ⟨c', h, leTotals_of_rec c c' hr⟩

variable [NeZero D]

theorem cAllUnlinked_eq_cU (n : ℕ) :
    cAllUnlinked D n = cU (fun d => if d = 0 then n else 0) (fun d => if d = 0 then n else 0) := by
  funext ⟨t, cl⟩
  cases cl <;> simp [cAllUnlinked, cU]

theorem cS_w1_cAllUnlinked (n : ℕ) : cS w1 (cAllUnlinked D n) = n := by
  rw [cS_w1]; simp [cAllUnlinked_apply]

theorem cS_w2_cAllUnlinked (n : ℕ) : cS w2 (cAllUnlinked D n) = n := by
  rw [cS_w2]; simp [cAllUnlinked_apply]

variable (ts : Fin D → ℚ) (mig : Fin D → Fin D → ℚ) (r : ℚ) (n fuel : ℕ) (G : Graph)

/-- **Sanity (item 4).** Every state listed by the search started at `_get_initial` is a two-locus
count state `enc2 c` with between `1` and `n` lineages at each locus. -/
theorem two_locus_visited_totals (hn : 1 ≤ n)
    (hG : bfs (transit .kingman (mkEpoch ts mig r)) (initialState 2 D 1 n) fuel = some G)
    (s : State) (hs : s ∈ G.visited) :
    ∃ c : Fin D × LCls → ℕ, s = enc2 c ∧
      1 ≤ ∑ d, (c (d, L) + c (d, U1)) ∧ ∑ d, (c (d, L) + c (d, U1)) ≤ n ∧
      1 ≤ ∑ d, (c (d, L) + c (d, U2)) ∧ ∑ d, (c (d, L) + c (d, U2)) ≤ n := by
  obtain ⟨_, _, _, _, hreach⟩ := bfs_spec _ _ _ _ hG
  have h := hreach s hs
  clear hs
  simp only [← cS_w1, ← cS_w2]
  unfold Reach at h
  induction h with
  | refl =>
    refine ⟨cAllUnlinked D n, initialState_eq_enc2 n, ?_⟩
    rw [cS_w1_cAllUnlinked, cS_w2_cAllUnlinked]
    omega
  | tail _ hbc ih =>
    obtain ⟨c, rfl, hc⟩ := ih
    obtain ⟨c', h', hle⟩ := transit_enc2_keys_le ts mig r c _ hbc
    refine ⟨c', h', ?_⟩
    unfold LeTotals at hle
    omega

/-- **Reachability (item 2), strongest form.** For `n ≥ 2` and ALL rates (including all zero),
the search started at the all-unlinked state `_get_initial` visits EVERY two-locus count state
with `n` lineages at both loci — whatever the numbers of linked lineages per deme. -/
theorem two_locus_all_visited (hn : 2 ≤ n)
    (hG : bfs (transit .kingman (mkEpoch ts mig r)) (initialState 2 D 1 n) fuel = some G)
    (c : Fin D × LCls → ℕ) (h1 : ∑ d, (c (d, L) + c (d, U1)) = n)
    (h2 : ∑ d, (c (d, L) + c (d, U2)) = n) : enc2 c ∈ G.visited := by
  obtain ⟨_, hinit, hcl, _, _⟩ := bfs_spec _ _ _ _ hG
  rw [initialState_eq_enc2, cAllUnlinked_eq_cU] at hinit
  refine all_of_moves (fun c => enc2 c ∈ G.visited) n _ _ (by simp) (by simp) hinit ?_ ?_ c
    (by rw [cS_w1]; exact h1) (by rw [cS_w2]; exact h2)
  · intro c cl d d' _ hdd hpos hV
    exact mem_of_key hcl hV (mem_keys_transit2_mig ts mig r c cl d d' hdd hpos)
  · intro c d h1 h2 t1 t2 hV
    have hna : ¬ Absorbing2 c := by
      unfold Absorbing2
      rw [← cS_w1, t1]
      omega
    exact mem_of_key hcl hV (mem_keys_transit2_lcoal ts mig r c hna d h1 h2)

end Visited

/-! ## 5. Sample configurations with `u` unlinked lineages -/

section Samples
variable {D : ℕ}

/-- `c` shows the sample vector `nv` at both loci and has `∑ nv - u` linked lineages: this is
what the code's `alpha` tests (`LineageConfig._get_initial_states * LocusConfig._get_initial_states`) -/
def Sample2 (nv : Fin D → ℕ) (u : ℕ) (c : Fin D × LCls → ℕ) : Prop :=
  (∀ d, c (d, L) + c (d, U1) = nv d ∧ c (d, L) + c (d, U2) = nv d) ∧
    ∑ d, c (d, L) = ∑ d, nv d - u

instance (nv : Fin D → ℕ) (u : ℕ) (c : Fin D × LCls → ℕ) : Decidable (Sample2 nv u c) := by
  unfold Sample2; infer_instance

/-- the sample `nv` with `ℓ d` of the `nv d` lineages of deme `d` linked -/
def sample2l (nv ℓ : Fin D → ℕ) : Fin D × LCls → ℕ := fun t =>
  match t.2 with
  | .L => ℓ t.1
  | _ => nv t.1 - ℓ t.1

/-- the possible distributions of `∑ nv - u` linked lineages over the demes -/
def linkCfgs (nv : Fin D → ℕ) (u : ℕ) : Finset (Fin D → ℕ) :=
  (Fintype.piFinset fun d => Finset.range (nv d + 1)).filter fun ℓ => ∑ d, ℓ d = ∑ d, nv d - u

theorem mem_linkCfgs (nv : Fin D → ℕ) (u : ℕ) (ℓ : Fin D → ℕ) :
    ℓ ∈ linkCfgs nv u ↔ (∀ d, ℓ d ≤ nv d) ∧ ∑ d, ℓ d = ∑ d, nv d - u := by
  unfold linkCfgs
  rw [Finset.mem_filter, Fintype.mem_piFinset]
  simp only [Finset.mem_range, Nat.lt_succ_iff]

theorem sample2l_injective (nv : Fin D → ℕ) : Function.Injective (sample2l nv) := by
  intro ℓ ℓ' h
  funext d
  exact congrFun h (d, L)

theorem sample2_iff (nv : Fin D → ℕ) (u : ℕ) (c : Fin D × LCls → ℕ) :
    Sample2 nv u c ↔ ∃ ℓ ∈ linkCfgs nv u, c = sample2l nv ℓ := by
  constructor
  · rintro ⟨h, hs⟩
    refine ⟨fun d => c (d, L), (mem_linkCfgs _ _ _).mpr ⟨fun d => ?_, hs⟩, ?_⟩
    · have := (h d).1; omega
    · funext ⟨t, cl⟩
      have h1 := (h t).1; have h2 := (h t).2
      cases cl <;> simp only [sample2l] <;> omega
  · rintro ⟨ℓ, hℓ, rfl⟩
    obtain ⟨hle, hs⟩ := (mem_linkCfgs _ _ _).mp hℓ
    refine ⟨fun d => ?_, hs⟩
    have := hle d
    simp only [sample2l]
    omega

theorem sample_state_iff (nv : Fin D → ℕ) (u : ℕ) (s : State) :
    (∃ ℓ ∈ linkCfgs nv u, s = enc2 (sample2l nv ℓ)) ↔ ∃ c, s = enc2 c ∧ Sample2 nv u c := by
  constructor
  · rintro ⟨ℓ, hℓ, rfl⟩
    exact ⟨_, rfl, (sample2_iff nv u _).mpr ⟨ℓ, hℓ, rfl⟩⟩
  · rintro ⟨c, rfl, hc⟩
    obtain ⟨ℓ, hℓ, rfl⟩ := (sample2_iff nv u c).mp hc
    exact ⟨ℓ, hℓ, rfl⟩

/-- any number `m ≤ ∑ nv` of lineages can be chosen below `nv` -/
theorem exists_le_sum (nv : Fin D → ℕ) (m : ℕ) (hm : m ≤ ∑ d, nv d) :
    ∃ ℓ : Fin D → ℕ, (∀ d, ℓ d ≤ nv d) ∧ ∑ d, ℓ d = m := by
  induction m with
  | zero => exact ⟨fun _ => 0, fun _ => Nat.zero_le _, by simp⟩
  | succ m ih =>
    obtain ⟨ℓ, hle, hs⟩ := ih (by omega)
    have hex : ∃ d, ℓ d < nv d := by
      by_contra hno
      push Not at hno
      have : ∑ d, nv d ≤ ∑ d, ℓ d := Finset.sum_le_sum fun d _ => hno d
      omega
    obtain ⟨d, hd⟩ := hex
    refine ⟨ℓ + e1 d, fun t => ?_, ?_⟩
    · simp only [Pi.add_apply, e1, Pi.single_apply]
      split_ifs with h
      · subst h; omega
      · have := hle t; omega
    · simp only [Pi.add_apply]
      rw [Finset.sum_add_distrib, hs]
      simp [e1, Finset.sum_pi_single']

theorem linkCfgs_nonempty (nv : Fin D → ℕ) (u : ℕ) : (linkCfgs nv u).Nonempty := by
  obtain ⟨ℓ, h1, h2⟩ := exists_le_sum nv (∑ d, nv d - u) (Nat.sub_le _ _)
  exact ⟨ℓ, (mem_linkCfgs _ _ _).mpr ⟨h1, h2⟩⟩

theorem sample2_totals (nv : Fin D → ℕ) (u : ℕ) (c : Fin D × LCls → ℕ) (h : Sample2 nv u c) :
    ∑ d, (c (d, L) + c (d, U1)) = ∑ d, nv d ∧ ∑ d, (c (d, L) + c (d, U2)) = ∑ d, nv d :=
  ⟨sum_congr rfl fun d _ => (h.1 d).1, sum_congr rfl fun d _ => (h.1 d).2⟩

/-- the test of the code's `alpha` on a two-locus count state -/
theorem pops_enc2_u (c : Fin D × LCls → ℕ) (nv : Fin D → ℕ) (u : ℕ) :
    (((List.range 2).all fun l => (List.range (List.ofFn nv).length).all fun d =>
        get3 (enc2 c).lin l d 0 == getN (List.ofFn nv) d) &&
      (if (2 : ℕ) = 1 then true else (List.range 2).all fun l =>
        sumNat (((enc2 c).lnk.getD l []).map sumNat) == sumNat (List.ofFn nv) - u))
      = decide (Sample2 nv u c) := by
  rw [Bool.eq_iff_iff]
  simp only [range_two, List.all_cons, List.all_nil, Bool.and_true, List.all_eq_true,
    List.mem_range, List.length_ofFn, beq_iff_eq, decide_eq_true_eq, Bool.and_eq_true,
    lnkTotal0_enc2, lnkTotal1_enc2, sumNat_ofFn,
    show ((2 : ℕ) = 1) = False from by simp, if_false]
  constructor
  · rintro ⟨⟨h0, h1⟩, hl, _⟩
    refine ⟨fun d => ⟨?_, ?_⟩, hl⟩
    · have := h0 d.val d.isLt
      rwa [get3_lin0_enc2, getN_ofFn] at this
    · have := h1 d.val d.isLt
      rwa [get3_lin1_enc2, getN_ofFn] at this
  · rintro ⟨h, hl⟩
    refine ⟨⟨?_, ?_⟩, hl, hl⟩
    · intro d hd
      rw [get3_lin0_enc2 _ ⟨d, hd⟩, getN_ofFn nv ⟨d, hd⟩]
      exact (h ⟨d, hd⟩).1
    · intro d hd
      rw [get3_lin1_enc2 _ ⟨d, hd⟩, getN_ofFn nv ⟨d, hd⟩]
      exact (h ⟨d, hd⟩).2

end Samples

/-! ## 6. `alpha` is uniform on the matching states -/

section AlphaUniform

theorem sum_map_ite_eq_length_filter (l : List State) (P : State → Prop) [DecidablePred P] :
    (l.map fun s => if P s then (1 : ℚ) else 0).sum = ((l.filter fun s => decide (P s)).length : ℚ) := by
  induction l with
  | nil => simp
  | cons x xs ih =>
    rw [List.map_cons, List.sum_cons, ih, List.filter_cons]
    by_cases hx : P x
    · simp [hx]; ring
    · simp [hx]

theorem sum_map_div (l : List State) (f : State → ℚ) (N : ℚ) :
    (l.map fun s => f s / N).sum = (l.map f).sum / N := by
  induction l with
  | nil => simp
  | cons x xs ih => rw [List.map_cons, List.sum_cons, ih, List.map_cons, List.sum_cons, add_div]

/-- **`alpha` is the uniform distribution** on the listed states matching the sample
configuration (whenever the test of the code is expressed by a predicate `P`). -/
theorem alphaVec_uniform (states : List State) (nVec : List ℕ) (nLoci nUnl : ℕ)
    (P : State → Prop) [DecidablePred P]
    (hchar : ∀ s ∈ states,
      (((List.range nLoci).all fun l => (List.range nVec.length).all fun d =>
          get3 s.lin l d 0 == getN nVec d) &&
        (if nLoci = 1 then true else (List.range nLoci).all fun l =>
          sumNat ((s.lnk.getD l []).map sumNat) == sumNat nVec - nUnl)) = decide (P s)) :
    alphaVec states nVec nLoci nUnl = states.map fun s =>
      (if P s then (1 : ℚ) else 0) / ((states.filter fun s => decide (P s)).length : ℚ) := by
  unfold alphaVec
  simp only []
  have hind : List.map (fun s => if (((List.range nLoci).all fun l =>
        (List.range nVec.length).all fun d => get3 s.lin l d 0 == getN nVec d) &&
        (if nLoci = 1 then true else (List.range nLoci).all fun l =>
          sumNat ((s.lnk.getD l []).map sumNat) == sumNat nVec - nUnl)) = true
        then (1 : ℚ) else 0) states
      = states.map fun s => if P s then (1 : ℚ) else 0 := by
    apply List.map_congr_left
    intro s hs
    rw [hchar s hs]
    simp
  rw [hind, sumRat_eq, sum_map_ite_eq_length_filter, List.map_map]
  rfl

end AlphaUniform

/-! ## 7. The code's `alpha` for the search started at `_get_initial` -/

section AlphaInit
variable {D : ℕ} [NeZero D]
variable (ts : Fin D → ℚ) (mig : Fin D → Fin D → ℚ) (r : ℚ) (n fuel : ℕ) (G : Graph)

/-- **Reachability (item 2), sample form.** Every state showing the sample vector `nv`
(`∑ nv = n ≥ 2`) at both loci is visited, whatever its linked lineages. -/
theorem two_locus_samples_visited (hn : 2 ≤ n)
    (hG : bfs (transit .kingman (mkEpoch ts mig r)) (initialState 2 D 1 n) fuel = some G)
    (nv : Fin D → ℕ) (hnv : ∑ d, nv d = n) (u : ℕ) (c : Fin D × LCls → ℕ)
    (hc : Sample2 nv u c) : enc2 c ∈ G.visited := by
  obtain ⟨h1, h2⟩ := sample2_totals nv u c hc
  exact two_locus_all_visited ts mig r n fuel G hn hG c (h1.trans hnv) (h2.trans hnv)

theorem two_locus_samples_visited_l (hn : 2 ≤ n)
    (hG : bfs (transit .kingman (mkEpoch ts mig r)) (initialState 2 D 1 n) fuel = some G)
    (nv : Fin D → ℕ) (hnv : ∑ d, nv d = n) (u : ℕ) (ℓ : Fin D → ℕ) (hℓ : ℓ ∈ linkCfgs nv u) :
    enc2 (sample2l nv ℓ) ∈ G.visited :=
  two_locus_samples_visited ts mig r n fuel G hn hG nv hnv u _
    ((sample2_iff nv u _).mpr ⟨ℓ, hℓ, rfl⟩)

/-- there is at least one visited state for every sample vector and every number of unlinked
lineages -/
theorem two_locus_sample_exists (hn : 2 ≤ n)
    (hG : bfs (transit .kingman (mkEpoch ts mig r)) (initialState 2 D 1 n) fuel = some G)
    (nv : Fin D → ℕ) (hnv : ∑ d, nv d = n) (u : ℕ) :
    ∃ c : Fin D × LCls → ℕ, Sample2 nv u c ∧ enc2 c ∈ G.visited := by
  obtain ⟨ℓ, hℓ⟩ := linkCfgs_nonempty nv u
  exact ⟨sample2l nv ℓ, (sample2_iff nv u _).mpr ⟨ℓ, hℓ, rfl⟩,
    two_locus_samples_visited_l ts mig r n fuel G hn hG nv hnv u ℓ hℓ⟩

/-- **Characterisation of the states selected by `alpha`**: a listed state passes the test of
`alpha` for `(nv, u)` iff it is `enc2 c` with `Sample2 nv u c`; and all these are listed. -/
theorem two_locus_sample_states (hn : 2 ≤ n)
    (hG : bfs (transit .kingman (mkEpoch ts mig r)) (initialState 2 D 1 n) fuel = some G)
    (nv : Fin D → ℕ) (hnv : ∑ d, nv d = n) (u : ℕ) (s : State) :
    (s ∈ G.visited ∧
      (((List.range 2).all fun l => (List.range (List.ofFn nv).length).all fun d =>
          get3 s.lin l d 0 == getN (List.ofFn nv) d) &&
        (if (2 : ℕ) = 1 then true else (List.range 2).all fun l =>
          sumNat ((s.lnk.getD l []).map sumNat) == sumNat (List.ofFn nv) - u)) = true)
      ↔ ∃ c : Fin D × LCls → ℕ, s = enc2 c ∧ Sample2 nv u c := by
  constructor
  · rintro ⟨hs, hb⟩
    obtain ⟨c, rfl, _⟩ := two_locus_visited_totals ts mig r n fuel G (by omega) hG s hs
    rw [pops_enc2_u, decide_eq_true_eq] at hb
    exact ⟨c, rfl, hb⟩
  · rintro ⟨c, rfl, hc⟩
    refine ⟨two_locus_samples_visited ts mig r n fuel G hn hG nv hnv u c hc, ?_⟩
    rw [pops_enc2_u, decide_eq_true_eq]
    exact hc

theorem filter_length_eq_card (hn : 2 ≤ n)
    (hG : bfs (transit .kingman (mkEpoch ts mig r)) (initialState 2 D 1 n) fuel = some G)
    (nv : Fin D → ℕ) (hnv : ∑ d, nv d = n) (u : ℕ) :
    (G.visited.filter fun s => decide (∃ ℓ ∈ linkCfgs nv u, s = enc2 (sample2l nv ℓ))).length
      = (linkCfgs nv u).card := by
  have hnd : G.visited.Nodup := (bfs_spec _ _ _ _ hG).1
  rw [← List.toFinset_card_of_nodup (hnd.filter _),
    ← Finset.card_image_of_injective (linkCfgs nv u)
      (enc2_injective.comp (sample2l_injective nv))]
  congr 1
  ext s
  rw [List.mem_toFinset, List.mem_filter, decide_eq_true_eq, Finset.mem_image]
  constructor
  · rintro ⟨_, ℓ, hℓ, rfl⟩
    exact ⟨ℓ, hℓ, rfl⟩
  · rintro ⟨ℓ, hℓ, rfl⟩
    exact ⟨two_locus_samples_visited_l ts mig r n fuel G hn hG nv hnv u ℓ hℓ, ℓ, hℓ, rfl⟩

/-- **`alpha` (item 3), general number of demes.** For the search started at `_get_initial`
(`n ≥ 2`, any rates), the initial vector `alphaVec G.visited nv 2 u` is the UNIFORM distribution
on the states `enc2 (sample2l nv ℓ)`, `ℓ ∈ linkCfgs nv u` (the distributions of the `n - u`
linked lineages over the demes, `ℓ ≤ nv`), all of which are visited. -/
theorem two_locus_alpha (hn : 2 ≤ n)
    (hG : bfs (transit .kingman (mkEpoch ts mig r)) (initialState 2 D 1 n) fuel = some G)
    (nv : Fin D → ℕ) (hnv : ∑ d, nv d = n) (u : ℕ) :
    alphaVec G.visited (List.ofFn nv) 2 u = G.visited.map fun s =>
      (if ∃ ℓ ∈ linkCfgs nv u, s = enc2 (sample2l nv ℓ) then (1 : ℚ) else 0)
        / ((linkCfgs nv u).card : ℚ) := by
  rw [← filter_length_eq_card ts mig r n fuel G hn hG nv hnv u]
  refine alphaVec_uniform _ _ _ _ (fun s => ∃ ℓ ∈ linkCfgs nv u, s = enc2 (sample2l nv ℓ)) ?_
  intro s hs
  obtain ⟨c, rfl, _⟩ := two_locus_visited_totals ts mig r n fuel G (by omega) hG s hs
  rw [pops_enc2_u]
  exact decide_eq_decide.mpr
    ((sample_state_iff nv u (enc2 c)).trans
      ⟨fun ⟨c', h, hc'⟩ => enc2_injective h ▸ hc', fun h => ⟨c, rfl, h⟩⟩).symm

/-- entries of `alpha` -/
theorem two_locus_alpha_getD (hn : 2 ≤ n)
    (hG : bfs (transit .kingman (mkEpoch ts mig r)) (initialState 2 D 1 n) fuel = some G)
    (nv : Fin D → ℕ) (hnv : ∑ d, nv d = n) (u : ℕ) (j : Fin G.visited.length) :
    (alphaVec G.visited (List.ofFn nv) 2 u).getD j.val 0
      = if ∃ ℓ ∈ linkCfgs nv u, G.visited[j] = enc2 (sample2l nv ℓ)
        then 1 / ((linkCfgs nv u).card : ℚ) else 0 := by
  rw [two_locus_alpha ts mig r n fuel G hn hG nv hnv u, List.getD_eq_getElem?_getD,
    List.getElem?_map, List.getElem?_eq_getElem j.isLt]
  simp only [Option.map_some, Option.getD_some, Fin.getElem_fin]
  by_cases h : ∃ ℓ ∈ linkCfgs nv u, G.visited[j.val] = enc2 (sample2l nv ℓ)
  · rw [if_pos h, if_pos h]
  · rw [if_neg h, if_neg h, zero_div]

/-- `alpha` is a probability vector -/
theorem two_locus_alpha_sum (hn : 2 ≤ n)
    (hG : bfs (transit .kingman (mkEpoch ts mig r)) (initialState 2 D 1 n) fuel = some G)
    (nv : Fin D → ℕ) (hnv : ∑ d, nv d = n) (u : ℕ) :
    (alphaVec G.visited (List.ofFn nv) 2 u).sum = 1 := by
  rw [two_locus_alpha ts mig r n fuel G hn hG nv hnv u, sum_map_div,
    sum_map_ite_eq_length_filter, filter_length_eq_card ts mig r n fuel G hn hG nv hnv u]
  have : ((linkCfgs nv u).card : ℚ) ≠ 0 := by
    rw [Nat.cast_ne_zero]
    exact Finset.card_ne_zero.mpr (linkCfgs_nonempty nv u)
  exact div_self this

end AlphaInit

/-! ## 8. One deme: `alpha` is a point mass; C06 with the code's `alpha` for any `n_unlinked` -/

section OneDeme

/-- one deme, `u` of the `nv 0` sampled lineages unlinked -/
def sample2u (nv : Fin 1 → ℕ) (u : ℕ) : Fin 1 × LCls → ℕ := fun t =>
  match t.2 with
  | .L => nv 0 - u
  | _ => u

theorem sample2_one_deme (nv : Fin 1 → ℕ) (u : ℕ) (hu : u ≤ nv 0) (c : Fin 1 × LCls → ℕ) :
    Sample2 nv u c ↔ c = sample2u nv u := by
  unfold Sample2
  simp only [Fin.sum_univ_one]
  constructor
  · rintro ⟨h, hl⟩
    have h1 := (h 0).1; have h2 := (h 0).2
    funext ⟨t, cl⟩
    have ht : t = 0 := Subsingleton.elim _ _
    subst ht
    cases cl <;> simp only [sample2u] <;> omega
  · rintro rfl
    refine ⟨fun d => ?_, ?_⟩
    · have hd : d = 0 := Subsingleton.elim _ _
      subst hd
      simp only [sample2u]
      omega
    · simp only [sample2u]

/-- for one deme exactly one distribution of the linked lineages exists -/
theorem linkCfgs_one_deme (nv : Fin 1 → ℕ) (u : ℕ) : (linkCfgs nv u).card = 1 := by
  rw [Finset.card_eq_one]
  refine ⟨fun _ => nv 0 - u, ?_⟩
  ext ℓ
  rw [mem_linkCfgs, Finset.mem_singleton]
  simp only [Fin.sum_univ_one]
  constructor
  · rintro ⟨_, h⟩
    funext d
    have hd : d = 0 := Subsingleton.elim _ _
    subst hd
    exact h
  · rintro rfl
    refine ⟨fun d => ?_, rfl⟩
    have hd : d = 0 := Subsingleton.elim _ _
    subst hd
    exact Nat.sub_le _ _

variable {K : Type} [Field K] [LinearOrder K] [IsStrictOrderedRing K]
variable {cinit : Fin 1 × LCls → ℕ} {ts : ℕ → Fin 1 → ℚ}
  {mig : ℕ → Fin 1 → Fin 1 → ℚ} {r : ℕ → ℚ} {fuel : ℕ → ℕ} {G : ℕ → Graph}

/-- for two loci, one deme and `u ≤ n` unlinked lineages, the code's initial vector `alpha` is
the point mass at the state with `n - u` linked lineages and `u` unlinked lineages of each locus
(search started anywhere, provided this state is listed) -/
theorem two_locus_alpha_one_deme
    (hG : ∀ e, bfs (transit .kingman (mkEpoch (ts e) (mig e) (r e))) (enc2 cinit) (fuel e)
      = some (G e))
    (nv : Fin 1 → ℕ) (u : ℕ) (hu : u ≤ nv 0) (hmem : enc2 (sample2u nv u) ∈ (G 0).visited)
    (j : Fin (G 0).visited.length) :
    (alphaVec (G 0).visited (List.ofFn nv) 2 u).getD j.val 0
      = if (G 0).visited[j] = enc2 (sample2u nv u) then 1 else 0 := by
  refine alphaVec_point_getD _ _ _ _ _ (bfs_spec _ _ _ _ (hG 0)).1 hmem ?_ j
  intro s hs
  obtain ⟨i, hi⟩ := exists_idx hs
  obtain ⟨c, h1, _⟩ := two_locus_hrow hG 0 i
  have hsc : s = enc2 c := hi.symm.trans h1
  rw [hsc, pops_enc2_u]
  exact decide_eq_decide.mpr
    ((sample2_one_deme nv u hu c).trans ⟨congrArg enc2, fun h => enc2_injective h⟩)

/-- **C06 with the code's `alpha`, any number `u` of unlinked lineages** (one deme): extends
`Assembly.C06_arg_eq_labelled_alpha` (which covers `u = 0`). -/
theorem C06_arg_eq_labelled_alpha_u
    (hG : ∀ e, bfs (transit .kingman (mkEpoch (ts e) (mig e) (r e))) (enc2 cinit) (fuel e)
      = some (G e))
    (L' : ExpLaw K) (n' : ℕ) {k : ℕ} (rs : Fin k → Reward) (nv : Fin 1 → ℕ) (u : ℕ)
    (hu : u ≤ nv 0)
    (x0 : LabS (enc2 (D := 1)) (G 0).visited (bound2 (G 0).visited))
    (hx0 : cntF x0.val = sample2u nv u) (fs : List (ℕ × K)) :
    accumVal L'
        (fun e => QLmat (castRate (K := K) (argRateStop (r e) (ts e) (mig e))) argNew
          (LabP.val : LabS (enc2 (D := 1)) (G 0).visited (bound2 (G 0).visited)
            → List (Fin 1 × LCls)))
        (fun a x => ((Reward.eval n' (enc2 (cntF x.val)) (rs a) : ℚ) : K))
        (fun x => if x = x0 then 1 else 0) fs
      = accumVal L' (fun e => (codeMat G e).map (fun q : ℚ => (q : K)))
          (fun a j => ((Reward.eval n' (G 0).visited[j] (rs a) : ℚ) : K))
          (fun j => (((alphaVec (G 0).visited (List.ofFn nv) 2 u).getD j.val 0 : ℚ) : K)) fs := by
  have hc0 : enc2 (sample2u nv u) ∈ (G 0).visited := hx0 ▸ x0.2.2
  have hα : (fun j : Fin (G 0).visited.length =>
        (((alphaVec (G 0).visited (List.ofFn nv) 2 u).getD j.val 0 : ℚ) : K))
      = fun j => if (G 0).visited[j] = enc2 (cntF x0.val) then 1 else 0 := by
    funext j
    rw [two_locus_alpha_one_deme hG nv u hu hc0 j, hx0]
    split_ifs <;> simp
  rw [hα]
  exact C06_arg_eq_labelled hG L' n' rs x0 fs

end OneDeme

/-! ## 9. Labelled initial configurations for the search started at `_get_initial` -/

section LabInit
variable {D : ℕ} [NeZero D]
variable {ts : ℕ → Fin D → ℚ} {mig : ℕ → Fin D → Fin D → ℚ} {r : ℕ → ℚ} {fuel : ℕ → ℕ}
  {G : ℕ → Graph} {n : ℕ}

/-- the hypothesis of the `Assembly` theorems, from the search started at `_get_initial` -/
theorem hG_enc2
    (hG : ∀ e, bfs (transit .kingman (mkEpoch (ts e) (mig e) (r e))) (initialState 2 D 1 n) (fuel e)
      = some (G e)) :
    ∀ e, bfs (transit .kingman (mkEpoch (ts e) (mig e) (r e))) (enc2 (cAllUnlinked D n)) (fuel e)
      = some (G e) := fun e => initialState_eq_enc2 (D := D) n ▸ hG e

/-- **Membership is no longer carried in the type of `x0`**: every labelled two-locus
configuration with `n ≥ 2` lineages at both loci (any linkage) is a state of the labelled chain
attached to the search started at the all-unlinked state `_get_initial`. -/
theorem exists_labInit_2 (hn : 2 ≤ n)
    (hG : ∀ e, bfs (transit .kingman (mkEpoch (ts e) (mig e) (r e))) (initialState 2 D 1 n) (fuel e)
      = some (G e))
    (x : List (Fin D × LCls))
    (h1 : ∑ d, (cntF x (d, L) + cntF x (d, U1)) = n)
    (h2 : ∑ d, (cntF x (d, L) + cntF x (d, U2)) = n) :
    ∃ x0 : LabS (enc2 (D := D)) (G 0).visited (bound2 (G 0).visited), x0.val = x := by
  have hmem : enc2 (cntF x) ∈ (G 0).visited :=
    two_locus_all_visited (ts 0) (mig 0) (r 0) n (fuel 0) (G 0) hn (hG 0) (cntF x) h1 h2
  refine ⟨⟨x, ?_, hmem⟩, rfl⟩
  rw [length_eq_sum_cntF]
  exact sum_le_bound2 (G 0).visited (cntF x) hmem

end LabInit

section OneDemeInit
variable {K : Type} [Field K] [LinearOrder K] [IsStrictOrderedRing K]
variable {ts : ℕ → Fin 1 → ℚ} {mig : ℕ → Fin 1 → Fin 1 → ℚ} {r : ℕ → ℚ} {fuel : ℕ → ℕ}
  {G : ℕ → Graph} {n : ℕ}

theorem sample2u_visited (hn : 2 ≤ n)
    (hG : ∀ e, bfs (transit .kingman (mkEpoch (ts e) (mig e) (r e))) (initialState 2 1 1 n) (fuel e)
      = some (G e)) (u : ℕ) (hu : u ≤ n) :
    enc2 (sample2u (fun _ => n) u) ∈ (G 0).visited := by
  refine two_locus_all_visited (ts 0) (mig 0) (r 0) n (fuel 0) (G 0) hn (hG 0) _ ?_ ?_
  · simp only [Fin.sum_univ_one, sample2u]; omega
  · simp only [Fin.sum_univ_one, sample2u]; omega

/-- **`alpha` (item 3), one deme, search started at `_get_initial`**: the point mass at
`c (0, L) = n - u`, `c (0, U1) = c (0, U2) = u` -- no membership hypothesis. -/
theorem two_locus_alpha_one_deme_init (hn : 2 ≤ n)
    (hG : ∀ e, bfs (transit .kingman (mkEpoch (ts e) (mig e) (r e))) (initialState 2 1 1 n) (fuel e)
      = some (G e)) (u : ℕ) (hu : u ≤ n) (j : Fin (G 0).visited.length) :
    (alphaVec (G 0).visited [n] 2 u).getD j.val 0
      = if (G 0).visited[j] = enc2 (sample2u (fun _ => n) u) then 1 else 0 :=
  two_locus_alpha_one_deme (hG_enc2 hG) (fun _ => n) u hu (sample2u_visited hn hG u hu) j

/-- **C06 for the real start of the search** (one deme, `n ≥ 2` sampled lineages of which
`u ≤ n` unlinked): for every labelled configuration `x` consisting of `n - u` linked particles and
`u` particles of each locus, `x` is a state of the labelled chain and the moments of the labelled
ancestral recombination graph (stopped at absorption) started at `x` equal what the code computes
on the state space found from `_get_initial` with its own `alpha`. -/
theorem C06_arg_eq_labelled_alpha_init (hn : 2 ≤ n)
    (hG : ∀ e, bfs (transit .kingman (mkEpoch (ts e) (mig e) (r e))) (initialState 2 1 1 n) (fuel e)
      = some (G e))
    (L' : ExpLaw K) (n' : ℕ) {k : ℕ} (rs : Fin k → Reward) (u : ℕ) (hu : u ≤ n)
    (x : List (Fin 1 × LCls)) (hx : cntF x = sample2u (fun _ => n) u) (fs : List (ℕ × K)) :
    ∃ x0 : LabS (enc2 (D := 1)) (G 0).visited (bound2 (G 0).visited), x0.val = x ∧
      accumVal L'
        (fun e => QLmat (castRate (K := K) (argRateStop (r e) (ts e) (mig e))) argNew
          (LabP.val : LabS (enc2 (D := 1)) (G 0).visited (bound2 (G 0).visited)
            → List (Fin 1 × LCls)))
        (fun a x => ((Reward.eval n' (enc2 (cntF x.val)) (rs a) : ℚ) : K))
        (fun x => if x = x0 then 1 else 0) fs
      = accumVal L' (fun e => (codeMat G e).map (fun q : ℚ => (q : K)))
          (fun a j => ((Reward.eval n' (G 0).visited[j] (rs a) : ℚ) : K))
          (fun j => (((alphaVec (G 0).visited [n] 2 u).getD j.val 0 : ℚ) : K)) fs := by
  have hmem : enc2 (cntF x) ∈ (G 0).visited := hx ▸ sample2u_visited hn hG u hu
  have hlen : x.length ≤ bound2 (G 0).visited := by
    rw [length_eq_sum_cntF]
    exact sum_le_bound2 (G 0).visited (cntF x) hmem
  refine ⟨⟨x, hlen, hmem⟩, rfl, ?_⟩
  exact C06_arg_eq_labelled_alpha_u (hG_enc2 hG) L' n' rs (fun _ => n) u hu ⟨x, hlen, hmem⟩ hx fs

end OneDemeInit

/-! ## 10. Why `2 ≤ n`: for `n = 1` the start state is absorbing and nothing ever gets linked -/

section NOne
variable {D : ℕ} [NeZero D]
variable (ts : Fin D → ℚ) (mig : Fin D → Fin D → ℚ) (r : ℚ) (fuel : ℕ) (G : Graph)

/-- **Finding (`n = 1`).** With a single sampled lineage, `_get_initial` (one `U1` and one `U2`
lineage) is already absorbing for the code, so only migration edges are listed: every visited
state is absorbing and has NO linked lineage.  The fully linked sample state is not reachable. -/
theorem two_locus_n_one_no_linked
    (hG : bfs (transit .kingman (mkEpoch ts mig r)) (initialState 2 D 1 1) fuel = some G)
    (s : State) (hs : s ∈ G.visited) :
    ∃ c : Fin D × LCls → ℕ, s = enc2 c ∧ Absorbing2 c ∧ ∀ d, c (d, L) = 0 := by
  obtain ⟨_, _, _, _, hreach⟩ := bfs_spec _ _ _ _ hG
  have h := hreach s hs
  clear hs
  suffices H : ∃ c : Fin D × LCls → ℕ, s = enc2 c ∧ cS w1 c = 1 ∧ cS w2 c = 1 ∧ cS wN c = 0 by
    obtain ⟨c, hc, a1, a2, a3⟩ := H
    refine ⟨c, hc, ⟨by rw [← cS_w1]; exact a1, by rw [← cS_w2]; exact a2⟩, fun d => ?_⟩
    rw [cS_wN] at a3
    exact (Finset.sum_eq_zero_iff.mp a3) d (mem_univ d)
  unfold Reach at h
  induction h with
  | refl =>
    refine ⟨cAllUnlinked D 1, initialState_eq_enc2 1, cS_w1_cAllUnlinked 1, cS_w2_cAllUnlinked 1, ?_⟩
    rw [cS_wN]; simp [cAllUnlinked_apply]
  | tail _ hbc ih =>
    obtain ⟨c, rfl, a1, a2, a3⟩ := ih
    have hab : Absorbing2 c := ⟨by rw [← cS_w1]; exact a1, by rw [← cS_w2]; exact a2⟩
    rw [transit_enc2_absorbing _ ts mig r c hab] at hbc
    obtain ⟨c', h', hN, h1, h2⟩ := migrate2_keys ts mig r c _ hbc
    exact ⟨c', h', h1.trans a1, h2.trans a2, hN.trans a3⟩

/-- … hence for `n = 1` and the default `n_unlinked = 0` NO listed state passes the test of
`alpha`: the normalising constant `alpha.sum()` is `0` (the code divides `0 / 0`; in the model,
where `x / 0 = 0`, every entry of `alphaVec` is `0`). -/
theorem two_locus_alpha_n_one
    (hG : bfs (transit .kingman (mkEpoch ts mig r)) (initialState 2 D 1 1) fuel = some G)
    (nv : Fin D → ℕ) (hnv : ∑ d, nv d = 1) :
    alphaVec G.visited (List.ofFn nv) 2 0 = G.visited.map fun _ => (0 : ℚ) := by
  rw [alphaVec_uniform _ _ _ _ (fun _ => False)]
  · simp
  · intro s hs
    obtain ⟨c, rfl, _, hL⟩ := two_locus_n_one_no_linked ts mig r fuel G hG s hs
    rw [pops_enc2_u]
    refine decide_eq_decide.mpr ⟨fun h => ?_, False.elim⟩
    have := h.2
    rw [hnv, Finset.sum_eq_zero fun d _ => hL d] at this
    omega

end NOne

end TwoLocusInit
end PG

#print axioms PG.TwoLocusInit.initialState_eq_enc2
#print axioms PG.TwoLocusInit.two_locus_visited_totals
#print axioms PG.TwoLocusInit.two_locus_all_visited
#print axioms PG.TwoLocusInit.two_locus_samples_visited
#print axioms PG.TwoLocusInit.two_locus_sample_exists
#print axioms PG.TwoLocusInit.two_locus_sample_states
#print axioms PG.TwoLocusInit.two_locus_alpha
#print axioms PG.TwoLocusInit.two_locus_alpha_getD
#print axioms PG.TwoLocusInit.two_locus_alpha_sum
#print axioms PG.TwoLocusInit.linkCfgs_one_deme
#print axioms PG.TwoLocusInit.two_locus_alpha_one_deme
#print axioms PG.TwoLocusInit.two_locus_alpha_one_deme_init
#print axioms PG.TwoLocusInit.C06_arg_eq_labelled_alpha_u
#print axioms PG.TwoLocusInit.exists_labInit_2
#print axioms PG.TwoLocusInit.C06_arg_eq_labelled_alpha_init
#print axioms PG.TwoLocusInit.two_locus_n_one_no_linked
#print axioms PG.TwoLocusInit.two_locus_alpha_n_one
