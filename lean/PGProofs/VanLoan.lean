/-
  PGProofs/VanLoan.lean

  Van Loan block matrices, products of exponential factors, and the algebraic laws of the moment
  and cdf computations.  Everything is derived from the four `ExpLaw` laws only.
-/
import PGProofs.ExpLaw

set_option linter.unusedSectionVars false

namespace PG

open Matrix

variable {K : Type} [Field K] [LinearOrder K] [IsStrictOrderedRing K]
variable {ι : Type} [Fintype ι] [DecidableEq ι]
variable {ι' : Type} [Fintype ι'] [DecidableEq ι']
variable {κ : Type} [Fintype κ] [DecidableEq κ]
variable {κ' : Type} [Fintype κ'] [DecidableEq κ']
variable {k : ℕ}

/-! ## Definitions -/

/-- `_get_van_loan_matrix(R, S, k)`: `S` on the diagonal blocks, `diag (R a)` on block `(a, a+1)`,
zero elsewhere. -/
def vanLoan (S : Matrix ι ι K) (R : Fin k → ι → K) :
    Matrix (Fin (k + 1) × ι) (Fin (k + 1) × ι) K :=
  Matrix.of fun p q =>
    if p.1 = q.1 then S p.2 q.2
    else if h : (p.1 : ℕ) + 1 = (q.1 : ℕ) then
      (if p.2 = q.2 then R ⟨(p.1 : ℕ), by omega⟩ p.2 else 0)
    else 0

/-- A factor `(e, τ)` stands for `E (τ • V e)`; a list of factors for their ordered product. -/
def evalFactors (L : ExpLaw K) (V : ℕ → Matrix κ κ K) (fs : List (ℕ × K)) : Matrix κ κ K :=
  (fs.map fun f => L.E (f.2 • V f.1)).prod

/-- `k! · α · (∏ factors)[block 0, block k] · 1` -/
def accumVal (L : ExpLaw K) (S : ℕ → Matrix ι ι K) (R : Fin k → ι → K) (α : ι → K)
    (fs : List (ℕ × K)) : K :=
  (k.factorial : K) *
    ∑ i, ∑ j, α i * (evalFactors L (fun e => vanLoan (S e) R) fs) (0, i) (Fin.last k, j)

/-- `1 - α · (∏ E (τ S_e)) · exitVec` -/
def cdfVal (L : ExpLaw K) (S : ℕ → Matrix ι ι K) (α exitVec : ι → K) (fs : List (ℕ × K)) : K :=
  1 - ∑ i, ∑ j, α i * (evalFactors L S fs) i j * exitVec j

/-! ## 1. Factor lists -/

section Factors

variable (L : ExpLaw K) (V : ℕ → Matrix κ κ K)

@[simp] theorem evalFactors_nil : evalFactors L V [] = 1 := rfl

@[simp] theorem evalFactors_cons (f : ℕ × K) (fs : List (ℕ × K)) :
    evalFactors L V (f :: fs) = L.E (f.2 • V f.1) * evalFactors L V fs := by
  simp [evalFactors]

theorem evalFactors_append (fs gs : List (ℕ × K)) :
    evalFactors L V (fs ++ gs) = evalFactors L V fs * evalFactors L V gs := by
  simp [evalFactors]

theorem evalFactors_zero_duration (e : ℕ) (fs : List (ℕ × K)) :
    evalFactors L V ((e, 0) :: fs) = evalFactors L V fs := by
  rw [evalFactors_cons]
  simp only
  rw [L.E_zero_smul, Matrix.one_mul]

theorem evalFactors_merge (e : ℕ) (s t : K) (fs : List (ℕ × K)) :
    evalFactors L V ((e, s) :: (e, t) :: fs) = evalFactors L V ((e, s + t) :: fs) := by
  simp only [evalFactors_cons]
  rw [L.E_smul_add, Matrix.mul_assoc]

/-- Intertwining lifts to products of factors. -/
theorem evalFactors_intertwine (VA : ℕ → Matrix κ κ K) (VB : ℕ → Matrix κ' κ' K)
    (P : Matrix κ κ' K) (h : ∀ e, VA e * P = P * VB e) (fs : List (ℕ × K)) :
    evalFactors L VA fs * P = P * evalFactors L VB fs := by
  induction fs with
  | nil => simp
  | cons f fs ih =>
    rw [evalFactors_cons, evalFactors_cons, Matrix.mul_assoc, ih, ← Matrix.mul_assoc,
      L.E_smul_intertwine _ _ _ (h f.1), Matrix.mul_assoc]

/-- Two generator families with equal scaled generators along the list give equal products. -/
theorem evalFactors_congr (VA VB : ℕ → Matrix κ κ K) (fs gs : List (ℕ × K))
    (h : List.Forall₂ (fun f g => f.2 • VA f.1 = g.2 • VB g.1) fs gs) :
    evalFactors L VA fs = evalFactors L VB gs := by
  induction h with
  | nil => rfl
  | cons hfg _ ih => rw [evalFactors_cons, evalFactors_cons, hfg, ih]

end Factors

/-! ## Block helpers -/

section Blocks

/-- `1 ⊗ P`: the matrix `P` repeated on the diagonal blocks. -/
def blockLift (n : ℕ) (P : Matrix κ ι K) : Matrix (Fin n × κ) (Fin n × ι) K :=
  Matrix.of fun p q => if p.1 = q.1 then P p.2 q.2 else 0

/-- `α` on block `0`, zero elsewhere. -/
def headVec (α : ι → K) : Fin (k + 1) × ι → K := fun p => if p.1 = 0 then α p.2 else 0

/-- `w` on block `k`, zero elsewhere. -/
def lastVec (w : ι → K) : Fin (k + 1) × ι → K := fun p => if p.1 = Fin.last k then w p.2 else 0

theorem sum_block_single {n : ℕ} (a : Fin n) (f : Fin n × ι → K) (g : ι → K)
    (h0 : ∀ b i, b ≠ a → f (b, i) = 0) (h1 : ∀ i, f (a, i) = g i) :
    ∑ p, f p = ∑ i, g i := by
  rw [Fintype.sum_prod_type, Finset.sum_eq_single a]
  · exact Finset.sum_congr rfl fun i _ => h1 i
  · intro b _ hb; exact Finset.sum_eq_zero fun i _ => h0 b i hb
  · intro h; exact absurd (Finset.mem_univ a) h

theorem sum_headVec (α : ι → K) (f : Fin (k + 1) × ι → K) :
    ∑ p, headVec α p * f p = ∑ i, α i * f (0, i) := by
  apply sum_block_single 0
  · intro b i hb; simp [headVec, hb]
  · intro i; simp [headVec]

theorem sum_lastVec (w : ι → K) (f : Fin (k + 1) × ι → K) :
    ∑ q, f q * lastVec w q = ∑ j, f (Fin.last k, j) * w j := by
  apply sum_block_single (Fin.last k)
  · intro b i hb; simp [lastVec, hb]
  · intro i; simp [lastVec]

theorem mul_blockLift_apply {β : Type} {n : ℕ} (M : Matrix β (Fin n × κ) K) (P : Matrix κ ι K)
    (p : β) (q : Fin n × ι) : (M * blockLift n P) p q = ∑ x, M p (q.1, x) * P x q.2 := by
  rw [Matrix.mul_apply]
  apply sum_block_single q.1
  · intro b i hb; simp [blockLift, hb]
  · intro i; simp [blockLift]

theorem blockLift_mul_apply {β : Type} {n : ℕ} (P : Matrix κ ι K) (N : Matrix (Fin n × ι) β K)
    (p : Fin n × κ) (q : β) : (blockLift n P * N) p q = ∑ c, P p.2 c * N (p.1, c) q := by
  rw [Matrix.mul_apply]
  apply sum_block_single p.1
  · intro b i hb; simp [blockLift, Ne.symm hb]
  · intro i; simp [blockLift]

theorem headVec_vecMul_blockLift (αL : κ → K) (P : Matrix κ ι K) :
    headVec (k := k) αL ᵥ* blockLift (k + 1) P = headVec (αL ᵥ* P) := by
  funext q
  show ∑ p, headVec αL p * blockLift (k + 1) P p q = _
  rw [sum_headVec]
  by_cases hq : q.1 = 0
  · simp [headVec, blockLift, hq, Matrix.vecMul, dotProduct]
  · simp [headVec, blockLift, hq, Ne.symm hq]

theorem blockLift_mulVec_lastVec (P : Matrix κ ι K) (w : ι → K) :
    blockLift (k + 1) P *ᵥ lastVec (k := k) w = lastVec (P *ᵥ w) := by
  funext p
  show ∑ q, blockLift (k + 1) P p q * lastVec w q = _
  rw [sum_lastVec]
  by_cases hp : p.1 = Fin.last k
  · simp [lastVec, blockLift, hp, Matrix.mulVec, dotProduct]
  · simp [lastVec, blockLift, hp]

/-- The basic transfer principle: an intertwiner can be moved from the right vector to the left
vector. -/
theorem dot_transfer (MA : Matrix κ κ K) (MB : Matrix ι ι K) (P : Matrix κ ι K)
    (h : MA * P = P * MB) (u : κ → K) (w : ι → K) :
    u ⬝ᵥ (MA *ᵥ (P *ᵥ w)) = (u ᵥ* P) ⬝ᵥ (MB *ᵥ w) := by
  rw [Matrix.mulVec_mulVec, h, ← Matrix.mulVec_mulVec, Matrix.dotProduct_mulVec]

end Blocks

/-! ## Vector forms of `accumVal` and `cdfVal` -/

theorem accumVal_eq_dot (L : ExpLaw K) (S : ℕ → Matrix ι ι K) (R : Fin k → ι → K) (α : ι → K)
    (fs : List (ℕ × K)) :
    accumVal L S R α fs = (k.factorial : K) *
      (headVec α ⬝ᵥ (evalFactors L (fun e => vanLoan (S e) R) fs *ᵥ lastVec 1)) := by
  unfold accumVal
  congr 1
  show _ = ∑ p, headVec α p * ∑ q, _ * lastVec 1 q
  rw [sum_headVec]
  refine Finset.sum_congr rfl fun i _ => ?_
  rw [sum_lastVec, Finset.mul_sum]
  simp

theorem cdfVal_eq_dot (L : ExpLaw K) (S : ℕ → Matrix ι ι K) (α exitVec : ι → K)
    (fs : List (ℕ × K)) :
    cdfVal L S α exitVec fs = 1 - α ⬝ᵥ (evalFactors L S fs *ᵥ exitVec) := by
  unfold cdfVal
  congr 1
  simp [dotProduct, Matrix.mulVec, Finset.mul_sum, mul_assoc]

/-! ## Entries of the Van Loan matrix -/

section VanLoanEntries

variable (S : Matrix ι ι K) (R : Fin k → ι → K)

theorem vanLoan_diag (a : Fin (k + 1)) (i j : ι) : vanLoan S R (a, i) (a, j) = S i j := by
  simp [vanLoan]

theorem vanLoan_super (a : Fin k) (i j : ι) :
    vanLoan S R (a.castSucc, i) (a.succ, j) = if i = j then R a i else 0 := by
  have h1 : a.castSucc ≠ a.succ := (Fin.castSucc_lt_succ (i := a)).ne
  simp [vanLoan, h1]

theorem vanLoan_other (a b : Fin (k + 1)) (i j : ι) (h1 : a ≠ b) (h2 : (a : ℕ) + 1 ≠ b) :
    vanLoan S R (a, i) (b, j) = 0 := by
  simp [vanLoan, h1, h2]

/-- Case analysis on a pair of block indices. -/
theorem block_cases (a b : Fin (k + 1)) :
    a = b ∨ (∃ c : Fin k, a = c.castSucc ∧ b = c.succ) ∨ (a ≠ b ∧ (a : ℕ) + 1 ≠ b) := by
  by_cases h1 : a = b
  · exact Or.inl h1
  by_cases h2 : (a : ℕ) + 1 = b
  · refine Or.inr (Or.inl ⟨⟨a, by omega⟩, ?_, ?_⟩)
    · ext; simp
    · ext; simp [h2]
  · exact Or.inr (Or.inr ⟨h1, h2⟩)

end VanLoanEntries

/-! ## 2–3. Reward scaling (regularisation law) -/

section Scale

theorem vanLoan_scale (S : Matrix ι ι K) (R : Fin k → ι → K) (c : K) :
    vanLoan S R * Matrix.diagonal (fun p : Fin (k + 1) × ι => c ^ (p.1 : ℕ))
      = Matrix.diagonal (fun p : Fin (k + 1) × ι => c ^ (p.1 : ℕ))
        * vanLoan S (fun a i => c * R a i) := by
  ext ⟨a, i⟩ ⟨b, j⟩
  rw [Matrix.mul_diagonal, Matrix.diagonal_mul]
  rcases block_cases a b with rfl | ⟨d, rfl, rfl⟩ | ⟨h1, h2⟩
  · rw [vanLoan_diag, vanLoan_diag]; ring
  · rw [vanLoan_super, vanLoan_super]
    by_cases hij : i = j
    · simp only [hij, if_true, Fin.val_succ, Fin.val_castSucc]; ring
    · simp [hij]
  · rw [vanLoan_other _ _ _ _ _ _ h1 h2, vanLoan_other _ _ _ _ _ _ h1 h2]; ring

variable (L : ExpLaw K)

theorem E_vanLoan_scale (S : Matrix ι ι K) (R : Fin k → ι → K) (c τ : K) :
    L.E (τ • vanLoan S R) * Matrix.diagonal (fun p : Fin (k + 1) × ι => c ^ (p.1 : ℕ))
      = Matrix.diagonal (fun p : Fin (k + 1) × ι => c ^ (p.1 : ℕ))
        * L.E (τ • vanLoan S (fun a i => c * R a i)) :=
  L.E_smul_intertwine _ _ _ (vanLoan_scale S R c) τ

theorem topRight_scale (S : Matrix ι ι K) (R : Fin k → ι → K) (c τ : K) (i j : ι) :
    c ^ k * (L.E (τ • vanLoan S R)) (0, i) (Fin.last k, j)
      = (L.E (τ • vanLoan S (fun a i => c * R a i))) (0, i) (Fin.last k, j) := by
  have h := congrFun (congrFun (E_vanLoan_scale L S R c τ) (0, i)) (Fin.last k, j)
  rw [Matrix.mul_diagonal, Matrix.diagonal_mul] at h
  simpa [mul_comm] using h

theorem evalFactors_vanLoan_scale (S : ℕ → Matrix ι ι K) (R : Fin k → ι → K) (c : K)
    (fs : List (ℕ × K)) :
    evalFactors L (fun e => vanLoan (S e) R) fs
        * Matrix.diagonal (fun p : Fin (k + 1) × ι => c ^ (p.1 : ℕ))
      = Matrix.diagonal (fun p : Fin (k + 1) × ι => c ^ (p.1 : ℕ))
        * evalFactors L (fun e => vanLoan (S e) (fun a i => c * R a i)) fs :=
  evalFactors_intertwine L _ _ _ (fun e => vanLoan_scale (S e) R c) fs

/-- Entry form of the scaling law for a product of factors. -/
theorem topRight_scale_factors (S : ℕ → Matrix ι ι K) (R : Fin k → ι → K) (c : K)
    (fs : List (ℕ × K)) (i j : ι) :
    c ^ k * (evalFactors L (fun e => vanLoan (S e) R) fs) (0, i) (Fin.last k, j)
      = (evalFactors L (fun e => vanLoan (S e) (fun a i => c * R a i)) fs)
          (0, i) (Fin.last k, j) := by
  have h := congrFun (congrFun (evalFactors_vanLoan_scale L S R c fs) (0, i)) (Fin.last k, j)
  rw [Matrix.mul_diagonal, Matrix.diagonal_mul] at h
  simpa [mul_comm] using h

theorem accumVal_scale (S : ℕ → Matrix ι ι K) (R : Fin k → ι → K) (α : ι → K) (c : K)
    (fs : List (ℕ × K)) :
    accumVal L S (fun a i => c * R a i) α fs = c ^ k * accumVal L S R α fs := by
  unfold accumVal
  simp only [← topRight_scale_factors L S R c fs, Finset.mul_sum]
  refine Finset.sum_congr rfl fun i _ => Finset.sum_congr rfl fun j _ => ?_
  ring

end Scale

/-! ## 4. Time rescaling -/

section TimeRescale

theorem vanLoan_time_rescale (S : Matrix ι ι K) (R : Fin k → ι → K) (c τ : K) (hc : c ≠ 0) :
    (c * τ) • vanLoan (c⁻¹ • S) R = τ • vanLoan S (fun a i => c * R a i) := by
  ext ⟨a, i⟩ ⟨b, j⟩
  rw [Matrix.smul_apply, Matrix.smul_apply, smul_eq_mul, smul_eq_mul]
  rcases block_cases a b with rfl | ⟨d, rfl, rfl⟩ | ⟨h1, h2⟩
  · rw [vanLoan_diag, vanLoan_diag, Matrix.smul_apply, smul_eq_mul]; field_simp
  · rw [vanLoan_super, vanLoan_super]
    by_cases hij : i = j
    · simp only [hij, if_true]; ring
    · simp [hij]
  · rw [vanLoan_other _ _ _ _ _ _ h1 h2, vanLoan_other _ _ _ _ _ _ h1 h2]; ring

variable (L : ExpLaw K)

theorem evalFactors_vanLoan_time_rescale (S : ℕ → Matrix ι ι K) (R : Fin k → ι → K) (c : K)
    (hc : c ≠ 0) (fs : List (ℕ × K)) :
    evalFactors L (fun e => vanLoan (c⁻¹ • S e) R) (fs.map fun f => (f.1, c * f.2))
      = evalFactors L (fun e => vanLoan (S e) (fun a i => c * R a i)) fs := by
  induction fs with
  | nil => rfl
  | cons f fs ih =>
    rw [List.map_cons, evalFactors_cons, evalFactors_cons, ih]
    simp only
    rw [vanLoan_time_rescale _ _ _ _ hc]

theorem accumVal_time_rescale (S : ℕ → Matrix ι ι K) (R : Fin k → ι → K) (α : ι → K) (c : K)
    (hc : c ≠ 0) (fs : List (ℕ × K)) :
    accumVal L (fun e => c⁻¹ • S e) R α (fs.map fun f => (f.1, c * f.2))
      = c ^ k * accumVal L S R α fs := by
  rw [← accumVal_scale]
  unfold accumVal
  rw [evalFactors_vanLoan_time_rescale L S R c hc fs]

theorem evalFactors_time_rescale (S : ℕ → Matrix ι ι K) (c : K) (hc : c ≠ 0)
    (fs : List (ℕ × K)) :
    evalFactors L (fun e => c⁻¹ • S e) (fs.map fun f => (f.1, c * f.2)) = evalFactors L S fs := by
  induction fs with
  | nil => rfl
  | cons f fs ih =>
    rw [List.map_cons, evalFactors_cons, evalFactors_cons, ih]
    simp only
    rw [smul_smul, mul_assoc, mul_comm f.2, ← mul_assoc, mul_inv_cancel₀ hc, one_mul]

theorem cdfVal_time_rescale (S : ℕ → Matrix ι ι K) (α exitVec : ι → K) (c : K) (hc : c ≠ 0)
    (fs : List (ℕ × K)) :
    cdfVal L (fun e => c⁻¹ • S e) α exitVec (fs.map fun f => (f.1, c * f.2))
      = cdfVal L S α exitVec fs := by
  unfold cdfVal
  rw [evalFactors_time_rescale L S c hc fs]

end TimeRescale

/-! ## 5. Lumping -/

section Lump

/-- If `P` intertwines the generators and the rewards, `1 ⊗ P` intertwines the Van Loan
matrices. -/
theorem vanLoan_blockLift (SL : Matrix κ κ K) (S : Matrix ι ι K) (RL : Fin k → κ → K)
    (R : Fin k → ι → K) (P : Matrix κ ι K) (hS : SL * P = P * S)
    (hR : ∀ a, Matrix.diagonal (RL a) * P = P * Matrix.diagonal (R a)) :
    vanLoan SL RL * blockLift (k + 1) P = blockLift (k + 1) P * vanLoan S R := by
  ext ⟨a, x⟩ ⟨b, c⟩
  rw [mul_blockLift_apply, blockLift_mul_apply]
  simp only
  rcases block_cases a b with rfl | ⟨d, rfl, rfl⟩ | ⟨h1, h2⟩
  · simp only [vanLoan_diag]
    have := congrFun (congrFun hS x) c
    simpa [Matrix.mul_apply] using this
  · simp only [vanLoan_super]
    have := congrFun (congrFun (hR d) x) c
    rw [Matrix.diagonal_mul, Matrix.mul_diagonal] at this
    simpa using this
  · simp only [vanLoan_other _ _ _ _ _ _ h1 h2]
    simp

variable (L : ExpLaw K)

/-- The lumping theorem at the level of moments. -/
theorem lump_accum (SL : ℕ → Matrix κ κ K) (S : ℕ → Matrix ι ι K) (RL : Fin k → κ → K)
    (R : Fin k → ι → K) (αL : κ → K) (α : ι → K) (P : Matrix κ ι K)
    (hS : ∀ e, SL e * P = P * S e)
    (hR : ∀ a, Matrix.diagonal (RL a) * P = P * Matrix.diagonal (R a))
    (hP : ∀ x, ∑ c, P x c = 1) (hα : α = αL ᵥ* P) (fs : List (ℕ × K)) :
    accumVal L SL RL αL fs = accumVal L S R α fs := by
  rw [accumVal_eq_dot, accumVal_eq_dot]
  congr 1
  have h1 : (1 : κ → K) = P *ᵥ (1 : ι → K) := by
    funext x; simpa [Matrix.mulVec, dotProduct] using (hP x).symm
  have hI := evalFactors_intertwine L (fun e => vanLoan (SL e) RL) (fun e => vanLoan (S e) R)
    (blockLift (k + 1) P) (fun e => vanLoan_blockLift (SL e) (S e) RL R P (hS e) hR) fs
  rw [h1, ← blockLift_mulVec_lastVec, dot_transfer _ _ _ hI, headVec_vecMul_blockLift, hα]

/-- Lumping leaves the cdf unchanged. -/
theorem lump_cdf (SL : ℕ → Matrix κ κ K) (S : ℕ → Matrix ι ι K) (αL : κ → K) (α : ι → K)
    (exitVec : ι → K) (P : Matrix κ ι K) (hS : ∀ e, SL e * P = P * S e) (hα : α = αL ᵥ* P)
    (fs : List (ℕ × K)) :
    cdfVal L SL αL (P *ᵥ exitVec) fs = cdfVal L S α exitVec fs := by
  rw [cdfVal_eq_dot, cdfVal_eq_dot, dot_transfer _ _ _ (evalFactors_intertwine L SL S P hS fs), hα]

end Lump

/-! ## 6. Relabelling of states -/

section Perm

/-- The permutation matrix of a relabelling `σ`. -/
def relabelMat (σ : ι ≃ ι') : Matrix ι' ι K := Matrix.of fun x c => if σ c = x then 1 else 0

theorem relabelMat_mul_apply (σ : ι ≃ ι') (A : Matrix ι κ K) (x : ι') (c : κ) :
    ((relabelMat σ : Matrix ι' ι K) * A) x c = A (σ.symm x) c := by
  rw [Matrix.mul_apply, Finset.sum_eq_single (σ.symm x)]
  · simp [relabelMat]
  · intro b _ hb
    have : σ b ≠ x := fun h => hb (by rw [← h]; simp)
    simp [relabelMat, this]
  · intro h; exact absurd (Finset.mem_univ _) h

theorem mul_relabelMat_apply (σ : ι ≃ ι') (A : Matrix κ ι' K) (x : κ) (c : ι) :
    (A * (relabelMat σ : Matrix ι' ι K)) x c = A x (σ c) := by
  rw [Matrix.mul_apply, Finset.sum_eq_single (σ c)]
  · simp [relabelMat]
  · intro b _ hb
    simp [relabelMat, Ne.symm hb]
  · intro h; exact absurd (Finset.mem_univ _) h

variable (L : ExpLaw K)

/-- Relabelling the states leaves `accumVal` unchanged. -/
theorem perm_accum (σ : ι ≃ ι') (S : ℕ → Matrix ι ι K) (R : Fin k → ι → K) (α : ι → K)
    (fs : List (ℕ × K)) :
    accumVal L (fun e => Matrix.reindex σ σ (S e)) (fun a x => R a (σ.symm x))
      (fun x => α (σ.symm x)) fs = accumVal L S R α fs := by
  apply lump_accum L _ _ _ _ _ _ (relabelMat σ : Matrix ι' ι K)
  · intro e
    ext x c
    rw [relabelMat_mul_apply, mul_relabelMat_apply]
    simp
  · intro a
    ext x c
    rw [relabelMat_mul_apply, mul_relabelMat_apply, Matrix.diagonal_apply, Matrix.diagonal_apply]
    by_cases h : x = σ c
    · subst h; simp
    · have : ¬ σ.symm x = c := fun h' => h (by rw [← h']; simp)
      simp [h, this]
  · intro x
    rw [Finset.sum_eq_single (σ.symm x)]
    · simp [relabelMat]
    · intro b _ hb
      have : σ b ≠ x := fun h => hb (by rw [← h]; simp)
      simp [relabelMat, this]
    · intro h; exact absurd (Finset.mem_univ _) h
  · funext c
    show α c = ∑ x, α (σ.symm x) * (relabelMat σ : Matrix ι' ι K) x c
    rw [Finset.sum_eq_single (σ c)]
    · simp [relabelMat]
    · intro b _ hb
      simp [relabelMat, Ne.symm hb]
    · intro h; exact absurd (Finset.mem_univ _) h

/-- Relabelling the states leaves `cdfVal` unchanged. -/
theorem perm_cdf (σ : ι ≃ ι') (S : ℕ → Matrix ι ι K) (α exitVec : ι → K) (fs : List (ℕ × K)) :
    cdfVal L (fun e => Matrix.reindex σ σ (S e)) (fun x => α (σ.symm x))
      (fun x => exitVec (σ.symm x)) fs = cdfVal L S α exitVec fs := by
  have h1 : (fun x => exitVec (σ.symm x)) = (relabelMat σ : Matrix ι' ι K) *ᵥ exitVec := by
    funext x
    show _ = ∑ c, (relabelMat σ : Matrix ι' ι K) x c * exitVec c
    rw [Finset.sum_eq_single (σ.symm x)]
    · simp [relabelMat]
    · intro b _ hb
      have : σ b ≠ x := fun h => hb (by rw [← h]; simp)
      simp [relabelMat, this]
    · intro h; exact absurd (Finset.mem_univ _) h
  rw [h1]
  apply lump_cdf L _ _ _ _ _ (relabelMat σ : Matrix ι' ι K)
  · intro e
    ext x c
    rw [relabelMat_mul_apply, mul_relabelMat_apply]
    simp
  · funext c
    show α c = ∑ x, α (σ.symm x) * (relabelMat σ : Matrix ι' ι K) x c
    rw [Finset.sum_eq_single (σ c)]
    · simp [relabelMat]
    · intro b _ hb
      simp [relabelMat, Ne.symm hb]
    · intro h; exact absurd (Finset.mem_univ _) h

end Perm

/-! ## 7. Block structure of `E (τ • vanLoan S R)` -/

section BlockStructure

/-- projection onto the last block row -/
def projLast (k : ℕ) (ι : Type) [DecidableEq ι] : Matrix ι (Fin (k + 1) × ι) K :=
  Matrix.of fun i q => if q.1 = Fin.last k ∧ i = q.2 then 1 else 0

/-- inclusion of the first block column -/
def inclFirst (k : ℕ) (ι : Type) [DecidableEq ι] : Matrix (Fin (k + 1) × ι) ι K :=
  Matrix.of fun p j => if p.1 = 0 ∧ p.2 = j then 1 else 0

theorem projLast_mul_apply (N : Matrix (Fin (k + 1) × ι) κ K) (i : ι) (q : κ) :
    ((projLast k ι : Matrix _ _ K) * N) i q = N (Fin.last k, i) q := by
  rw [Matrix.mul_apply, Finset.sum_eq_single (Fin.last k, i)]
  · simp [projLast]
  · rintro ⟨b, j⟩ _ hb
    have : ¬ (b = Fin.last k ∧ i = j) := by
      rintro ⟨rfl, rfl⟩; exact hb rfl
    simp [projLast, this]
  · intro h; exact absurd (Finset.mem_univ _) h

theorem mul_projLast_apply (M : Matrix κ ι K) (x : κ) (q : Fin (k + 1) × ι) :
    (M * (projLast k ι : Matrix _ _ K)) x q = if q.1 = Fin.last k then M x q.2 else 0 := by
  rw [Matrix.mul_apply, Finset.sum_eq_single q.2]
  · by_cases h : q.1 = Fin.last k <;> simp [projLast, h]
  · intro b _ hb
    simp [projLast, hb]
  · intro h; exact absurd (Finset.mem_univ _) h

theorem mul_inclFirst_apply (M : Matrix κ (Fin (k + 1) × ι) K) (x : κ) (j : ι) :
    (M * (inclFirst k ι : Matrix _ _ K)) x j = M x (0, j) := by
  rw [Matrix.mul_apply, Finset.sum_eq_single (0, j)]
  · simp [inclFirst]
  · rintro ⟨b, i⟩ _ hb
    have : ¬ (b = 0 ∧ i = j) := by
      rintro ⟨rfl, rfl⟩; exact hb rfl
    simp [inclFirst, this]
  · intro h; exact absurd (Finset.mem_univ _) h

theorem inclFirst_mul_apply (N : Matrix ι κ K) (p : Fin (k + 1) × ι) (y : κ) :
    ((inclFirst k ι : Matrix _ _ K) * N) p y = if p.1 = 0 then N p.2 y else 0 := by
  rw [Matrix.mul_apply, Finset.sum_eq_single p.2]
  · by_cases h : p.1 = 0 <;> simp [inclFirst, h]
  · intro b _ hb
    simp [inclFirst, Ne.symm hb]
  · intro h; exact absurd (Finset.mem_univ _) h

theorem vanLoan_projLast (S : Matrix ι ι K) (R : Fin k → ι → K) :
    S * (projLast k ι : Matrix _ _ K) = projLast k ι * vanLoan S R := by
  ext i ⟨b, j⟩
  rw [mul_projLast_apply, projLast_mul_apply]
  simp only
  by_cases h : b = Fin.last k
  · subst h; simp [vanLoan_diag]
  · rw [if_neg h, vanLoan_other _ _ _ _ _ _ (Ne.symm h)]
    have := b.isLt
    simp only [Fin.val_last]
    omega

theorem vanLoan_inclFirst (S : Matrix ι ι K) (R : Fin k → ι → K) :
    vanLoan S R * (inclFirst k ι : Matrix _ _ K) = inclFirst k ι * S := by
  ext ⟨a, i⟩ j
  rw [mul_inclFirst_apply, inclFirst_mul_apply]
  simp only
  by_cases h : a = 0
  · subst h; simp [vanLoan_diag]
  · rw [if_neg h, vanLoan_other _ _ _ _ _ _ h]
    simp

variable (L : ExpLaw K)

theorem E_vanLoan_last_row (S : Matrix ι ι K) (R : Fin k → ι → K) (τ : K) (i j : ι)
    (b : Fin (k + 1)) :
    (L.E (τ • vanLoan S R)) (Fin.last k, i) (b, j)
      = if b = Fin.last k then (L.E (τ • S)) i j else 0 := by
  have h := congrFun (congrFun (L.E_smul_intertwine _ _ _ (vanLoan_projLast S R) τ) i) (b, j)
  rw [mul_projLast_apply, projLast_mul_apply] at h
  exact h.symm

theorem E_vanLoan_first_col (S : Matrix ι ι K) (R : Fin k → ι → K) (τ : K) (i j : ι)
    (a : Fin (k + 1)) :
    (L.E (τ • vanLoan S R)) (a, i) (0, j) = if a = 0 then (L.E (τ • S)) i j else 0 := by
  have h := congrFun (congrFun (L.E_smul_intertwine _ _ _ (vanLoan_inclFirst S R) τ) (a, i)) j
  rw [mul_inclFirst_apply, inclFirst_mul_apply] at h
  exact h

/-- Block structure for a whole product of factors (last block row). -/
theorem evalFactors_vanLoan_last_row (S : ℕ → Matrix ι ι K) (R : Fin k → ι → K)
    (fs : List (ℕ × K)) (i j : ι) (b : Fin (k + 1)) :
    (evalFactors L (fun e => vanLoan (S e) R) fs) (Fin.last k, i) (b, j)
      = if b = Fin.last k then (evalFactors L S fs) i j else 0 := by
  have h := congrFun (congrFun (evalFactors_intertwine L S (fun e => vanLoan (S e) R)
    (projLast k ι) (fun e => vanLoan_projLast (S e) R) fs) i) (b, j)
  rw [mul_projLast_apply, projLast_mul_apply] at h
  exact h.symm

/-- Block structure for a whole product of factors (first block column). -/
theorem evalFactors_vanLoan_first_col (S : ℕ → Matrix ι ι K) (R : Fin k → ι → K)
    (fs : List (ℕ × K)) (i j : ι) (a : Fin (k + 1)) :
    (evalFactors L (fun e => vanLoan (S e) R) fs) (a, i) (0, j)
      = if a = 0 then (evalFactors L S fs) i j else 0 := by
  have h := congrFun (congrFun (evalFactors_intertwine L (fun e => vanLoan (S e) R) S
    (inclFirst k ι) (fun e => vanLoan_inclFirst (S e) R) fs) (a, i)) j
  rw [mul_inclFirst_apply, inclFirst_mul_apply] at h
  exact h

end BlockStructure

/-! ## 8. Positivity and monotonicity -/

section Positivity

theorem mul_nonneg_entry {α β γ : Type} [Fintype β] (M : Matrix α β K) (N : Matrix β γ K)
    (hM : ∀ i j, 0 ≤ M i j) (hN : ∀ i j, 0 ≤ N i j) : ∀ i j, 0 ≤ (M * N) i j := by
  intro i j
  rw [Matrix.mul_apply]
  exact Finset.sum_nonneg fun l _ => mul_nonneg (hM i l) (hN l j)

theorem mulVec_le_mulVec {α β : Type} [Fintype β] (M : Matrix α β K) (hM : ∀ i j, 0 ≤ M i j)
    (v w : β → K) (h : ∀ j, v j ≤ w j) : ∀ i, (M *ᵥ v) i ≤ (M *ᵥ w) i := by
  intro i
  exact Finset.sum_le_sum fun j _ => mul_le_mul_of_nonneg_left (h j) (hM i j)

theorem dotProduct_le_dotProduct {β : Type} [Fintype β] (u : β → K) (hu : ∀ j, 0 ≤ u j)
    (v w : β → K) (h : ∀ j, v j ≤ w j) : u ⬝ᵥ v ≤ u ⬝ᵥ w :=
  Finset.sum_le_sum fun j _ => mul_le_mul_of_nonneg_left (h j) (hu j)

theorem mulVec_nonneg {α β : Type} [Fintype β] (M : Matrix α β K) (hM : ∀ i j, 0 ≤ M i j)
    (v : β → K) (h : ∀ j, 0 ≤ v j) : ∀ i, 0 ≤ (M *ᵥ v) i := by
  intro i
  exact Finset.sum_nonneg fun j _ => mul_nonneg (hM i j) (h j)

theorem dotProduct_nonneg' {β : Type} [Fintype β] (u v : β → K) (hu : ∀ j, 0 ≤ u j)
    (hv : ∀ j, 0 ≤ v j) : 0 ≤ u ⬝ᵥ v :=
  Finset.sum_nonneg fun j _ => mul_nonneg (hu j) (hv j)

/-- The Van Loan matrix of a Metzler generator and non-negative rewards is Metzler. -/
theorem vanLoan_metzler (S : Matrix ι ι K) (R : Fin k → ι → K)
    (hS : ∀ i j, i ≠ j → 0 ≤ S i j) (hR : ∀ a i, 0 ≤ R a i) :
    ∀ p q, p ≠ q → 0 ≤ vanLoan S R p q := by
  rintro ⟨a, i⟩ ⟨b, j⟩ hpq
  rcases block_cases a b with rfl | ⟨d, rfl, rfl⟩ | ⟨h1, h2⟩
  · rw [vanLoan_diag]
    exact hS i j fun h => hpq (by rw [h])
  · rw [vanLoan_super]
    split_ifs
    · exact hR d i
    · exact le_refl _
  · rw [vanLoan_other _ _ _ _ _ _ h1 h2]

variable (L : ExpLaw K)

/-- A product of factors with Metzler generators and non-negative durations is entrywise
non-negative. -/
theorem evalFactors_nonneg (V : ℕ → Matrix κ κ K) (hV : ∀ e i j, i ≠ j → 0 ≤ V e i j)
    (fs : List (ℕ × K)) (hfs : ∀ f ∈ fs, 0 ≤ f.2) : ∀ i j, 0 ≤ evalFactors L V fs i j := by
  induction fs with
  | nil =>
    intro i j
    rw [evalFactors_nil, Matrix.one_apply]
    split_ifs <;> simp
  | cons f fs ih =>
    rw [evalFactors_cons]
    apply mul_nonneg_entry
    · exact L.E_smul_nonneg _ (hV f.1) _ (hfs f (by simp))
    · exact ih fun g hg => hfs g (by simp [hg])

/-- A product of factors whose generators have zero row sums fixes the all-ones vector. -/
theorem evalFactors_mulVec_one (V : ℕ → Matrix κ κ K) (hV : ∀ e i, ∑ j, V e i j = 0)
    (fs : List (ℕ × K)) : evalFactors L V fs *ᵥ (1 : κ → K) = 1 := by
  induction fs with
  | nil => simp
  | cons f fs ih =>
    rw [evalFactors_cons, ← Matrix.mulVec_mulVec, ih]
    funext i
    simpa [Matrix.mulVec, dotProduct] using L.E_smul_rowsum _ (hV f.1) f.2 i

/-- One more Van Loan factor can only increase the last-block indicator vector. -/
theorem lastVec_le_E_vanLoan (S : Matrix ι ι K) (R : Fin k → ι → K)
    (hS : ∀ i j, i ≠ j → 0 ≤ S i j) (hrow : ∀ i, ∑ j, S i j = 0) (hR : ∀ a i, 0 ≤ R a i)
    (τ : K) (hτ : 0 ≤ τ) :
    ∀ p, lastVec (k := k) (1 : ι → K) p ≤ (L.E (τ • vanLoan S R) *ᵥ lastVec 1) p := by
  rintro ⟨a, i⟩
  have hnn := L.E_smul_nonneg _ (vanLoan_metzler S R hS hR) τ hτ
  by_cases ha : a = Fin.last k
  · subst ha
    have : (L.E (τ • vanLoan S R) *ᵥ lastVec 1) (Fin.last k, i) = 1 := by
      show ∑ q, L.E (τ • vanLoan S R) (Fin.last k, i) q * lastVec 1 q = 1
      rw [sum_lastVec]
      simp only [E_vanLoan_last_row, if_true, Pi.one_apply, mul_one]
      exact L.E_smul_rowsum S hrow τ i
    rw [this]
    simp [lastVec]
  · have h0 : lastVec (k := k) (1 : ι → K) (a, i) = 0 := by simp [lastVec, ha]
    rw [h0]
    apply mulVec_nonneg _ hnn
    intro q
    unfold lastVec
    split_ifs <;> simp

theorem headVec_nonneg (α : ι → K) (hα : ∀ i, 0 ≤ α i) : ∀ p, 0 ≤ headVec (k := k) α p := by
  intro p; unfold headVec; split_ifs
  · exact hα _
  · exact le_refl _

theorem lastVec_nonneg (w : ι → K) (hw : ∀ i, 0 ≤ w i) : ∀ p, 0 ≤ lastVec (k := k) w p := by
  intro p; unfold lastVec; split_ifs
  · exact hw _
  · exact le_refl _

/-- Moments accumulate monotonically along the factor list. -/
theorem accum_mono (S : ℕ → Matrix ι ι K) (R : Fin k → ι → K) (α : ι → K)
    (hS : ∀ e i j, i ≠ j → 0 ≤ S e i j) (hrow : ∀ e i, ∑ j, S e i j = 0)
    (hR : ∀ a i, 0 ≤ R a i) (hα : ∀ i, 0 ≤ α i)
    (fs : List (ℕ × K)) (hfs : ∀ f ∈ fs, 0 ≤ f.2) (e : ℕ) (τ : K) (hτ : 0 ≤ τ) :
    accumVal L S R α fs ≤ accumVal L S R α (fs ++ [(e, τ)]) := by
  rw [accumVal_eq_dot, accumVal_eq_dot, evalFactors_append, ← Matrix.mulVec_mulVec]
  apply mul_le_mul_of_nonneg_left _ (Nat.cast_nonneg _)
  apply dotProduct_le_dotProduct _ (headVec_nonneg α hα)
  apply mulVec_le_mulVec _
    (evalFactors_nonneg L _ (fun e => vanLoan_metzler (S e) R (hS e) hR) fs hfs)
  have := lastVec_le_E_vanLoan L (S e) R (hS e) (hrow e) hR τ hτ
  simpa using this

theorem accum_nonneg (S : ℕ → Matrix ι ι K) (R : Fin k → ι → K) (α : ι → K)
    (hS : ∀ e i j, i ≠ j → 0 ≤ S e i j) (hR : ∀ a i, 0 ≤ R a i) (hα : ∀ i, 0 ≤ α i)
    (fs : List (ℕ × K)) (hfs : ∀ f ∈ fs, 0 ≤ f.2) :
    0 ≤ accumVal L S R α fs := by
  rw [accumVal_eq_dot]
  apply mul_nonneg (Nat.cast_nonneg _)
  apply dotProduct_nonneg' _ _ (headVec_nonneg α hα)
  apply mulVec_nonneg _
    (evalFactors_nonneg L _ (fun e => vanLoan_metzler (S e) R (hS e) hR) fs hfs)
  exact lastVec_nonneg _ fun _ => zero_le_one

/-! ### The cdf -/

/-- the 0/1 indicator of a set of states -/
def indVec (N : Finset ι) : ι → K := fun j => if j ∈ N then 1 else 0

theorem indVec_nonneg (N : Finset ι) : ∀ j, 0 ≤ indVec (K := K) N j := by
  intro j; unfold indVec; split_ifs <;> simp

theorem indVec_le_one (N : Finset ι) : ∀ j, indVec (K := K) N j ≤ (1 : ι → K) j := by
  intro j; unfold indVec; split_ifs <;> simp

/-- If the complement of `N` is closed under `S`, it is closed under `E (τ • S)`. -/
theorem E_closed (S : Matrix ι ι K) (N : Finset ι)
    (hcl : ∀ i j, i ∉ N → j ∈ N → S i j = 0) (τ : K) :
    ∀ i j, i ∉ N → j ∈ N → L.E (τ • S) i j = 0 := by
  intro i j hi hj
  let d : ι → K := fun i => if i ∈ N then 0 else 1
  have hint : (Matrix.diagonal d * S * Matrix.diagonal d) * Matrix.diagonal d
      = Matrix.diagonal d * S := by
    ext x y
    rw [Matrix.mul_diagonal, Matrix.mul_diagonal, Matrix.diagonal_mul]
    by_cases hx : x ∈ N
    · simp [d, hx]
    · by_cases hy : y ∈ N
      · simp [d, hx, hy, hcl x y hx hy]
      · simp [d, hx, hy]
  have h := congrFun (congrFun (L.E_smul_intertwine _ _ _ hint τ) i) j
  rw [Matrix.mul_diagonal, Matrix.diagonal_mul] at h
  simpa [d, hi, hj] using h.symm

/-- One more factor can only decrease the vector `E ⋯ · exit`. -/
theorem E_mulVec_indVec_le (S : Matrix ι ι K) (N : Finset ι)
    (hS : ∀ i j, i ≠ j → 0 ≤ S i j) (hrow : ∀ i, ∑ j, S i j = 0)
    (hcl : ∀ i j, i ∉ N → j ∈ N → S i j = 0) (τ : K) (hτ : 0 ≤ τ) :
    ∀ i, (L.E (τ • S) *ᵥ indVec N) i ≤ indVec N i := by
  intro i
  have hnn := L.E_smul_nonneg S hS τ hτ
  by_cases hi : i ∈ N
  · have h1 : indVec (K := K) N i = 1 := by simp [indVec, hi]
    rw [h1]
    calc (L.E (τ • S) *ᵥ indVec N) i ≤ (L.E (τ • S) *ᵥ (1 : ι → K)) i :=
          mulVec_le_mulVec _ hnn _ _ (indVec_le_one N) i
      _ = 1 := by
          simpa [Matrix.mulVec, dotProduct] using L.E_smul_rowsum S hrow τ i
  · have h0 : indVec (K := K) N i = 0 := by simp [indVec, hi]
    rw [h0]
    apply le_of_eq
    show ∑ j, L.E (τ • S) i j * indVec N j = 0
    apply Finset.sum_eq_zero
    intro j _
    by_cases hj : j ∈ N
    · rw [E_closed L S N hcl τ i j hi hj, zero_mul]
    · simp [indVec, hj]

/-- The cdf takes values in `[0, 1]`.  (Closedness of the complement of `N` is not needed.) -/
theorem cdf_range (S : ℕ → Matrix ι ι K) (α : ι → K) (N : Finset ι)
    (hS : ∀ e i j, i ≠ j → 0 ≤ S e i j) (hrow : ∀ e i, ∑ j, S e i j = 0)
    (hα : ∀ i, 0 ≤ α i) (hα1 : ∑ i, α i = 1)
    (fs : List (ℕ × K)) (hfs : ∀ f ∈ fs, 0 ≤ f.2) :
    0 ≤ cdfVal L S α (indVec N) fs ∧ cdfVal L S α (indVec N) fs ≤ 1 := by
  rw [cdfVal_eq_dot]
  have hM := evalFactors_nonneg L S hS fs hfs
  constructor
  · have h1 : α ⬝ᵥ (evalFactors L S fs *ᵥ indVec N) ≤ α ⬝ᵥ (evalFactors L S fs *ᵥ 1) :=
      dotProduct_le_dotProduct _ hα _ _ (mulVec_le_mulVec _ hM _ _ (indVec_le_one N))
    rw [evalFactors_mulVec_one L S hrow fs] at h1
    have h2 : α ⬝ᵥ (1 : ι → K) = 1 := by simpa [dotProduct] using hα1
    rw [h2] at h1
    linarith
  · have : 0 ≤ α ⬝ᵥ (evalFactors L S fs *ᵥ indVec N) :=
      dotProduct_nonneg' _ _ hα (mulVec_nonneg _ hM _ (indVec_nonneg N))
    linarith

/-- The cdf is monotone along the factor list. -/
theorem cdf_mono (S : ℕ → Matrix ι ι K) (α : ι → K) (N : Finset ι)
    (hS : ∀ e i j, i ≠ j → 0 ≤ S e i j) (hrow : ∀ e i, ∑ j, S e i j = 0)
    (hcl : ∀ e i j, i ∉ N → j ∈ N → S e i j = 0) (hα : ∀ i, 0 ≤ α i)
    (fs : List (ℕ × K)) (hfs : ∀ f ∈ fs, 0 ≤ f.2) (e : ℕ) (τ : K) (hτ : 0 ≤ τ) :
    cdfVal L S α (indVec N) fs ≤ cdfVal L S α (indVec N) (fs ++ [(e, τ)]) := by
  rw [cdfVal_eq_dot, cdfVal_eq_dot, evalFactors_append, ← Matrix.mulVec_mulVec]
  apply sub_le_sub_left
  apply dotProduct_le_dotProduct _ hα
  apply mulVec_le_mulVec _ (evalFactors_nonneg L S hS fs hfs)
  have := E_mulVec_indVec_le L (S e) N (hS e) (hrow e) (hcl e) τ hτ
  simpa using this

end Positivity

end PG

#print axioms PG.evalFactors_append
#print axioms PG.evalFactors_zero_duration
#print axioms PG.evalFactors_merge
#print axioms PG.vanLoan_scale
#print axioms PG.topRight_scale
#print axioms PG.accumVal_scale
#print axioms PG.accumVal_time_rescale
#print axioms PG.cdfVal_time_rescale
#print axioms PG.lump_accum
#print axioms PG.lump_cdf
#print axioms PG.perm_accum
#print axioms PG.perm_cdf
#print axioms PG.E_vanLoan_last_row
#print axioms PG.E_vanLoan_first_col
#print axioms PG.evalFactors_vanLoan_last_row
#print axioms PG.evalFactors_vanLoan_first_col
#print axioms PG.accum_mono
#print axioms PG.accum_nonneg
#print axioms PG.cdf_range
#print axioms PG.cdf_mono
