"""
Configurations (the harness' own, independent description of a model instance) and their two renderings:
a real phasegen.Coalescent and a `space` request for the Lean driver; canonical forms of states, rate
matrices, initial vectors and reward vectors so that both sides can be diffed semantically.
"""
import math, itertools
from fractions import Fraction
import numpy as np
from pgcommon import frac, rs, rlist, nlist, close


# ----------------------------------------------------------------------------- timescale oracle
def timescale_oracle(model, N):
    """Documented coalescent time scale, written independently of coalescent_models.py."""
    kind = model[0]
    N = float(N)
    if kind == 'kingman':
        return N
    if kind == 'dirac':
        return N * N if model[3] else N
    if kind == 'beta':
        alpha, scale = float(model[1]), model[2]
        if not scale:
            return N
        m = 1.0 + 1.0 / (2.0 ** (alpha - 1.0) * (alpha - 1.0))
        B = math.gamma(2.0 - alpha) * math.gamma(alpha) / math.gamma(2.0)
        return m ** alpha * N ** (alpha - 1.0) / alpha / B
    raise ValueError(kind)


def model_spec(model):
    if model[0] == 'kingman':
        return 'kingman'
    if model[0] == 'beta':
        return f'beta:{rs(model[1])}:{1 if model[2] else 0}'
    if model[0] == 'dirac':
        return f'dirac:{rs(model[1])}:{rs(model[2])}:{1 if model[3] else 0}'
    raise ValueError(model)


def make_model(pg, model):
    if model[0] == 'kingman':
        return pg.StandardCoalescent()
    if model[0] == 'beta':
        return pg.BetaCoalescent(alpha=model[1], scale_time=model[2])
    if model[0] == 'dirac':
        return pg.DiracCoalescent(psi=model[1], c=model[2], scale_time=model[3])
    raise ValueError(model)


# ----------------------------------------------------------------------------- configurations
def cfg_names(cfg):
    """deme axis used on the model side: sampled names in dict order, then unsampled ones sorted."""
    names = list(cfg['n'].keys())
    extra = sorted(set(p for e in cfg['epochs'] for p in e['sizes']) - set(names))
    return names + extra


def demography_route(cfg):
    """which documented way of writing the same piecewise-constant demography is used: a deterministic function of the
    configuration (so that a replay takes the same route), overridable by cfg['demography_route']"""
    if 'demography_route' in cfg:
        return cfg['demography_route']
    h = sum(cfg['n'].values()) + 3 * len(cfg['epochs']) + sum(int(round(float(e['start']) * 16)) for e in cfg['epochs']) + \
        sum(len(e['mig']) for e in cfg['epochs'])
    return ('dicts', 'dicts', 'events', 'add_event')[h % 4]


def make_demography_events(pg, cfg, one_by_one=False):
    """the same demography assembled from event objects (group events and single-key events alternate; an epoch whose rates
    are equal for all pairs is written with SymmetricMigrationRateChanges), handed over in one list or one by one"""
    names = cfg_names(cfg)
    ev = []
    for i, e in enumerate(cfg['epochs']):
        t = e['start']
        if i % 2 == 0:
            ev.append(pg.PopSizeChanges({p: {t: e['sizes'][p]} for p in names}))
        else:
            for p in names:
                ev.append(pg.PopSizeChange(pop=p, time=t, size=e['sizes'][p]))
        if len(names) > 1:
            rates = {(a, b): {t: e['mig'].get((a, b), 0)} for a in names for b in names if a != b}
            vals = {r[t] for r in rates.values()}
            if len(vals) == 1:
                v = vals.pop()
                ev.append(pg.SymmetricMigrationRateChanges(pops=list(names), rate=v if (t == 0 and i % 2 == 0) else {t: v}))
            elif i % 2 == 0:
                ev.append(pg.MigrationRateChanges(rates))
            else:
                for (a, b), r in rates.items():
                    ev.append(pg.MigrationRateChange(source=a, dest=b, time=t, rate=r[t]))
    if one_by_one:
        d = pg.Demography()
        for x in ev:
            d.add_event(x)
        return d
    return pg.Demography(events=ev)


def make_demography(pg, cfg, style=None):
    style = style or demography_route(cfg)
    if style in ('events', 'add_event'):
        return make_demography_events(pg, cfg, one_by_one=style == 'add_event')
    eps = cfg['epochs']
    names = cfg_names(cfg)
    pop_sizes = {p: {} for p in names}
    mig = {}
    for e in eps:
        for p in names:
            pop_sizes[p][e['start']] = e['sizes'][p]
        for a in names:
            for b in names:
                if a != b:
                    mig.setdefault((a, b), {})[e['start']] = e['mig'].get((a, b), 0)
    if len(names) == 1:
        mig = None
    return pg.Demography(pop_sizes=pop_sizes, migration_rates=mig)


def make_coalescent(pg, cfg, **over):
    kw = dict(
        n=dict(cfg['n']),
        model=make_model(pg, cfg['model']),
        demography=make_demography(pg, cfg),
        parallelize=False,
        pbar=False,
    )
    if cfg.get('loci', 1) == 2:
        # the three documented ways of asking for two loci (deterministic in the configuration, so that a replay takes the same
        # route): everything inside the LocusConfig; LocusConfig + separate recombination_rate keyword; loci=2 + keyword
        r, nu = cfg.get('r', 0), cfg.get('n_unl', 0)
        route = cfg.get('loci_route', int(round(float(r) * 8)) + int(nu) + sum(cfg['n'].values())) % 3
        if route == 1:
            kw['loci'] = pg.LocusConfig(n=2, n_unlinked=nu)
            kw['recombination_rate'] = r
        elif route == 2 and nu == 0:
            kw['loci'] = 2
            kw['recombination_rate'] = r
        else:
            kw['loci'] = pg.LocusConfig(n=2, n_unlinked=nu, recombination_rate=r)
    if cfg.get('end_time') is not None:
        kw['end_time'] = cfg['end_time']
    if cfg.get('start_time'):
        kw['start_time'] = cfg['start_time']
    if cfg.get('regularize') is not None:
        kw['regularize'] = cfg['regularize']
    kw.update(over)
    return pg.Coalescent(**kw)


def space_request(cfg, kind, ts_fn=timescale_oracle):
    names = cfg_names(cfg)
    nvec = [cfg['n'].get(p, 0) for p in names]
    eps = cfg['epochs']
    parts = []
    for i, e in enumerate(eps):
        stop = eps[i + 1]['start'] if i + 1 < len(eps) else None
        ts = [ts_fn(cfg['model'], e['sizes'][p]) for p in names]
        mig = [e['mig'].get((a, b), 0) if a != b else 0 for a in names for b in names]
        parts += [rs(stop), rlist(ts), rlist(mig)]
    return ' '.join(['space', kind, model_spec(cfg['model']), nlist(nvec), str(cfg.get('loci', 1)),
                     str(cfg.get('n_unl', 0)), rs(cfg.get('r', 0)), str(len(eps))] + parts)


# ----------------------------------------------------------------------------- canonical forms
def canon_state_arrays(lin, lnk, names):
    """state key independent of the deme order: tuple over sorted names of (lineages[:, d, :], linked[:, d, :])"""
    order = sorted(range(len(names)), key=lambda i: names[i])
    key = []
    for d in order:
        key.append((names[d], tuple(tuple(int(x) for x in lin[l][d]) for l in range(len(lin))),
                    tuple(tuple(int(x) for x in lnk[l][d]) for l in range(len(lnk)))))
    return tuple(key)


def parse_model_state(s):
    lin, lnk = s.split(';')
    f = lambda a: [[[int(x) for x in deme.split(',')] for deme in loc.split('|')] for loc in a.split('/')]
    return f(lin), f(lnk)


def model_space(drv, cfg, kind, ts_fn=timescale_oracle):
    names = cfg_names(cfg)
    out = drv.ask(space_request(cfg, kind, ts_fn))
    k = int(out.split()[1])
    states = [canon_state_arrays(*parse_model_state(s), names) for s in drv.ask('states').split()]
    alpha = {states[i]: Fraction(v) for i, v in enumerate(drv.ask('alpha').split()) if Fraction(v) != 0}
    S = []
    for e in range(len(cfg['epochs'])):
        m = {}
        out = drv.ask(f'S {e}')
        for tok in out.split():
            i, j, r = tok.split(':')
            r = Fraction(r)
            if r != 0:
                m[(states[int(i)], states[int(j)])] = r
        S.append(m)
    return dict(states=states, alpha=alpha, S=S, k=k)


def real_space(coal, kind):
    ss = coal.lineage_counting_state_space if kind == 'lc' else coal.block_counting_state_space
    names = list(ss.lineage_config.pop_names)
    sts = ss.states
    states = [canon_state_arrays(s.lineages, s.linked, names) for s in sts]
    al = ss.alpha
    alpha = {states[i]: float(al[i]) for i in range(len(states)) if al[i] != 0}
    S = []
    for epoch in coal.demography.epochs:
        ss.update_epoch(epoch)
        M = np.array(ss.S)
        m = {}
        for i, j in zip(*np.nonzero(M)):
            if i != j:
                m[(states[i], states[j])] = float(M[i, j])
        # diagonal must be minus the row sum
        diag_ok = np.allclose(M.sum(axis=1), 0, atol=1e-9 * max(1.0, np.abs(M).max()))
        S.append((m, diag_ok, bool((M - np.diag(np.diag(M)) >= 0).all())))
    return dict(states=states, alpha=alpha, S=S, k=len(states), names=names)


def diff_space(model, real, rel=1e-11):
    """list of human-readable differences between the model's and the real state space"""
    diffs = []
    ms, rs_ = model['states'], real['states']
    if len(set(rs_)) != len(rs_):
        diffs.append(('duplicate-state', None))
    if set(ms) != set(rs_):
        diffs.append(('states', dict(only_model=sorted(set(ms) - set(rs_))[:3], only_real=sorted(set(rs_) - set(ms))[:3])))
        return diffs
    if set(model['alpha']) != set(real['alpha']) or any(
            not close(model['alpha'][s], real['alpha'][s], rel) for s in model['alpha']):
        diffs.append(('alpha', dict(model={str(k): str(v) for k, v in model['alpha'].items()},
                                    real={str(k): v for k, v in real['alpha'].items()})))
    if len(model['S']) != len(real['S']):
        diffs.append(('n-epochs', (len(model['S']), len(real['S']))))
        return diffs
    for e, (mm, (rm, diag_ok, nonneg)) in enumerate(zip(model['S'], real['S'])):
        if not diag_ok:
            diffs.append(('row-sum', e))
        if not nonneg:
            diffs.append(('negative-offdiag', e))
        for key in set(mm) | set(rm):
            a, b = mm.get(key, 0), rm.get(key, 0.0)
            if not close(a, b, rel, 1e-300):
                diffs.append(('rate', dict(epoch=e, source=str(key[0]), target=str(key[1]), model=str(a), real=b)))
                if len(diffs) > 5:
                    return diffs
    return diffs


# ----------------------------------------------------------------------------- rewards
def reward_spec(r, names):
    """(driver spec tokens, constructor) for a harness-level reward description"""
    t = r[0]
    if t in ('th', 'tth', 'tbl', 'unit'):
        return [t]
    if t in ('sfs', 'fsfs', 'lin', 'locus', 'tblloc'):
        return [f'{t}:{r[1]}']
    if t == 'deme':
        return [f'deme:{names.index(r[1])}']
    if t in ('P', 'S', 'C'):
        out = [f'{t}:{len(r[1])}']
        for x in r[1]:
            out += reward_spec(x, names)
        return out
    raise ValueError(r)


def _custom_reward(R, j):
    """user-defined rewards from ONE factory (all their functions share a qualified name and differ only in what they close
    over): the time spent with exactly j lineages, through CustomReward"""
    return R.CustomReward(lambda state_space: R.LineageReward(j)._get(state_space),
                          supports=lambda cls: R.LineageReward(j).supports(cls) if hasattr(R.LineageReward(j), 'supports') else True)


def make_reward(pg, r):
    t = r[0]
    R = pg.rewards if hasattr(pg, 'rewards') else pg
    import phasegen.rewards as R
    if t == 'th': return R.TreeHeightReward()
    if t == 'tth': return R.TotalTreeHeightReward()
    if t == 'tbl': return R.TotalBranchLengthReward()
    if t == 'unit': return R.UnitReward()
    if t == 'sfs': return R.UnfoldedSFSReward(r[1])
    if t == 'fsfs': return R.FoldedSFSReward(r[1])
    if t == 'lin': return R.LineageReward(r[1])
    if t == 'locus': return R.LocusReward(r[1])
    if t == 'tblloc': return R.TotalBranchLengthLocusReward(r[1])
    if t == 'deme': return R.DemeReward(r[1])
    if t == 'custom': return _custom_reward(R, r[1])
    if t == 'P': return R.ProductReward([make_reward(pg, x) for x in r[1]])
    if t == 'S': return R.SumReward([make_reward(pg, x) for x in r[1]])
    if t == 'C': return R.CombinedReward([make_reward(pg, x) for x in r[1]])
    raise ValueError(r)


# ----------------------------------------------------------------------------- model queries
def setup_model(drv, cfg, kind):
    out = drv.ask(space_request(cfg, kind))
    return int(out.split()[1])


def model_moment(drv, cfg, center, permute, rewards, times):
    names = cfg_names(cfg)
    toks = []
    for r in rewards:
        toks += reward_spec(r, names)
    line = f"moment {1 if center else 0} {1 if permute else 0} {len(rewards)} {' '.join(toks)} {rlist(times)}"
    return [Fraction(x) for x in drv.ask(line).split()]


def model_cdf(drv, times):
    return [Fraction(x) for x in drv.ask(f'cdf {rlist(times)}').split()]


def cfg_from_json(cfg):
    """undo jsonable() on a configuration stored in a replay file"""
    cfg = dict(cfg)
    cfg['n'] = dict(cfg['n'])
    cfg['model'] = tuple(cfg['model'])
    eps = []
    for e in cfg['epochs']:
        e = dict(e)
        e['mig'] = {(eval(k) if isinstance(k, str) else tuple(k)): v for k, v in e['mig'].items()}
        eps.append(e)
    cfg['epochs'] = eps
    return cfg
