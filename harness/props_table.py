"""Table property -> (restated theorem name, source lemma, doc) used by mkprops.py."""

A = 'PGProofs.'
TABLE = {}

TABLE['C01'] = dict(
    imports=[A + 'Assembly', A + 'Glue', A + 'Bridge', A + 'MomentsThm', A + 'RewardsThm', A + 'EndToEnd', A + 'EndToEnd2'],
    summary='Proved for all inputs: the generator the code builds on lineage counts is the projection of the labelled '
            'structured Lambda-coalescent (lumping + bridge), the rate matrix rows represent it, equal moments follow for '
            'any abstract exponential obeying the four laws (lump_accum), the sorted sweep of _accumulate is pointwise, '
            'the regularisation factor cancels exactly, centring is the expansion of prod (X_i - mu_i). Partial: PT1/PT3 '
            '(the Van Loan formula IS the moment; the coalescent IS this particle system) and floating point accuracy.',
    theorems=[
        ('moments_eq_labelled', 'PG.Assembly.C01_moments_eq_labelled', 'HEADLINE: every Van Loan moment the code computes on lineage counts (any order k, any rewards, any epochs and durations, any exponential obeying the laws) equals the moment of the labelled structured coalescent'),
        ('labelled_matrix_is_generator', 'PG.Assembly.lineage_labelled_is_generator', 'the labelled matrix used in the headline theorem is the generator of the labelled particle system'),
        ('visited_independent_of_epoch', 'PG.Assembly.visited_indep', 'the state list does not depend on the epoch (zero-rate edges are kept)'),
        ('alpha_is_indicator', 'PG.Assembly.lineage_alpha', 'alpha is the indicator of the state matching the sample'),
        ('lumping_lineage', 'PG.C04_lumping_lineage', 'the count generator built by `transit` is the labelled generator projected onto counts (all D, n, models, rates)'),
        ('matrix_row_lineage', 'PG.lineage_matrix_row', 'every row of the BFS rate matrix represents that generator; rows sum to zero'),
        ('moments_of_lumped_chain', 'PG.lump_accum', 'intertwined generators, compatible rewards and initial vectors have identical Van Loan moments of every order'),
        ('accumulate_pointwise', 'PG.code_accumulate_pointwise', 'the model of `_accumulate` (sort, running product over epochs, scatter) is the direct evaluation at every time'),
        ('regularisation_cancels', 'PG.accumVal_scale', 'rewards scaled by c scale the k-th moment by c^k: lamb**k * expm(V_lamb * t / lamb) is independent of lamb'),
        ('centering_expansion', 'PG.accumulate_center_eq', 'the inclusion-exclusion loop of accumulate(center=True) as a sum over subsets'),
        ('centering_is_central_moment', 'PG.center_expansion', 'that sum is E[prod (X_j - E X_j)] for any linear expectation'),
        ('variance_formula', 'PG.accumulate_variance', 'k = 2: var = m2 - mean^2'),
        ('third_central_formula', 'PG.accumulate_third_central', 'k = 3, equal rewards: m3 - 3 m2 mu + 2 mu^3'),
        ('treeHeight_reward', 'PG.treeHeight_zero_iff_absorbing', 'the tree-height reward is the indicator of non-absorbing states'),
        ('moments_nonneg', 'PG.accum_nonneg', 'Metzler generators and non-negative rewards give non-negative raw moments'),
        ('end_to_end_moment', 'PG.EndToEnd.moment_call_eq_labelled', 'CAPSTONE: what Coalescent/dist.moment(k, rewards, start_time, end_time, center, permute) RETURNS for a well-formed call (argument resolution, window difference, centring, permutation average, epoch sweep, rate matrices built by BFS) equals the same combination of moments of the LABELLED structured coalescent'),
        ('end_to_end_vector', 'PG.EndToEnd.accumulate_call_vector_eq_labelled', 'accumulate on ANY list of times (unsorted, repeated): entry i is the labelled value at times[i]'),
        ('end_to_end_nonvacuous', 'PG.EndToEnd.moment_call_eq_labelled_exists', 'a labelled start configuration with the right counts always exists'),
        ('end_to_end_raw', 'PG.EndToEnd.raw_of_code', 'the raw conditioned accumulation of the call layer is the sweep of the code model'),
        ('end_to_end_instance', 'PG.EndToEnd.capstone_instance', 'instantiated with the real matrix exponential on a concrete model (BFS evaluated in the kernel)'),
        ('end_to_end_with_demography', 'PG.EndToEnd.capstone_with_demography', 'CAPSTONE with the epoch list, size vectors and migration matrices produced by the demography model from the user\'s named change dictionaries (translation toEvents; config_value_is_specValue; epoch_tables_from_demography)'),
        ('demography_value_link', 'PG.EndToEnd.config_value_is_specValue', 'the named value in force of the input glue = the value the epoch generator assigns (distinct keys per dict level)'),
    ])

TABLE['C02'] = dict(
    imports=[A + 'Corollaries', A + 'Assembly', A + 'Glue', A + 'BridgeBC', A + 'MomentsThm', A + 'RewardsThm', A + 'EndToEnd2', A + 'EndToEnd3'],
    summary='Proved for all inputs: block-counting generator = projection of the labelled coalescent on typed blocks (all three '
            'models incl. multiple mergers), matrix rows represent it, equal moments for SFS rewards; padding puts bin i at '
            'index i with zeros at 0 and n; cov is the symmetrised second moment minus the outer product of means. '
            'Partial: PT1/PT3, floating point.',
    theorems=[
        ('cov_routes_agree', 'PG.Corollaries.cov_routes_agree', 'sfs.cov (symmetrised ordered second moments minus outer product of means) equals get_cov (centred, permutation-averaged moment) entry by entry'),
        ('cov_diag_is_var', 'PG.Corollaries.cov_routes_agree_diag', 'and its diagonal is the variance'),
        ('sfs_eq_labelled', 'PG.Assembly.C02_sfs_eq_labelled', 'HEADLINE: every moment on the block-counting chain (SFS rewards included) equals the moment of the labelled coalescent on typed blocks'),
        ('sfs_eq_labelled_alpha', 'PG.Assembly.C02_sfs_eq_labelled_alpha', 'with the initial vector the code uses'),
        ('lumping_block', 'PG.C04_lumping_block', 'block-counting generator of the code = labelled generator on typed blocks projected onto counts'),
        ('matrix_row_block', 'PG.block_matrix_row', 'rows of the block-counting rate matrix represent that generator; every visited state has mass n'),
        ('moments_of_lumped_chain', 'PG.lump_accum', 'equal Van Loan moments under lumping'),
        ('sfs_length', 'PG.length_padSFS', 'the assembled spectrum has n+1 entries'),
        ('sfs_bin_zero', 'PG.padSFS_zero', 'entry 0 is 0'),
        ('sfs_bin_i', 'PG.padSFS_inner', 'entry i is the i-th bin'),
        ('sfs_bin_n', 'PG.padSFS_last', 'entry n is 0 (unfolded)'),
        ('sfs_folded_padding', 'PG.padSFS_folded', 'entries above n/2 are 0 (folded)'),
        ('cov_symm', 'PG.covSFS_symm', 'cov is symmetric'),
        ('cov_diag', 'PG.covSFS_diag', 'its diagonal is the second moment minus the squared mean'),
        ('cov_padding', 'PG.covSFS_outside_zero', 'rows/columns of the padded bins are zero'),
        ('folded_reward', 'PG.folded_eq_fold', 'folded reward = unfolded i plus unfolded n-i, once if equal'),
        ('end_to_end_sfs', 'PG.EndToEnd.sfs_moment_call_eq_labelled', 'CAPSTONE (SFS route): the padded vector SFSDistribution.moment(k, rewards, start, end, center, permute) returns, bin by bin through CombinedReward([r, SFS_i]) on the block-counting graph, equals the padded vector of labelled typed-block combinations; all orders k'),
        ('end_to_end_sfs_unfolded', 'PG.EndToEnd.unfolded_sfs_moment_call_eq_labelled', 'specialised to the unfolded spectrum'),
        ('end_to_end_sfs_accumulate', 'PG.EndToEnd.sfs_accumulate_call_vector_eq_labelled', 'CAPSTONE: the (n+1) x |times| matrix SFSDistribution.accumulate returns (zero row, one row per bin, zero padding; any list of non-negative times) equals entrywise the labelled typed-block combinations'),
        ('end_to_end_sfs_cov', 'PG.EndToEnd.sfs_cov_eq_labelled', 'CAPSTONE: SFSDistribution.cov ((X + X^T)/2 - mu mu^T from ordered uncentred cross moments) equals the same expression of labelled moments; symmetric (covSFSK_symm)'),
    ])

TABLE['C03'] = dict(
    imports=[A + 'TwoLocusInit', A + 'Corollaries', A + 'MeanIncrement', A + 'Assembly', A + 'Glue', A + 'Bridge', A + 'BridgeTwoLocus', A + 'RewardsThm', A + 'EndToEnd2', A + 'EndToEnd3'],
    summary='Proved: cdf of the code chain = cdf of the labelled chain (lump_cdf + bridges, one and two loci); cdf in [0,1] and '
            'non-decreasing along any extension of the factor list (from the four laws); the sorted sweep and `_update` are '
            'direct evaluation, also exactly on epoch boundaries; the bisection returns m with |F m - q| <= precision. '
            'For the real matrix exponential the mean over a further piece of time is the integral of 1 - cdf (mean_increment_eq_integral). Partial: pdf (numerical differentiation in the code), PT2.',
    theorems=[
        ('cdf_zero', 'PG.Corollaries.cdf_zero_code', 'cdf(0) = 0 when the initial state is not absorbing (n >= 2)'),
        ('moment_zero_at_time_zero', 'PG.Corollaries.accumVal_time_zero', 'no time, no accumulated reward'),
        ('mean_is_integral_of_survival', 'PG.mean_increment_eq_integral', 'for the real matrix exponential: mean(t + tau) - mean(t) = integral over [0, tau] of 1 - cdf(t + s), within any epoch after any history'),
        ('van_loan_integral', 'PG.vanLoan_topRight_eq_integral', 'Van Loan (1978): block (0,1) of exp(tau V) is the integral of exp(sS) diag(r) exp((tau-s)S)'),
        ('mean_increment', 'PG.accum_increment', 'from the four laws: the mean accumulated over a further piece of time depends only on the distribution at its start'),
        ('cdf_eq_labelled', 'PG.Assembly.C03_cdf_eq_labelled', 'HEADLINE: the cdf the code computes equals the absorption probability of the labelled coalescent'),
        ('cdf_eq_labelled_two_loci', 'PG.Assembly.C06_cdf_eq_labelled', 'same for two loci (ARG stopped at absorption)'),
        ('cdf_of_lumped_chain', 'PG.lump_cdf', 'intertwined generators have the same absorption probabilities'),
        ('cdf_range', 'PG.cdf_range', '0 <= cdf <= 1'),
        ('cdf_monotone', 'PG.cdf_mono', 'cdf does not decrease when time is added (complement of the non-absorbing set closed)'),
        ('cdf_pointwise', 'PG.code_cdf_pointwise', 'the model of `cdf` (sort, running product, scatter) is the direct evaluation at every time'),
        ('update_is_direct', 'PG.update_compose', '`_update` through any boundaries, also landing exactly on one, composes to direct evaluation'),
        ('boundary_zero_factor', 'PG.specFactors_zero', 'evaluation at t = 0 is the empty product'),
        ('quantile_spec', 'PG.quantile_spec', 'expansion + bisection: returned point has CDF within precision of q'),
        ('exit_vector', 'PG.treeHeight_zero_iff_absorbing', 'the exit vector (tree-height reward) is the indicator of non-absorbing states'),
        ('two_locus_generator', 'PG.genOf_transit_two_locus', 'two-locus generator of the code on non-absorbing states'),
        ('end_to_end_cdf', 'PG.EndToEnd.cdf_call_eq_labelled', 'CAPSTONE (cdf route): cdf on ANY list of non-negative times (unsorted, repeated) returns entrywise the cdf of the labelled process; a negative time raises (cdf_call_error_iff)'),
        ('end_to_end_cdf_demography', 'PG.EndToEnd.cdf_with_demography', 'with the epochs produced by the demography model'),
        ('end_to_end_cdf_two_locus', 'PG.EndToEnd.cdf_two_locus_eq_labelled', 'CAPSTONE: the two-locus tree_height.cdf on any list of non-negative times is the cdf of the labelled ARG'),
    ])

TABLE['C04'] = dict(
    imports=[A + 'TwoLocusInit', A + 'DriverPath', A + 'Assembly', A + 'Bridge', A + 'BridgeBC', A + 'BridgeTwoLocus'],
    summary='Proved for every n, every number of demes, all rates (unbounded, subsuming the bound of the property): the three '
            'state spaces are exact lumpings of the labelled particle system (lineage counting and block counting for Kingman, '
            'Beta, Dirac; two loci for Kingman), BFS returns each reachable state once, closed under transitions, rate matrix '
            'rows represent the generator and sum to zero, rates are non-negative, absorbing states only migrate. The exact '
            'difference between the code and the unstopped ARG at absorbing two-locus states is QCs_absorbing. Partial: PT3.',
    theorems=[
        ('two_locus_all_visited', 'PG.TwoLocusInit.two_locus_all_visited', 'two loci: from the all-unlinked start every state with n lineages at both loci is reached (zero-rate edges included), for every D'),
        ('two_locus_alpha', 'PG.TwoLocusInit.two_locus_alpha', 'two-locus alpha is uniform over exactly the visited states matching the sample and the linkage'),
        ('two_locus_alpha_sum', 'PG.TwoLocusInit.two_locus_alpha_sum', 'and sums to one'),
        ('two_locus_n_one', 'PG.TwoLocusInit.two_locus_alpha_n_one', 'documented: for n = 1 no state passes the test (alpha would be 0/0); the properties require n >= 2'),
        ('driver_matrix', 'PG.denseGen_sparseRows', 'the dense generator the DRIVER builds equals rateEntry entry by entry'),
        ('driver_matrix_is_codeMat', 'PG.codeMat_eq_denseGen_bfs', 'hence equals the matrices of the headline theorems'),
        ('all_sample_configs_visited', 'PG.Assembly.lineage_all_configs_visited', 'every count vector with the right total is a state'),
        ('alpha_is_indicator', 'PG.Assembly.lineage_alpha', 'alpha is concentrated on the state matching the sample'),
        ('visited_independent_of_epoch', 'PG.Assembly.visited_indep', 'one state list serves all epochs'),
        ('general_lumping', 'PG.lumpings', 'exchangeable particle system: labelled generator on count functions = count generator'),
        ('representative_independent', 'PG.QLs_perm', 'the labelled generator does not depend on the order of the particles'),
        ('lumping_lineage', 'PG.C04_lumping_lineage', 'lineage counting'),
        ('lumping_block', 'PG.C04_lumping_block', 'block counting'),
        ('lumping_two_locus', 'PG.C04_lumping_two_locus', 'two loci, non-absorbing states'),
        ('two_locus_absorbing', 'PG.QCs_absorbing', 'at absorbing two-locus states the code drops recombination and locus coalescence: exact difference'),
        ('bfs_correct', 'PG.bfs_spec', 'BFS: no duplicates, initial state present, closed, transitions = rows, all reachable'),
        ('matrix_row_lineage', 'PG.lineage_matrix_row', 'rate matrix rows, lineage counting'),
        ('matrix_row_block', 'PG.block_matrix_row', 'rate matrix rows, block counting'),
        ('matrix_row_two_locus', 'PG.two_locus_matrix_row', 'rate matrix rows, two loci'),
        ('rates_nonneg', 'PG.transit_rates_nonneg', 'every transition rate is non-negative for valid parameters'),
        ('absorbing_only_migrate', 'PG.transit_absorbing', 'from a fully coalesced state only migration leaves'),
        ('row_sum_zero', 'PG.rateEntry_row_sum_zero', 'zero row sums without self loops'),
        ('encLC_injective', 'PG.encLC_injective', 'distinct count vectors are distinct states'),
    ])

TABLE['C05'] = dict(
    imports=[A + 'DemographyMixed', A + 'DemographyThm', A + 'EndToEnd2', A + 'DemoObjThm'],
    summary='Proved on the code model of Demography.epochs: tiling of [0,inf), change times are boundaries, value in force for any '
            'number of discrete events (latest change wins, stable order on ties), lookup of get_epochs is pointwise, order '
            'independence (no conflicts), discretised endpoint mean, split orientation lemmas, and kernel-checked counterexamples '
            'for the three historic defects. Schedules mixing discretised events with the other classes: whole-schedule theorems '
            'mixed_value_in_force_discrete, mixed_discretised_mean, mixed_terminates, mixed_epoch_length, mixed_grid_boundaries. Partial: float ceil with non-dyadic steps.',
    theorems=[
        ('mixed_value_in_force', 'PG.mixed_value_in_force_discrete', 'schedules mixing all event classes: keys only discrete events touch still follow the latest change'),
        ('mixed_discretised_mean', 'PG.mixed_discretised_mean', 'schedules mixing all event classes: endpoint mean inside the window'),
        ('mixed_terminates', 'PG.mixed_terminates', 'finite windows: the schedule ends with an infinite epoch after an explicit number of epochs and tiles [0, inf)'),
        ('mixed_epoch_length', 'PG.mixed_epoch_length', 'inside a window no epoch is longer than one step (+1e-10)'),
        ('mixed_grid_boundaries', 'PG.mixed_grid_boundaries_of_count', 'grid points are epoch starts'),
        ('tiling', 'PG.epochs_tiling', 'epochs tile [0, inf): first starts at 0, consecutive, only the last is infinite, non-empty'),
        ('tiling_WF', 'PG.epochs_WF', 'the schedule is a well-formed epoch list for the accumulation theorems'),
        ('change_times_are_boundaries', 'PG.change_time_is_boundary', 'every positive change time starts an epoch and nothing else does'),
        ('value_in_force', "PG.value_in_force'", 'every key has the value of the latest change at or before t (default 1 / 0)'),
        ('lookup', 'PG.getEpochIdx_spec', 'get_epochs returns for each time the unique epoch containing it, independently of the other times'),
        ('lookup_boundary', 'PG.epochOf_start', 'a time on a boundary belongs to the epoch that starts there'),
        ('sort_stable_perm', 'PG.sortEvents_perm', 'sorting events is a permutation'),
        ('order_independent_boundaries', 'PG.boundaries_perm', 'boundaries do not depend on the order events are given'),
        ('order_independent_values', 'PG.value_perm', 'values do not depend on the order events are given (no conflicting changes)'),
        ('discretised_mean', 'PG.discretised_mean', 'inside its window a discretised event takes the endpoint mean'),
        ('grid_points', 'PG.grid_point_boundary', 'grid points of a discretised event end the current epoch (repaired broadcast)'),
        ('split_documented', 'PG.split_spec', 'documented split: derived -> ancestral at size*multiplier, nothing into derived'),
        ('split_pinned', 'PG.split_pinned', 'what the pinned code does instead (known finding)'),
        ('historic_broadcast', 'PG.historic_broadcast_counterexample', 'the pre-fix broadcast applies a change at 1/20 from time 0'),
        ('historic_window_end', 'PG.historic_windowEnd_counterexample', 'the pre-fix window test skipped the last step'),
        ('split_orientation', 'PG.split_orientation_counterexample', 'pinned vs documented orientation on a concrete demography'),
        ('grid_point_skipped', 'PG.grid_point_skipped', 'a grid point closer than 1e-10 to a boundary is skipped (documented limitation)'),
        ('glue_link', 'PG.EndToEnd.epoch_tables_from_demography', 'for every epoch the generator produces from the translated user dictionaries and every time inside it, the table the transitions use equals the table read off the epoch'),
        ('schedule_from_input', 'PG.EndToEnd.demography_schedule', 'the generated epochs tile [0, inf) with boundaries exactly at the positive change times of the input'),
        ('object_invariant', 'PG.DemoObj.inv_reachable', 'the mutable Demography object: after ANY history of constructor / add_events / add_event / epochs / reads / Coalescent(...) the cached pop_names, n_pops are those of the events held and the events are sorted'),
        ('object_events_stable_sort', 'PG.DemoObj.events_eq_stable_sort', 'the events held are the stable sort by start time of everything handed over, whichever route it came'),
        ('object_pop_names', 'PG.DemoObj.popNames_eq_sortDedup_mentioned', 'pop_names is the sorted set of every population mentioned so far (events of any route, sampled populations of a Coalescent)'),
        ('object_order_independent', 'PG.DemoObj.popNames_order_independent', 'two histories handing over permutations of the same events agree on pop_names, n_pops, on the events up to ties and on the relative order of events with different start times'),
        ('object_coalescent_init', 'PG.DemoObj.coalescentInit_complete', 'Coalescent(n, demography) on an up-to-date object: names complete, lineage dict = sample + zeros, the added PopSizeChanges mentions exactly the sampled names no event mentions, earlier events untouched'),
        ('object_coalescent_init_reachable', 'PG.DemoObj.coalescentInit_on_fresh', 'in every history every Coalescent(...) meets an up-to-date object'),
        ('object_stale_add_event', 'PG.DemoObj.staleadd_counterexample', 'add_event without _prepare_events (a seeded change): pop_names misses a specified population and Coalescent overrides its size'),
    ])

TABLE['C06'] = dict(
    imports=[A + 'TwoLocusInit', A + 'Assembly', A + 'BridgeTwoLocus', A + 'Marginal', A + 'RewardsThm', A + 'EndToEnd2', A + 'MarginalsThm'],
    summary='Proved: the two-locus chain is the lumping of the ARG particle system; each locus is a strong lumping onto the '
            'single-locus chain for EVERY recombination rate, hence equal marginal moments/cdf of every order; at r = 0 from a '
            'fully linked start the loci coincide on every reachable state, so cross moments equal second moments; locus '
            'rewards and the CombinedReward substitution. Partial: r -> infinity (limit), PT1/PT3.',
    theorems=[
        ('arg_eq_labelled_any_linkage', 'PG.TwoLocusInit.C06_arg_eq_labelled_alpha_init', 'single deme, any number of initially unlinked lineages: moments with the alpha the code uses equal those of the labelled stopped ARG'),
        ('initial_linkage', 'PG.TwoLocusInit.two_locus_alpha_one_deme_init', 'alpha is the point mass at (n-u linked, u + u unlinked)'),
        ('arg_eq_labelled', 'PG.Assembly.C06_arg_eq_labelled', 'HEADLINE: every two-locus moment of the code equals the moment of the labelled ancestral recombination graph stopped at absorption'),
        ('stopped_arg_generator', 'PG.Assembly.QCs_argRateStop', 'the stopped ARG: full generator before absorption, migration only afterwards'),
        ('lumping_two_locus', 'PG.C04_lumping_two_locus', 'two-locus generator = ARG particle system projected onto counts'),
        ('marginal_locus1', 'PG.Marginal.marginal_code₁', 'locus 1 counts are a strong lumping of the code chain onto the single-locus chain, any r'),
        ('marginal_locus2', 'PG.Marginal.marginal_code₂', 'same for locus 2'),
        ('marginal_moments', 'PG.Marginal.marginal_moments₁', 'per-locus moments of every order equal single-locus moments, any r, any epochs'),
        ('marginal_cdf', 'PG.Marginal.marginal_cdf₁', 'per-locus cdf equals the single-locus cdf'),
        ('r_zero_loci_coincide', 'PG.C06_r_zero', 'r = 0, no unlinked lineages: both loci have the same lineage count on all reachable states'),
        ('r_zero_cross_moments', 'PG.Marginal.r0_cross_moments', 'then any mix of locus-1 / locus-2 rewards gives the locus-1 moment (correlation 1)'),
        ('tbl_sum_of_loci', 'PG.tbl_eq_sum_tblLocus', 'total branch length reward = sum of per-locus rewards'),
        ('combined_tbl_locus', 'PG.combined_tbl_locus', 'CombinedReward([TBL, Locus l]) is the per-locus branch count'),
        ('combined_height_locus', "PG.combined_height_locus'", 'CombinedReward([TreeHeight, Locus l]) is the per-locus indicator'),
        ('end_to_end_two_locus', 'PG.EndToEnd.two_locus_moment_call_eq_labelled', 'CAPSTONE (two loci): what moment(...) returns on the two-locus graph equals the labelled ARG combination'),
        ('marg_locus_diag_defect', 'PG.Marginals.Examples.locusDiagJointVar_violates', 'kernel-checked: returning the joint variance on the diagonal of loci.cov is wrong (8 instead of 4) and breaks the sum'),
        ('marg_locus_corr_r0_defect', 'PG.Marginals.Examples.locusCorrOneAtR0_violates', 'kernel-checked: corr = 1 at r = 0 is wrong for unlinked starts (cov 0)'),
        ('marg_code_loci', 'PG.Marginals.code2_loci_tbl_marginals', 'two-locus code functional: locus marginals of the total branch length decompose the total'),
    ])

TABLE['C07'] = dict(
    imports=[A + 'Glue', A + 'DemographyThm', A + 'EndToEnd2', A + 'PdfVec'],
    summary='Proved for every finite sequence of times, any order, any duplicates: scatter with the inverse sorting permutation '
            'after a sorted sweep returns the i-th value for the i-th time; instantiated for _accumulate, cdf, pdf (two vector cdf calls, PdfVec) and get_epochs. '
            'The pinned gather variant is refuted on [2, 1/2, 1] and characterised (correct iff the sort is an involution).',
    theorems=[
        ('scatter_argsort', 'PG.scatter_argsort', 'scatterBack ts (map f (sort ts)) = map f ts'),
        ('scatter_argsort_general', "PG.scatter_argsort'", 'same for any list of values computed at the sorted positions'),
        ('accumulate_pointwise', 'PG.code_accumulate_pointwise', '_accumulate'),
        ('cdf_pointwise', 'PG.code_cdf_pointwise', 'cdf (and pdf, two cdf calls)'),
        ('get_epochs_pointwise', 'PG.getEpochIdx_spec', 'get_epochs'),
        ('argsort_is_permutation', 'PG.argsort_perm', 'argsort is a permutation of the positions'),
        ('sorted', 'PG.sortRat_sorted', 'the sweep sees the times in ascending order'),
        ('pinned_counterexample', 'PG.gatherPinned_counterexample', 'indexing with argsort instead of its inverse is wrong on [2, 1/2, 1]'),
        ('pinned_correct_only_for_involutions', 'PG.gatherPinned_of_involutive', 'it is right when the sorting permutation is an involution (why reversed / sorted inputs hid the defect)'),
        ('end_to_end_cdf_vector', 'PG.EndToEnd.cdf_call_entry_eq_labelled', 'entry i of a vector cdf call is the labelled cdf at times[i], whatever the other times'),
        ('pdf_pointwise', 'PG.code_pdf_pointwise', 'pdf(times, dx) = two vector cdf calls at max(t - dx/2, 0) and that + dx: entry i is the difference quotient of the direct cdf at times[i]'),
        ('pdf_entry_eq_single', 'PG.code_pdf_entry_eq_single', 'any entry of a vector pdf call equals the one-element call for that time'),
        ('pdf_perm', 'PG.code_pdf_perm', 'permuting the supplied times permutes the pdf values the same way'),
        ('pdf_points_nonneg', 'PG.pdfX1_nonneg', 'the evaluation points of pdf are never negative'),
        ('pdf_window_centred', 'PG.pdf_window_centred', 'for t >= dx/2 the window is [t - dx/2, t + dx/2]'),
        ('pdf_window_at_zero', 'PG.pdf_window_at_zero', 'for t <= dx/2 the window is [0, dx]'),
    ])

TABLE['C08'] = dict(
    imports=[A + 'DemePerm', A + 'VanLoan', A + 'RewardsThm', A + 'Labelled', A + 'ConfigThm', A + 'EndToEnd', A + 'EndToEnd3'],
    summary='Proved: relabelling states by any bijection leaves every moment and cdf unchanged (perm_accum / perm_cdf, E_reindex); '
            'the labelled generator is invariant under permutation of particles; deme rewards sum to one. The code model `transit` is equivariant under permutation of the deme axis (transit_lineage_equivariant) and the moments / cdf on the BFS graphs the code builds are invariant (C08_moments_perm, C08_cdf_perm); '
            'the input glue from the user\'s containers to the axis is modelled and proved for every listing order, omission of unsampled demes and every iteration order of the Python set (ConfigThm). Hash-seed independence of the real interpreter is exercised.',
    theorems=[
        ('moments_perm', 'PG.DemePerm.C08_moments_perm', 'HEADLINE: on the BFS graphs the code builds, listing the demes in a different order (sample vector, time scales, migration matrix permuted consistently) gives the same moment for rewards transported by name'),
        ('cdf_perm', 'PG.DemePerm.C08_cdf_perm', 'same for the cdf'),
        ('deme_marginals_perm', 'PG.DemePerm.C08_moments_deme', 'per-deme rewards addressed by the permuted axis index give the same moments'),
        ('generator_equivariant', 'PG.DemePerm.lineage_equivariant', 'the lineage-counting generator commutes with relabelling of demes'),
        ('generator_equivariant_block', 'PG.DemePerm.block_equivariant', 'the block-counting generator commutes with relabelling of demes'),
        ('transit_equivariant', 'PG.DemePerm.transit_lineage_equivariant', 'the code model `transit` commutes with relabelling of demes'),
        ('sfs_perm', 'PG.DemePerm.demePerm_moments_sfs', 'SFS rewards (sums over demes) are invariant'),
        ('sorted_name_lookup_defect', 'PG.DemePerm.defect_counterexample', 'pre-fix DemeReward: looking the name up in the sorted list while the axis follows the sample dict returns the other deme'),
        ('relabel_moments', 'PG.perm_accum', 'moments are invariant under a bijective relabelling of states'),
        ('relabel_cdf', 'PG.perm_cdf', 'cdf likewise'),
        ('exp_reindex', 'PG.ExpLaw.E_reindex', 'the exponential commutes with reindexing'),
        ('particle_order_irrelevant', 'PG.QLs_perm', 'the labelled generator ignores the order of particles'),
        ('deme_rewards_sum_one', 'PG.deme_rewards_sum_one', 'per-deme fractions sum to one'),
        ('glue_named_semantics', 'PG.Config.config_named_semantics', 'INPUT GLUE: position i of the size vector, migration matrix, initial vector and DemeReward index built from the user\'s containers is about the population NAMED axis[i] (any shapes, unsorted names, unsampled demes appended in ANY set order)'),
        ('glue_listing_order', 'PG.Config.config_listing_order_irrelevant', 'listing the populations in another order in the sample dict / size dict / migration dict, listing unsampled ones with 0 or omitting them, any set iteration order: the tables are the name-matching permutation (permTs / permMig / permC) of each other'),
        ('glue_rename', 'PG.Config.config_rename_equivariant', 'a consistent injective renaming yields the name-matching permutation of the same tables (sorting may move the axis)'),
        ('glue_hash_independent', 'PG.Config.config_hash_independent', 'the values attached to a name do not depend on the iteration order of the Python set of unsampled names'),
        ('glue_to_moments', 'PG.Config.config_moments_listing_order_irrelevant', 'glue + state level composed: moments of DemeReward(name) built from two listings of the same named input are equal (instantiates C08_moments_deme)'),
        ('glue_sizes_by_dict_order_defect', 'PG.Config.sizesByDictOrder_violates', 'kernel-checked: looking sizes up by dict position attaches them to the wrong name'),
        ('glue_mig_by_sorted_names_defect', 'PG.Config.migBySortedNames_violates', 'kernel-checked: indexing the sorted epoch names in migrate_unlinked attaches rates to the wrong pair'),
        ('glue_deme_reward_sorted_defect', 'PG.Config.demeRewardBySortedNames_violates', 'kernel-checked: the pre-fix DemeReward lookup'),
        ('glue_nonvacuous', 'PG.Config.exInput_current_ok', 'a 4-deme instance with unsorted names and two omitted populations satisfies the hypotheses and the conclusion'),
        ('end_to_end_named', 'PG.EndToEnd.moment_call_named_invariant', 'CAPSTONE: two listings of the same named input (any order in each container, unsampled demes listed or omitted, any set order) make moment(...) return the same value for rewards given BY NAME, for every call and call-layer variant, exceptions included'),
        ('end_to_end_named_labelled', 'PG.EndToEnd.moment_call_named_eq_labelled', 'and that value is the labelled-process combination for the first listing'),
        ('end_to_end_named_instance', 'PG.EndToEnd.named_invariant_instance', 'a concrete two-deme instance with every dict reversed'),
        ('end_to_end_named_both_runs', 'PG.EndToEnd.named_invariant_both_runs_with_demography', 'CAPSTONE: both listings driven by the epoch generator: a re-listed input generates literally the same event list (Relisted.toEvents_eq), the same epoch boundaries and name-permuted tables, and moment(...) returns the same value for rewards given by name'),
        ('relisted_same_events', 'PG.EndToEnd.Relisted.toEvents_eq', 'listing order, omission of unsampled demes and set order do not change the translated event list'),
    ])

TABLE['C09'] = dict(
    imports=[A + 'Corollaries', A + 'VanLoan', A + 'RatesThm'],
    summary='Proved for every k, every epoch list and every exponential obeying the laws: durations times c with generators divided '
            'by c multiply the k-th moment by c^k and leave the cdf unchanged; the regularisation factor cancels exactly; model time '
            'scales (Kingman, Dirac N^2, Beta N^(alpha-1) with real powers) scale as stated. Partial: 1e-9 accuracy of floats.',
    theorems=[
        ('code_moments_rescale', 'PG.Corollaries.C09_lineage_moments', 'HEADLINE: on the BFS graphs the code builds, time scales times c and migration rates divided by c multiply every k-th moment by c^k (durations times c)'),
        ('code_cdf_rescale', 'PG.Corollaries.C09_lineage_cdf', 'and leave the cdf unchanged'),
        ('transit_rescale_lineage', 'PG.Corollaries.genOf_transit_lineage_rescale', 'the code model transit scales by 1/c (lineage counting)'),
        ('transit_rescale_block', 'PG.Corollaries.genOf_transit_block_rescale', 'block counting'),
        ('transit_rescale_two_locus', 'PG.Corollaries.genOf_transit_two_locus_rescale', 'two loci (recombination rate divided by c)'),
        ('popsize_rescale', 'PG.Corollaries.genOf_transit_lineage_popsize_rescale', 'all population sizes times a: generators divided by the model time factor (a, or a^2 for Dirac)'),
        ('moment_rescale', 'PG.accumVal_time_rescale', 'time unit change by c: k-th moment times c^k'),
        ('cdf_rescale', 'PG.cdfVal_time_rescale', 'cdf(c t) unchanged'),
        ('regularise', 'PG.accumVal_scale', 'regularisation factor cancels'),
        ('top_right_scale', 'PG.topRight_scale', 'entrywise form'),
        ('timescale_kingman', 'PG.timescaleRat_kingman_scale', 'Kingman: ts(cN) = c ts(N)'),
        ('timescale_dirac', 'PG.timescaleRat_dirac_scaled_scale', 'Dirac: ts(aN) = a^2 ts(N)'),
        ('timescale_beta', 'PG.betaTimescale_scale', 'Beta: ts(c^(1/(alpha-1)) N) = c ts(N)'),
    ])

TABLE['C10'] = dict(
    imports=[A + 'MeanIncrement', A + 'Glue', A + 'ApiThm', A + 'WindowVar'],
    summary='Proved: redundant boundaries merge (E_add), the sweep over any grid equals direct evaluation (so refinement and the '
            'three end-time routes agree), durations of a direct evaluation are non-negative and sum to t, raw accumulation of '
            'non-negative rewards is non-decreasing, the horizon search either reaches p_absorption or must warn. '
            'Partial: the threshold 1 - 1e-15 itself is numeric.',
    theorems=[
        ('window_var_curve_difference', 'PG.Api.propVar_curve_difference', 'the cached property var of a windowed distribution is the difference of the CENTRED second-order accumulation curve at the two ends of the window'),
        ('window_var_shortcut_gap', 'PG.Api.shortcutVar_sub_propVar', 'm2 - mean**2 (a seeded change, twice) differs from it by 2 m1(start) (m1(end) - m1(start))'),
        ('window_var_shortcut_iff', 'PG.Api.shortcut_eq_var_iff', 'and agrees exactly when m1(start) = 0 or m1(end) = m1(start)'),
        ('window_var_shortcut_counterexample', 'PG.Api.var_shortcut_differs', 'kernel-checked instance: var 63, shortcut 77 on the window [1/2, 4]'),
        ('additive_windows', 'PG.accum_increment', 'first moments are additive over adjacent windows: the increment over [a,b] is a function of the distribution at a'),
        ('redundant_boundary', 'PG.redundant_boundary', 'E(s V) E(t V) = E((s+t) V)'),
        ('zero_duration', 'PG.evalFactors_zero_duration', 'a zero-length piece contributes the identity'),
        ('grid_refinement', 'PG.code_accumulate_pointwise', 'any evaluation grid: every entry is the direct evaluation at its time'),
        ('direct_durations', 'PG.specFactors_nonneg_sum', 'the pieces up to t are non-negative and add up to t'),
        ('direct_pieces', 'PG.specFactors_durations', 'exactly the epochs that start before t, each cut at t'),
        ('monotone', 'PG.accum_mono', 'raw moments of non-negative rewards do not decrease when time is added'),
        ('horizon_spec', 'PG.absorption_spec', 'the doubling search: no warning iff the threshold was reached; warning implies all iterations used'),
        ('call_routes_agree', 'PG.Api.api_routes_agree', 'CALL LAYER: moment(end_time=T), moment() on an object whose horizon is T, and accumulate([T]) are the same number'),
        ('call_window_difference', 'PG.Api.api_window_difference', 'moment(start_time=a>0, end_time=b) is accumulate at b minus accumulate at a'),
        ('call_window_additive', 'PG.Api.api_window_additive', 'windows [0,a] and [a,b] add up to [0,b] for every order and centring flag'),
        ('call_window_additive_at_zero', 'PG.Api.api_window_additive_at_zero', 'the boundary a = 0 (single-accumulate route) under "nothing accumulated at time 0"'),
        ('call_explicit_zero_end', 'PG.Api.api_explicit_zero_end_value', 'an explicit end_time = 0 yields 0, not the default horizon'),
        ('call_explicit_zero_start', 'PG.Api.api_explicit_zero_start', 'an explicit start_time = 0 overrides a positive default start'),
        ('call_none_is_default', 'PG.Api.api_none_is_default', 'None arguments are the defaults (of any value)'),
        ('call_pointwise', 'PG.Api.api_accumulate_pointwise', 'accumulate on a list of times is entrywise the single-time call'),
        ('call_falsy_times_defect', 'PG.Api.api_falsyTimes_counterexample', 'kernel-checked: `x or default` replaces an explicit 0'),
    ])

TABLE['C11'] = dict(
    imports=[A + 'Conservation', A + 'RewardsThm', A + 'SampleConsistency', A + 'BridgeBC', A + 'Bridge'],
    summary='Proved: on every block-counting state of mass n the SFS rewards sum to the branch-length reward, the size-weighted sum is '
            'n times the height reward, folded = fold of unfolded; first moments are linear in the reward (so the identities pass to '
            'means). Second-order versions (covariances sum to the variance, C11_sum_cov) follow from multilinearity in every slot, proved for all orders (accumVal_slot_linear); '
            'agreement of lineage- and block-counting moments follows from both being lumpings of one labelled process.',
    theorems=[
        ('spaces_agree', 'PG.Conservation.C11_spaces_agree', 'HEADLINE: all mixed moments of tree height and total branch length agree between the block-counting and the lineage-counting chain'),
        ('block_to_lineage', 'PG.Conservation.block_to_lineage', 'forgetting block sizes is a strong lumping of the block-counting generator onto the lineage-counting generator (Vandermonde collapse)'),
        ('sum_mean', 'PG.Conservation.C11_sum_mean', 'means of rewards that sum pointwise to a total sum to the mean of the total'),
        ('sum_cov', 'PG.Conservation.C11_sum_cov', 'their covariances sum to the variance of the total'),
        ('weighted', 'PG.Conservation.C11_weighted', 'weighted sums'),
        ('fold', 'PG.Conservation.C11_fold', 'folded means'),
        ('fold_cov', 'PG.Conservation.C11_fold_cov', 'folded covariances'),
        ('multilinear', 'PG.Conservation.accumVal_slot_linear', 'every moment is linear in each reward slot (all orders k)'),
        ('model_sum_mean', 'PG.Conservation.C11_model_sum_mean', 'instantiated with the model SFS / branch-length rewards'),
        ('model_sum_cov', 'PG.Conservation.C11_model_sum_cov', 'instantiated: SFS covariances sum to the branch-length variance'),
        ('sum_sfs_eq_tbl', 'PG.sum_sfs_eq_tbl', 'sum of SFS rewards = total branch length reward'),
        ('weighted_sfs', 'PG.weighted_sfs_eq_n_height', 'size-weighted SFS rewards = n * tree height reward'),
        ('folded_is_fold', 'PG.folded_eq_fold', 'folded reward'),
        ('sum_folded', 'PG.sum_folded_eq_tbl', 'folded bins also sum to the branch length'),
        ('mean_linear', 'PG.accumVal_one_linear', 'first moments are linear in the reward vector'),
        ('lumping_lineage', 'PG.C04_lumping_lineage', 'lineage counting is a lumping of the labelled process'),
        ('lumping_block', 'PG.C04_lumping_block', 'block counting is a lumping of the labelled process'),
    ])

TABLE['C12'] = dict(
    imports=[A + 'Corollaries', A + 'DemePerm', A + 'Conservation', A + 'RewardsThm', A + 'SampleConsistency', A + 'Marginal', A + 'MomentsThm', A + 'MarginalsThm', A + 'EndToEnd3'],
    summary='Proved: deme rewards sum to one and product rewards decompose, per-locus branch rewards sum to the total, first moments are '
            'linear (means decompose), covariance is symmetric; a set of states that is never entered contributes nothing '
            '(accumVal_congr_closed). Partial: positive semi-definiteness needs the probabilistic representation PT1.',
    theorems=[
        ('empty_deme_zero', 'PG.Corollaries.C12_lineage_code', 'HEADLINE: on the code matrices, a deme with no sample and no migration into it has marginal moments exactly 0'),
        ('empty_deme_zero_generic', 'PG.Corollaries.C12_zero_deme', 'generic form'),
        ('zero_slot', 'PG.Corollaries.accumVal_zero_slot', 'a moment with a vanishing reward slot is 0'),
        ('cov_sum', 'PG.Conservation.sum_cov', 'covariances of parts sum to the variance of the total'),
        ('cov_bilinear', 'PG.Conservation.covVal_bilinear', 'covariance is bilinear over weighted finite sums'),
        ('mean_transfer', 'PG.Conservation.mean_of_pointwise', 'any pointwise linear identity between rewards passes to means'),
        ('cov_transfer', 'PG.Conservation.cov_of_pointwise', 'and to covariances'),
        ('deme_sum_one', 'PG.deme_rewards_sum_one', 'sum over demes of the deme reward is 1'),
        ('deme_product_decomposes', 'PG.deme_prod_sum', 'sum over demes of r * deme reward = r'),
        ('loci_sum', 'PG.tbl_eq_sum_tblLocus', 'per-locus branch lengths sum to the total'),
        ('mean_linear', 'PG.accumVal_one_linear', 'means are linear in the reward'),
        ('cross_moment_symmetric', 'PG.accumulate_swap', 'covariance entries are symmetric'),
        ('unreachable_states_irrelevant', 'PG.Marginal.accumVal_congr_closed', 'rewards may be changed outside a closed class carrying the initial mass'),
        ('marg_getcov_symm', 'PG.Marginals.getCov_symm', 'ASSEMBLY LAYER (MarginalDeme/LocusDistributions): get_cov(a, b) = get_cov(b, a), exceptions included'),
        ('marg_cov_diag', 'PG.Marginals.cov_diag_eq_margVar', 'the diagonal of cov is the variance of the sub-distribution of that part'),
        ('marg_cov_matrix_symm', 'PG.Marginals.cov_matrix_symm', 'the matrix [[get_cov(p1, p2) for p1] for p2] is symmetric (the transpose layout is harmless)'),
        ('marg_cov_sum', 'PG.Marginals.cov_sum_eq_var', 'the entries of cov sum to the variance of the total whenever the part rewards sum to the total reward (slot-additive raw functional)'),
        ('marg_mean_sum', 'PG.Marginals.mean_sum_eq_mean', 'part means sum to the mean'),
        ('marg_partition_demes', 'PG.Marginals.isPartition_demes', 'deme rewards partition any base reward on states with at least one lineage'),
        ('marg_partition_loci', 'PG.Marginals.isPartition_loci_tbl', 'locus rewards partition the total branch length'),
        ('marg_corr', 'PG.Marginals.corr_is_normalised_cov', 'corr * (sd_a sd_b) = cov and corr^2 var_a var_b = cov^2 (exact square roots)'),
        ('marg_corr_diag', 'PG.Marginals.corr_diag_one', 'corr[a][a] = 1 when the variance is non-zero'),
        ('marg_empty_part', 'PG.Marginals.empty_part_zero', 'a part whose reward the functional kills has mean, variance and covariances 0'),
        ('marg_code_demes', 'PG.Marginals.code_deme_marginals', 'all of the above for the code model functional codeRaw (slot additivity from accumVal_slot_linear)'),
        ('marg_no_permute_defect', 'PG.Marginals.Examples.demeCovNoPermute_violates_getCov_symm', 'kernel-checked: permute=False in get_cov with a symmetrised .cov leaves get_cov / corr asymmetric'),
        ('marg_code_demes_unconditional', 'PG.EndToEnd.code_deme_marginals_unconditional', 'deme marginals of the code functional decompose the total with NO hypothesis on the visited states (DemeShape derived from the BFS invariant 1 <= sum c <= sum cinit)'),
    ])

TABLE['C13'] = dict(
    imports=[A + 'SampleConsistency', A + 'RatesThm'],
    summary='Proved in full generality (any Lambda with consistent rates, any n, any size history, any end time): removing a uniformly '
            'chosen sample intertwines the block-counting generators of n+1 and n samples, hence the expected SFS projects '
            'hypergeometrically and mean height / branch length are monotone in n; the three models are consistent.',
    theorems=[
        ('rates_consistent', 'PG.lam_consistent', 'lambda(b,k) = lambda(b+1,k) + lambda(b+1,k+1) for Kingman, Beta, Dirac'),
        ('kernel_intertwine', 'PG.kernel_intertwine', 'Q_{n+1} K = K Q_n for the sample-removal kernel'),
        ('matrix_intertwine', 'PG.genMat_intertwine', 'matrix form'),
        ('K_sfs', 'PG.K_sfs', 'K applied to an SFS reward is the hypergeometric combination'),
        ('K_height', 'PG.K_height', 'K height <= height'),
        ('K_tbl', 'PG.K_tbl', 'K branch length <= branch length'),
        ('K_initial', 'PG.K_alpha', 'K maps the initial state to the initial state'),
        ('sfs_projection', 'PG.C13_sfs', 'expected SFS for n is the down-projection of the one for n+1'),
        ('sfs_projection_models', 'PG.C13_sfs_model', 'instantiated for the three models of the library'),
        ('height_monotone', 'PG.C13_height', 'mean tree height does not decrease with n'),
        ('tbl_monotone', 'PG.C13_tbl', 'mean total branch length does not decrease with n'),
    ])

TABLE['C14'] = dict(
    imports=[A + 'GenBridge', A + 'RatesThm'],
    summary='Proved on the model (tied to the source by the AST translator, see GenBridge when present): total rate = C(b,k) lambda; '
            'block-counting rate = product of binomials times lambda; Beta rate = ratio of Beta functions = the Lambda-integral; '
            'non-negativity, consistency, alpha = 2 and c = 0 reduce to Kingman, outcome sums (Vandermonde), time scales.',
    theorems=[
        ('generated_eq_model_kingman', 'PG.gen_standard_eq_model', 'TRANSLATION TIE: the definitions generated from the Python AST of StandardCoalescent equal the model'),
        ('generated_eq_model_beta', 'PG.gen_beta_eq_model', 'TRANSLATION TIE: BetaCoalescent'),
        ('generated_eq_model_dirac', 'PG.gen_dirac_eq_model', 'TRANSLATION TIE: DiracCoalescent'),
        ('generated_beta_k1_differs', 'PG.gen_beta_rate_one_ne', 'outside the domain the library uses (k = 1) the source formula and the model polynomial differ: documented, never requested by coalesce'),
        ('total_rate', 'PG.getRate_eq', '_get_rate(b,k) = C(b,k) * lambda(b,k)'),
        ('block_rate', 'PG.getRateBC_eq', '_get_rate_block_counting = prod C(b_i,k_i) * lambda(n, sum k)'),
        ('beta_is_beta_function', 'PG.betaBase_eq_Beta', 'Beta rate = B(k-a, b-k+a) / B(a, 2-a)'),
        ('beta_is_lambda_integral', 'PG.betaBaseR_eq_integral', '= integral of x^(k-2)(1-x)^(b-k) against Beta(2-a, a)'),
        ('nonneg', 'PG.lam_nonneg', 'rates are non-negative on the accepted parameter ranges'),
        ('consistent', 'PG.lam_consistent', 'sampling consistency'),
        ('alpha_two', 'PG.lam_beta_two', 'alpha = 2 is Kingman'),
        ('c_zero', 'PG.lam_dirac_c_zero', 'c = 0 is Kingman'),
        ('outcome_sum', 'PG.sum_getRateBC_eq_getRate', 'block-counting rates of all outcomes with k merging lineages sum to the lineage-counting rate'),
        ('vandermonde', 'PG.vandermonde_boxes', 'generalised Vandermonde on the code enumeration'),
        ('timescale_beta', 'PG.betaTimescale_scale', 'msprime Beta time scale scaling'),
    ])

TABLE['C15'] = dict(
    imports=[A + 'Corollaries', A + 'RoutesThm', A + 'Conservation', A + 'MomentsThm', A + 'RewardsThm', A + 'SampleConsistency', A + 'ApiThm', A + 'MemoThm', A + 'EndToEnd'],
    summary='Proved: centring = binomial / inclusion-exclusion combination of raw moments = central moment of any linear expectation '
            '(all k), explicit k = 2, 3; permutation averaging makes cross moments symmetric (all permutations); additivity in each '
            'reward slot; unit reward neutral in products; covariance assembly symmetric. Routes: cached properties, dist.moment and '
            'Coalescent.moment all unfold to accumulateModel of the same raw function (model level). Partial: PSD (needs PT1).',
    theorems=[
        ('cov_routes_agree', 'PG.Corollaries.cov_routes_agree', 'the matrix route and the element route to a covariance agree'),
        ('multilinear', 'PG.Conservation.accumVal_slot_linear', 'moments are linear in every reward slot (SumReward / scalar ProductReward act linearly), all k'),
        ('memo_keys_injective', 'PG.Reward.keys_injective', 'two different reward tuples never share a memoisation key (key = class name + parameters, as in Reward.__hash__)'),
        ('state_space_choice', 'PG.chooseSpace_lineageCounting', 'if _get_dist picks the lineage-counting space every reward of the tuple only depends on lineage counts'),
        ('lc_rewards_ignore_blocks', 'PG.eval_of_supportsLC', 'rewards supporting lineage counting give the same value on block states with the same lineage counts'),
        ('centering', 'PG.accumulate_center_eq', 'accumulate(center=True) = sum over subsets'),
        ('central_moment', 'PG.accumulate_center_eq_central_moment', '= E prod (X_j - mu_j)'),
        ('variance', 'PG.accumulate_variance', 'var = m2 - mean^2'),
        ('covariance', 'PG.accumulate_center_two', 'cov = E[XY] - E[X]E[Y]'),
        ('third_central', 'PG.accumulate_third_central', 'third central moment'),
        ('symmetric', 'PG.accumulate_perm', 'cross moments are invariant under any permutation of the rewards'),
        ('slot_additive', 'PG.uncentred_add', 'additive in each reward slot'),
        ('unit_neutral', 'PG.eval_prod_unit', 'ProductReward([Unit, r]) = r'),
        ('pointwise_in_time', 'PG.accumulateModel_apply', 'the algebra acts independently at every query time'),
        ('cov_symm', 'PG.covSFS_symm', 'SFS covariance is symmetric'),
        ('call_layer_exact', 'PG.Api.accumulateCall_eq', 'CALL LAYER: accumulate(k, times, rewards, center, permute) either raises (exactly when the mirrored checks fire) or returns accumulateModel at each time on the first k rewards'),
        ('call_routes_agree', 'PG.Api.api_routes_agree', 'moment / accumulate / object-level end time are the same number'),
        ('call_none_is_default', 'PG.Api.api_none_is_default', 'rewards=None means [self.reward]*k; None times mean the defaults'),
        ('memo_tuples_separate', 'PG.Memo.memo_reward_tuples_separate', 'two different reward tuples asked one after the other on the same object each get their own value'),
        ('memo_keys_exact', 'PG.Memo.memo_keyEq_iff', 'memo-key comparison = equality of rewards (nested composites included)'),
        ('memo_frozenset_defect', 'PG.Memo.frozensetComposite_collides', 'kernel-checked: a composite hash built from frozenset(children) makes Sum[A,A,B] collide with Sum[A,B]'),
        ('memo_base_class_hash_defect', 'PG.Memo.baseClassHash_collides', 'kernel-checked: hashing the defining class name makes composites differing in a stateless member collide (bare atoms still do not)'),
        ('call_congruence', 'PG.EndToEnd.accumulateModel_congr', 'accumulate(center, permute) is a fixed combination of the raw moments of its sub-tuples: equal raw ingredients give equal results'),
    ])

TABLE['C16'] = dict(
    imports=[A + 'DriverPath', A + 'MutConfig', A + 'MutConfigNonneg', A + 'MutConfigBridge', A + 'MutConfigBridge2'],
    summary='Proved exactly over any field, unbounded n: the matrix the code inverts, sum of P_i = P_total, words of length m sum to '
            'P_total^m and regroup by configuration through distinct orderings, total mass of <= M mutations = 1 - alpha P_total^(M+1) 1, '
            'empty configuration = resolvent form of the Laplace transform, expected counts = theta times expected SFS, first-step '
            'recursion, `_unfold` lists exactly the unfoldings, `_get_partitions` and the distinct-orderings spec. The numbers are '
            'probabilities: for a sub-generator (off-diagonals >= 0, row sums <= 0), theta > 0 and positive total reward the resolvent is entrywise non-negative (M-matrix minimum principle), hence every configuration probability lies in [0, 1] and every partial mass in [0, 1]. Partial: PT4.',
    theorems=[
        ('executable_getP', 'PG.getP_spec', 'the EXECUTABLE getP (certified Gauss-Jordan inverse) returns the matrices of the theorems'),
        ('executable_resolvent', 'PG.getP_resolvent', 'and provides the resolvent hypotheses of the C16 theorems'),
        ('executable_prob', 'PG.mutConfigProb_spec', 'the EXECUTABLE mutConfigProb the driver prints is alpha . (sum over distinct orderings) . p_total'),
        ('executable_mass', 'PG.mutConfigProb_mass', 'so the printed probabilities of all configurations with m mutations sum to alpha P_total^m p_total'),
        ('executable_empty', 'PG.mutConfigProb_empty', 'and the printed empty-configuration probability is the resolvent form'),
        ('code_matrix_left', 'PG.C16_code_mul_Ptot', 'P_total is the right inverse of the matrix the code builds'),
        ('code_matrix_right', 'PG.C16_Ptot_mul_code', 'and the left inverse'),
        ('P_total', 'PG.C16_Ptotal', 'sum_i P_i = P_total'),
        ('words', 'PG.C16_words', 'all words of length m'),
        ('words_by_config', 'PG.C16_words_by_config', 'regrouped by configuration via distinct orderings'),
        ('config_mass', 'PG.C16_config_mass', 'configurations with exactly m mutations carry alpha P_total^m p_total'),
        ('mass', 'PG.C16_mass', 'cumulative mass telescopes'),
        ('empty', 'PG.C16_empty', 'empty configuration: resolvent form'),
        ('expected_counts', 'PG.C16_expected_counts', 'expected counts = theta * (-S)^-1 diag(R_i)'),
        ('first_step', 'PG.C16_first_step_vec', 'first-step recursion'),
        ('orderings_recursion', 'PG.C16_orderings_recursion', 'orderings of c = union over i of i :: orderings of c - e_i'),
        ('orderings_spec', 'PG.distinctOrderings_spec', 'every distinct ordering exactly once'),
        ('partitions_spec', 'PG.partitionsOf_spec', '_get_partitions lists every configuration once'),
        ('unfold_spec', 'PG.unfoldConfig_spec', '_unfold lists exactly the configurations that fold to the given one'),
        ('resolvent_nonneg', 'PG.resolvent_nonneg', 'M-MATRIX: (theta D - S)^-1 is entrywise non-negative for every sub-generator S, theta > 0, positive total reward (minimum principle for Z-matrices with positive row sums)'),
        ('resolvent_exists', 'PG.resolvent_det_ne_zero', 'the matrix the code inverts is invertible under the same hypotheses'),
        ('prob_nonneg', 'PG.config_orderings_prob_nonneg', 'every configuration probability (sum over distinct orderings) is >= 0'),
        ('prob_le_one', 'PG.config_orderings_prob_le_one', 'and <= 1'),
        ('mass_le_one', 'PG.config_mass_le_one', 'the mass of all configurations with at most M mutations is <= 1 (and >= 0: config_mass_nonneg)'),
        ('executable_prob_nonneg', 'PG.mutConfigProb_nonneg', 'the EXECUTABLE mutConfigProb returns a non-negative number under the sign hypotheses on its inputs'),
        ('executable_prob_le_one', 'PG.mutConfigProb_le_one', 'and at most 1'),
        ('minimum_principle', 'PG.zmatrix_minimum_principle', 'M x >= 0 implies x >= 0 for a Z-matrix with strictly positive row sums'),
        ('code_prob_in_unit_interval', 'PG.C16_code_prob_in_unit_interval', 'UNCONDITIONAL on the code model: for every valid model and epoch, every n >= 2 and number of demes, the inputs the mutcfg path builds from the BFS graph satisfy all sign hypotheses, so whatever mutConfigProb returns lies in [0, 1] (no hypothesis on S, R, alpha left)'),
        ('code_total_mass', 'PG.C16_code_total_mass_in_unit_interval', 'the values returned for all configurations with at most M mutations sum to a number in [0, 1]'),
        ('generator_signs', 'PG.transient_block_row_sum_nonpos', 'the transient block of the code generator has non-positive row sums (and non-negative off-diagonals: generator_offdiag_nonneg)'),
        ('transient_reward_pos', 'PG.transient_total_reward_pos', 'every non-absorbing block-counting state carries total branch-length reward >= 2'),
        ('code_prob_total', 'PG.C16_code_prob_total', 'TOTAL on the code model: mutConfigProb RETURNS a value (the certified Gauss-Jordan inverse cannot take its singular branch) and it lies in [0, 1] - valid model and epoch, n >= 2, theta > 0, nothing else'),
        ('code_prob_folded', 'PG.C16_code_prob_total_folded', 'the same for the folded path (rewards foldedSFS_i, n/2 bins)'),
        ('gauss_jordan_succeeds', 'PG.RMat.inv_spec_of_det_ne_zero', 'the executable Gauss-Jordan routine (pivot search, swap, scale, eliminate; loop invariant Left = Right * A with injective left block) returns the two-sided inverse of every well-shaped matrix with non-zero determinant'),
        ('getP_defined_iff', 'PG.getP_isSome_iff', 'getP returns a value exactly when the matrix the code inverts is invertible'),
    ])

TABLE['C17'] = dict(
    imports=[A + 'CacheThm', A + 'Glue', A + 'MomentsThm', A + 'MemoThm', A + 'ShareThm', A + 'EpochKeyThm', A + 'ParallelThm'],
    summary='Proved on the state-machine model of StateSpace caching (epoch, S, per-epoch cache, drop_S, drop_cache, first access of '
            'states): for EVERY history of operations every read of S returns the matrix of the epoch in force, with caching on or off; '
            'the number of recomputations is bounded; the repaired consumer (update_epoch before reading) is correct and the pre-fix '
            'stale read is refuted by a kernel-checked 2-step history. Query procedures are sequences of these operations followed by '
            'pure evaluation (code_accumulate_pointwise). Worker pools: for EVERY completion schedule the ordered iterator hands the results back in data order, so the assembled SFS vectors and matrices equal the sequential ones (ParallelThm); the operating system scheduler itself is the quantified parameter.',
    theorems=[
        ('refinement', 'PG.Cache.C17_refinement', 'every answer of every history equals the cache-free specification'),
        ('pool_schedule_irrelevant', 'PG.Parallel.parallelize_schedule_irrelevant', 'utils.parallelize: for every completion schedule of the worker pool, with or without progress bar, the result list is data.map f'),
        ('pool_sfs_vector', 'PG.Parallel.sfs_moment_parallel_eq_sequential', 'the SFS vector assembled from a parallel run has f(i) at every bin of the index list and 0 elsewhere, for every schedule'),
        ('pool_sfs_matrix', 'PG.Parallel.sfs_cov_parallel_eq_sequential', 'the same for the matrix of SFSDistribution.cov'),
        ('pool_unordered_iff', 'PG.Parallel.imapUnordered_eq_map_iff', 'an unordered iterator gives the data order exactly for the identity schedule'),
        ('pool_unordered_counterexample', 'PG.Parallel.unordered_counterexample', 'imap_unordered behind the progress bar (a seeded change): values land in the wrong frequency class'),
        ('epoch_key_sound', 'PG.EpochKey.key_sound_table', 'the CONCRETE cache key (what Epoch.__hash__ hashes): equal keys give the same table of sizes and rates to the transitions'),
        ('epoch_key_cache', 'PG.EpochKey.cache_instantiated_table', 'the cache model instantiated with concrete epoch objects: after any history every S read is the matrix of the current epoch object itself'),
        ('epoch_key_complete', 'PG.EpochKey.generated_updateDrops_iff', 'between two epochs of one demography update_epoch drops S exactly if some size or rate differs'),
        ('epoch_key_order', 'PG.EpochKey.generated_same_key_order', 'all epochs of one generator run list their keys in the same order (so equal content gives equal keys)'),
        ('epoch_key_ignores_time', 'PG.EpochKey.key_ignores_time', 'start and end time do not enter the key (documented)'),
        ('epoch_key_combinations', 'PG.EpochKey.combinations_stale_history', 'hashing over combinations of sorted names (seeded twice independently): a reverse-direction rate change is not seen and the second read is stale'),
        ('read_at', 'PG.Cache.C17_getS_at', 'the i-th read returns compute(epoch after the first i operations)'),
        ('invariant', 'PG.Cache.inv_preserved', 'S and every cache entry are the true matrices of their epochs'),
        ('cache_off', 'PG.Cache.C17_no_cache', 'same with caching disabled'),
        ('cache_on', 'PG.Cache.C17_cache', 'fresh object with caching'),
        ('recomputation_bound', 'PG.Cache.computations_bound_no_drop', 'without drops at most one computation per distinct epoch (+1 for states)'),
        ('repaired_consumer', 'PG.Cache.repaired_consumer', 'update_epoch then read: always the consumer\'s own epoch'),
        ('stale_read_defect', 'PG.Cache.stale_read_defect', 'pre-fix get_mutation_config on a shared state space read the other parameter set\'s matrix'),
        ('queries_are_pure', 'PG.code_accumulate_pointwise', 'given the right matrices a query is a pure function of its arguments'),
        ('memo_refinement', 'PG.Memo.memo_refinement', 'DISTRIBUTION-LEVEL MEMO: with functools.cache on moment / _accumulate / _get_P and the cached_property slots mean, var, cov, corr, the answers to EVERY history of queries are those of the memo-free evaluator'),
        ('memo_order_irrelevant', 'PG.Memo.memo_order_irrelevant', 'the answer to a query does not depend on the history before it'),
        ('memo_fresh_equiv', 'PG.Memo.memo_fresh_equiv', 'same answer as a fresh object'),
        ('memo_forgetting', 'PG.Memo.memo_refinement_forgetting', 'the Coalescent.moment route (a new lower object per call) likewise'),
        ('memo_keys', 'PG.Memo.memo_keyEq_iff', 'the key comparison functools.cache performs (same class and equal hash, hash read as the structural key) identifies exactly equal rewards'),
        ('memo_corr_in_place_defect', 'PG.Memo.corr_inPlace_poisons_cov', 'kernel-checked: corr computed in place on the cached cov array makes a later cov read return correlations'),
        ('memo_getP_theta_defect', 'PG.Memo.getP_forgets_theta', 'kernel-checked: a _get_P memo keyed without theta'),
        ('memo_in_place_sum_defect', 'PG.Memo.inPlaceSum_poisons_memo', 'kernel-checked: in-place += on an array returned from a memoised call'),
        ('share_refinement', 'PG.Share.share_refinement', 'STATE-SPACE SHARING in Inference.get_coal: every interleaving of get_coal / update_epoch / S reads through any handed-out Coalescent answers like unshared, own-configuration state spaces'),
        ('share_read_own', 'PG.Share.share_read_own', 'a read after update_epoch through a handle returns the rate matrix of THAT configuration in THAT epoch'),
        ('share_cache_flag', 'PG.Share.share_cache_flag_irrelevant', 'cache=True and cache=False give the same answers (consumer protocol: update the epoch before reading)'),
        ('share_eq_deme_order', 'PG.Share.eqKey_current_ignores_deme_order', 'documented: StateSpace.__eq__ (dict equality of lineage configs) ignores the ORDER of the demes; harmless because every consumer reads the axis from the shared state space (Compat discharged by compat_of_order_invariant)'),
        ('share_forgets_locus_defect', 'PG.Share.forgetsLocus_stale', 'kernel-checked: a key that forgets the locus configuration hands a coalescent the matrix of another recombination rate'),
    ])

TABLE['C18'] = dict(
    imports=[A + 'SerializeThm', A + 'SerializeFields'],
    summary='Proved on the bookkeeping model with the codec as a parameter (decode (encode x) = some x): the loaded object answers every '
            'statistic like the original whether or not it was computed before saving, saving leaves the original untouched, cycles are '
            'idempotent. Partial by construction: jsonpickle/dill losslessness is the hypothesis the correspondence exercises.',
    theorems=[
        ('roundtrip', 'PG.Serialize.C18_roundtrip', 'save/load preserves configuration and every statistic'),
        ('original_untouched', 'PG.Serialize.C18_original_untouched', 'to_json returns the original unchanged'),
        ('idempotent', 'PG.Serialize.C18_idempotent', 'a second cycle is the identity'),
        ('later_queries', 'PG.Serialize.compute_inv', 'statistics computed after loading keep agreeing'),
        ('fields_roundtrip_coalescent', 'PG.Serialize.roundtrip_dict_coalescent', 'FIELD LEVEL: after Coalescent.to_json / from_json every attribute of __dict__ (start_time, end_time, regularize, model, demography, results, ...) is the one that was saved, in the same order; only the two state-space entries may differ, and only by their dropped caches'),
        ('fields_named', 'PG.Serialize.roundtrip_coalescent_fields', 'restated for the named configuration fields'),
        ('fields_roundtrip_inference', 'PG.Serialize.roundtrip_dict_inference', 'Inference: every key comes back with its value (callables through dill), no key is added'),
        ('x0_stable', 'PG.Serialize.roundtrip_x0_stable', 'the start point after loading equals the one before, for every rng draw function'),
        ('fields_original_untouched', 'PG.Serialize.original_untouched_coalescent', 'saving leaves the original dict untouched'),
        ('setstate_defaults_defect', 'PG.Serialize.defaultsOverride_loses_start_time', 'kernel-checked: `state | defaults` in __setstate__ resets start_time / regularize'),
        ('getstate_x0_defect', 'PG.Serialize.dropsCachedX0_redraws', 'kernel-checked: dropping the cached x0 in __getstate__ makes the loaded object draw another start point'),
    ])

TABLE['C19'] = dict(
    imports=[A + 'InferenceThm', A + 'InferenceLabels', A + 'CacheThm', A + 'ShareThm', A + 'LossThm'],
    summary='Proved with the optimiser as a parameter: _run stores the first minimum of the results, loss_inferred = min(loss_runs), the stored '
            'point attains it; add_run keeps the lower loss, concatenates losses, any merge order gives the global minimum; bootstraps append one '
            'row; create_run uses the given start values and rejects out-of-bounds ones (pre-fix variant refuted). Cache transparency is C17. '
            'The loss functions (norms, Poisson likelihood) are zero / minimal exactly at the generating values, so a run that reaches the global minimum of an identifiable model on noise-free data reports the generating parameters. Partial: L-BFGS-B behaviour (that some run reaches the global minimum is a hypothesis).',
    theorems=[
        ('loss_norm_zero_iff', 'PG.Loss.l1_eq_zero_iff', 'L1 loss is zero exactly when modelled = observed (same for Linf, squared L2: linf_eq_zero_iff, sqL2_eq_zero_iff)'),
        ('loss_linf_zero_iff', 'PG.Loss.linf_eq_zero_iff', 'Linf'),
        ('loss_sql2_zero_iff', 'PG.Loss.sqL2_eq_zero_iff', 'squared L2'),
        ('loss_poisson_min_at_truth', 'PG.Loss.poissonNLL_min_at_truth', 'the negative Poisson log-likelihood of positive counts is minimal exactly at modelled = observed'),
        ('loss_noise_free_recovered', 'PG.Loss.noise_free_recovered', 'noise-free data of an identifiable model: the generating parameter is the unique minimiser of the Poisson loss'),
        ('loss_best_run_truth_poisson', 'PG.Loss.best_run_is_truth_poisson', 'with the best-run theorem: if some run reaches the global minimum, params_inferred is the generating parameter (Poisson loss)'),
        ('loss_best_run_truth_norm', 'PG.Loss.best_run_is_truth_norm', 'the same for the norm losses; loss_inferred = 0'),
        ('loss_skip_zero_identity', 'PG.Loss.poissonNLLSkip_eq', 'skipping empty classes (a seeded change) drops exactly the modelled mass of those classes'),
        ('loss_skip_zero_wrong_parameter', 'PG.Loss.skip_variant_wrong_parameter', 'and then prefers a wrong parameter: minimiser 10 instead of the maximum-likelihood value 100/11 on a concrete scaling family'),
        ('best', 'PG.Inference.C19_best', 'after _run: first minimum, loss_inferred = min, params belong to it, loss_runs recorded'),
        ('first_minimum', 'PG.Inference.bestOf_spec', 'Python min(key=...) semantics: first minimal element'),
        ('merge', 'PG.Inference.C19_merge', 'merging runs in any order yields the global minimum and a permutation of the losses'),
        ('merge_spec', 'PG.Inference.addRuns_spec', 'add_runs: losses concatenated, best = global minimum'),
        ('merge_not_run', 'PG.Inference.addRun_not_run', 'adding a not-run object raises and changes nothing'),
        ('bootstrap_rows', 'PG.Inference.C19_bootstrap_rows', 'each add_bootstrap appends exactly one row'),
        ('create_run', 'PG.Inference.C19_create_run', 'explicit start values are used; out-of-bounds rejected'),
        ('create_run_pinned_defect', 'PG.Inference.create_run_pinned_defect', 'the pre-fix create_run kept the parent\'s start values'),
        ('labels_within_bounds', 'PG.Inference.C19_labels_within_bounds', 'dict level: for x0 listed in ANY key order, every start point and any box-respecting optimiser, params_inferred carries the keys of x0, each value lies in ITS OWN bounds, loss_inferred is the loss at params_inferred and the minimum of loss_runs'),
        ('labels_lookup', 'PG.Inference.C19_labels_lookup_within_bounds', 'every bounded parameter is reported, inside its own box'),
        ('labels_order_irrelevant', 'PG.Inference.C19_labels_order_irrelevant', 'the key order in which x0 is written does not change the result (label-equivariant optimiser, order-insensitive loss)'),
        ('labels_pinned_defect', 'PG.Inference.C19_labels_pinned_counterexample', 'kernel-checked: the pre-fix _run reports swapped names / values outside their bounds when a sampled start wins'),
        ('labels_pinned_loss', 'PG.Inference.C19_labels_pinned_loss_mismatch', 'kernel-checked: pre-fix loss_inferred is not the loss at params_inferred'),
        ('labels_bounds_values_defect', 'PG.Inference.C19_labels_boundsValues_counterexample', 'kernel-checked: _optimize with list(bounds.values()) optimises under another parameter\'s bounds'),
        ('labels_nonvacuous', 'PG.Inference.ex_theorem_applies', 'the hypotheses of labels_within_bounds are met by a concrete instance'),
        ('labels_driver', 'PG.InfLab.runLabelled_eq_labelResults', 'the driver command inferlab computes the labelling part of the proved function'),
        ('cache_transparent', 'PG.Cache.C17_refinement', 'shared state spaces do not change answers'),
        ('cache_flag_irrelevant', 'PG.Share.share_cache_flag_irrelevant', 'state-space caching on or off: same rate matrices for every parameter set'),
    ])

TABLE['C20'] = dict(
    imports=[A + 'ValidateThm', A + 'ApiThm'],
    summary='Proved on the model of the argument checks (order and boundary conditions mirrored): validate rejects exactly the invalid classes '
            '(complete and sound), boundary members decided, the pre-fix recombination-rate route refuted. Documented exceptions: order-0 '
            'accumulate returns ones before any check (not a listed class). Partial: the NaN clause is runtime exploration.',
    theorems=[
        ('complete', 'PG.Validate.C20_complete', 'every invalid request is rejected'),
        ('sound', 'PG.Validate.C20_sound', 'valid requests are not rejected'),
        ('exact', 'PG.Validate.validate_ok_iff', 'accepted iff not invalid'),
        ('pinned_defect', 'PG.Validate.pinned_defect', 'pre-fix: negative recombination rate next to a LocusConfig was accepted'),
        ('pinned_agrees_elsewhere', 'PG.Validate.pinned_agrees', 'the repair changes nothing else'),
        ('boundary_model', 'PG.Validate.boundary_model', 'alpha in {1,2} accepted, psi in {0,1} rejected'),
        ('boundary_times', 'PG.Validate.boundary_times', 'end = start accepted, end < start rejected'),
        ('boundary_query', 'PG.Validate.boundary_query', 'quantile 0 and 1 accepted'),
        ('order0_escapes', 'PG.Validate.order0_escapes', 'order-0 accumulation returns before any check (documented)'),
        ('call_length_mismatch', 'PG.Api.api_length_mismatch_rejected', 'CALL LAYER: a reward tuple whose length differs from the order is rejected by accumulate and moment for EVERY k (incl. 0 and negative), times, centring and permutation flag'),
        ('call_negative_order', 'PG.Api.api_negative_order_rejected', 'a negative order is rejected whatever the rewards'),
        ('call_order0', 'PG.Api.api_order0', 'documented exception: order 0 with no rewards returns ones before any time check'),
        ('call_no_length_check_defect', 'PG.Api.api_centred_reads_prefix_noLengthCheck_counterexample', 'kernel-checked: without the check in accumulate a longer tuple silently uses its prefix (the check in _accumulate is not equivalent)'),
    ])
