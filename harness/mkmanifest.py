#!/usr/bin/env python3
"""Regenerates /verif/MANIFEST.json from the table below (run after adding a check)."""
import json, os
V = os.path.dirname(os.path.dirname(os.path.abspath(__file__)))
sys_path = os.path.join(V, 'harness')
import sys; sys.path.insert(0, sys_path)
from manifest_table import CHECKS, NOT_APPLICABLE, HOOK_COMMITS

props = [json.loads(l) for l in open(os.path.join(V, 'properties.jsonl'))]
checks = []
for p in props:
    pid = p['id']
    if pid not in CHECKS:
        continue
    c = CHECKS[pid]
    checks.append(dict(
        property_id=pid,
        quick_cmd=f'/venv/bin/python harness/check.py --property {pid} --tier quick',
        thorough_cmd=f'/venv/bin/python harness/check.py --property {pid} --tier thorough',
        evidence_file=f'/verif/evidence/{pid}.json',
        replay_cmd_template=f'/venv/bin/python harness/check.py --property {pid} --replay {{path}}',
        engine='lean4+correspondence',
        level_claimed=dict(category=c.get('category', 'proof'), text=c['text'], design_ref=c.get('design_ref', f'DESIGN.md §6 {pid}')),
        level_note=c['note'],
        technique=c['technique'],
    ))
na = [dict(property_id=p['id'], reason=NOT_APPLICABLE.get(p['id'], 'check not built yet in this round (planned, see DESIGN.md §6)'))
      for p in props if p['id'] not in CHECKS]
m = dict(
    version=1,
    setup_cmd='cd lean && lake build',
    hooks=dict(guard='PHASEGEN_VERIF', enable='no hooks: checks import /repo\'s working tree in-process (PHASEGEN_VERIF=1 is set but unused)',
               baseline_off_cmd='cd /repo && /venv/bin/python -m pytest -ra -q -p no:cacheprovider --timeout=900 --continue-on-collection-errors',
               source_commits=HOOK_COMMITS, add_only=True),
    engines=[dict(name='lean4+correspondence', path='lean/ + harness/', serves_properties=sorted(CHECKS),
                  kind_free_text='hand-written Lean 4 model + theorems (lake project, Mathlib modules in proof files only), plus lean/Generated/Rates.lean regenerated from the Python AST of coalescent_models.py by harness/extract_rates.py on every C14 run (GenBridge proves generated = model); '
                                 'Python correspondence check driving the compiled model (pgdriver) and the real PhaseGen on the same inputs')],
    checks=checks,
    notes='See DESIGN.md. Exit codes: 0 held, 1 violation, 2 infrastructure/timeouts. VERIF_SEED seeds every random choice; '
          'VERIF_REPO selects another checkout of PhaseGen (default /repo).',
    not_applicable=na,
)
json.dump(m, open(os.path.join(V, 'MANIFEST.json'), 'w'), indent=1)
print('checks:', [c['property_id'] for c in checks], 'not claimed:', [x['property_id'] for x in na])
