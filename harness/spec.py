"""
Independent executable specifications (written from the mathematical definitions, not from the code):

* `lam(model, b, k)`: rate at which ONE given set of k out of b lineages merges in the model's Lambda-coalescent
  (integral of x^(k-2) (1-x)^(b-k) against the Lambda measure);
* `lumped_row(...)`: the labelled ancestral process (an exchangeable particle system: blocks of the sample
  partition typed by (deme, size), or two-locus lineages typed by (deme, linked / only locus 1 / only locus 2))
  projected onto counts, for one representative of a count state.
"""
import math, itertools
from fractions import Fraction
from collections import Counter


def lam(model, b, k):
    """Lambda-coalescent rate of one given k-merger among b lineages (float)."""
    kind = model[0]
    if kind == 'kingman':
        return 1.0 if k == 2 else 0.0
    if kind == 'dirac':
        psi, c = float(model[1]), float(model[2])
        return (1.0 if k == 2 else 0.0) + c * psi ** k * (1 - psi) ** (b - k)
    if kind == 'beta':
        a = float(model[1])
        # int x^(k-2) (1-x)^(b-k) Beta(2-a, a)(dx) = B(k-a, b-k+a) / B(2-a, a)
        lg = math.lgamma
        num = lg(k - a) + lg(b - k + a) - lg(b)
        den = lg(2 - a) + lg(a) - lg(2)
        return math.exp(num - den)
    raise ValueError(model)


def lam_exact(model, b, k):
    """same as `lam` but exact for rational parameters (Beta via the rising-factorial polynomial)."""
    kind = model[0]
    if kind == 'kingman':
        return Fraction(1 if k == 2 else 0)
    if kind == 'dirac':
        psi, c = Fraction(model[1]), Fraction(model[2])
        return Fraction(1 if k == 2 else 0) + c * psi ** k * (1 - psi) ** (b - k)
    if kind == 'beta':
        a = Fraction(model[1])
        num = Fraction(1)
        for j in range(2, k):
            num *= (j - a)
        for j in range(0, b - k):
            num *= (j + a)
        return num / math.factorial(b - 1)
    raise ValueError(model)


def lumped_row_one_locus(counts, model, ts, mig, lam_fn=lam):
    """
    counts: dict deme -> dict size -> multiplicity (block counting: sizes are block sizes; lineage counting: all
    blocks are recorded with size None). Returns dict target-histogram (frozenset of ((deme,size),mult)) -> rate.
    ts[deme]: time scale, mig[(d1,d2)]: migration rate.
    """
    parts = [(d, s) for d, m in counts.items() for s, c in m.items() for _ in range(c)]
    hist = Counter(parts)
    out = Counter()
    total = len(parts)
    demes = list(counts.keys())
    # moves: fully coalesced states still migrate
    for (d, s), c in hist.items():
        for d2 in demes:
            if d2 != d:
                h = hist.copy(); h[(d, s)] -= 1; h[(d2, s)] += 1
                out[frozenset((k, v) for k, v in h.items() if v)] += c * mig.get((d, d2), 0.0)
    if total == 1:
        return out
    # merges: any sub-collection K, |K| >= 2, of the particles in one deme
    for d in demes:
        idx = [i for i, p in enumerate(parts) if p[0] == d]
        b = len(idx)
        for k in range(2, b + 1):
            rate = lam_fn(model, b, k) / ts[d]
            if rate == 0:
                continue
            for K in itertools.combinations(idx, k):
                h = hist.copy()
                tot = 0
                for i in K:
                    h[parts[i]] -= 1
                    tot = None if parts[i][1] is None else tot + parts[i][1]
                h[(d, tot)] += 1
                out[frozenset((kk, v) for kk, v in h.items() if v)] += rate
    return out


def lumped_row_two_loci(parts, ts, mig, r):
    """
    parts: list of (deme, cls) with cls in 'L','U1','U2' (Kingman). Returns Counter histogram -> rate.
    Fully coalesced (one lineage per locus) states only migrate.
    """
    hist = Counter(parts)
    out = Counter()
    demes = sorted(ts.keys())
    fs = lambda h: frozenset((k, v) for k, v in h.items() if v)
    for (d, c), m in hist.items():
        for d2 in demes:
            if d2 != d:
                h = hist.copy(); h[(d, c)] -= 1; h[(d2, c)] += 1
                out[fs(h)] += m * mig.get((d, d2), 0.0)
    n1 = sum(v for (d, c), v in hist.items() if c in ('L', 'U1'))
    n2 = sum(v for (d, c), v in hist.items() if c in ('L', 'U2'))
    if n1 == 1 and n2 == 1:
        return out
    # recombination
    for (d, c), m in hist.items():
        if c == 'L':
            h = hist.copy(); h[(d, 'L')] -= 1; h[(d, 'U1')] += 1; h[(d, 'U2')] += 1
            out[fs(h)] += m * r
    # pair mergers within a deme
    res = {('L', 'L'): 'L', ('L', 'U1'): 'L', ('L', 'U2'): 'L', ('U1', 'U1'): 'U1', ('U2', 'U2'): 'U2', ('U1', 'U2'): 'L'}
    for i, j in itertools.combinations(range(len(parts)), 2):
        (d1, c1), (d2, c2) = parts[i], parts[j]
        if d1 != d2:
            continue
        key = tuple(sorted((c1, c2), key=lambda x: ['L', 'U1', 'U2'].index(x)))
        h = hist.copy(); h[parts[i]] -= 1; h[parts[j]] -= 1; h[(d1, res[key])] += 1
        out[fs(h)] += 1.0 / ts[d1]
    return out
