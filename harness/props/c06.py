"""
C06 — two-locus statistics under recombination match the ancestral recombination graph.

Correspondence (L-full): two-locus state space compared in C04; here the numbers: joint tree height, per-locus
marginals, covariance / correlation between loci against the Lean model (two-locus `transit`, locus rewards,
`CombinedReward` substitution, `accumulateModel`) evaluated with the fixed-point exponential.
Direct oracle: each locus' marginal equals the single-locus coalescent for every r; r = 0 gives correlation 1;
covariance decreases to 0 as r grows.
"""
import random, math
import numpy as np
import pgcommon as C
import conv, gen

META = dict(
    level='proof',
    rule='random two-locus Kingman configurations: n<=3 (4 thorough) in one deme and n<=2 (3) in two demes, 1-2 epochs, '
         'r in {0, 1/8, 1, 8, 64}, n_unlinked in {0, 1, n}; non-trivial = r > 0 and >= 5 states',
    trusted_base=['PT1/PT3 for the two-locus ARG (textbook, modelled)', 'fixExp ~ exp (driver selftest)', 'scipy expm / IEEE doubles'],
    assumptions=['1e-7 relative for means, 1e-6 of the raw scale for second moments; the limit r -> infinity is observed along '
                 'a sequence (cov at r = 1e4 below 1e-3 of the variance), not proved'],
)

TH, TBL = ('th',), ('tbl',)


def loc(r, l):
    return ('C', [r, ('locus', l)])


def via_inference(pg, cfg, r0):
    inf = pg.Inference(bounds={'r': (0.0, 1e9)}, x0={'r': r0}, coal=lambda r: conv.make_coalescent(pg, dict(cfg, r=r)),
                       loss=lambda c, o: 0.0, parallelize=False, pbar=False, seed=0, cache=True, n_runs=1)
    with C.LogCapture():
        inf.get_coal(r=r0).tree_height.loci.cov
    return inf.get_coal(r=cfg['r'])


def one(ctx, i):
    pg = C.import_phasegen()
    rng = random.Random(f'{ctx.seed}-c06-{i}')
    quick = ctx.quick
    D = 1 if rng.random() < 0.75 else 2
    nmax = {1: 3 if quick else 4, 2: 2 if quick else 3}[D]
    cfg = None
    for _ in range(40):
        c = gen.rand_cfg(rng, n_max=nmax, demes_max=D, epochs_max=2, loci=2)
        if len(c['n']) == D:
            cfg = c; break
    if cfg is None:
        cfg = gen.rand_cfg(rng, n_max=3, demes_max=1, epochs_max=2, loci=2)
    cfg['r'] = rng.choice([0.0, 0.125, 1.0, 8.0, 64.0])
    n = sum(cfg['n'].values())
    cfg['n_unl'] = rng.choice([0, 0, 1, n]) if D == 1 else 0
    coal = conv.make_coalescent(pg, cfg)
    if rng.random() < 0.3:
        # the same configuration handed out by Inference.get_coal (default state-space sharing) after the inference object was set
        # up, and used, at ANOTHER recombination rate: the statistics must be those of the rate asked for
        r0 = rng.choice([0.0, 0.5, 2 * cfg['r'] + 0.25])
        if r0 != cfg['r']:
            coal = via_inference(pg, cfg, r0)
            cfg['via_get_coal_r0'] = r0       # recorded for the replay; not read by make_coalescent or the model
            ctx.count('via-Inference.get_coal')
    with C.LogCapture() as lc:
        T = coal.tree_height.t_max
        th, tbl = coal.tree_height, coal.total_branch_length
        real = {
            'th.mean': float(th.mean), 'th.var': float(th.var),
            'th.loci0.mean': float(th.loci[0].mean), 'th.loci1.mean': float(th.loci[1].mean),
            'th.loci0.var': float(th.loci[0].var),
            'th.loci.cov01': float(th.loci.cov[0, 1]), 'th.loci.cov00': float(th.loci.cov[0, 0]),
            'tbl.mean': float(tbl.mean), 'tbl.loci0.mean': float(tbl.loci[0].mean), 'tbl.loci1.var': float(tbl.loci[1].var),
            'tbl.loci.cov01': float(tbl.loci.cov[0, 1]),
        }
    if lc.records:
        ctx.count('warned'); ctx.skipped += 1
        return
    drv = C.driver()
    k_states = conv.setup_model(drv, cfg, 'lc')
    ctx.count(f'demes{D}'); ctx.count(f'r={cfg["r"]}'); ctx.count(f'n_unl={cfg["n_unl"]}'); ctx.count(f'n{n}')
    ctx.case(dict(cfg=cfg, states=k_states, real=real), gen.cfg_key(cfg) if cfg['r'] > 0 and k_states >= 5 else None)
    ctx.count(f'states={k_states}')
    if 3 * k_states > (70 if quick else 120):
        ctx.skipped += 1; ctx.count('too-large-for-model')
    else:
        Tq = C.frac(T)
        specs = {
            'th.mean': ([TH], False), 'th.var': ([TH, TH], True),
            'th.loci0.mean': ([loc(TH, 0)], False), 'th.loci1.mean': ([loc(TH, 1)], False),
            'th.loci0.var': ([loc(TH, 0)] * 2, True),
            'th.loci.cov01': ([loc(TH, 0), loc(TH, 1)], True), 'th.loci.cov00': ([loc(TH, 0), loc(TH, 0)], True),
            'tbl.mean': ([TBL], False), 'tbl.loci0.mean': ([loc(TBL, 0)], False), 'tbl.loci1.var': ([loc(TBL, 1)] * 2, True),
            'tbl.loci.cov01': ([loc(TBL, 0), loc(TBL, 1)], True),
        }
        names_ = list(specs)
        if (quick and k_states >= 20) or k_states >= 30:
            # the fixed-point exponential of the model costs ~10 s per second-order statistic at Van Loan dimension 69: the quick
            # tier compares all first-order statistics and two of the six second-order ones (chosen at random) for such cases
            second = [x for x in names_ if len(specs[x][0]) == 2]
            keep = set(rng.sample(second, 2 if quick else 3))
            names_ = [x for x in names_ if len(specs[x][0]) == 1 or x in keep]
            ctx.count('second-order-subsampled')
        for name in names_:
            rewards, center = specs[name]
            exp = float(conv.model_moment(drv, cfg, center, True, rewards, [Tq])[0])
            k = len(rewards)
            if k == 1:
                tol = 1e-7 * abs(exp)
            else:
                raw = float(conv.model_moment(drv, cfg, False, True, rewards, [Tq])[0])
                tol = 1e-6 * abs(raw)
            if not abs(real[name] - exp) <= tol + 1e-300:
                ctx.violation(f'two-locus:{name}', cfg=cfg, stat=name, expected=exp, observed=real[name], tolerance=tol, end_time=float(T))
    # ---- the correlation routes are the covariance over the marginal standard deviations, for every r and every n_unlinked
    # (at r = 0 with unlinked lineages the trees differ: the correlation is NOT 1)
    with C.LogCapture() as lcc:
        for nm, d in (('th', th), ('tbl', tbl)):
            cv = np.array(d.loci.cov, dtype=float)
            cr = np.array(d.loci.corr, dtype=float)
            gc = float(d.loci.get_corr(0, 1))
            if cv[0, 0] > 1e-12 and cv[1, 1] > 1e-12:
                want = cv[0, 1] / math.sqrt(cv[0, 0] * cv[1, 1])
                for route, got in (('corr[0,1]', cr[0, 1]), ('corr[1,0]', cr[1, 0]), ('get_corr(0,1)', gc)):
                    if not abs(got - want) <= 1e-9:
                        ctx.violation(f'corr-route:{nm}', cfg=cfg, route=route, expected=float(want), observed=float(got),
                                      cov=cv.tolist())
                        break
                ctx.count('corr-routes')
    # ---- direct oracle: marginals are the single-locus coalescent, for every r
    cfg1 = dict(cfg); cfg1['loci'] = 1; cfg1.pop('r'); cfg1.pop('n_unl')
    c1 = conv.make_coalescent(pg, cfg1)
    with C.LogCapture() as lc1:
        m1, v1, b1 = float(c1.tree_height.mean), float(c1.tree_height.var), float(c1.total_branch_length.mean)
    if not lc1.records:
        for l in (0, 1):
            if not C.close(real[f'th.loci{l}.mean'], m1, 1e-7):
                ctx.violation('marginal-mean', cfg=cfg, locus=l, single_locus=m1, marginal=real[f'th.loci{l}.mean'])
        if not C.close(real['th.loci0.var'], v1, 1e-6, 1e-6 * (v1 + m1 * m1)):
            ctx.violation('marginal-var', cfg=cfg, single_locus=v1, marginal=real['th.loci0.var'])
        if not C.close(real['tbl.loci0.mean'], b1, 1e-7):
            ctx.violation('marginal-tbl', cfg=cfg, single_locus=b1, marginal=real['tbl.loci0.mean'])
        if not C.close(real['tbl.mean'], 2 * b1, 1e-7):
            ctx.violation('tbl-sum-of-loci', cfg=cfg, total=real['tbl.mean'], single_locus=b1)
    # ---- r = 0 and complete linkage: the trees coincide
    if cfg['r'] == 0 and cfg['n_unl'] == 0:
        corr = float(coal.tree_height.loci.corr[0, 1])
        if not abs(corr - 1) <= 1e-7:
            ctx.violation('r0-corr', cfg=cfg, corr=corr)
        if not C.close(real['th.mean'], m1, 1e-7):
            ctx.violation('r0-joint-height', cfg=cfg, joint=real['th.mean'], single=m1)
        ctx.count('r0-linked')
    # ---- covariance decreases towards 0 as r grows
    if rng.random() < (0.25 if quick else 0.5) and D == 1:
        covs = []
        for r in (0.0, 1.0, 100.0, 10000.0):
            c2 = dict(cfg); c2['r'] = r; c2['n_unl'] = 0
            cc = conv.make_coalescent(pg, c2)
            with C.LogCapture() as l2:
                covs.append(float(cc.tree_height.loci.cov[0, 1]))
            if l2.records:
                covs = None; break
        if covs is not None:
            if any(b > a + 1e-9 * abs(a) for a, b in zip(covs[:-1], covs[1:])) or abs(covs[-1]) > 1e-3 * abs(covs[0]):
                ctx.violation('r-to-infinity', cfg=cfg, r=[0, 1, 100, 10000], cov=covs)
            ctx.count('r-sequence')


def run(ctx):
    import check
    check.pmap(ctx, 'props.c06', 'one', list(range(64 if ctx.quick else 160)), case_timeout=240 if ctx.quick else 1500)


def replay(ctx, payload):
    one(ctx, 0) if 'cfg' not in payload else _replay_cfg(ctx, payload)


def _replay_cfg(ctx, payload):
    pg = C.import_phasegen()
    cfg = conv.cfg_from_json(payload['cfg'])
    coal = conv.make_coalescent(pg, cfg)
    if cfg.get('via_get_coal_r0') is not None:
        coal = via_inference(pg, cfg, cfg['via_get_coal_r0'])
    cfg1 = dict(cfg); cfg1['loci'] = 1; cfg1.pop('r', None); cfg1.pop('n_unl', None)
    c1 = conv.make_coalescent(pg, cfg1)
    ctx.case(dict(cfg=cfg), 'replay')
    for l in (0, 1):
        a, b = float(coal.tree_height.loci[l].mean), float(c1.tree_height.mean)
        if not C.close(a, b, 1e-7):
            ctx.violation('marginal-mean', cfg=cfg, locus=l, single_locus=b, marginal=a)
    drv = C.driver()
    conv.setup_model(drv, cfg, 'lc')
    T = C.frac(coal.tree_height.t_max)
    for name, rewards, center, obs in [('th.mean', [TH], False, float(coal.tree_height.mean)),
                                       ('th.loci.cov01', [loc(TH, 0), loc(TH, 1)], True, float(coal.tree_height.loci.cov[0, 1]))]:
        exp = float(conv.model_moment(drv, cfg, center, True, rewards, [T])[0])
        if not C.close(obs, exp, 1e-6, 1e-9):
            ctx.violation(f'two-locus:{name}', cfg=cfg, stat=name, expected=exp, observed=obs)
