"""
C10 — accumulation over time is consistent: refinement, truncation, additivity.

Direct oracle: the relations of the statement evaluated on the real code for random configurations.
  redundant   a change event that sets a size / rate to the value already in force changes no moment / cdf
  refine      accumulate(k, coarse grid) equals the corresponding entries of accumulate(k, fine grid)
  route       Coalescent(end_time=T).X  ==  X.moment(k, end_time=T)  ==  X.accumulate(k, [T])[0]
  additive    moment(1, 0, b) == moment(1, 0, a) + moment(1, a, b)
  monotone    raw (center=False) accumulation curves of non-negative rewards are non-decreasing
  horizon     default end time: mean == infinite-horizon mean, or the "could not reliably find time of almost sure
              absorption" warning was logged; nearly disconnected demes must produce the warning
  used        the default-horizon statistics of an object that FIRST evaluated a grid reaching past the change points
              (state space left in a later epoch) equal those of a fresh object and the explicit far-horizon value
  restart     Markov property at a change point where the state is known from the cdf (n = 2, one deme):
              1-cdf(tb+s) = (1-cdf(tb)) * (1-cdf_shifted(s)), mean(0,T) = mean(0,tb) + (1-cdf(tb)) * mean_shifted(0,T-tb)
              (the generator used after an epoch switch is the new epoch's)
Correspondence: for the horizon clause the infinite-horizon mean is also taken from the Lean model (<= 20 states).
"""
import hashlib, itertools, json, math, random
import numpy as np
import pgcommon as C
import conv, gen

META = dict(
    level='proof',
    rule='one case = (configuration, clause, parameters); configurations: 1-3 demes, n <= 4 (thorough 5), Kingman/Beta/'
         'Dirac, 1-3 epochs with dyadic change times, sizes 2^[-3..3]; parameters: redundant entries at random times '
         '(inside epochs, on boundaries of other keys, beyond the last change), grids / end times / windows drawn from a '
         'pool holding 0, every epoch boundary, points next to and between boundaries and beyond the last one; horizon '
         'clause additionally on 2-3 demes connected only by migration rates 1e-8..1e-6; used-object clause on every '
         'multi-epoch configuration and on dedicated ones whose later epochs coalesce 2^5..2^13 times faster; restart clause on dedicated '
         'n = 2 one-deme configurations with 2-3 epochs; non-trivial = at least 2 epochs (for restart / redundant: always) '
         'and at least 3 states, or a horizon case in which the search gave up',
    trusted_base=['IEEE doubles / scipy.linalg.expm', 'fixExp ~ exp (driver) for the infinite-horizon reference of the '
                  'horizon clause', 'PT1: Markov property of the piecewise time-homogeneous chain (restart clause)'],
    assumptions=['relations are compared at 1e-9 relative (statement) plus an absolute floor of 1e-12 x scale^k (scale = n x '
                 'the largest time involved or the mean tree height, i.e. the size of the raw k-th moments the code works '
                 'with; centred moments are differences of those), needed only where both sides are ~0; monotonicity with '
                 '1e-12 relative slack plus a rounding floor of 1e-15 x (n x last grid time)^k (a few ulp of the numbers '
                 'held in the Van Loan block: cross moments of SFS bins are ~1e-5 of that scale and flat after absorption, '
                 'where they wobble by ~5e-16 absolute); default horizon at 1e-7 relative',
                 'redundant clause: second moments at the DEFAULT horizon are compared at 1e-6 of the raw second moment '
                 '(accuracy of the code over t_max ~ 1e3..1e4 when the regularisation factor of epoch 0 does not fit a later '
                 'epoch: measured 3e-8 against the exact model value); explicit end times and first moments at 1e-9',
                 'only the non-stiff regime is compared: a clause evaluation during which PhaseGen logs a warning is '
                 'skipped (except in the horizon clause, where the warning is the observable)',
                 'the threshold 1-1e-15 of the horizon search is numeric: "not reached" is only asserted when '
                 'cdf(t_max) < 1 - 1e-9'],
)

REL = 1e-9
HORIZON_MSG = r'^Could not reliably find time of almost sure absorption'
TH, TBL = ('th',), ('tbl',)


# ----------------------------------------------------------------------------------------- building blocks
def in_force(cfg, t):
    e = 0
    for i, ep in enumerate(cfg['epochs']):
        if ep['start'] <= t:
            e = i
    return cfg['epochs'][e]


def sparse_demography(pg, cfg, extra=()):
    """nested dicts that list a key only when its value changes, plus `extra` entries [kind, key..., time, value]"""
    names = conv.cfg_names(cfg)
    sizes = {p: {} for p in names}
    mig = {(a, b): {} for a in names for b in names if a != b}
    prev = None
    for ep in cfg['epochs']:
        for p in names:
            if prev is None or prev['sizes'][p] != ep['sizes'][p]:
                sizes[p][ep['start']] = ep['sizes'][p]
        for k in mig:
            v = ep['mig'].get(k, 0)
            if prev is None or prev['mig'].get(k, 0) != v:
                mig[k][ep['start']] = v
        prev = ep
    for x in extra:
        if x[0] == 'size':
            _, p, t, v = x
            sizes[p][float(t)] = v
        else:
            _, a, b, t, v = x
            mig[(a, b)][float(t)] = v
    return pg.Demography(pop_sizes=sizes, migration_rates=mig if len(names) > 1 else None)


def make(pg, cfg, extra=None, **over):
    if extra is None:
        return conv.make_coalescent(pg, cfg, **over)
    return conv.make_coalescent(pg, cfg, demography=sparse_demography(pg, cfg, extra), **over)


def arr(x):
    if hasattr(x, 'data'):
        x = x.data
    return np.asarray(x, dtype=float)


def differs(a, b, floor, rel=REL):
    a = np.atleast_1d(arr(a)); b = np.atleast_1d(arr(b))
    if a.shape != b.shape or np.isnan(a).any() or np.isnan(b).any():
        return True
    return bool((np.abs(a - b) > rel * np.maximum(np.abs(a), np.abs(b)) + floor).any())


def time_pool(cfg, rng):
    b = [e['start'] for e in cfg['epochs'][1:]]
    pool = {0.0}
    pool.update(b)
    prev = 0.0
    for x in b:
        pool.add((prev + x) / 2)
        pool.add(x + 2.0 ** -16); pool.add(x - 2.0 ** -16)
        prev = x
    last = b[-1] if b else 0.0
    pool.update([last + 0.25, last + 1.0, last * 2 + 3.0])
    for _ in range(4):
        pool.add(rng.randint(1, 80) / 8.0)
    return sorted(pool), b


def n_states(cfg):
    n, D = sum(cfg['n'].values()), len(conv.cfg_names(cfg))
    return sum(math.comb(j + D - 1, D - 1) for j in range(1, n + 1))


def n_tot(cfg):
    return sum(cfg['n'].values())


def nontrivial(cfg, always=False):
    return n_states(cfg) >= 3 and (always or len(cfg['epochs']) >= 2)


def small_sfs(cfg):
    n, D = sum(cfg['n'].values()), len(conv.cfg_names(cfg))
    return n <= (5 if D == 1 else 4 if D == 2 else 3)


def digest(*key):
    """short stable identifier of a distinct non-trivial case"""
    return hashlib.sha1(repr(key).encode()).hexdigest()[:20]


class Skip(Exception):
    pass


def guarded(ctx, clause, f):
    """run a clause; a warning logged by PhaseGen means the regime is stiff: discard what the clause reported"""
    n0 = len(ctx.violations)
    with C.LogCapture() as lc:
        try:
            f()
        except Skip:
            ctx.skipped += 1
            return
    if lc.records:
        ctx.count(f'warned:{clause}')
        if len(ctx.violations) > n0:
            ctx.skipped += len(ctx.violations) - n0
            del ctx.violations[n0:]


def report(ctx, sig, cfg, clause, params, **kw):
    ctx.violation(sig, cfg=cfg, clause=clause, params=params, **kw)


# ----------------------------------------------------------------------------------------- (1) redundant change points
def gen_redundant(cfg, rng):
    names = conv.cfg_names(cfg)
    pool, b = time_pool(cfg, rng)
    keys = [('size', p) for p in names] + [('mig', a, c) for a in names for c in names if a != c]
    extra = []
    for _ in range(rng.randint(1, 4)):
        key = rng.choice(keys)
        t = rng.choice([x for x in pool if x > 0])
        ep = in_force(cfg, t)
        v = ep['sizes'][key[1]] if key[0] == 'size' else ep['mig'].get((key[1], key[2]), 0)
        extra.append(list(key) + [t, v])
    times = sorted(set(rng.sample(pool, min(5, len(pool))) + [x[-2] for x in extra]))
    return dict(extra=extra, times=times, Te=rng.choice([x for x in pool if x > 0]))


# second moments at the default horizon (t_max ~ 1e3..1e4 time units): the code takes its regularisation factor from the
# first epoch only, so a later epoch with much slower rates leaves the Van Loan matrix badly scaled and expm loses digits
# over the long horizon (measured 2e-8..5e-8 against the exact model value, different for different splittings of the
# same time axis).  These are compared at the accuracy the code delivers there (1e-6 of the raw second moment, as in
# C01); every statistic with an explicit end time and every first moment stays at 1e-9.
DEFAULT_HORIZON_K2 = {'th.var': 'th.m2', 'th.m2': 'th.m2', 'tbl.var': 'tbl.m2', 'tbl.m2': 'tbl.m2'}


def snapshot(pg, coal, cfg, times, Te):
    names = conv.cfg_names(cfg)
    th, tbl = coal.tree_height, coal.total_branch_length
    out = {
        'th.mean': (th.mean, 1), 'th.var': (th.var, 2), 'th.m2': (th.m2, 2), 'tbl.mean': (tbl.mean, 1),
        'tbl.var': (tbl.var, 2), 'tbl.m2': (tbl.m2, 2), 'th.cdf(times)': (th.cdf(np.array(times)), 0),
        'th.accumulate(1,times)': (th.accumulate(1, times), 1),
        'tbl.accumulate(2,times,center=False)': (tbl.accumulate(2, times, center=False), 2),
        'th.moment(1,end_time=Te)': (th.moment(1, end_time=Te), 1),
        'tbl.moment(2,end_time=Te)': (tbl.moment(2, end_time=Te), 2),
        'coal.moment(2,(th,tbl),end_time=Te)': (coal.moment(2, (conv.make_reward(pg, TH), conv.make_reward(pg, TBL)),
                                                            end_time=Te), 2),
    }
    if len(names) > 1:
        for p in names:
            out[f'th.demes[{p}].mean'] = (th.demes[p].mean, 1)
    if small_sfs(cfg):
        out['sfs.mean'] = (coal.sfs.mean, 1)
        out['sfs.moment(2,end_time=Te)'] = (coal.sfs.moment(2, end_time=Te), 2)
    return out


def clause_redundant(ctx, pg, cfg, params):
    extra, times, Te = params['extra'], params['times'], params['Te']
    ref = snapshot(pg, make(pg, cfg, extra=[]), cfg, times, Te)             # sparse rendering, no redundant entry
    variants = [('redundant-entries', make(pg, cfg, extra=extra)), ('dense-rendering', make(pg, cfg))]
    scale = n_tot(cfg) * max(float(ref['th.mean'][0]), max(times + [Te]), 1e-300)
    for label, coal in variants:
        res = snapshot(pg, coal, cfg, times, Te)
        ctx.case(dict(cfg=cfg, clause='redundant', params=params, variant=label),
                 digest(gen.cfg_key(cfg), 'redundant', label, json.dumps(params)) if nontrivial(cfg, True) else None)
        ctx.count('clause:redundant')
        for key, (a, k) in ref.items():
            b = res[key][0]
            floor = 1e-12 * scale ** k
            if key in DEFAULT_HORIZON_K2:
                floor += 1e-6 * abs(float(ref[DEFAULT_HORIZON_K2[key]][0]))
            if differs(a, b, floor):
                report(ctx, f'redundant:{key.split("(")[0].split("[")[0]}', cfg, 'redundant', params, variant=label,
                       statistic=key, expected=arr(a), observed=arr(b), tolerance=dict(rel=REL, abs=floor),
                       oracle='same configuration without the redundant change entries (sparse nested dicts)')
                break


# ----------------------------------------------------------------------------------------- (2) grid refinement
CURVES = ['cdf', 'th.1', 'th.2c', 'th.2r', 'tbl.1', 'tbl.2c', 'coal.th,tbl', 'coal.tbl,tbl,th', 'sfs.1', 'sfs.2r']


def curve(pg, coal, name, grid):
    g = list(grid)
    if name == 'cdf':
        return arr(coal.tree_height.cdf(np.array(g))), 0
    head, _, spec = name.partition('.')
    if head == 'coal':
        rw = tuple(conv.make_reward(pg, (s,)) for s in spec.split(','))
        return arr(coal.accumulate(len(rw), g, rewards=rw, center=False)), len(rw)
    k = int(spec[0]); center = not spec.endswith('r')
    dist = dict(th=coal.tree_height, tbl=coal.total_branch_length)[head] if head != 'sfs' else coal.sfs
    return arr(dist.accumulate(k, g, center=center)), k


def gen_refine(cfg, rng):
    pool, b = time_pool(cfg, rng)
    fine = sorted(set(rng.sample(pool, min(len(pool), rng.randint(4, 9))) + (b if rng.random() < 0.7 else [])))
    m = rng.randint(1, max(1, len(fine) - 1))
    idx = sorted(rng.sample(range(len(fine)), m))
    if rng.random() < 0.5 and (len(fine) - 1) not in idx:
        idx.append(len(fine) - 1)            # the last point is preceded by every other point of the fine grid
    curves = [c for c in CURVES if small_sfs(cfg) or not c.startswith('sfs')]
    return dict(fine=fine, idx=idx, curves=curves, same_object=rng.random() < 0.3)


def clause_refine(ctx, pg, cfg, params):
    fine, idx = params['fine'], params['idx']
    coarse = [fine[i] for i in idx]
    scale = n_tot(cfg) * max(fine + [1e-300])
    shared = make(pg, cfg) if params.get('same_object') else None
    for name in params['curves']:
        a, k = curve(pg, shared or make(pg, cfg), name, coarse)
        b, _ = curve(pg, shared or make(pg, cfg), name, fine)
        ctx.case(dict(cfg=cfg, clause='refine', curve=name, params=params),
                 digest(gen.cfg_key(cfg), 'refine', name, json.dumps(params)) if nontrivial(cfg) and len(coarse) < len(fine) else None)
        ctx.count('clause:refine')
        if differs(a, b[..., idx], 1e-12 * scale ** k):
            report(ctx, f'refine:{name}', cfg, 'refine', dict(params, curves=[name]), coarse=coarse, expected=b[..., idx],
                   observed=a, tolerance=dict(rel=REL, abs=1e-12 * scale ** k),
                   oracle='entries of the same curve evaluated on the fine grid')


# ----------------------------------------------------------------------------------------- (3) end-time routes
def routes(pg, cfg, T, stat):
    """the three routes to the same number; fresh objects"""
    th_r, tbl_r = conv.make_reward(pg, TH), conv.make_reward(pg, TBL)
    dist = lambda c: dict(th=c.tree_height, tbl=c.total_branch_length, sfs=c.sfs, fsfs=c.fsfs)[stat.split('.')[0]]
    kind = stat.split('.')[1]
    if stat.startswith('coal.'):
        rw = (th_r, tbl_r) if kind == 'th,tbl' else (tbl_r,)
        k = len(rw)
        return k, [('Coalescent(end_time=T).moment(k, rewards)', lambda: make(pg, cfg, end_time=T).moment(k, rw, center=False)),
                   ('Coalescent().moment(k, rewards, end_time=T)', lambda: make(pg, cfg).moment(k, rw, end_time=T, center=False)),
                   ('Coalescent().accumulate(k, [T], rewards)[0]', lambda: make(pg, cfg).accumulate(k, [T], rw, center=False)[0])]
    k, center, attr = dict(mean=(1, True, 'mean'), m2raw=(2, False, 'm2'), var=(2, True, 'var'))[kind]
    last = (lambda v: arr(v)[..., 0])
    return k, [(f'Coalescent(end_time=T).X.{attr}', lambda: getattr(dist(make(pg, cfg, end_time=T)), attr)),
               ('Coalescent().X.moment(k, end_time=T, center=c)', lambda: dist(make(pg, cfg)).moment(k, end_time=T, center=center)),
               ('Coalescent().X.accumulate(k, [T], center=c)[..., 0]', lambda: last(dist(make(pg, cfg)).accumulate(k, [T], center=center)))]


def gen_route(cfg, rng):
    pool, b = time_pool(cfg, rng)
    Ts = [rng.choice([x for x in pool if x > 0])]
    if b:
        Ts.append(rng.choice(b))
    stats = ['th.mean', 'th.m2raw', 'th.var', 'tbl.mean', 'tbl.m2raw', 'tbl.var', 'coal.th,tbl', 'coal.tbl']
    if small_sfs(cfg):
        stats += ['sfs.mean', 'sfs.m2raw', 'sfs.var', 'fsfs.mean']
    return dict(Ts=Ts, stats=stats)


def clause_route(ctx, pg, cfg, params):
    for T in params['Ts']:
        for stat in params['stats']:
            k, rts = routes(pg, cfg, T, stat)
            vals = [(label, arr(f())) for label, f in rts]
            ctx.case(dict(cfg=cfg, clause='route', T=T, stat=stat),
                     digest(gen.cfg_key(cfg), 'route', T, stat) if nontrivial(cfg) else None)
            ctx.count('clause:route')
            for (la, a), (lb, b) in itertools.combinations(vals, 2):
                if differs(a, b, 1e-12 * (n_tot(cfg) * max(T, 1e-300)) ** k):
                    report(ctx, f'route:{stat}', cfg, 'route', dict(Ts=[T], stats=[stat]), end_time=T,
                           route_a=la, value_a=a, route_b=lb, value_b=b, tolerance=dict(rel=REL, abs=1e-12 * (n_tot(cfg) * T) ** k))
                    break


# ----------------------------------------------------------------------------------------- (4) additivity
def gen_additive(cfg, rng):
    pool, b = time_pool(cfg, rng)
    wins = []
    for _ in range(3):
        a, c = sorted(rng.sample(pool, 2)) if rng.random() < 0.85 else [rng.choice(pool)] * 2
        wins.append([a, c])
    if b:
        x = rng.choice(b)
        wins.append(sorted([x, rng.choice(pool)]))
    stats = ['th', 'tbl'] + (['sfs'] if small_sfs(cfg) else []) + \
            ([f'th.demes:{rng.choice(conv.cfg_names(cfg))}'] if len(conv.cfg_names(cfg)) > 1 else [])
    return dict(windows=wins, stats=stats)


def clause_additive(ctx, pg, cfg, params):
    for a, b in params['windows']:
        for stat in params['stats']:
            def dist(c):
                if stat.startswith('th.demes:'):
                    return c.tree_height.demes[stat.split(':')[1]]
                return dict(th=c.tree_height, tbl=c.total_branch_length, sfs=c.sfs)[stat]
            whole = arr(dist(make(pg, cfg)).moment(1, start_time=0, end_time=b))
            first = arr(dist(make(pg, cfg)).moment(1, start_time=0, end_time=a))
            second = arr(dist(make(pg, cfg)).moment(1, start_time=a, end_time=b))
            ctx.case(dict(cfg=cfg, clause='additive', window=[a, b], stat=stat),
                     digest(gen.cfg_key(cfg), 'additive', a, b, stat) if nontrivial(cfg) and 0 < a < b else None)
            ctx.count('clause:additive')
            floor = 1e-12 * n_tot(cfg) * max(b, 1e-300)
            if differs(whole, first + second, floor):
                report(ctx, f'additive:{stat.split(":")[0]}', cfg, 'additive', dict(windows=[[a, b]], stats=[stat]),
                       a=a, b=b, moment_0_b=whole, moment_0_a=first, moment_a_b=second, tolerance=dict(rel=REL, abs=floor))
                continue
            if stat in ('th', 'tbl') and a <= b:
                # the window given to the Coalescent instead of the call
                c = make(pg, cfg, start_time=a, end_time=b)
                obj = arr(dist(c).mean)
                if differs(obj, second, floor):
                    report(ctx, f'additive:object-window:{stat}', cfg, 'additive', dict(windows=[[a, b]], stats=[stat]),
                           a=a, b=b, coalescent_start_end=obj, moment_a_b=second, tolerance=dict(rel=REL, abs=floor))
                    continue
                # ... also for the second-order properties of that object: the centred second moment of the window is the
                # difference of the centred accumulation curve at its two ends, and does not depend on what was asked before
                cur = arr(dist(make(pg, cfg)).accumulate(2, [a, b], center=True))
                want = cur[..., 1] - cur[..., 0]
                call2 = arr(dist(make(pg, cfg)).moment(2, start_time=a, end_time=b, center=True))
                v_first = arr(dist(c).var)
                c2 = make(pg, cfg, start_time=a, end_time=b)
                d2 = dist(c2)
                _ = (d2.mean, d2.m2)
                v_later = arr(d2.var)
                floor2 = 1e-10 * (n_tot(cfg) * max(b, 1e-300)) ** 2
                ctx.count('clause:additive:object-window-var')
                for name, got in (('moment(2, start, end)', call2), ('.var of Coalescent(start_time, end_time)', v_first),
                                  ('.var after .mean and .m2 on the same object', v_later)):
                    if differs(got, want, floor2):
                        report(ctx, f'additive:object-window-var:{stat}', cfg, 'additive', dict(windows=[[a, b]], stats=[stat]),
                               a=a, b=b, route=name, observed=got, centred_curve_difference=want, tolerance=dict(rel=REL, abs=floor2))
                        break


# ----------------------------------------------------------------------------------------- (5) monotone raw curves
def gen_monotone(cfg, rng, quick=True):
    pool, b = time_pool(cfg, rng)
    grid = sorted(rng.sample(pool, min(len(pool), rng.randint(5, 10))) + (b if rng.random() < 0.6 else []) +
                  [rng.choice(pool)])
    names = conv.cfg_names(cfg)
    n = sum(cfg['n'].values())
    rws = [[TH], [TBL], [TH, TH], [TBL, TBL], [TH, TBL], [('tth',)], [TH, TH, TH]]
    if len(names) > 1:
        d = rng.choice(names)
        rws += [[('P', [TH, ('deme', d)])], [('P', [TBL, ('deme', d)]), TH]]
    if small_sfs(cfg):
        i = rng.randint(1, n - 1)
        rws += [[('sfs', i)], [('sfs', i), ('sfs', rng.randint(1, n - 1))], [('fsfs', 1), TBL]]
    return dict(grid=grid, rewards=rws, sfs=small_sfs(cfg))


def _reward_from_json(r):
    r = list(r)
    if r[0] in ('P', 'S', 'C'):
        return (r[0], [_reward_from_json(x) for x in r[1]])
    return tuple(r)


def clause_monotone(ctx, pg, cfg, params):
    grid = params['grid']
    coal = make(pg, cfg)
    ntot = n_tot(cfg)
    curves = []
    for rw in params['rewards']:
        rw = [_reward_from_json(r) for r in rw]
        rs = tuple(conv.make_reward(pg, r) for r in rw)
        curves.append((C.jsonable(rw), lambda rs=rs: arr(coal.accumulate(len(rs), grid, rewards=rs, center=False))))
    if params.get('sfs'):
        for k in (1, 2):
            curves.append((f'sfs.accumulate({k}, grid, center=False)', lambda k=k: arr(coal.sfs.accumulate(k, grid, center=False))))
    for label, f in curves:
        v = f()
        ctx.case(dict(cfg=cfg, clause='monotone', curve=label, grid=grid),
                 digest(gen.cfg_key(cfg), 'monotone', json.dumps(label), tuple(grid)) if nontrivial(cfg) else None)
        ctx.count('clause:monotone')
        k = len(label) if isinstance(label, list) else int(label.split('(')[1][0])
        # rounding floor: the Van Loan block holds numbers of the size of the k-th raw moment of the largest reward
        # (<= n lineages) over the grid, (n * t_last)^k; a few ulp of that is invisible to the code
        floor = 1e-15 * (ntot * max(grid + [1e-300])) ** k
        d = v[..., 1:] - v[..., :-1]
        slack = 1e-12 * np.maximum(np.abs(v[..., 1:]), np.abs(v[..., :-1])) + floor
        bad = np.argwhere((d < -slack) | np.isnan(d))
        if len(bad) or (v < -floor).any():
            pos = [int(x) for x in bad[0]] if len(bad) else None
            p = dict(params, rewards=[label] if isinstance(label, list) else [], sfs=not isinstance(label, list))
            report(ctx, 'monotone:' + ('sfs' if not isinstance(label, list) else 'k%d' % len(label)), cfg, 'monotone', p,
                   curve=label, values=v, first_decrease_at=pos, tolerance=f'v[i+1] >= v[i] - 1e-12*max(|v[i]|,|v[i+1]|) - {floor:.3g}, v >= -{floor:.3g}')


# ----------------------------------------------------------------------------------------- (6) default horizon
def disconnected_cfg(rng):
    D = rng.choice([2, 2, 3])
    names = list(rng.choice(gen.NAME_SETS)[:D]); rng.shuffle(names)
    vec = [1] * D if rng.random() < 0.7 else [2] + [1] * (D - 1)
    if D == 3 and rng.random() < 0.5:
        vec = [1, 1, 0]
    sizes = {p: gen.dyadic(rng, -2, 2) for p in names}
    mig = {(a, b): 10.0 ** rng.uniform(-8, -6) for a in names for b in names if a != b}
    return dict(n=dict(zip(names, vec)), model=rng.choice([('kingman',), ('kingman',), ('beta', 1.5, False)]),
                epochs=[dict(start=0.0, sizes=sizes, mig=mig)], loci=1)


def clause_horizon(ctx, pg, cfg, params):
    """not wrapped by `guarded`: the warning is the observable"""
    expect_unreached = params.get('expect_unreached', False)
    with C.LogCapture() as lc:
        coal = make(pg, cfg)
        default = float(coal.tree_height.mean)
        t_max = float(coal.tree_height.t_max)
    warned = lc.any(HORIZON_MSG)
    other = [m for _, m in lc.records if not m.startswith('Could not reliably')]
    # reference 1: a much later explicit end time on the real code (usable only if that run is not stiff)
    T_big = t_max * 64.0
    with C.LogCapture() as lc2:
        ref_real = float(make(pg, cfg, end_time=T_big).tree_height.mean)
        p_reached = float(make(pg, cfg).tree_height.cdf(t_max))
    ref, oracle = (ref_real, f'Coalescent(end_time=64*t_max={T_big})') if not lc2.records else (None, None)
    # reference 2: the Lean model's infinite-horizon mean
    ks = n_states(cfg)
    ref_model = None
    if params.get('use_model') and ks <= 20:
        drv = C.driver()
        conv.setup_model(drv, cfg, 'lc')
        Tm = max(T_big, 2.0 ** 44) if expect_unreached else T_big
        ref_model = float(conv.model_moment(drv, cfg, False, True, [TH], [Tm])[0])
        ctx.count('horizon:model-reference')
        if ref is not None and p_reached >= 1 - 1e-12 and not C.close(ref, ref_model, 1e-7) and not other:
            ctx.corr_break('horizon-reference', cfg=cfg, real_at_64_t_max=ref, model=ref_model, T=T_big)
        if expect_unreached or ref is None:
            ref, oracle = ref_model, f'Lean model accumulateModel at T={Tm}'
    unreached = p_reached < 1 - 1e-9
    ctx.case(dict(cfg=cfg, clause='horizon', default=default, t_max=t_max, reference=ref, warned=warned,
                  cdf_at_t_max=p_reached),
             (gen.cfg_key(cfg), 'horizon') if (unreached or nontrivial(cfg)) else None)
    ctx.count('clause:horizon'); ctx.count('horizon:warned' if warned else 'horizon:silent')
    if unreached:
        ctx.count('horizon:unreached')
    if other:
        ctx.count('warned:horizon-other')
    if expect_unreached and not unreached:
        ctx.count('horizon:expected-unreached-but-reached')
    if unreached and not warned:
        report(ctx, 'horizon:unreached-silent', cfg, 'horizon', params, t_max=t_max, cdf_at_t_max=p_reached,
               default_mean=default, reference_mean=ref, log=lc.records,
               expected='a warning "Could not reliably find time of almost sure absorption ..."')
        return
    if ref is None:
        ctx.skipped += 1
        return
    if not warned and not other and not C.close(default, ref, 1e-7):
        report(ctx, 'horizon:mean', cfg, 'horizon', params, t_max=t_max, default_mean=default, reference_mean=ref,
               oracle=oracle, tolerance=dict(rel=1e-7), log=lc.records)


# ----------------------------------------------------------------------------------------- (6b) default horizon on a used object
def fast_later_cfg(rng):
    """multi-epoch demography whose LATER epochs coalesce much faster (sizes like {0: 1, 3: 0.01})"""
    D = rng.choice([1, 1, 2])
    names = list(rng.choice(gen.NAME_SETS)[:D]); rng.shuffle(names)
    n = rng.randint(2, 4 if D == 1 else 3)
    vec = rng.choice([v for v in gen.splits(n, D)])
    ne = rng.choice([2, 2, 3])
    eps, t = [], 0.0
    base = {p: gen.dyadic(rng, 0, 3) for p in names}
    for e in range(ne):
        f = 1.0 if e == 0 else 2.0 ** -rng.randint(5, 10) * (2.0 ** -rng.randint(0, 3)) ** (e - 1)
        sizes = {p: base[p] * f for p in names}
        mig = {(a, b): gen.dyadic(rng, -2, 1) for a in names for b in names if a != b}
        eps.append(dict(start=t, sizes=sizes, mig=mig))
        # the change comes while a good part of the probability mass is still unabsorbed
        t = t + min(base.values()) * rng.choice([0.5, 1.0, 2.0, 3.0]) if e == 0 else t + 2.0 ** rng.randint(-6, -2)
    return dict(n=dict(zip(names, vec)), model=rng.choice([('kingman',), ('kingman',), ('beta', 1.5, False), ('dirac', 0.5, 1.0, False)]),
                epochs=eps, loci=1)


def gen_used(cfg, rng):
    b = [e['start'] for e in cfg['epochs'][1:]]
    last = b[-1] if b else 1.0
    grid = sorted({x * rng.choice([0.25, 0.5, 1.0]) for x in b} | {last + 2.0 ** rng.randint(-8, 1), last * 2 + 1.0})
    if rng.random() < 0.3:
        grid = [last + 2.0 ** rng.randint(-8, 1)]
    return dict(grid=grid, first=rng.choice(['th.accumulate', 'th.cdf', 'tbl.accumulate', 'coal.accumulate', 'sfs.accumulate',
                                              'th.moment(end_time)']))


def default_stats(pg, coal):
    return {'tree_height.mean': float(coal.tree_height.mean), 'coal.moment(1)': float(coal.moment(1)),
            'total_branch_length.mean': float(coal.total_branch_length.mean),
            'tree_height.var': float(coal.tree_height.var), 't_max': float(coal.tree_height.t_max)}


def clause_used(ctx, pg, cfg, params):
    """
    default-horizon statistics on an object that first evaluated a grid reaching past the change points (its state
    space is then left in a later epoch) == the same statistics of a fresh object == the explicit far-horizon value,
    unless a warning is logged.  Not wrapped by `guarded`: warnings are handled here.
    """
    grid, first = params['grid'], params['first']
    with C.LogCapture() as lc_f:
        fresh = default_stats(pg, make(pg, cfg))
    used = make(pg, cfg)
    with C.LogCapture() as lc_g:
        if first == 'th.accumulate':
            used.tree_height.accumulate(1, grid)
        elif first == 'th.cdf':
            used.tree_height.cdf(np.array(grid))
        elif first == 'tbl.accumulate':
            used.total_branch_length.accumulate(2, grid)
        elif first == 'coal.accumulate':
            used.accumulate(1, grid, rewards=(conv.make_reward(pg, TBL),))
        elif first == 'sfs.accumulate':
            used.sfs.accumulate(1, grid) if small_sfs(cfg) else used.tree_height.accumulate(1, grid)
        else:
            used.tree_height.moment(1, end_time=max(grid))
    with C.LogCapture() as lc_u:
        after = default_stats(pg, used)
    with C.LogCapture() as lc_far:
        T_far = 64.0 * fresh['t_max']
        far_c = make(pg, cfg, end_time=T_far)
        far = {'tree_height.mean': float(far_c.tree_height.mean), 'coal.moment(1)': float(far_c.moment(1)),
               'total_branch_length.mean': float(far_c.total_branch_length.mean)}
    past = len(cfg['epochs']) >= 2 and max(grid) > cfg['epochs'][1]['start']
    ctx.case(dict(cfg=cfg, clause='used', params=params, fresh=fresh, after_grid=after),
             digest(gen.cfg_key(cfg), 'used', json.dumps(params)) if past else None)
    ctx.count('clause:used'); ctx.count(f'used:first={first}')
    if lc_f.records or lc_u.records or lc_g.records:
        ctx.count('warned:used'); ctx.skipped += 1
        return
    for key in ('t_max', 'tree_height.mean', 'coal.moment(1)', 'total_branch_length.mean', 'tree_height.var'):
        tol = 1e-7 if key != 'tree_height.var' else 1e-6
        if key == 't_max':
            # the horizon search is deterministic: same demography, same answer (reported through the means below if
            # it matters; a different but sufficient horizon is not a failure)
            continue
        if not C.close(after[key], fresh[key], tol):
            report(ctx, f'used:{key}', cfg, 'used', params, statistic=key, fresh_object=fresh[key], after_grid_call=after[key],
                   t_max_fresh=fresh['t_max'], t_max_after_grid_call=after['t_max'], tolerance=dict(rel=tol),
                   oracle='the same default-horizon statistic on a fresh object', log=lc_u.records)
            return
        if key in far and not lc_far.records and not C.close(after[key], far[key], 1e-7):
            report(ctx, f'used-far:{key}', cfg, 'used', params, statistic=key, far_horizon=far[key], end_time=T_far,
                   after_grid_call=after[key], t_max_after_grid_call=after['t_max'], tolerance=dict(rel=1e-7),
                   oracle=f'Coalescent(end_time={T_far}) on a fresh object')
            return


# ----------------------------------------------------------------------------------------- (7) restart at a change point
def restart_cfg(rng):
    name = rng.choice(['pop_0', 'a', 'Z'])
    ne = rng.choice([2, 2, 3])
    eps = gen.rand_epochs(rng, [name], ne)
    while len({e['sizes'][name] for e in eps}) < ne:
        eps = gen.rand_epochs(rng, [name], ne)
    return dict(n={name: 2}, model=gen.rand_model(rng), epochs=eps, loci=1)


def shifted(cfg, tb):
    eps = [dict(start=max(0.0, e['start'] - tb), sizes=dict(e['sizes']), mig=dict(e['mig']))
           for i, e in enumerate(cfg['epochs'])
           if e['start'] >= tb or (i + 1 < len(cfg['epochs']) and cfg['epochs'][i + 1]['start'] > tb) or i + 1 == len(cfg['epochs'])]
    return dict(cfg, epochs=eps)


def gen_restart(cfg, rng):
    b = [e['start'] for e in cfg['epochs'][1:]]
    tb = rng.choice(b)
    ss = sorted({rng.randint(1, 64) / 16.0 for _ in range(4)} | {x - tb for x in b if x > tb})
    return dict(tb=tb, s=ss)


def clause_restart(ctx, pg, cfg, params):
    tb, ss = params['tb'], params['s']
    assert sum(cfg['n'].values()) == 2 and len(conv.cfg_names(cfg)) == 1
    sh = shifted(cfg, tb)
    X, S = make(pg, cfg), make(pg, sh)
    surv_tb = 1.0 - float(X.tree_height.cdf(tb))
    for s in ss:
        ctx.case(dict(cfg=cfg, clause='restart', tb=tb, s=s, shifted=sh), digest(gen.cfg_key(cfg), 'restart', tb, s))
        ctx.count('clause:restart')
        lhs = 1.0 - float(X.tree_height.cdf(tb + s))
        rhs = surv_tb * (1.0 - float(S.tree_height.cdf(s)))
        if differs(lhs, rhs, 1e-12):
            report(ctx, 'restart:cdf', cfg, 'restart', dict(tb=tb, s=[s]), shifted_cfg=sh, survival_at_tb_plus_s=lhs,
                   survival_tb_times_shifted_survival_s=rhs, tolerance=dict(rel=REL, abs=1e-12),
                   oracle='Markov property at the change point; n=2 in one deme has a single transient state')
            return
        for stat in ('th', 'tbl'):
            d = lambda c: c.tree_height if stat == 'th' else c.total_branch_length
            whole = float(d(make(pg, cfg)).moment(1, end_time=tb + s))
            head = float(d(make(pg, cfg)).moment(1, end_time=tb))
            tail = float(d(make(pg, sh)).moment(1, end_time=s))
            if differs(whole, head + surv_tb * tail, 1e-12 * (tb + s)):
                report(ctx, f'restart:{stat}.mean', cfg, 'restart', dict(tb=tb, s=[s]), shifted_cfg=sh,
                       moment_0_T=whole, moment_0_tb=head, survival_tb=surv_tb, shifted_moment_0_s=tail,
                       tolerance=dict(rel=REL, abs=1e-12 * (tb + s)),
                       oracle='mean(0,tb+s) = mean(0,tb) + P(T>tb) * mean_shifted(0,s)')
                return


# ----------------------------------------------------------------------------------------- driver
CLAUSES = dict(redundant=clause_redundant, refine=clause_refine, route=clause_route, additive=clause_additive,
               monotone=clause_monotone, horizon=clause_horizon, restart=clause_restart, used=clause_used)


def make_cfg(rng, quick):
    cfg = gen.rand_cfg(rng, n_max=4 if quick else 5, demes_max=3, epochs_max=3)
    if len(cfg['epochs']) == 1 and rng.random() < 0.5:
        cfg = gen.rand_cfg(rng, n_max=4 if quick else 5, demes_max=3, epochs_max=3)
    if len(cfg['n']) == 3 and sum(cfg['n'].values()) > (3 if quick else 4):
        p = max(cfg['n'], key=lambda q: cfg['n'][q])
        cfg['n'][p] -= 1
    return cfg


def one(ctx, item):
    pg = C.import_phasegen()
    rng = random.Random(f'{ctx.seed}-c10-{item}')
    quick = ctx.quick
    if isinstance(item, str) and item.startswith('disc'):
        cfg = disconnected_cfg(rng)
        ctx.count('cfg:nearly-disconnected')
        clause_horizon(ctx, pg, cfg, dict(expect_unreached=True, use_model=True))
        return
    if isinstance(item, str) and item.startswith('fast'):
        cfg = fast_later_cfg(rng)
        ctx.count('cfg:fast-later-epochs')
        for _ in range(3):
            clause_used(ctx, pg, cfg, C.jsonable(gen_used(cfg, rng)))
        clause_horizon(ctx, pg, cfg, dict(use_model=n_states(cfg) <= 6))
        return
    if isinstance(item, str) and item.startswith('restart'):
        cfg = restart_cfg(rng)
        ctx.count('cfg:restart')
        for _ in range(2):
            p = gen_restart(cfg, rng)
            guarded(ctx, 'restart', lambda: clause_restart(ctx, pg, cfg, p))
        p = gen_redundant(cfg, rng)
        guarded(ctx, 'redundant', lambda: clause_redundant(ctx, pg, cfg, p))
        return
    cfg = make_cfg(rng, quick)
    ctx.count(f'epochs{len(cfg["epochs"])}'); ctx.count(f'demes{len(cfg["n"])}'); ctx.count(cfg['model'][0])
    for name, g in (('redundant', gen_redundant), ('refine', gen_refine), ('route', gen_route),
                    ('additive', gen_additive), ('monotone', gen_monotone)):
        for _ in range(1 if quick else 2):
            p = C.jsonable(g(cfg, rng))
            guarded(ctx, name, lambda: CLAUSES[name](ctx, pg, cfg, p))
    clause_horizon(ctx, pg, cfg, dict(use_model=n_states(cfg) <= (6 if quick else 9)))
    if len(cfg['epochs']) >= 2:
        clause_used(ctx, pg, cfg, C.jsonable(gen_used(cfg, rng)))


def run(ctx):
    import check
    q = ctx.quick
    items = list(range(200 if q else 1400)) + [f"disc-{i}" for i in range(32 if q else 128)] + \
        [f'restart-{i}' for i in range(48 if q else 300)] + [f"fast-{i}" for i in range(48 if q else 300)]
    ctx.rng.shuffle(items)
    check.pmap(ctx, 'props.c10', 'one', items, case_timeout=300 if q else 1200)
    # correspondence with the Lean model of the call layer of moment / accumulate (PGModel/Api.lean, driver command `api`)
    check.pmap(ctx, 'props.corr_models', 'one_api', list(range(16 if q else 120)), case_timeout=300)


def replay(ctx, payload):
    pg = C.import_phasegen()
    cfg = conv.cfg_from_json(payload['cfg'])
    clause, params = payload['clause'], payload['params']
    CLAUSES[clause](ctx, pg, cfg, params)
