"""
C05 — the epoch schedule reproduces the demography the user specified.

Correspondence: the first epochs of the real `Demography.epochs` generator and `get_epochs` against the Lean model
(`epochsUpTo`, `getEpochIdx`) on random event lists mixing all event classes, input shapes and orders.
Direct oracle (independent Spec, written from the statement): tiling, boundaries, value in force, discretised
endpoint mean, lookup, order/shape independence, split orientation, completion of missing populations.
"""
import itertools, math, random
from fractions import Fraction
import numpy as np
import pgcommon as C
import conv, gen

META = dict(
    level='proof',
    rule='random event lists (1-5 events; discrete changes in every accepted input shape, symmetric rates, splits, '
         'discretised linear/quadratic trajectories with dyadic steps) over 1-3 populations with unsorted names, passed to '
         'the constructor or added with add_event in random order; non-trivial = at least 3 epochs',
    trusted_base=['numpy float arithmetic on dyadic times is exact (all generated times, steps and values are dyadic)'],
    assumptions=['conflicting specifications (same key, same time, different values in different events) are not generated: '
                 'their outcome depends on the order of events by design',
                 'a discretised grid point closer than 1e-10 to another boundary is skipped by the code (the 1e-10 fudge in '
                 '_broadcast; Lean: grid_point_skipped); generated times are dyadic multiples of 2^-6 so this never occurs'],
)

COUNT = 40


def dy(rng, lo=-2, hi=3):
    return float(2.0 ** rng.randint(lo, hi))


def gen_case(rng):
    D = rng.randint(1, 3)
    names = list(rng.choice(gen.NAME_SETS)[:D])
    rng.shuffle(names)
    nev = rng.randint(1, 5)
    events = []          # harness description of events
    used = {}            # (key, time) -> value, to avoid conflicts
    disc_keys = {}       # key -> (start, end) windows of discretised events
    split_after = None
    def free(key, t):
        if key in disc_keys and t >= disc_keys[key][0]:
            return False
        if split_after is not None and key[0] == 'm' and t >= split_after[0] and (key[1] in split_after[1] or key[2] in split_after[1]):
            return False
        return True
    def rnd_time():
        return rng.choice([0.0, 0.0, 0.125, 0.25, 0.375, 0.5, 0.75, 1.0, 1.5, 2.0, 3.0])
    for _ in range(nev):
        kind = rng.choice(['sizes', 'sizes', 'mig', 'both', 'single', 'sym', 'split', 'disc', 'disc'])
        if D == 1 and kind in ('mig', 'sym', 'split'):
            kind = 'sizes'
        if kind in ('sizes', 'mig', 'both'):
            ps, ms = {}, {}
            if kind in ('sizes', 'both'):
                for p in rng.sample(names, rng.randint(1, D)):
                    for t in sorted(set(rnd_time() for _ in range(rng.randint(1, 3)))):
                        if free(('s', p), t):
                            v = used.setdefault((('s', p), t), dy(rng))
                            ps.setdefault(p, {})[t] = v
            if kind in ('mig', 'both') and D > 1:
                for _ in range(rng.randint(1, 3)):
                    a, b = rng.sample(names, 2)
                    for t in sorted(set(rnd_time() for _ in range(rng.randint(1, 2)))):
                        if free(('m', a, b), t):
                            v = used.setdefault((('m', a, b), t), rng.choice([0.0, dy(rng, -3, 1)]))
                            ms.setdefault((a, b), {})[t] = v
            if ps or ms:
                events.append(dict(kind='discrete', sizes=ps, mig=ms, shape=rng.choice(['event', 'ctor'])))
        elif kind == 'single':
            p, t = rng.choice(names), rnd_time()
            if free(('s', p), t):
                v = used.setdefault((('s', p), t), dy(rng))
                events.append(dict(kind='discrete', sizes={p: {t: v}}, mig={}, shape='single-size'))
        elif kind == 'sym':
            pops = rng.sample(names, rng.randint(2, D))
            t = rnd_time()
            v = rng.choice([0.0, dy(rng, -3, 1)])
            ok = all(free(('m', a, b), t) and used.get((('m', a, b), t), v) == v for a in pops for b in pops if a != b)
            if ok:
                for a in pops:
                    for b in pops:
                        if a != b:
                            used[(('m', a, b), t)] = v
                events.append(dict(kind='discrete', sizes={}, mig={(a, b): {t: v} for a in pops for b in pops if a != b},
                                   shape='sym', pops=pops, rate={t: v}))
        elif kind == 'split' and split_after is None:
            anc = rng.choice(names)
            derived = rng.sample([p for p in names if p != anc], rng.randint(1, D - 1))
            t = rng.choice([0.3125, 0.625, 1.25])   # never coincides with a size change (the split rate reads the size)
            # no other event may touch migration keys involving derived demes at or after t
            if all(not (k[0][0] == 'm' and tt >= t and (k[0][1] in derived or k[0][2] in derived)) for k, tt in [(kk, kk[1]) for kk in used]):
                split_after = (t, derived, anc)
                events.append(dict(kind='split', time=t, derived=derived, ancestral=anc, multiplier=rng.choice([4.0, 16.0, 100.0])))
        elif kind == 'disc':
            if rng.random() < 0.6 or D == 1:
                key = ('s', rng.choice(names))
            else:
                a, b = rng.sample(names, 2)
                key = ('m', a, b)
            if key in disc_keys:
                continue
            start = rng.choice([0.0, 0.25, 0.5, 1.0])
            step = rng.choice([0.125, 0.25, 0.5])
            end = rng.choice([None, start + step * rng.randint(2, 6)])
            if any(k == key and t >= start for (k, t) in used):
                continue
            if split_after is not None and key[0] == 'm' and (key[1] in split_after[1] or key[2] in split_after[1]):
                continue
            coeffs = [dy(rng, -1, 2), rng.choice([0.0, 0.25, 1.0])] + ([rng.choice([0.0, 0.125])] if rng.random() < 0.3 else [])
            disc_keys[key] = (start, end)
            events.append(dict(kind='disc', key=key, coeffs=coeffs, start=start, end=end, step=step))
    if not events:
        events.append(dict(kind='discrete', sizes={names[0]: {0.0: 2.0}}, mig={}, shape='ctor'))
    return dict(names=names, events=events)


def poly(cs):
    return lambda t, cs=tuple(cs): sum(c * t ** i for i, c in enumerate(cs))


def build_real(pg, case, order, via_add):
    """real Demography from the harness description; `order` is a permutation of the events"""
    evs, ctor_sizes, ctor_mig = [], {}, {}
    for i in order:
        e = case['events'][i]
        if e['kind'] == 'discrete':
            if e['shape'] == 'ctor' and not ctor_sizes and not ctor_mig and not via_add:
                ctor_sizes, ctor_mig = e['sizes'], e['mig']
            elif e['shape'] == 'single-size':
                (p, d), = e['sizes'].items()
                (t, v), = d.items()
                evs.append(pg.PopSizeChange(pop=p, time=t, size=v))
            elif e['shape'] == 'sym':
                evs.append(pg.SymmetricMigrationRateChanges(pops=e['pops'], rate=dict(e['rate'])))
            else:
                if e['sizes'] and e['mig']:
                    evs.append(pg.DiscreteRateChanges(pop_sizes=e['sizes'], migration_rates=e['mig']))
                elif e['sizes']:
                    evs.append(pg.PopSizeChanges(e['sizes']))
                else:
                    evs.append(pg.MigrationRateChanges(e['mig']))
        elif e['kind'] == 'split':
            evs.append(pg.PopulationSplit(time=e['time'], derived=list(e['derived']), ancestral=e['ancestral'], multiplier=e['multiplier']))
        else:
            k = e['key']
            kw = dict(pop=k[1]) if k[0] == 's' else dict(source=k[1], dest=k[2])
            evs.append(pg.DiscretizedRateChange(trajectory=poly(e['coeffs']), start_time=e['start'],
                                                end_time=float('inf') if e['end'] is None else e['end'], step_size=e['step'], **kw))
    kw = {}
    if ctor_sizes:
        kw['pop_sizes'] = ctor_sizes
    if ctor_mig:
        kw['migration_rates'] = ctor_mig
    if via_add:
        d = pg.Demography(**kw) if kw else pg.Demography()
        for ev in evs:
            d.add_event(ev)
    else:
        d = pg.Demography(events=evs, **kw)
    return d


def occurring(case):
    """the populations the user's events mention"""
    occ = set()
    for e in case['events']:
        if e['kind'] == 'discrete':
            occ |= set(e['sizes']) | {p for k in e['mig'] for p in k}
        elif e['kind'] == 'split':
            occ |= set(e['derived']) | {e['ancestral']}
        else:
            occ |= set(e['key'][1:])
    return occ


def model_request(case, order, names_sorted):
    idx = {p: i for i, p in enumerate(names_sorted)}
    def key(k):
        return f's{idx[k[1]]}' if k[0] == 's' else f'm{idx[k[1]]}_{idx[k[2]]}'
    toks = []
    for i in order:
        e = case['events'][i]
        if e['kind'] == 'discrete':
            times = sorted({t for d in e['sizes'].values() for t in d} | {t for d in e['mig'].values() for t in d})
            toks += ['D', str(len(times))]
            for t in times:
                kvs = [(('s', p), d[t]) for p, d in e['sizes'].items() if t in d] + \
                      [(('m', a, b), d[t]) for (a, b), d in e['mig'].items() if t in d]
                toks += [C.rs(t), str(len(kvs))]
                for k, v in kvs:
                    toks += [key(k), C.rs(v)]
        elif e['kind'] == 'split':
            toks += ['X', C.rs(e['time']), C.rs(e['multiplier']), str(idx[e['ancestral']]), C.nlist(idx[p] for p in e['derived'])]
        else:
            toks += ['Z', '1', C.rlist(e['coeffs']), C.rs(e['start']), C.rs(e['end']), key(e['key']), C.rs(e['step'])]
    return len(order), toks


def table(d, count):
    """the epoch table as a user sees it: all epochs are generated first and read afterwards
    (an epoch must not change when later epochs are generated)"""
    out = []
    for ep in list(itertools.islice(d.epochs, count)):
        out.append(dict(start=float(ep.start_time), end=float(ep.end_time), sizes=dict(ep.pop_sizes),
                        mig={k: v for k, v in ep.migration_rates.items() if k[0] != k[1]}))
    return out


def parse_model(out, names_sorted):
    eps = []
    for chunk in out.split(' ; '):
        toks = chunk.split()
        ep = dict(start=float(Fraction(toks[0])), end=float('inf') if toks[1] == 'inf' else float(Fraction(toks[1])), sizes={}, mig={})
        for t in toks[2:]:
            k, v = t.split('=')
            if k[0] == 's':
                ep['sizes'][names_sorted[int(k[1:])]] = float(Fraction(v))
            else:
                a, b = k[1:].split('_')
                ep['mig'][(names_sorted[int(a)], names_sorted[int(b)])] = float(Fraction(v))
        eps.append(ep)
    return eps


def tables_equal(a, b):
    if len(a) != len(b):
        return f'length {len(a)} vs {len(b)}'
    for i, (x, y) in enumerate(zip(a, b)):
        if x['start'] != y['start'] or x['end'] != y['end']:
            return f'epoch {i} bounds {x["start"], x["end"]} vs {y["start"], y["end"]}'
        for k in set(x['sizes']) | set(y['sizes']):
            if x['sizes'].get(k) != y['sizes'].get(k):
                return f'epoch {i} size {k}: {x["sizes"].get(k)} vs {y["sizes"].get(k)}'
        for k in set(x['mig']) | set(y['mig']):
            if x['mig'].get(k, 0) != y['mig'].get(k, 0):
                return f'epoch {i} rate {k}: {x["mig"].get(k, 0)} vs {y["mig"].get(k, 0)}'
    return None


def spec_oracle(ctx, case, real, detail):
    """the statement of C05 evaluated on the real epoch table"""
    evs = case['events']
    # tiling
    if real[0]['start'] != 0:
        ctx.violation('tiling:first-start', **detail, observed=real[0]['start'])
    for a, b in zip(real[:-1], real[1:]):
        if a['end'] != b['start']:
            ctx.violation('tiling:gap', **detail, end=a['end'], next_start=b['start']); return
    for a in real:
        if not a['start'] < a['end']:
            ctx.violation('tiling:empty-epoch', **detail, start=a['start'], end=a['end']); return
    complete = real[-1]['end'] == float('inf')
    horizon = real[-1]['end']
    starts = {e['start'] for e in real}
    # boundaries
    for e in evs:
        if e['kind'] == 'discrete':
            ts = {t for d in e['sizes'].values() for t in d} | {t for d in e['mig'].values() for t in d}
        elif e['kind'] == 'split':
            ts = {e['time']}
        else:
            ts, j = set(), 0
            while True:
                g = e['start'] + j * e['step']
                if (e['end'] is not None and g > e['end']) or g >= horizon or j > 200:
                    break
                ts.add(g); j += 1
        for t in ts:
            if 0 < t < horizon and t not in starts:
                ctx.violation(f'boundary-missing:{e["kind"]}', **detail, time=t, starts=sorted(starts)[:12]); return
    # value in force
    changes = {}   # key -> list of (time, value)
    for e in evs:
        if e['kind'] == 'discrete':
            for p, d in e['sizes'].items():
                for t, v in d.items():
                    changes.setdefault(('s', p), []).append((t, v))
            for (a, b), d in e['mig'].items():
                for t, v in d.items():
                    changes.setdefault(('m', a, b), []).append((t, v))
    discs = {e['key']: e for e in evs if e['kind'] == 'disc'}
    split = next((e for e in evs if e['kind'] == 'split'), None)
    names = detail.get('known_names', case['names'])
    keys = [('s', p) for p in names] + [('m', a, b) for a in names for b in names if a != b]
    for ep in real:
        t = ep['start']
        for k in keys:
            got = ep['sizes'].get(k[1]) if k[0] == 's' else ep['mig'].get((k[1], k[2]), 0)
            if split is not None and t >= split['time'] and k[0] == 'm' and (k[1] in split['derived'] or k[2] in split['derived']):
                continue
            if k in discs and t >= discs[k]['start']:
                e = discs[k]
                if e['end'] is None or ep['end'] <= e['end']:
                    f = poly(e['coeffs'])
                    want = (f(ep['start']) + f(ep['end'])) / 2
                    if got != want:
                        ctx.violation('discretised-mean', **detail, key=k, epoch=[ep['start'], ep['end']], expected=want, observed=got); return
                continue
            past = [(tt, v) for tt, v in changes.get(k, []) if tt <= t]
            want = (1.0 if k[0] == 's' else 0.0) if not past else max(past, key=lambda x: x[0])[1]
            if got != want:
                ctx.violation(f'value-in-force:{k[0]}', **detail, key=k, time=t, expected=want, observed=got); return
    # population split: derived lineages join the ancestral population after the split
    if split is not None:
        # ... and ONLY the ancestral one: after the split no lineage of a derived population moves to a third population
        # (whichever way the split itself is oriented; the generator lets no discrete event touch these keys after the split,
        # and keys a discretised trajectory governs are left to that clause)
        others = [q for q in case['names'] if q not in split['derived'] and q != split['ancestral']]
        for ep in real:
            if ep['start'] >= split['time']:
                for p in split['derived']:
                    for q in others:
                        if ('m', p, q) not in discs and ep['mig'].get((p, q), 0) != 0:
                            ctx.violation('split-derived-keeps-migrating', **detail, epoch_start=ep['start'], derived=p, third=q,
                                          rate=ep['mig'].get((p, q), 0), expected=0)
                            return
        for ep in real:
            if ep['start'] >= split['time']:
                for p in split['derived']:
                    fwd = ep['mig'].get((p, split['ancestral']), 0)
                    back = ep['mig'].get((split['ancestral'], p), 0)
                    if not (fwd > 0 and back == 0):
                        ctx.violation('split-orientation', **detail, epoch_start=ep['start'], derived=p, ancestral=split['ancestral'],
                                      rate_derived_to_ancestral=fwd, rate_ancestral_to_derived=back)
                        return
    return complete


def one(ctx, i):
    pg = C.import_phasegen()
    rng = random.Random(f'{ctx.seed}-c05-{i}')
    case = gen_case(rng)
    n = len(case['events'])
    order = list(range(n))
    via_add = rng.random() < 0.3
    with C.LogCapture():
        d = build_real(pg, case, order, via_add)
    names_sorted = sorted(case['names'])
    # read BEFORE any epoch is generated: this is what `Coalescent(...)` reads when it is handed the demography
    names_now = list(d.pop_names)
    occ = occurring(case)
    if sorted(names_now) != sorted(set(names_now)) or set(names_now) != occ or d.n_pops != len(occ):
        ctx.violation('pop-names', case=case, via_add=via_add, observed=names_now, n_pops=int(d.n_pops), specified=sorted(occ))
    names_sorted = sorted(occ | set(d.pop_names))      # ids follow the sorted names of the populations that occur
    real = table(d, COUNT)
    lazy = []
    for ep in itertools.islice(d.epochs, COUNT):
        lazy.append(dict(start=float(ep.start_time), end=float(ep.end_time), sizes=dict(ep.pop_sizes),
                         mig={k: v for k, v in ep.migration_rates.items() if k[0] != k[1]}))
    detail = dict(case=case, order=order, via_add=via_add, known_names=list(d.pop_names))
    diff0 = tables_equal(lazy, real)
    if diff0:
        ctx.violation('epoch-mutated-after-yield', **detail, diff=diff0)
    ctx.case(dict(case=case, n_epochs=len(real)), repr(case) if len(real) >= 3 else None)
    for e in case['events']:
        ctx.count(e['kind'] + (':' + e.get('shape', '') if e['kind'] == 'discrete' else ''))
    ctx.count(f'epochs>={min(len(real), 10)}')
    # correspondence
    nev, toks = model_request(case, order, names_sorted)
    out = C.driver().ask(' '.join(['epochs', 'bw', str(COUNT), str(nev)] + toks))
    model = parse_model(out, names_sorted)
    diff = tables_equal(model, real)
    if diff:
        ctx.corr_break('epochs', **detail, diff=diff)
    # spec
    spec_oracle(ctx, case, real, detail)
    # lookup
    pts = []
    for ep in real[:8]:
        pts += [ep['start'], (ep['start'] + min(ep['end'], ep['start'] + 1)) / 2]
    rng.shuffle(pts)
    got = d.get_epochs(pts)
    by_start = {e['start']: e for e in real}
    for t, ep in zip(pts, got):
        if not (ep.start_time <= t < ep.end_time):
            ctx.violation('lookup', **detail, time=t, returned=[float(ep.start_time), float(ep.end_time)], times=pts); break
        ref = by_start.get(float(ep.start_time))
        if ref is not None:
            sizes = dict(ep.pop_sizes); mig = {k: v for k, v in ep.migration_rates.items() if k[0] != k[1]}
            if any(sizes.get(k) != v for k, v in ref['sizes'].items()) or any(mig.get(k, 0) != v for k, v in ref['mig'].items()):
                ctx.violation('lookup-values', **detail, time=t, times=pts, returned_sizes=sizes, returned_rates=mig,
                              expected_sizes=ref['sizes'], expected_rates=ref['mig'])
                break
    midx = C.driver().ask(' '.join(['getepochs', 'bw', str(COUNT), C.rlist(pts), str(nev)] + toks)).split()
    for t, ep, mi in zip(pts, got, midx):
        if mi != 'none' and real[int(mi)]['start'] != ep.start_time:
            ctx.corr_break('get_epochs', **detail, time=t, model_epoch=int(mi), real_start=float(ep.start_time)); break
    # order / route independence
    order2 = order[:]
    rng.shuffle(order2)
    with C.LogCapture():
        d2 = build_real(pg, case, order2, not via_add)
    diff = tables_equal(table(d2, COUNT), real)
    if diff:
        ctx.violation('order-dependence', **detail, order2=order2, diff=diff)
    # a demography that was USED (epochs looked up, one at a time and as a stream) before the remaining events were added:
    # afterwards it is the demography of all its events
    if n >= 2:
        k = 1 + (len(pts) + n) % (n - 1)
        with C.LogCapture():
            dg = build_real(pg, case, order[:k], True)
            for t in pts[:5]:
                dg.get_epoch(t)
            list(itertools.islice(dg.epochs, 3))
            rest = build_real(pg, case, order[k:], True)
            if k % 2:
                dg.add_events(list(rest.events))
            else:
                for ev in rest.events:
                    dg.add_event(ev)
            grown = table(dg, COUNT)
            looked = [dg.get_epoch(t) for t in pts[:5]]
        diff = tables_equal(grown, real)
        if diff:
            ctx.violation('grown-after-use:epochs', **detail, first_part=order[:k], diff=diff)
        else:
            for t, ep in zip(pts[:5], looked):
                ref = next((e for e in real if e['start'] <= t < e['end']), None)
                sizes = dict(ep.pop_sizes); mig = {kk: v for kk, v in ep.migration_rates.items() if kk[0] != kk[1]}
                if ref is not None and (float(ep.start_time) != ref['start'] or any(sizes.get(kk) != v for kk, v in ref['sizes'].items())
                                        or any(mig.get(kk, 0) != v for kk, v in ref['mig'].items())):
                    ctx.violation('grown-after-use:get_epoch', **detail, first_part=order[:k], time=t, looked_up_before=True,
                                  returned_start=float(ep.start_time), returned_sizes=sizes, expected_start=ref['start'],
                                  expected_sizes=ref['sizes'], expected_rates={str(kk): v for kk, v in ref['mig'].items()})
                    break
        ctx.count('grown-after-use')
    # Coalescent completes missing populations
    if rng.random() < 0.5:
        extra = 'zz_new'
        with C.LogCapture():
            coal = pg.Coalescent(n={case['names'][0]: 2, extra: 1}, demography=build_real(pg, case, order, via_add))
            ep0 = coal.demography.get_epoch(0)
        known = set(d.pop_names) | {case['names'][0]}
        lin = {k: int(v) for k, v in coal.lineage_config.lineage_dict.items()}
        if ep0.pop_sizes.get(extra) != 1 or set(coal.lineage_config.pop_names) != known | {extra} \
                or any(lin.get(p) != 0 for p in known - {case['names'][0]}):
            ctx.violation('completion', **detail, sizes=dict(ep0.pop_sizes), lineages=lin)
        # completing the sampled populations must leave every specified value as the user wrote it
        elif any(ep0.pop_sizes.get(p) != v for p, v in real[0]['sizes'].items()) or \
                any(ep0.migration_rates.get(k, 0) != v for k, v in real[0]['mig'].items()):
            ctx.violation('completion-overrides', **detail, sizes=dict(ep0.pop_sizes), expected_sizes=real[0]['sizes'],
                          rates={str(k): v for k, v in ep0.migration_rates.items() if k[0] != k[1]})
        ctx.count('completion')


def exp_family(ctx, i):
    """Multi-key composite events (ExponentialRateChanges / ExponentialPopSizeChanges / DiscretizedRateChanges) against the same
    demography written as ONE single-key DiscretizedRateChange per key with the closed-form trajectory (whose schedule the other
    clause ties to the model), and against the closed form itself: inside its window every key takes the mean of ITS OWN
    trajectory at the two ends of the epoch."""
    import numpy as np
    pg = C.import_phasegen()
    rng = random.Random(f'{ctx.seed}-c05-exp-{i}')
    names = list(rng.choice(gen.NAME_SETS)[:rng.choice([1, 2, 2, 3])])
    keys = list(names) + ([(a, b) for a in names for b in names if a != b] if len(names) > 1 and rng.random() < 0.6 else [])
    rng.shuffle(keys)
    keys = keys[:rng.randint(2, min(4, len(keys)))] if len(keys) >= 2 else keys
    step = rng.choice([0.125, 0.25, 0.5])
    per_key = rng.random() < 0.6
    x0 = {k: float(2.0 ** rng.randint(-2, 2)) * rng.choice([1.0, 1.5, 3.0]) for k in keys}
    g = {k: rng.choice([-0.5, -0.125, 0.25, 0.5, 1.0]) for k in keys}
    t0 = {k: rng.choice([0.0, 0.25, 0.5]) for k in keys}
    t1 = {k: t0[k] + rng.choice([0.5, 1.0, 1.5]) for k in keys}
    if not per_key:
        gg, tt0, tt1 = rng.choice(list(g.values())), rng.choice(list(t0.values())), max(t1.values())
        g, t0, t1 = {k: gg for k in keys}, {k: tt0 for k in keys}, {k: tt1 for k in keys}
    only_sizes = all(isinstance(k, str) for k in keys)
    cls = rng.choice(['ExponentialPopSizeChanges', 'ExponentialRateChanges']) if only_sizes else 'ExponentialRateChanges'
    kw = dict(growth_rate=dict(g) if per_key else next(iter(g.values())), start_time=dict(t0) if per_key else next(iter(t0.values())),
              end_time=dict(t1) if per_key else next(iter(t1.values())), step_size=step)
    base = [pg.PopSizeChanges({p: {0: 1.0} for p in names})]
    if len(names) > 1:
        base.append(pg.MigrationRateChanges({(a, b): {0: 0.5} for a in names for b in names if a != b}))
    traj = {k: (lambda t, a=x0[k], b=g[k], c=t0[k]: a * np.exp(-b * (t - c))) for k in keys}
    with C.LogCapture():
        if cls == 'ExponentialPopSizeChanges':
            joint = pg.ExponentialPopSizeChanges(initial_size=dict(x0), **kw)
        else:
            joint = pg.ExponentialRateChanges(initial_rate=dict(x0), **kw)
        d_joint = pg.Demography(events=base + [joint])
        singles = [pg.DiscretizedRateChange(trajectory=traj[k], start_time=t0[k], end_time=t1[k], step_size=step,
                                            pop=k if isinstance(k, str) else None, source=k[0] if isinstance(k, tuple) else None,
                                            dest=k[1] if isinstance(k, tuple) else None) for k in keys]
        d_single = pg.Demography(events=base + singles)
        plural = pg.Demography(events=base + [pg.DiscretizedRateChanges(trajectory=dict(traj), start_time=dict(t0), end_time=dict(t1),
                                                                        step_size=step)])

        def tab(d):
            out = []
            for e in d.epochs:
                out.append((float(e.start_time), float(e.end_time), {p: float(e.pop_sizes[p]) for p in names},
                            {k: float(v) for k, v in e.migration_rates.items() if k[0] != k[1]}))
                if e.end_time == np.inf or len(out) > 200:
                    break
            return out
        A, B, P = tab(d_joint), tab(d_single), tab(plural)
    detail = dict(cls=cls, keys=[str(k) for k in keys], x0={str(k): v for k, v in x0.items()}, growth={str(k): v for k, v in g.items()},
                  start={str(k): v for k, v in t0.items()}, end={str(k): v for k, v in t1.items()}, step=step, per_key=per_key, item=i)
    ctx.case(detail, ('exp', cls, len(keys), per_key, i))
    ctx.count(f'exp:{cls}'); ctx.count(f'exp:keys{len(keys)}'); ctx.count('exp:per-key' if per_key else 'exp:scalar-args')

    def same(X, Y):
        return len(X) == len(Y) and all(abs(a[0] - b[0]) <= 1e-12 and (a[1] == b[1] or abs(a[1] - b[1]) <= 1e-12) and
                                        all(abs(a[2][p] - b[2][p]) <= 1e-12 * max(1, abs(b[2][p])) for p in names) and
                                        all(abs(a[3][k] - b[3][k]) <= 1e-12 * max(1, abs(b[3][k])) for k in b[3]) for a, b in zip(X, Y))
    if not same(A, B):
        ctx.violation('composite-event:exponential-vs-single-key-events', **detail, joint=A[:8], one_event_per_key=B[:8]); return
    if not same(P, B):
        ctx.violation('composite-event:discretized-plural-vs-single-key-events', **detail, joint=P[:8], one_event_per_key=B[:8]); return
    # closed form: endpoint mean of the key's own trajectory inside its window
    for (s, e, sizes, mig) in A:
        for k in keys:
            if t0[k] <= s and e <= t1[k] + 1e-12 and e != float('inf'):
                want = 0.5 * (traj[k](s) + traj[k](e))
                got = sizes[k] if isinstance(k, str) else mig[k]
                if abs(got - want) > 1e-9 * max(1.0, abs(want)):
                    ctx.violation('composite-event:endpoint-mean', **detail, epoch=[s, e], key=str(k), expected=want, observed=got); return


def run(ctx):
    import check
    check.pmap(ctx, 'props.c05', 'one', list(range(1500 if ctx.quick else 12000)), case_timeout=120)
    check.pmap(ctx, 'props.c05', 'exp_family', list(range(200 if ctx.quick else 2000)), case_timeout=120)
    # correspondence of the translation user dictionaries -> events -> epochs (PGModel/ConfigDemo.lean `toEvents`, driver command
    # `cfgepochs`) with the real Demography(pop_sizes=..., migration_rates=...) behind a Coalescent, epoch by epoch in axis order
    check.pmap(ctx, 'props.corr_models', 'one_cfg_epochs', list(range(12 if ctx.quick else 120)), case_timeout=300)
    # the MUTABLE Demography object and its hand-over to Coalescent (PGModel/DemoObj.lean, driver command `demoobj`): random
    # histories of constructor / add_events / add_event / epochs / reads / Coalescent(...) on a real object against the model
    check.pmap(ctx, 'props.corr_models', 'one_demoobj', list(range(8 if ctx.quick else 80)), case_timeout=300)


def replay(ctx, payload):
    pg = C.import_phasegen()
    if str(payload.get('signature', '')).startswith('composite-event'):
        ctx.seed = payload['seed']            # the scenario is a deterministic function of (seed, item)
        return exp_family(ctx, payload['item'])
    case = payload['case']
    for e in case['events']:
        if e['kind'] == 'discrete':
            e['sizes'] = {p: {float(t): v for t, v in d.items()} for p, d in e['sizes'].items()}
            e['mig'] = {eval(k) if isinstance(k, str) else tuple(k): {float(t): v for t, v in d.items()} for k, d in e['mig'].items()}
            if 'rate' in e:
                e['rate'] = {float(t): v for t, v in e['rate'].items()}
        if e['kind'] == 'disc':
            e['key'] = tuple(e['key'])
    with C.LogCapture():
        d = build_real(pg, case, payload['order'], payload['via_add'])
    real = table(d, COUNT)
    spec_oracle(ctx, case, real, dict(case=case, order=payload['order'], via_add=payload['via_add'], known_names=list(d.pop_names)))
    ctx.case(dict(case=case), 'replay')
