"""
C19 — inference returns the best run, within bounds, reproducibly.

Direct oracle on the real code: tiny inference problems (1-2 parameters, n <= 4, a few L-BFGS-B iterations,
`parallelize=False`) on noise-free observations generated from known parameters. Checked relations:

 run        params within bounds; loss_inferred == min(loss_runs); len(loss_runs) == n_runs;
            loss_inferred == loss(get_coal(**params_inferred), observation); dist_inferred is the distribution of
            the inferred parameters; result.x are the inferred parameters
 repro      same seed twice  =>  identical params_inferred / loss_runs
 cache      Inference(cache=True) and Inference(cache=False) give identical results
 recover    (thorough) identifiable one-parameter problem with enough iterations recovers the generating value (5%)
 merge      add_run keeps the lower loss, loss_runs is the concatenation, any merge order ends at the global
            minimum with the parameters/distribution that belong to it; add_run of a not-run object raises
 bootstrap  add_bootstrap appends exactly one row (Inference or dict); not-run Inference / wrong type raise
 create_run child.x0 is the given x0 (also after the parent has been run), the child's optimisation starts
            exactly there, out-of-bounds x0 raises ValueError, x0 on the bound is accepted; children of a seeded
            parent get their own seeds, reproducibly
 create_bootstrap  resamples with the parent's rng, reproducibly; n_runs of the child as requested
"""
import os
for _v in ('OMP_NUM_THREADS', 'OPENBLAS_NUM_THREADS', 'MKL_NUM_THREADS'):
    os.environ.setdefault(_v, '1')
import random, math, copy
import numpy as np
import pgcommon as C
import gen

META = dict(
    level='proof',
    rule='a case = one checked relation of one inference scenario: problem (population size | size of an older epoch | '
         'size + migration rate), n <= 4, loss (squared distance on SFS or tree height, L1/L2/Linf norms, Poisson '
         'likelihood), n_runs 1-4, seed, cache flag, start values given or sampled, 2-8 L-BFGS-B iterations, and a '
         'random history of create_run / add_run / create_bootstrap / add_bootstrap; non-trivial = relation evaluated '
         'on a completed run with n_runs >= 2 or on a merge of >= 2 runs or on a derived (child) object',
    trusted_base=['scipy.optimize L-BFGS-B as the optimiser (its convergence is not part of the property except the '
                  'recovery clause, which is exploration)', 'numpy Generator determinism for a fixed seed'],
    assumptions=['losses compared to 1e-9 relative, identical computations to 1e-12; recovery within 5%',
                 'loss_inferred == loss(params_inferred) is evaluated only when the best L-BFGS-B run did not end with '
                 'status 2 (ABNORMAL, failed line search): scipy then does not guarantee fun == f(x)'],
)


def is_timeout(e):
    return type(e).__name__ == 'TimeoutCase'


def close(a, b, rel, abs_=1e-300):
    return C.close(a, b, rel, abs_)


# ----------------------------------------------------------------------------------------------- problems
PROBLEMS = ('size', 'epoch', 'mig', 'two-epoch')


def build_coal(pg, spec, kw):
    n = spec['n']
    p = spec['problem']
    if p == 'size':
        d = pg.Demography(pop_sizes={'pop_0': kw['N']})
        return pg.Coalescent(n=n, demography=d, parallelize=False, pbar=False)
    if p == 'epoch':
        d = pg.Demography(pop_sizes={'pop_0': {0: 1.0, spec['t']: kw['N1']}})
        return pg.Coalescent(n=n, demography=d, parallelize=False, pbar=False)
    if p == 'two-epoch':
        d = pg.Demography(pop_sizes={'pop_0': {0: kw['N0'], spec['t']: kw['N1']}})
        return pg.Coalescent(n=n, demography=d, parallelize=False, pbar=False)
    if p == 'mig':
        d = pg.Demography(pop_sizes={'a': kw['N'], 'b': 1.0}, migration_rates={('a', 'b'): kw['m'], ('b', 'a'): 0.5})
        return pg.Coalescent(n={'a': n - 1, 'b': 1}, demography=d, parallelize=False, pbar=False)
    if p == 'rec':
        # two loci, free recombination rate (the shared state space of get_coal must not keep the rate of another parameter set)
        return pg.Coalescent(n=n, loci=pg.LocusConfig(n=2, recombination_rate=kw['r']), parallelize=False, pbar=False)
    if p == 'rec-size':
        d = pg.Demography(pop_sizes={'pop_0': kw['N']})
        return pg.Coalescent(n=n, loci=pg.LocusConfig(n=2, recombination_rate=kw['r']), demography=d, parallelize=False, pbar=False)
    if p == 'alpha':
        return pg.Coalescent(n=n, model=pg.BetaCoalescent(alpha=kw['alpha']), parallelize=False, pbar=False)
    raise ValueError(p)


def param_names(spec):
    return {'size': ['N'], 'epoch': ['N1'], 'two-epoch': ['N0', 'N1'], 'mig': ['N', 'm'], 'rec': ['r'], 'rec-size': ['r', 'N'],
            'alpha': ['alpha']}[spec['problem']]


def base_loss(pg, spec):
    kind = spec['loss']
    if kind == 'sq':
        return lambda c, o: float(((np.asarray(c.sfs.mean.data) - o) ** 2).sum())
    if kind == 'sq-th':
        return lambda c, o: float((c.tree_height.mean - o[0]) ** 2 + (c.total_branch_length.mean - o[1]) ** 2)
    if kind == 'sq-2l':
        return lambda c, o: float((c.tree_height.mean - o[0]) ** 2 + (c.tree_height.loci.cov[0, 1] - o[1]) ** 2 +
                                  (c.total_branch_length.mean - o[2]) ** 2)
    if kind in ('l1', 'l2', 'linf'):
        norm = {'l1': pg.L1Norm, 'l2': pg.L2Norm, 'linf': pg.LInfNorm}[kind]()
        return lambda c, o: float(norm.compute(np.asarray(c.sfs.mean.data), o))
    if kind == 'poisson':
        lik = pg.PoissonLikelihood()
        return lambda c, o: float(lik.compute(observed=o[1:-1], modelled=np.asarray(c.sfs.mean.data)[1:-1]))
    raise ValueError(kind)


class Problem:
    """the callables handed to Inference; `rec` collects the parameter point of every loss evaluation"""

    def __init__(self, pg, spec):
        self.pg, self.spec = pg, spec
        self.rec = []
        rec = self.rec
        bl = base_loss(pg, spec)
        names = param_names(spec)

        def coal(**kw):
            c = build_coal(pg, spec, kw)
            c._c19_point = {k: float(kw[k]) for k in names}
            return c

        def loss(c, obs):
            rec.append(dict(c._c19_point))
            return bl(c, obs)

        self.coal, self.loss, self.plain_loss = coal, loss, bl
        true = dict(zip(names, spec['true']))
        ct = build_coal(pg, spec, true)
        if spec['loss'] == 'sq-th':
            self.obs = np.array([ct.tree_height.mean, ct.total_branch_length.mean])
        elif spec['loss'] == 'sq-2l':
            self.obs = np.array([ct.tree_height.mean, ct.tree_height.loci.cov[0, 1], ct.total_branch_length.mean])
        else:
            self.obs = np.array(ct.sfs.mean.data, dtype=float) * spec.get('scale', 1.0)
        self.true = true
        self.bounds = {k: tuple(spec['bounds'][i]) for i, k in enumerate(names)}

    def inference(self, seed='spec', cache=None, n_runs=None, x0='spec', maxiter=None, **kw):
        spec = self.spec
        names = param_names(spec)
        if x0 == 'spec':
            x0 = None if spec['x0'] is None else dict(zip(names, spec['x0']))
            # explicit start values may list the parameters in another order than `bounds`
            if x0 is not None and spec.get('x0_rev'):
                x0 = dict(reversed(list(x0.items())))
        return self.pg.Inference(
            bounds=dict(self.bounds), x0=x0, coal=self.coal, loss=self.loss, observation=self.obs,
            resample=lambda o, rng: o * rng.uniform(0.8, 1.25, size=len(o)),
            n_runs=spec['n_runs'] if n_runs is None else n_runs, parallelize=False, pbar=False,
            seed=spec['seed'] if seed == 'spec' else seed, cache=spec['cache'] if cache is None else cache,
            opts=dict(maxiter=spec['maxiter'] if maxiter is None else maxiter), **kw)


def rand_spec(rng, quick):
    problem = rng.choice(['size', 'size', 'epoch', 'two-epoch', 'mig', 'rec', 'rec-size', 'alpha'])
    n = rng.randint(2, 4) if problem not in ('mig', 'rec', 'rec-size') else rng.randint(2, 3)
    nb = {'size': [(0.1, 10.0)], 'epoch': [(0.1, 10.0)], 'two-epoch': [(0.1, 10.0), (0.1, 10.0)],
          'mig': [(0.1, 10.0), (0.05, 4.0)], 'rec': [(0.05, 8.0)], 'rec-size': [(0.05, 8.0), (0.1, 10.0)],
          'alpha': [(1.05, 1.95)]}[problem]
    if rng.random() < 0.3:
        nb = [(lo, rng.choice([1.5, 2.0, 3.0])) for lo, hi in nb]        # tight upper bound: optimum may sit on it
    true = [min(max(gen.dyadic(rng, -2, 2) * rng.choice([1.0, 1.5]), lo * 1.5), hi * 0.9) for lo, hi in nb]
    if rng.random() < 0.15:
        true = [hi * 1.5 for lo, hi in nb]                                # optimum outside the box -> solution on the bound
    loss = rng.choice(['sq', 'sq', 'l1', 'l2', 'linf', 'poisson', 'poisson'] + (['sq-th'] if n >= 2 else []))
    if problem in ('rec', 'rec-size'):
        loss = 'sq-2l'                                                     # no SFS for two loci
    if problem == 'alpha':
        # a MODEL parameter is inferred (the shared state space of get_coal must not serve a model with another alpha, however
        # close); alpha stays inside (1, 2) on every route, so no tight / outside-the-box variants here
        n = max(n, 3)
        nb = [(1.05, 1.95)]
        true = [rng.choice([1.2, 1.4, 1.5, 1.7, 1.85])]
    if n == 2 and loss != 'sq-th' and problem in ('two-epoch', 'mig'):
        n = 3                                                              # one SFS bin cannot identify two parameters
    x0 = None if rng.random() < 0.4 else [round(rng.uniform(lo, hi), 3) for lo, hi in nb]
    return dict(x0_rev=rng.random() < 0.5, problem=problem, n=n, t=rng.choice([0.25, 0.5, 1.0]), true=true, bounds=nb, x0=x0, loss=loss,
                scale=rng.choice([1.0, 1.0, 10.0]) if loss == 'poisson' else 1.0,
                n_runs=rng.choice([1, 2, 2, 3, 3, 4]), seed=rng.choice([0, 0, 1, rng.randint(0, 10 ** 6), rng.randint(0, 10 ** 6), rng.randint(0, 10 ** 6)]), cache=rng.random() < 0.6,
                maxiter=rng.randint(2, 6 if quick else 8))


def rand_scenario(rng, quick):
    spec = rand_spec(rng, quick)
    groups = ['run', 'repro', 'cache', 'merge', 'bootstrap', 'create_run', 'create_bootstrap']
    pick = ['run'] + rng.sample(groups[1:], 2 if quick else 4)
    m = rng.randint(2, 3)
    names = param_names(spec)
    child_x0 = [[round(rng.uniform(lo, hi), 3) for lo, hi in spec['bounds']] for _ in range(m)]
    return dict(spec=spec, groups=pick, merge=dict(target=rng.choice(['parent-run', 'parent-not-run', 'fresh']),
                                                   order=rng.sample(range(m), m), child_x0=child_x0,
                                                   child_runs=[rng.randint(1, 2) for _ in range(m)]),
                oob=dict(which=rng.randrange(len(names)), side=rng.choice(['low', 'high']),
                         by=rng.choice([1e-9, 0.01, 1.0, 100.0])),
                parent_run_first=rng.random() < 0.7)


# ----------------------------------------------------------------------------------------------- checks
class Reporter:
    def __init__(self, ctx, sc):
        self.ctx, self.sc = ctx, sc
        self.key = repr(sorted((k, repr(v)) for k, v in sc['spec'].items()))

    def check(self, ok, sig, nontrivial=True, **detail):
        self.ctx.case(dict(scenario=self.sc, relation=sig, holds=bool(ok), **{k: v for k, v in detail.items() if k in ('expected', 'observed')}),
                      (self.key, sig) if nontrivial else None)
        self.ctx.count(f'rel:{sig.split(":")[0]}')
        if not ok:
            self.ctx.violation(sig, scenario=self.sc, **detail)
        return ok


def attach_recorder(inf):
    """wrap the (public) loss attribute of this very object so that the parameter point of every evaluation is
    recorded; derived objects are dill copies, so a recorder captured at construction would not see their calls"""
    rec = []
    orig = inf.loss

    def loss(c, obs):
        rec.append(dict(c._c19_point))
        return orig(c, obs)

    inf.loss = loss
    return rec


def run_logged(inf):
    with C.LogCapture():
        inf.run()
    return inf


def optimiser_law_holds(R, inf):
    """scipy's L-BFGS-B guarantees fun == f(x) for its normal terminations; after a failed line search (status 2,
    'ABNORMAL') it can return the loss of a neighbouring evaluated point together with an x that was never
    evaluated. The relation loss_inferred == loss(params_inferred) is only evaluated under the optimiser's law;
    other cases are counted as skipped, never as passed."""
    if inf.result is not None and int(getattr(inf.result, 'status', 0)) == 2:
        R.ctx.skipped += 1
        R.ctx.count('skipped:lbfgsb-abnormal-termination')
        return False
    return True


def results_of(inf):
    return dict(params={k: float(v) for k, v in inf.params_inferred.items()}, loss=float(inf.loss_inferred),
                loss_runs=[float(x) for x in inf.loss_runs])


def same_results(a, b, rel):
    return (a['params'].keys() == b['params'].keys() and all(close(a['params'][k], b['params'][k], rel, 1e-12) for k in a['params'])
            and close(a['loss'], b['loss'], rel, 1e-15) and len(a['loss_runs']) == len(b['loss_runs'])
            and all(close(x, y, rel, 1e-15) for x, y in zip(a['loss_runs'], b['loss_runs'])))


def g_run(R, P, spec):
    inf = run_logged(P.inference())
    nt = spec['n_runs'] >= 2
    p = {k: float(v) for k, v in inf.params_inferred.items()}
    R.check(sorted(p) == sorted(param_names(spec)), 'run:param-names', nt, expected=sorted(param_names(spec)), observed=sorted(p))
    inb = all(P.bounds[k][0] <= v <= P.bounds[k][1] for k, v in p.items())
    R.check(inb, 'run:within-bounds', nt, expected={k: list(b) for k, b in P.bounds.items()}, observed=p)
    lr = [float(x) for x in inf.loss_runs]
    R.check(len(lr) == spec['n_runs'], 'run:len-loss_runs', nt, expected=spec['n_runs'], observed=len(lr))
    R.check(len(lr) > 0 and float(inf.loss_inferred) == min(lr), 'run:loss-is-min-of-runs', nt, expected=min(lr) if lr else None,
            observed=float(inf.loss_inferred), loss_runs=lr)
    R.check(all(math.isfinite(x) for x in lr), 'run:finite-losses', nt, expected='finite', observed=lr)
    # loss at the reported parameters: through the object's own route and through a fresh, unshared Coalescent
    l_own = float(P.plain_loss(inf.get_coal(**p), P.obs))
    l_fresh = float(P.plain_loss(P.coal(**p), P.obs))
    tol = 1e-9
    if optimiser_law_holds(R, inf):
        R.check(close(inf.loss_inferred, l_fresh, tol, 1e-14), 'run:loss-at-params', nt, expected=l_fresh, observed=float(inf.loss_inferred),
                params=p, tolerance=tol)
    R.check(close(l_own, l_fresh, tol, 1e-14), 'run:loss-via-get_coal', nt, expected=l_fresh, observed=l_own, params=p, tolerance=tol)
    # reported distribution
    d, f = inf.dist_inferred, P.coal(**p)
    two_loci = spec['problem'] in ('rec', 'rec-size')
    second = (lambda c: [float(c.tree_height.loci.cov[0, 1]), float(c.total_branch_length.var)]) if two_loci else \
        (lambda c: np.asarray(c.sfs.mean.data))
    ok = d is not None and close(d.tree_height.mean, f.tree_height.mean, 1e-9) and \
        all(close(x, y, 1e-9, 1e-14) for x, y in zip(second(d), second(f)))
    R.check(ok, 'run:dist-of-params', nt, expected=float(f.tree_height.mean), observed=None if d is None else float(d.tree_height.mean), params=p)
    e0d, e0f = d.demography.get_epoch(0), f.demography.get_epoch(0)
    R.check(dict(e0d.pop_sizes) == dict(e0f.pop_sizes) and dict(e0d.migration_rates) == dict(e0f.migration_rates),
            'run:dist-demography', nt, expected=str(e0f), observed=str(e0d))
    # the seed that was given is the seed that is used (0 is a seed like any other): a second object with the same seed draws the
    # same start point
    if spec['x0'] is None:
        twin = P.inference()
        R.check(dict(twin.x0) == dict(P.inference().x0) and twin.seed == spec['seed'], 'run:seed-used', True, expected=spec['seed'],
                observed=dict(seed=twin.seed, x0=[dict(twin.x0), dict(P.inference().x0)]))
    R.check(inf.result is not None and [float(v) for v in inf.result.x] == list(p.values()) and float(inf.result.fun) == float(inf.loss_inferred),
            'run:result-object', nt, expected=p, observed=None if inf.result is None else [float(v) for v in inf.result.x])
    # start values: given ones are used, sampled ones lie in the box
    x0 = dict(inf.x0)
    if spec['x0'] is not None:
        R.check([x0[k] for k in param_names(spec)] == list(spec['x0']), 'run:x0-given', nt, expected=spec['x0'], observed=x0)
    R.check(all(P.bounds[k][0] <= v <= P.bounds[k][1] for k, v in x0.items()), 'run:x0-in-bounds', nt, expected='in bounds', observed=x0)
    return inf


def g_repro(R, P, spec):
    ia, ib = P.inference(), P.inference()
    pts_a, pts_b = attach_recorder(ia), attach_recorder(ib)
    a = results_of(run_logged(ia))
    b = results_of(run_logged(ib))
    nt = spec['n_runs'] >= 2 or spec['x0'] is None
    R.check(same_results(a, b, 1e-12), 'repro:same-seed-same-result', nt, expected=a, observed=b)
    R.check(pts_a == pts_b, 'repro:same-seed-same-trajectory', nt, expected=pts_a[:3], observed=pts_b[:3])
    if spec['n_runs'] >= 2 or spec['x0'] is None:
        c = P.inference(seed=spec['seed'] + 1)
        xa, xc = P.inference().x0, c.x0
        if spec['x0'] is None:
            R.check(dict(xa) != dict(xc), 'repro:other-seed-other-start', True, expected='different start values', observed=[dict(xa), dict(xc)])


def g_cache(R, P, spec):
    a = results_of(run_logged(P.inference(cache=True)))
    b = results_of(run_logged(P.inference(cache=False)))
    R.check(same_results(a, b, 1e-9), 'cache:on-equals-off', True, expected=b, observed=a, tolerance=1e-9)


def g_recover(R, pg, rng_spec):
    spec = dict(rng_spec, problem='size', loss='sq', n=max(3, rng_spec['n']), bounds=[(0.1, 10.0)], x0=None, n_runs=3,
                maxiter=200, true=[min(max(rng_spec['true'][0], 0.3), 6.0)], scale=1.0)
    P = Problem(pg, spec)
    inf = run_logged(P.inference())
    est, tr = float(inf.params_inferred['N']), spec['true'][0]
    R.check(abs(est - tr) <= 0.05 * tr, 'recover:size', True, expected=tr, observed=est, tolerance='5%', recover_spec=spec,
            loss_runs=[float(x) for x in inf.loss_runs])


def g_merge(R, P, spec, sc):
    mg = sc['merge']
    names = param_names(spec)
    parent = P.inference()
    target_kind = mg['target']
    if target_kind == 'parent-run' or sc['parent_run_first']:
        run_logged(parent)
    children = []
    for x0, nr in zip(mg['child_x0'], mg['child_runs']):
        ch = parent.create_run(dict(zip(names, x0)))
        ch.n_runs = nr
        children.append(run_logged(ch))
    if target_kind == 'parent-run':
        target = parent
    elif target_kind == 'parent-not-run':
        target = P.inference()
    else:
        target = P.inference(seed=None, x0=None)
    # a not-run object must be refused and leave the target as it was
    before = (target.loss_inferred, [float(x) for x in target.loss_runs], dict(target.params_inferred))
    try:
        target.add_run(P.inference())
        raised = None
    except Exception as e:
        if is_timeout(e):
            raise
        raised = type(e).__name__
    R.check(raised is not None, 'merge:add-not-run-raises', True, expected='an exception', observed='accepted')
    after = (target.loss_inferred, [float(x) for x in target.loss_runs], dict(target.params_inferred))
    R.check(before == after, 'merge:refused-add-leaves-target', True, expected=str(before), observed=str(after))
    # model of the merge
    runs = []          # (loss, params, dist id)
    if target.loss_inferred is not None:
        runs.append((float(target.loss_inferred), dict(target.params_inferred), id(target.dist_inferred)))
    exp_losses = [float(x) for x in target.loss_runs]
    for step, j in enumerate(mg['order']):
        ch = children[j]
        prev_best = min((r[0] for r in runs), default=None)
        target.add_run(ch)
        runs.append((float(ch.loss_inferred), dict(ch.params_inferred), id(ch.dist_inferred)))
        exp_losses += [float(x) for x in ch.loss_runs]
        best = min(r[0] for r in runs)
        R.check([float(x) for x in target.loss_runs] == exp_losses, 'merge:loss_runs-concatenated', True, expected=exp_losses,
                observed=[float(x) for x in target.loss_runs], merge_step=step)
        R.check(float(target.loss_inferred) == best, 'merge:keeps-lower-loss', True, expected=best, observed=float(target.loss_inferred),
                merged=[r[0] for r in runs], merge_step=step)
        owners = [r for r in runs if r[0] == float(target.loss_inferred)]
        R.check(any(dict(target.params_inferred) == r[1] for r in owners), 'merge:params-belong-to-loss', True,
                expected=[r[1] for r in runs if r[0] == best], observed=dict(target.params_inferred), merge_step=step)
        R.check(any(id(target.dist_inferred) == r[2] for r in owners), 'merge:dist-belongs-to-loss', True,
                expected='dist_inferred of the run with the reported loss', observed='another object', merge_step=step)
        if target.result is not None:
            R.check(float(target.result.fun) == float(target.loss_inferred), 'merge:result-belongs-to-loss', True,
                    expected=float(target.loss_inferred), observed=float(target.result.fun), merge_step=step)
    # the reverse order must end at the same loss
    t2 = P.inference(seed=None, x0=None)
    for j in reversed(mg['order']):
        t2.add_run(children[j])
    gl = min(float(ch.loss_inferred) for ch in children)
    R.check(float(t2.loss_inferred) == gl, 'merge:order-independent-minimum', True, expected=gl, observed=float(t2.loss_inferred))
    t3 = P.inference(seed=None, x0=None)
    t3.add_runs([children[j] for j in mg['order']])
    R.check(float(t3.loss_inferred) == gl and len(t3.loss_runs) == sum(len(ch.loss_runs) for ch in children), 'merge:add_runs', True,
            expected=gl, observed=float(t3.loss_inferred))


def g_bootstrap(R, P, spec, sc):
    names = param_names(spec)
    parent = run_logged(P.inference())
    cols = list(parent.bootstraps.columns)
    R.check(cols == names and len(parent.bootstraps) == 0, 'bootstrap:starts-empty', True, expected=[names, 0], observed=[cols, len(parent.bootstraps)])
    n0 = len(parent.bootstraps)
    d = {k: float(v) * 1.01 for k, v in parent.params_inferred.items()}
    parent.add_bootstrap(d)
    R.check(len(parent.bootstraps) == n0 + 1 and [float(parent.bootstraps.iloc[-1][k]) for k in names] == [d[k] for k in names],
            'bootstrap:dict-appends-one-row', True, expected=[n0 + 1, d], observed=[len(parent.bootstraps), parent.bootstraps.values.tolist()])
    b = parent.create_bootstrap(n_runs=1)
    run_logged(b)
    n1 = len(parent.bootstraps)
    parent.add_bootstrap(b)
    R.check(len(parent.bootstraps) == n1 + 1 and [float(parent.bootstraps.iloc[-1][k]) for k in names] == [float(b.params_inferred[k]) for k in names],
            'bootstrap:inference-appends-one-row', True, expected=[n1 + 1, {k: float(v) for k, v in b.params_inferred.items()}],
            observed=[len(parent.bootstraps), parent.bootstraps.values.tolist()])
    n2 = len(parent.bootstraps)
    parent.add_bootstraps([d, b, d])
    R.check(len(parent.bootstraps) == n2 + 3, 'bootstrap:add_bootstraps', True, expected=n2 + 3, observed=len(parent.bootstraps))
    # the main result is not touched by bootstraps
    R.check(len(parent.loss_runs) == spec['n_runs'], 'bootstrap:leaves-loss_runs', True, expected=spec['n_runs'], observed=len(parent.loss_runs))
    for bad, name in ((P.inference(), 'not-run'), ([1.0], 'wrong-type')):
        n3 = len(parent.bootstraps)
        try:
            parent.add_bootstrap(bad)
            raised = None
        except Exception as e:
            if is_timeout(e):
                raise
            raised = type(e).__name__
        R.check(raised is not None and len(parent.bootstraps) == n3, f'bootstrap:{name}-raises', True, expected='an exception, no row',
                observed=f'raised={raised} rows={len(parent.bootstraps) - n3}')


def g_create_run(R, P, spec, sc):
    names = param_names(spec)
    parent = P.inference()
    ran = sc['parent_run_first']
    if ran:
        run_logged(parent)
    else:
        _ = parent.x0 if spec['seed'] % 2 else None          # sometimes the parent's start values are already cached
    x0 = dict(zip(names, sc['merge']['child_x0'][0]))
    ch = parent.create_run(dict(x0))
    R.check(dict(ch.x0) == x0, 'create_run:x0-is-the-given', ran, expected=x0, observed=dict(ch.x0), parent_was_run=ran)
    rec = attach_recorder(ch)
    run_logged(ch)
    first = rec[0] if rec else None
    R.check(first == x0, 'create_run:starts-at-x0', ran, expected=x0, observed=first, parent_was_run=ran)
    R.check(ch is not parent and (not ran or len(parent.loss_runs) == spec['n_runs']), 'create_run:parent-untouched', ran,
            expected=spec['n_runs'], observed=len(parent.loss_runs))
    # values on the bound are fine, values outside are rejected
    edge = {k: (P.bounds[k][0] if i % 2 == 0 else P.bounds[k][1]) for i, k in enumerate(names)}
    try:
        e_ch = parent.create_run(dict(edge))
        ok = dict(e_ch.x0) == edge
        obs = dict(e_ch.x0)
    except Exception as e:
        if is_timeout(e):
            raise
        ok, obs = False, f'raised {type(e).__name__}'
    R.check(ok, 'create_run:x0-on-bound-accepted', ran, expected=edge, observed=obs)
    oob = dict(x0)
    k = names[sc['oob']['which']]
    oob[k] = P.bounds[k][0] - sc['oob']['by'] * P.bounds[k][0] if sc['oob']['side'] == 'low' else P.bounds[k][1] + sc['oob']['by'] * P.bounds[k][1]
    try:
        parent.create_run(dict(oob))
        raised = None
    except Exception as e:
        if is_timeout(e):
            raise
        raised = type(e).__name__
    R.check(raised == 'ValueError', 'create_run:out-of-bounds-raises', ran, expected='ValueError', observed=raised or 'accepted',
            x0=oob, bounds={k: list(v) for k, v in P.bounds.items()}, parent_was_run=ran)
    # seeds of the children: own, distinct, reproducible
    pa, pb = P.inference(), P.inference()
    if ran:
        run_logged(pa); run_logged(pb)
    ca = [pa.create_run(dict(x0)) for _ in range(2)]
    cb = [pb.create_run(dict(x0)) for _ in range(2)]
    seeds_a, seeds_b = [int(c.seed) for c in ca], [int(c.seed) for c in cb]
    R.check(seeds_a == seeds_b, 'create_run:child-seeds-reproducible', ran, expected=seeds_a, observed=seeds_b)
    R.check(seeds_a[0] != seeds_a[1] and int(pa.seed) not in seeds_a, 'create_run:child-has-own-seed', ran,
            expected='two distinct seeds different from the parent seed', observed=dict(parent=int(pa.seed), children=seeds_a))
    draws = [[float(v) for v in copy.deepcopy(c)._rng.uniform(size=3)] for c in ca]
    ref = [[float(v) for v in np.random.default_rng(s).uniform(size=3)] for s in seeds_a]
    R.check(draws == ref, 'create_run:child-rng-from-its-seed', ran, expected=ref, observed=draws)
    R.check(draws[0] != draws[1], 'create_run:children-draw-different-starts', ran, expected='different streams', observed=draws)


def g_create_bootstrap(R, P, spec, sc):
    pa, pb = P.inference(), P.inference()
    ran = sc['parent_run_first']
    if ran:
        run_logged(pa); run_logged(pb)
    nr = 1 + spec['seed'] % 3
    ba = [pa.create_bootstrap(n_runs=nr) for _ in range(2)]
    bb = [pb.create_bootstrap(n_runs=nr) for _ in range(2)]
    oa, ob = [np.asarray(b.observation, dtype=float).tolist() for b in ba], [np.asarray(b.observation, dtype=float).tolist() for b in bb]
    R.check(oa == ob, 'create_bootstrap:reproducible', ran, expected=oa, observed=ob)
    R.check(oa[0] != oa[1], 'create_bootstrap:successive-resamples-differ', ran, expected='different resamples', observed=oa)
    R.check(all(b.n_runs == nr for b in ba), 'create_bootstrap:n_runs', ran, expected=nr, observed=[b.n_runs for b in ba])
    R.check(np.asarray(pa.observation, dtype=float).tolist() == P.obs.tolist(), 'create_bootstrap:parent-observation-kept', ran,
            expected=P.obs.tolist(), observed=np.asarray(pa.observation, dtype=float).tolist())
    # the parent's rng is the source: a parent that has not drawn anything yet resamples with the first draws of its seed
    if not ran and spec['x0'] is not None:
        rng = np.random.default_rng(spec['seed'])
        exp = [(P.obs * rng.uniform(0.8, 1.25, size=len(P.obs))).tolist() for _ in range(2)]
        R.check(oa == exp, 'create_bootstrap:uses-parent-rng', True, expected=exp, observed=oa)
    # a bootstrap replicate can be run and is fitted to ITS observation
    b0 = run_logged(ba[0])
    p = {k: float(v) for k, v in b0.params_inferred.items()}
    l_fresh = float(P.plain_loss(P.coal(**p), np.asarray(b0.observation, dtype=float)))
    if optimiser_law_holds(R, b0):
        R.check(close(b0.loss_inferred, l_fresh, 1e-9, 1e-14), 'create_bootstrap:loss-on-resampled-observation', ran, expected=l_fresh,
                observed=float(b0.loss_inferred))


def evaluate(ctx, pg, sc):
    spec = sc['spec']
    P = Problem(pg, spec)
    R = Reporter(ctx, sc)
    ctx.count(f'problem:{spec["problem"]}'); ctx.count(f'loss:{spec["loss"]}'); ctx.count(f'n_runs:{spec["n_runs"]}')
    ctx.count('x0:given' if spec['x0'] is not None else 'x0:sampled'); ctx.count(f'cache:{spec["cache"]}')
    for g in sc['groups']:
        ctx.count(f'group:{g}')
        if g == 'run':
            g_run(R, P, spec)
        elif g == 'repro':
            g_repro(R, P, spec)
        elif g == 'cache':
            g_cache(R, P, spec)
        elif g == 'merge':
            g_merge(R, P, spec, sc)
        elif g == 'bootstrap':
            g_bootstrap(R, P, spec, sc)
        elif g == 'create_run':
            g_create_run(R, P, spec, sc)
        elif g == 'create_bootstrap':
            g_create_bootstrap(R, P, spec, sc)
        elif g == 'recover':
            g_recover(R, pg, spec)


def check_losses(ctx, pg, k, mu):
    """the loss functions the property names are what they say: `LNorm(p).compute(a, b)` is the p-norm of a - b and
    `PoissonLikelihood.compute(observed, modelled)` the negative log-likelihood of independent Poisson counts - also where an
    observed class is empty (its term is the modelled mean itself)"""
    import math
    k, mu = np.asarray(k, dtype=float), np.asarray(mu, dtype=float)
    want = -sum(ki * math.log(mi) - mi - math.lgamma(ki + 1) for ki, mi in zip(k, mu))
    got = float(pg.PoissonLikelihood().compute(observed=k, modelled=mu))
    if not close(got, want, 1e-10, 1e-12):
        ctx.violation('loss:poisson-likelihood', mode='losses', observed=k.tolist(), modelled=mu.tolist(), expected=want, returned=got,
                      oracle='- sum_i log Poisson(k_i; mu_i)')
    d = k - mu
    for name, norm, w in (('L1', pg.L1Norm(), float(np.abs(d).sum())), ('L2', pg.L2Norm(), float(math.sqrt((d * d).sum()))),
                          ('Linf', pg.LInfNorm(), float(np.abs(d).max())), ('L3', pg.LNorm(3), float((np.abs(d) ** 3).sum() ** (1 / 3)))):
        g = float(norm.compute(k, mu))
        if not close(g, w, 1e-12, 1e-300):
            ctx.violation(f'loss:{name}', mode='losses', observed=k.tolist(), modelled=mu.tolist(), expected=w, returned=g)
    # correspondence with the Lean model of the norms (PGModel/Loss.lean, driver command `loss`; theorems: PGProofs/LossThm.lean):
    # the floats are dyadic rationals, the model's value is the exact norm of exactly these vectors
    if len(k) == len(mu) and len(k) > 0 and np.all(np.isfinite(k)) and np.all(np.isfinite(mu)):
        a, b = C.rlist(C.frac(float(x)) for x in k), C.rlist(C.frac(float(x)) for x in mu)
        for kind, real in (('l1', float(pg.L1Norm().compute(k, mu))), ('linf', float(pg.LInfNorm().compute(k, mu))),
                           ('sql2', float(pg.L2Norm().compute(k, mu)) ** 2)):
            line = f'loss {kind} {a} {b}'
            model = C.parse_rat(C.driver().ask(line))
            if not close(real, float(model), 1e-12, 1e-300):
                ctx.corr_break('loss-norm', request=line, kind=kind, model=C.rs(model), model_float=float(model), real=real)
        ctx.count('loss-norm-model')
    ctx.count('loss-functions')


def one(ctx, item):
    pg = C.import_phasegen()
    rng = random.Random(f'{ctx.seed}-c19-{item}')
    rl = random.Random(f'{ctx.seed}-c19-loss-{item}')
    m = rl.randint(2, 8)
    check_losses(ctx, pg, [rl.choice([0, 0, 1, 2, 5, 12, 31, 60]) for _ in range(m)],
                 [2.0 ** rl.randint(-4, 5) * rl.choice([1.0, 1.5, 1.1]) for _ in range(m)])
    sc = rand_scenario(rng, ctx.quick)
    if item[0] == 'recover':
        sc['groups'] = ['recover']
    evaluate(ctx, pg, sc)


def run(ctx):
    import check
    q = ctx.quick
    items = [('sc', i) for i in range(160 if q else 800)]
    if not q:
        items += [('recover', i) for i in range(30)]
    ctx.rng.shuffle(items)
    check.pmap(ctx, 'props.c19', 'one', items, case_timeout=300 if q else 900)

    # correspondence with the Lean bookkeeping model (driver command), see props/corr_models.py
    check.pmap(ctx, 'props.corr_models', 'one_infer', list(range(16 if q else 120)), case_timeout=300)
    # state-space sharing on/off (PGModel/Share.lean, driver command `share`): which configuration's rate matrix every read returns
    check.pmap(ctx, 'props.corr_models', 'one_share', list(range(1000, 1016 if q else 1120)), case_timeout=600)


def replay(ctx, payload):
    if payload.get('mode') == 'losses':
        return check_losses(ctx, C.import_phasegen(), payload['observed'], payload['modelled'])
    pg = C.import_phasegen()
    sc = payload['scenario']
    sc['spec']['bounds'] = [tuple(b) for b in sc['spec']['bounds']]
    if payload['signature'].startswith('recover'):
        sc['groups'] = ['recover']
    else:
        sc['groups'] = [payload['signature'].split(':')[0]]
    evaluate(ctx, pg, sc)
