"""
C03 — tree-height CDF, density and quantiles describe the true time to the MRCA.

Correspondence (L-full): real cdf / quantile / pdf against the Lean model (`cdf` = code model of the sorted sweep
with the running product, `quantileLoop` over the model CDF, derivative of the model CDF).
Direct oracle on the real code: cdf(0)=0, monotone, in [0,1], -> 1; |cdf(quantile(q)) - q| <= 1e-5;
integral of 1-cdf = mean.
"""
import random, math
import numpy as np
from fractions import Fraction
import pgcommon as C
import conv, gen

META = dict(
    level='proof',
    rule='random configurations with 1 or 2 loci, 1-3 demes, 1-3 epochs; cdf evaluated on grids that contain exact '
         'epoch boundaries, 0, duplicates, unsorted points; quantiles at several levels; pdf at interior points; '
         'non-trivial = >= 3 states and (>= 2 epochs or two loci); plus two families: many short epochs inside one quantile search step, and size trajectories given as discretised events against the same demography written out epoch by epoch',
    trusted_base=['PT2/PT3 (transition probabilities of the CTMC; coalescent = that CTMC) textbook, modelled',
                  'fixExp ~ exp (driver selftest)', 'scipy.linalg.expm / IEEE doubles'],
    assumptions=['cdf compared at 1e-9 absolute; quantile through |F_model(q_real) - q| <= 1.2e-5 (precision of the '
                 'bisection); pdf at 2e-3 relative + 1e-4/q99 absolute (the code differentiates numerically with dx = q99/1e10; two independent expm evaluations of accuracy ~1e-13 divided by dx give noise of that size - observed up to 3e-4 relative on the unchanged tree); '
                 'integral of 1-cdf by Gauss-Legendre on geometric sub-intervals of every epoch at 2e-5 relative'],
)


def grid(cfg, rng, T):
    pts = [0.0]
    for e in cfg['epochs'][1:]:
        pts += [e['start'], e['start'], e['start'] / 2, e['start'] * 1.5]
    pts += [rng.choice([0.125, 0.25, 0.5, 1.0, 2.0, 3.0]) for _ in range(4)]
    pts += [T / 4, T]
    rng.shuffle(pts)
    return pts[:12]


def compare(ctx, cfg, pg, state_max, rng):
    coal = conv.make_coalescent(pg, cfg)
    th = coal.tree_height
    n_ep = len(cfg['epochs'])
    drv = C.driver()
    with C.LogCapture() as lc:
        q99 = th.quantile(0.99)
    if lc.records:
        ctx.count('warned'); ctx.skipped += 1
        return
    k_states = conv.setup_model(drv, cfg, 'lc')
    if k_states > state_max:
        ctx.skipped += 1; ctx.count('too-large')
        return
    ts = grid(cfg, rng, float(q99))
    with C.LogCapture() as lc:
        real = np.array(th.cdf(np.array(ts)), dtype=float)
    if lc.records:
        ctx.count('warned'); ctx.skipped += 1
        return
    model = [float(x) for x in conv.model_cdf(drv, ts)]
    ctx.case(dict(cfg=cfg, times=ts, model=model, real=real.tolist()),
             gen.cfg_key(cfg) if k_states >= 3 and (n_ep >= 2 or cfg.get('loci', 1) == 2) else None)
    ctx.count(f'loci{cfg.get("loci", 1)}'); ctx.count(f'epochs{n_ep}'); ctx.count(cfg['model'][0])
    if any(t in [e['start'] for e in cfg['epochs'][1:]] for t in ts):
        ctx.count('point-on-boundary')
    for t, a, b in zip(ts, model, real):
        if not abs(a - b) <= 1e-9:
            ctx.violation('cdf-value', cfg=cfg, t=t, expected=a, observed=float(b), times=ts, oracle='Lean model cdf (fixExp)')
            return
    # shape on a dense sorted grid of the real cdf
    dense = np.linspace(0, float(q99) * 1.5, 60)
    F = np.array(th.cdf(dense), dtype=float)
    n = sum(cfg['n'].values())
    if abs(F[0]) > 1e-12:
        ctx.violation('cdf-zero', cfg=cfg, observed=float(F[0]))
    if (np.diff(F) < -1e-10).any():
        ctx.violation('cdf-monotone', cfg=cfg, grid=dense.tolist(), values=F.tolist())
    if (F < -1e-10).any() or (F > 1 + 1e-10).any():
        ctx.violation('cdf-range', cfg=cfg, values=F.tolist())
    # quantiles
    for q in (0.05, 0.5, 0.9, rng.choice([0.25, 0.75, 0.99])):
        tq = float(th.quantile(q))
        Fm = float(conv.model_cdf(drv, [tq])[0])
        if not abs(Fm - q) <= 1.2e-5:
            ctx.violation('quantile', cfg=cfg, q=q, returned=tq, cdf_at_returned=Fm, tolerance=1.2e-5)
        ctx.count('quantiles')
    # pdf against the derivative of the model cdf
    for t in (float(q99) / 7, float(q99) / 3):
        h = Fraction(1, 2 ** 24)
        tf = C.frac(t)
        d = conv.model_cdf(drv, [tf - h, tf + h])
        want = float((d[1] - d[0]) / (2 * h))
        got = float(th.pdf(t))
        # the code's finite difference (dx = q99 / 1e10) carries float cancellation noise of about eps / dx
        if not abs(got - want) <= 2e-3 * abs(want) + 1e-4 / float(q99) + 1e-6:
            ctx.violation('pdf', cfg=cfg, t=t, expected=want, observed=got)
        # a density is non-negative; where the cdf is flat the code's difference quotient returns pure rounding noise of
        # either sign (cdf rounding ~1e-15 divided by dx ~1e-9), so only a value below that noise floor is a violation
        if got < -(1e-4 / float(q99) + 1e-6):
            ctx.violation('pdf-negative', cfg=cfg, t=t, observed=got, noise_floor=1e-4 / float(q99) + 1e-6)
    # integral of 1 - cdf reproduces the mean (only when coalescence is certain: default horizon found)
    if cfg.get('end_time') is None:
        with C.LogCapture() as lc:
            mean = float(th.mean); T = float(th.t_max)
        if not lc.records:
            # split the integral at the epoch boundaries, Simpson on each piece
            cuts = sorted({0.0, T} | {e['start'] for e in cfg['epochs'] if e['start'] < T})
            total = 0.0
            gx, gw = np.polynomial.legendre.leggauss(16)
            for a, b in zip(cuts[:-1], cuts[1:]):
                # 1 - cdf is a sum of decaying exponentials on each piece: Gauss-Legendre on geometrically growing
                # sub-intervals resolves every rate scale
                J = 30
                edges = a + (b - a) * (2.0 ** np.arange(J + 1) - 1) / (2.0 ** J - 1)
                for lo, hi in zip(edges[:-1], edges[1:]):
                    xs = 0.5 * (hi - lo) * gx + 0.5 * (hi + lo)
                    ys = 1.0 - np.array(th.cdf(xs), dtype=float)
                    total += 0.5 * (hi - lo) * float(np.dot(gw, ys))
            if not abs(total - mean) <= 2e-5 * abs(mean) + 1e-9 and T < 1e4:
                ctx.violation('integral-mean', cfg=cfg, integral=total, mean=mean, t_max=T)
            ctx.count('integral-checked')


def one(ctx, i):
    pg = C.import_phasegen()
    rng = random.Random(f'{ctx.seed}-c03-{i}')
    quick = ctx.quick
    if rng.random() < 0.3:
        cfg = gen.rand_cfg(rng, n_max=3 if quick else 4, demes_max=2 if not quick else 1 + (rng.random() < 0.3), epochs_max=2, loci=2)
    else:
        cfg = gen.rand_cfg(rng, n_max=5 if quick else 7, demes_max=3, epochs_max=3)
    compare(ctx, cfg, pg, 45 if quick else 100, rng)


def survival_n2(cfg, t):
    """closed form for two lineages in one deme under Kingman: P(T > t) = exp(-int_0^t ds / N(s))"""
    name = list(cfg['n'])[0]
    eps = cfg['epochs']
    acc = 0.0
    for i, e in enumerate(eps):
        a = e['start']
        b = eps[i + 1]['start'] if i + 1 < len(eps) else math.inf
        if t <= a:
            break
        acc += (min(t, b) - a) / e['sizes'][name]
    return math.exp(-acc)


def quantile_coal(pg, cfg):
    """the Coalescent of a quantile-family configuration; with cfg['grown'] the SAME demography, but the object was first used
    with only its first epochs (a quantile was taken on it) and the later size changes were added afterwards: a Coalescent built
    on it then is the Coalescent of the whole history"""
    if not cfg.get('grown'):
        return conv.make_coalescent(pg, cfg)
    eps = cfg['epochs']
    (name, _), = cfg['n'].items()
    j = max(1, len(eps) // 2)
    with C.LogCapture():
        d = pg.Demography(pop_sizes={name: {e['start']: e['sizes'][name] for e in eps[:j]}})
        pg.Coalescent(n={name: 2}, demography=d, parallelize=False, pbar=False).tree_height.quantile(0.5)
        for e in eps[j:]:
            d.add_event(pg.PopSizeChange(pop=name, time=e['start'], size=e['sizes'][name]))
        return pg.Coalescent(n={name: 2}, demography=d, parallelize=False, pbar=False)


def quantile_family(ctx, i):
    """many short epochs (several boundaries inside one doubling / bisection step of the quantile search), two lineages in one
    deme: |F(quantile(q)) - q| <= 1e-5 with F the closed form AND the real cdf"""
    pg = C.import_phasegen()
    rng = random.Random(f'{ctx.seed}-c03-q-{i}')
    name = rng.choice(rng.choice(gen.NAME_SETS))
    k = rng.randint(3, 6)
    t, eps = 0.0, []
    for j in range(k):
        eps.append(dict(start=t, sizes={name: float(2.0 ** rng.randint(-4, 5))}, mig={}))
        t += rng.choice([0.0625, 0.125, 0.1875, 0.25, 0.4375, 0.75, 1.5])
    cfg = dict(n={name: 2}, model=('kingman',), epochs=eps, loci=1)
    if k % 2 == 0:
        cfg['grown'] = True
        ctx.count('quantile-family:demography-grown-after-use')
    coal = quantile_coal(pg, cfg)
    th = coal.tree_height
    ctx.case(dict(cfg=cfg, family='quantile'), ('q', gen.cfg_key(cfg)))
    ctx.count(f'quantile-family-epochs{k}')
    for q in (0.01, 0.3, 0.5, 0.8, 0.97, rng.choice([0.1, 0.6, 0.9, 0.999])):
        with C.LogCapture() as lc:
            tq = float(th.quantile(q))
            Fr = float(th.cdf(tq))
        if lc.records:
            ctx.count('warned'); continue
        Fc = 1.0 - survival_n2(cfg, tq)
        if not (abs(Fc - q) <= 1.2e-5 and abs(Fr - q) <= 1.2e-5):
            ctx.violation('quantile', cfg=cfg, q=q, returned=tq, cdf_at_returned=Fc, real_cdf_at_returned=Fr, tolerance=1.2e-5,
                          oracle='closed form 1 - exp(-int ds/N(s)) for two lineages in one deme')
            return
        ctx.count('quantiles')


def trajectory_family(ctx, i, params=None):
    """a size trajectory given as a DISCRETISED event (exponential growth from a start time > 0 or 0, finite or infinite window)
    against the same demography written out epoch by epoch with the documented rule (inside the window every grid step takes the
    mean of the trajectory at its two ends; before the window the earlier size, after it the last step's value): cdf, pdf and
    quantiles of the two Coalescents are the same numbers"""
    pg = C.import_phasegen()
    rng = random.Random(f'{ctx.seed}-c03-traj-{i}')
    if params is None:
        params = dict(n=rng.choice([2, 2, 3]), x0=rng.choice([0.5, 1.0, 2.0]), g=rng.choice([-1.0, -0.5, 0.5, 0.8]),
                      start=rng.choice([0.0, 0.25, 0.5, 1.0]), steps=rng.choice([2, 4, 8, None]), step=rng.choice([0.125, 0.25]),
                      before=rng.choice([1.0, 3.0]), cls=rng.choice(['ExponentialPopSizeChanges', 'ExponentialRateChanges', 'DiscretizedRateChange']))
    P = params
    s0, st = P['start'], P['step']
    end = None if P['steps'] is None else s0 + P['steps'] * st
    f = lambda t: P['x0'] * math.exp(-P['g'] * (t - s0))
    kw = dict(start_time=s0, step_size=st, **({} if end is None else dict(end_time=end)))
    with C.LogCapture():
        if P['cls'] == 'ExponentialPopSizeChanges':
            ev = pg.ExponentialPopSizeChanges(initial_size={'pop_0': P['x0']}, growth_rate=P['g'], **kw)
        elif P['cls'] == 'ExponentialRateChanges':
            ev = pg.ExponentialRateChanges(initial_rate={'pop_0': P['x0']}, growth_rate=P['g'], **kw)
        else:
            ev = pg.DiscretizedRateChange(trajectory=f, pop='pop_0', **kw)
        c_ev = pg.Coalescent(n=P['n'], demography=pg.Demography(events=[pg.PopSizeChange(pop='pop_0', time=0, size=P['before']), ev]),
                             parallelize=False, pbar=False)
        horizon = end if end is not None else s0 + 40 * st          # compare inside [0, horizon) when the window never ends
        sizes, t = {0.0: P['before']}, s0
        while t < horizon - 1e-12:
            sizes[t] = (f(t) + f(t + st)) / 2
            t += st
        c_ex = pg.Coalescent(n=P['n'], demography=pg.Demography(pop_sizes={'pop_0': sizes}), parallelize=False, pbar=False)
        ts = sorted({s0 * 0.5, s0, s0 + st / 2, s0 + st, s0 + 1.5 * st, (horizon + s0) / 2, horizon - st / 4} |
                    ({horizon, horizon + 0.5, horizon + 2.0} if end is not None else set()))
        ts = [x for x in ts if x >= 0]
        a, b = np.asarray(c_ev.tree_height.cdf(ts), dtype=float), np.asarray(c_ex.tree_height.cdf(ts), dtype=float)
        qa = qb = None
        if end is not None:
            qa, qb = [float(c_ev.tree_height.quantile(q)) for q in (0.25, 0.5, 0.9)], [float(c_ex.tree_height.quantile(q)) for q in (0.25, 0.5, 0.9)]
    ctx.case(dict(kind='trajectory', params=P, times=ts, cdf_event=a.tolist(), cdf_explicit=b.tolist()), repr(sorted(P.items(), key=str)))
    ctx.count(f'trajectory:{P["cls"]}'); ctx.count('trajectory:start>0' if s0 > 0 else 'trajectory:start=0')
    ctx.count('trajectory:finite-window' if end is not None else 'trajectory:infinite-window')
    if not np.allclose(a, b, rtol=1e-9, atol=1e-12):
        ctx.violation('trajectory:cdf', trajectory_params=P, times=ts, discretised_event=a.tolist(), explicit_epochs=b.tolist(),
                      oracle='the same demography written out epoch by epoch (endpoint mean on every grid step)')
    elif qa is not None and not np.allclose(qa, qb, rtol=1e-6, atol=1e-9):
        ctx.violation('trajectory:quantile', trajectory_params=P, q=[0.25, 0.5, 0.9], discretised_event=qa, explicit_epochs=qb)


def run(ctx):
    import check
    check.pmap(ctx, 'props.c03', 'one', list(range(64 if ctx.quick else 200)), case_timeout=200 if ctx.quick else 1500)
    check.pmap(ctx, 'props.c03', 'quantile_family', list(range(96 if ctx.quick else 600)), case_timeout=200)
    check.pmap(ctx, 'props.c03', 'trajectory_family', list(range(48 if ctx.quick else 300)), case_timeout=200)


def replay(ctx, payload):
    if 'trajectory_params' in payload:
        return trajectory_family(ctx, 0, params=payload['trajectory_params'])
    pg = C.import_phasegen()
    if 'real_cdf_at_returned' in payload:
        cfg = conv.cfg_from_json(payload['cfg'])
        th = quantile_coal(pg, cfg).tree_height
        q = float(payload['q'])
        tq = float(th.quantile(q))
        Fc, Fr = 1.0 - survival_n2(cfg, tq), float(th.cdf(tq))
        ctx.case(dict(cfg=cfg), 'replay')
        if not (abs(Fc - q) <= 1.2e-5 and abs(Fr - q) <= 1.2e-5):
            ctx.violation('quantile', cfg=cfg, q=q, returned=tq, cdf_at_returned=Fc, real_cdf_at_returned=Fr, tolerance=1.2e-5)
        return
    compare(ctx, conv.cfg_from_json(payload['cfg']), pg, 400, random.Random(0))
