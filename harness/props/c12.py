"""
C12 — per-population and per-locus marginals decompose the totals.

Direct oracle (relational, both sides computed by the real code), for dist in {tree_height, total_branch_length, sfs}:
  (a) sum_p dist.demes[p].mean == dist.mean                (per bin for the SFS)
  (b) dist.demes.cov.sum()     == dist.var
  (c) dist.demes.cov symmetric, PSD (min eigenvalue >= -1e-9 trace), diagonal == demes[p].var,
      correlations in [-1-1e-9, 1+1e-9] wherever both variances are > 1e-12 (corr is not evaluated otherwise)
  (d) two loci (Kingman): total_branch_length.loci[0].mean + loci[1].mean == total_branch_length.mean,
      loci.cov symmetric PSD with entries summing to total_branch_length.var (tree height: symmetric PSD only)
  (e) a population that can never hold a lineage has demes[p].mean == 0 and var == 0
Correspondence probe (exact): DemeReward / LocusReward / TotalBranchLengthLocusReward / CombinedReward vectors of the
real state spaces against the Lean model.
"""
from props import p2util as U          # first: pins the BLAS pools before numpy is loaded

import random
import numpy as np
import pgcommon as C
import conv, gen

META = dict(
    level='proof',
    rule='random structured configurations: 2-3 demes with unsorted names, random sample split (unsampled demes '
         'frequent), 1-3 epochs, 25% zero migration rates, 40% with a deme that can never hold a lineage (no sample, '
         'no inflow in any epoch), optional end time; one locus: Kingman / Beta / Dirac, n <= 5 (quick) / 7 (thorough), '
         'tree height + total branch length, and the SFS when the block-counting space has <= 60 / 120 states; two '
         'loci (35%): Kingman, (demes, n) in {(2,2),(2,3),(3,2),(1,3),(1,4)[,(1,5)]}, recombination rate in '
         '{0,1/8,1,8}, 0/1/n unlinked; one case = one configuration; non-trivial = >= 2 demes can hold a lineage or two loci',
    trusted_base=['sum_p demeReward_p = 1 and tbl = sum_l tblLocus_l on every state + multilinearity (Lean)',
                  'PSD / |corr| <= 1 are checked numerically only (partial)',
                  'scipy.linalg.expm / IEEE doubles on both sides'],
    assumptions=['tolerance 1e-9 of the raw-moment scale (mean resp. second raw moment of the total statistic); '
                 'symmetry 1e-10 of the same scale; correlation bound widened by 1e-13 x scale / min(variance) (rounding noise of a small variance); "exactly zero" = <= 1e-14 x max(1, scale); only the non-stiff '
                 'regime is compared: no PhaseGen warning logged and horizon <= 2000 mean tree heights '
                 '(p2util.ill_scaled)'],
)

REL = 1e-9
TWO_LOCI_SHAPES = [(2, 2), (2, 2), (2, 3), (3, 2), (1, 3), (1, 4)]


def gen_cfg(rng, quick):
    two = rng.random() < 0.35
    if two:
        D, n = rng.choice(TWO_LOCI_SHAPES + ([] if quick else [(1, 5), (2, 3)]))
    else:
        D = rng.choice([2, 2, 3])
        n = rng.randint(2, 5 if quick else 7)
    names = list(rng.choice(gen.NAME_SETS)[:D])
    rng.shuffle(names)
    sp = gen.splits(n, D)
    if D >= 2 and rng.random() < 0.4:
        sp = [v for v in sp if 0 in v]
    vec = list(rng.choice(sp))
    model = ('kingman',) if two else gen.rand_model(rng)
    eps = gen.rand_epochs(rng, names, rng.randint(1, 3))
    cfg = dict(n=dict(zip(names, vec)), model=model, epochs=eps, loci=2 if two else 1)
    if two:
        cfg['r'] = rng.choice([0.0, 0.125, 1.0, 8.0])
        cfg['n_unl'] = rng.choice([0, 0, 1, n])
    if D >= 2 and rng.random() < 0.4:
        # a deme that can never hold a lineage
        empty = [p for p in names if cfg['n'][p] == 0]
        if not empty:
            p = rng.choice(names)
            q = rng.choice([x for x in names if x != p])
            cfg['n'][q] += cfg['n'][p]
            cfg['n'][p] = 0
        else:
            p = rng.choice(empty)
        for e in eps:
            for q in names:
                if q != p:
                    e['mig'][(q, p)] = 0.0
    U.make_absorbing(cfg)
    if rng.random() < 0.3:
        cfg['end_time'] = float(2.0 ** rng.randint(-1, 4))
    return cfg


class Checker:
    def __init__(self, ctx, cfg, T):
        self.ctx, self.cfg, self.T = ctx, cfg, T

    def bad(self, sig, **detail):
        self.ctx.violation(sig, cfg=self.cfg, identity=sig, end_time=self.T, **detail)

    def cmp(self, sig, expected, observed, scale, **extra):
        tol = REL * scale
        if not (np.isfinite(expected) and np.isfinite(observed) and abs(expected - observed) <= tol):
            self.bad(sig, expected=float(expected), observed=float(observed), tolerance=tol, **extra)

    def matrix(self, sig, M, s2, var_total=None, diag=None, **extra):
        """symmetric, PSD, (entries sum to the variance), (diagonal = marginal variances)"""
        M = np.asarray(M, dtype=float)
        if not U.finite(M):
            self.bad(f'{sig}:not-finite', matrix=M.tolist(), **extra)
            return
        asym, mn, tr = U.sym_psd(M)
        if asym > 1e-10 * s2:
            self.bad(f'{sig}:asymmetric', matrix=M.tolist(), asymmetry=asym, tolerance=1e-10 * s2, **extra)
        if mn < -1e-9 * abs(tr) - 1e-12 * s2:
            self.bad(f'{sig}:not-psd', matrix=M.tolist(), min_eigenvalue=mn, trace=tr, **extra)
        if var_total is not None:
            self.cmp(f'{sig}:sum-vs-var', var_total, float(M.sum()), s2, matrix=M.tolist(), **extra)
        if diag is not None:
            for i, d in enumerate(diag):
                self.cmp(f'{sig}:diagonal-vs-marginal-var', float(d), float(M[i, i]), s2, index=i, **extra)

    def corr_entries(self, sig, corr_of, cov, var, s2, **extra):
        """corr_of(i, j) is only called where both variances are > 1e-12; the bound is widened by the rounding noise
        of the variances (absolute error ~1e-15 x the raw second moment s2) relative to the smaller variance"""
        D = len(var)
        for i in range(D):
            for j in range(D):
                if var[i] > 1e-12 and var[j] > 1e-12:
                    c = float(corr_of(i, j))
                    slack = 1e-9 + 1e-13 * s2 / min(var[i], var[j])
                    if not (np.isfinite(c) and -1 - slack <= c <= 1 + slack):
                        self.bad(f'{sig}:corr-out-of-range', i=i, j=j, corr=c, slack=slack, **extra)
                    ref = cov[i][j] / (var[i] ** 0.5 * var[j] ** 0.5)
                    if not abs(c - ref) <= 1e-9 * max(1.0, abs(ref)):
                        self.bad(f'{sig}:corr-vs-cov', i=i, j=j, expected=float(ref), observed=c, **extra)


def evaluate(ctx, pg, cfg, probe=True, sfs_limit=60):
    n = sum(cfg['n'].values())
    D = len(cfg['n'])
    two = cfg.get('loci', 1) == 2
    coal = conv.make_coalescent(pg, cfg)
    iso = U.never_holds(cfg)
    with_sfs = (not two) and n >= 2 and U.n_states_bc(n, D) <= sfs_limit
    v = {}
    with U.Guard() as g:
        T = float(coal.tree_height.t_max)
        pops = list(coal.lineage_config.pop_names)
        v['k_lc'] = int(coal.lineage_counting_state_space.k)
        for nm, d in (('th', coal.tree_height), ('tbl', coal.total_branch_length)):
            w = dict(mean=float(d.mean), var=float(d.var), m2=float(d.m2))
            w['dm'] = [float(d.demes[p].mean) for p in pops]
            w['dv'] = [float(d.demes[p].var) for p in pops]
            w['cov'] = np.array(d.demes.cov, dtype=float)
            if all(x > 1e-12 for x in w['dv']):
                w['corr'] = np.array(d.demes.corr, dtype=float)
            else:
                w['corr'] = None
                w['corr_e'] = {(i, j): float(d.demes.get_corr(pops[i], pops[j])) for i in range(D) for j in range(D)
                               if w['dv'][i] > 1e-12 and w['dv'][j] > 1e-12}
            if two:
                w['lm'] = [float(d.loci[l].mean) for l in (0, 1)]
                w['lv'] = [float(d.loci[l].var) for l in (0, 1)]
                w['lcov'] = np.array(d.loci.cov, dtype=float)
                w['lcorr_e'] = {(i, j): float(d.loci.get_corr(i, j)) for i in (0, 1) for j in (0, 1)
                                if w['lv'][i] > 1e-12 and w['lv'][j] > 1e-12}
            v[nm] = w
        if with_sfs:
            s = coal.sfs
            w = dict(mean=np.array(s.mean.data, dtype=float), var=np.array(s.var.data, dtype=float))
            w['dm'] = np.array([s.demes[p].mean.data for p in pops], dtype=float)
            w['dv'] = np.array([s.demes[p].var.data for p in pops], dtype=float)
            w['cov'] = np.array(s.demes.cov, dtype=float)
            v['sfs'] = w
    if g.warned:
        ctx.count('warned')
        ctx.skipped += 1
        return
    if g.error:
        ctx.case(dict(cfg=cfg, error=g.error), None)
        ctx.violation('C12:exception', cfg=cfg, error=g.error, trace=g.trace,
                      note='evaluating marginal means / variances / covariances raised although no warning was logged '
                           '(correlations are only evaluated where both variances are > 1e-12)')
        return

    if U.ill_scaled(T, v['th']['mean']):
        ctx.count('ill-scaled-horizon')
        ctx.skipped += 1
        return
    H = U.holdable(cfg)
    ctx.case(dict(cfg=cfg, pops=pops, never_holds=iso, T=T, th=dict(mean=v['th']['mean'], demes=v['th']['dm']),
                  tbl_var=v['tbl']['var'], tbl_demes_cov=v['tbl']['cov'].tolist()),
             gen.cfg_key(cfg) if (len(H) >= 2 or two) else None)
    ctx.count(cfg['model'][0]); ctx.count(f'demes{D}'); ctx.count(f'loci{cfg.get("loci", 1)}'); ctx.count(f'n{n}')
    ctx.count(f'epochs{len(cfg["epochs"])}'); ctx.count('with-sfs' if with_sfs else 'no-sfs')
    ctx.count('end_time' if cfg.get('end_time') is not None else 'default-horizon')
    ctx.count(f'never-holding-demes{len(iso)}'); ctx.count(f'unsampled{sum(1 for p in pops if cfg["n"][p] == 0)}')

    ck = Checker(ctx, cfg, T)
    for nm in ('th', 'tbl'):
        w = v[nm]
        s1, s2 = max(abs(w['mean']), 1e-300), max(abs(w['m2']), 1e-300)
        ck.cmp(f'C12a:{nm}:sum-deme-means-vs-mean', w['mean'], float(sum(w['dm'])), s1, deme_means=w['dm'], pops=pops)
        ck.matrix(f'C12bc:{nm}:demes.cov', w['cov'], s2, var_total=w['var'], diag=w['dv'], pops=pops)
        if w['corr'] is not None:
            ctx.count('corr-matrix')
            if w['corr'].shape != (D, D):
                ck.bad(f'C12c:{nm}:demes.corr:shape', shape=list(w['corr'].shape))
            else:
                ck.corr_entries(f'C12c:{nm}:demes', lambda i, j: w['corr'][j, i], w['cov'].T, w['dv'], s2, pops=pops)
        else:
            ck.corr_entries(f'C12c:{nm}:demes', lambda i, j: w['corr_e'][(i, j)], w['cov'].T, w['dv'], s2, pops=pops)
        for p in iso:
            i = pops.index(p)
            if not (abs(w['dm'][i]) <= 1e-14 * max(1.0, s1) and abs(w['dv'][i]) <= 1e-14 * max(1.0, s2)):
                ck.bad(f'C12e:{nm}:never-holding-deme-nonzero', deme=p, mean=w['dm'][i], var=w['dv'][i],
                       tolerance=[1e-14 * max(1.0, s1), 1e-14 * max(1.0, s2)])
        if two:
            if nm == 'tbl':
                ck.cmp('C12d:tbl:sum-locus-means-vs-mean', w['mean'], float(sum(w['lm'])), s1, locus_means=w['lm'])
            ck.matrix(f'C12d:{nm}:loci.cov', w['lcov'], s2, var_total=w['var'] if nm == 'tbl' else None, diag=w['lv'])
            ck.corr_entries(f'C12d:{nm}:loci', lambda i, j: w['lcorr_e'][(i, j)], w['lcov'].T, w['lv'], s2)
    if with_sfs:
        w = v['sfs']
        s1 = max(abs(v['tbl']['mean']), 1e-300)
        s2 = max(abs(v['tbl']['m2']), 1e-300)
        if w['dm'].shape != (D, n + 1) or w['cov'].shape != (D, D, n + 1):
            ck.bad('C12:sfs:shape', shapes=[list(w['dm'].shape), list(w['cov'].shape)])
        else:
            for b in range(1, n):
                ck.cmp('C12a:sfs:sum-deme-means-vs-mean', float(w['mean'][b]), float(w['dm'][:, b].sum()), s1, bin=b,
                       pops=pops)
                ck.matrix('C12bc:sfs:demes.cov', w['cov'][:, :, b], s2, var_total=float(w['var'][b]),
                          diag=w['dv'][:, b], bin=b, pops=pops)
                for p in iso:
                    i = pops.index(p)
                    if not (abs(w['dm'][i, b]) <= 1e-14 * max(1.0, s1) and abs(w['dv'][i, b]) <= 1e-14 * max(1.0, s2)):
                        ck.bad('C12e:sfs:never-holding-deme-nonzero', deme=p, bin=b, mean=float(w['dm'][i, b]),
                               var=float(w['dv'][i, b]))

    # ---- correspondence probe (exact)
    if probe:
        names = conv.cfg_names(cfg)
        rw = [('deme', p) for p in names]
        rw += [('C', [base, ('deme', p)]) for p in names for base in (('th',), ('tbl',))]
        if two:
            for l in (0, 1):
                rw += [('locus', l), ('tblloc', l), ('C', [('tbl',), ('locus', l)]), ('C', [('th',), ('locus', l)])]
        done = U.probe_rewards(ctx, pg, cfg, coal.lineage_counting_state_space, 'lc', rw, 'C12-rewards-lc')
        if with_sfs:
            rb = [('deme', p) for p in names]
            rb += [('C', [('C', [('unit',), ('deme', p)]), ('sfs', i)]) for p in names for i in range(1, n)]
            done += U.probe_rewards(ctx, pg, cfg, coal.block_counting_state_space, 'bc', rb, 'C12-rewards-bc')
        ctx.count('probe-vectors', done)


def one(ctx, i):
    pg = C.import_phasegen()
    rng = random.Random(f'{ctx.seed}-c12-{i}')
    cfg = gen_cfg(rng, ctx.quick)
    evaluate(ctx, pg, cfg, sfs_limit=60 if ctx.quick else 120)


def run(ctx):
    import check
    n = 160 if ctx.quick else 700
    check.pmap(ctx, 'props.c12', 'one', list(range(n)), case_timeout=200 if ctx.quick else 900)
    # correspondence with the Lean model of the assembly layer (PGModel/Marginals.lean, driver command `marginals`): marginal means,
    # variances, cov in both index orders, get_cov(a,b) and get_cov(b,a), corr, and the part-not-found exceptions
    check.pmap(ctx, 'props.corr_models', 'one_marginals', list(range(8 if ctx.quick else 60)), case_timeout=600)


def replay(ctx, payload):
    pg = C.import_phasegen()
    cfg = conv.cfg_from_json(payload['cfg'])
    evaluate(ctx, pg, cfg, probe=False, sfs_limit=10 ** 9 if 'sfs' in payload.get('signature', '') else 120)
