"""
C08 — results do not depend on population naming, listing order or the process.

Direct oracle (metamorphic, on the real code): one structured configuration is rendered several times — populations
renamed by a random bijection, the population order permuted independently in the sample dict `n`, in `pop_sizes`
and in `migration_rates`, unsampled populations listed with 0 or omitted from `n` — and every result that is
addressed by a population NAME (totals, per-deme marginals, deme covariance / correlation entries located through
`lineage_config.pop_names`, SFS and per-deme SFS) must agree with the reference rendering.
Process clause: a fixed script (sample dict omits the unsampled populations, which the code then appends by iterating
a `set`) is executed in fresh interpreters under different PYTHONHASHSEED values and must print the same named values.
"""
import itertools, json, os, random, subprocess, sys, math
import numpy as np
import pgcommon as C
import conv, gen

META = dict(
    level='proof',
    rule='one case = (configuration, rendering); configurations: 2-3 demes, n <= 4 (5 with two demes), Kingman/Beta/'
         'Dirac, 1-2 epochs of dyadic sizes and asymmetric migration rates, about half with unsampled demes; renderings: '
         'random injection of the demes into one of 9 name sets (sorted, unsorted, mixed case, names whose sorted order '
         'differs from the listing order), independent random listing orders of n / pop_sizes / migration_rates, each '
         'unsampled deme listed with 0 or omitted; reference = names p0<p1<p2 listed in sorted order with explicit zeros; '
         'non-trivial = the deme axis (lineage_config.pop_names) of the rendering is not in sorted-name order or differs '
         'from the reference axis as a permutation. Every sixth item adds a two-locus configuration (Kingman, two demes, '
         'n <= 3, asymmetric migration, distinct sizes, r in {0.5, 1, 4}; totals, cdf and the locus covariance matrix) in two '
         'renderings - linked lineages migrate through a code path of their own. Hash-seed clause: fixed + one seeded configuration, each run under '
         '4 (quick) / 16 (thorough) PYTHONHASHSEED values',
    trusted_base=['CPython str hashing is controlled by PYTHONHASHSEED', 'IEEE doubles / scipy.linalg.expm'],
    assumptions=['named results are compared at 1e-9 relative (statement) plus an absolute floor of 1e-12 x the natural '
                 'scale of the statistic (n x mean tree height, to the power of the order), which only matters for entries '
                 'that are exactly zero in one rendering; the subprocess sweep at 1e-12 relative + 1e-14 x scale',
                 'the hash-seed clause is exploration of the runtime: only the listed seeds are tried',
                 'renderings in which PhaseGen logs a warning are skipped'],
)

NAME_SETS = gen.NAME_SETS + [['z', 'A', 'm'], ['pop_10', 'pop_9', 'pop_2'], ['c', 'b', 'a'], ['x1', 'X2', 'x0'],
                             ['north', 'South', 'east']]
CANON = ['p0', 'p1', 'p2']
REL = 1e-9


# ----------------------------------------------------------------------------------------- configurations
def make_cfg(rng, quick):
    D = rng.choice([2, 2, 3]) if quick else rng.choice([2, 3, 3])
    names = CANON[:D]
    n_max = (4 if D == 2 else 3) if quick else (5 if D == 2 else 4)
    n = rng.randint(2, n_max)
    vecs = gen.splits(n, D)
    if rng.random() < 0.55:
        cand = [v for v in vecs if min(v) == 0]
    else:
        cand = [v for v in vecs if min(v) > 0] or vecs
    vec = rng.choice(cand)
    ne = rng.choice([1, 2, 2])
    for _ in range(50):
        eps = gen.rand_epochs(rng, names, ne, zero_mig_prob=0.2)
        # asymmetric: all sizes / rates of an epoch distinct where possible, so that a mix-up of demes is visible
        if gen.connected(eps[-1], names) and all(len(set(e['sizes'].values())) == D for e in eps):
            break
    else:
        for a in names:
            for b in names:
                if a != b:
                    eps[-1]['mig'][(a, b)] = 0.5 if a < b else 0.25
        for e in eps:
            for i, p in enumerate(names):
                e['sizes'][p] = float(2.0 ** (i - 1))
    return dict(n=dict(zip(names, vec)), model=gen.rand_model(rng), epochs=eps, loci=1)


def reference_rendering(cfg):
    names = list(cfg['n'])
    return dict(names={p: p for p in names}, n_order=names, size_order=names,
                mig_order=[(a, b) for a in names for b in names if a != b], omit=[])


def random_rendering(cfg, rng):
    names = list(cfg['n'])
    pool = list(rng.choice(NAME_SETS))
    rng.shuffle(pool)
    nm = dict(zip(names, pool))
    n_order = names[:]; rng.shuffle(n_order)
    size_order = names[:]; rng.shuffle(size_order)
    mig_order = [(a, b) for a in names for b in names if a != b]; rng.shuffle(mig_order)
    unsampled = [p for p in names if cfg['n'][p] == 0]
    omit = [p for p in unsampled if rng.random() < 0.6]
    # the sample handed over as a dict or as a LineageConfig object built from that dict (no extra random draw)
    return dict(names=nm, n_order=n_order, size_order=size_order, mig_order=mig_order, omit=omit,
                n_as_object=(len(omit) + names.index(n_order[0]) + len(mig_order)) % 3 == 0)


def build_kwargs(cfg, r):
    """plain-python arguments of Coalescent / Demography for a rendering (also used by the subprocess script)"""
    nm = r['names']
    eps = cfg['epochs']
    n = {nm[p]: cfg['n'][p] for p in r['n_order'] if p not in r['omit']}
    pop_sizes = {nm[p]: {e['start']: e['sizes'][p] for e in eps} for p in r['size_order']}
    mig = [[nm[a], nm[b], {e['start']: e['mig'].get((a, b), 0) for e in eps}] for (a, b) in r['mig_order']]
    return dict(n=n, pop_sizes=pop_sizes, mig=mig, model=list(cfg['model']))


def build(pg, cfg, r):
    kw = build_kwargs(cfg, r)
    dem = pg.Demography(pop_sizes={p: dict(v) for p, v in kw['pop_sizes'].items()},
                        migration_rates={(a, b): dict(v) for a, b, v in kw['mig']})
    n = pg.LineageConfig(dict(kw['n'])) if r.get('n_as_object') else dict(kw['n'])
    if cfg.get('loci', 1) == 2:
        # two loci (Kingman only): linked lineages migrate through a code path of their own (Transition.migrate_linked)
        return pg.Coalescent(n=n, demography=dem, loci=2, recombination_rate=cfg['rec'], parallelize=False, pbar=False)
    return pg.Coalescent(n=n, model=conv.make_model(pg, cfg['model']), demography=dem, parallelize=False, pbar=False)


def make_cfg2(rng):
    """two loci, two demes, asymmetric migration and distinct sizes, every lineage placement (also all in one deme)"""
    names = CANON[:2]
    n = rng.choice([2, 2, 3])
    vec = rng.choice(gen.splits(n, 2))
    ne = rng.choice([1, 1, 2])
    eps = gen.rand_epochs(rng, names, ne, zero_mig_prob=0.0)
    for k, e in enumerate(eps):
        e['sizes'] = {names[0]: float(2.0 ** (k - 1)), names[1]: float(3.0 * 2.0 ** -k)}
        e['mig'] = {(names[0], names[1]): rng.choice([0.25, 0.5, 1.5]), (names[1], names[0]): rng.choice([1.0, 2.0, 3.0])}
    return dict(n=dict(zip(names, vec)), model=('kingman',), epochs=eps, loci=2, rec=rng.choice([0.5, 1.0, 4.0]))


def two_locus_results(coal):
    th, tbl = coal.tree_height, coal.total_branch_length
    out = {'th.mean': (_val(lambda: th.mean), 1), 'th.var': (_val(lambda: th.var), 2),
           'tbl.mean': (_val(lambda: tbl.mean), 1), 'tbl.var': (_val(lambda: tbl.var), 2),
           'th.cdf(1)': (_val(lambda: th.cdf(1.0)), 0),
           'th.loci.cov': (_val(lambda: np.asarray(th.loci.cov, dtype=float)), 2)}
    return out, list(coal.lineage_config.pop_names)


# ----------------------------------------------------------------------------------------- named results
def _val(f):
    try:
        v = f()
        if hasattr(v, 'data'):
            v = v.data
        v = np.asarray(v, dtype=float)
        return v.tolist()
    except (ZeroDivisionError, FloatingPointError) as e:
        return f'raises {type(e).__name__}'


def named_results(coal, inv, sfs=True):
    """
    every result addressed by name, keyed by CANONICAL deme ids (inv: actual name -> canonical id);
    (key -> (value, order of the statistic))
    """
    out = {}
    th, tbl = coal.tree_height, coal.total_branch_length
    axis = list(coal.lineage_config.pop_names)
    out['th.mean'] = (_val(lambda: th.mean), 1)
    out['th.var'] = (_val(lambda: th.var), 2)
    out['tbl.mean'] = (_val(lambda: tbl.mean), 1)
    out['tbl.var'] = (_val(lambda: tbl.var), 2)
    out['th.cdf(1)'] = (_val(lambda: th.cdf(1.0)), 0)
    for name in axis:
        c = inv[name]
        out[f'th.demes[{c}].mean'] = (_val(lambda: th.demes[name].mean), 1)
        out[f'th.demes[{c}].var'] = (_val(lambda: th.demes[name].var), 2)
        out[f'tbl.demes[{c}].mean'] = (_val(lambda: tbl.demes[name].mean), 1)
    cov = np.asarray(th.demes.cov, dtype=float)
    try:
        corr = np.asarray(th.demes.corr, dtype=float)
    except (ZeroDivisionError, FloatingPointError) as e:
        corr = None
        out['th.demes.corr'] = (f'raises {type(e).__name__}', 0)
    tcov = np.asarray(tbl.demes.cov, dtype=float)
    for i, a in enumerate(axis):
        for j, b in enumerate(axis):
            # cov = [[get_cov(p1, p2) for p1 in pops] for p2 in pops]: row = p2, column = p1
            out[f'th.demes.cov[{inv[b]},{inv[a]}]'] = (float(cov[j, i]), 2)
            out[f'tbl.demes.cov[{inv[b]},{inv[a]}]'] = (float(tcov[j, i]), 2)
            out[f'th.demes.get_cov({inv[a]},{inv[b]})'] = (_val(lambda: th.demes.get_cov(a, b)), 2)
            if corr is not None:
                out[f'th.demes.corr[{inv[b]},{inv[a]}]'] = (float(corr[j, i]), 0)
    if sfs:
        out['sfs.mean'] = (_val(lambda: coal.sfs.mean), 1)
        out['sfs.var'] = (_val(lambda: coal.sfs.var), 2)
        out['fsfs.mean'] = (_val(lambda: coal.fsfs.mean), 1)
        for name in axis:
            out[f'sfs.demes[{inv[name]}].mean'] = (_val(lambda: coal.sfs.demes[name].mean), 1)
    return out, axis


def differs(a, b, scale, order, rel=REL, floor=1e-12):
    if isinstance(a, str) or isinstance(b, str):
        return a != b
    a = np.atleast_1d(np.asarray(a, dtype=float)); b = np.atleast_1d(np.asarray(b, dtype=float))
    if a.shape != b.shape or np.isnan(a).any() or np.isnan(b).any():
        return True
    tol = rel * np.maximum(np.abs(a), np.abs(b)) + floor * max(scale, 1e-300) ** order
    return bool((np.abs(a - b) > tol).any())


def axis_nontrivial(axis, inv, ref_axis):
    return list(axis) != sorted(axis) or [inv[a] for a in axis] != list(ref_axis)


def compare(ctx, cfg, r, ref, res, axis, what='rendering'):
    """ref / res: outputs of named_results; reports every key family that differs once"""
    scale = ref['th.mean'][0] if not isinstance(ref['th.mean'][0], str) else 1.0
    scale = float(scale) * sum(cfg['n'].values())       # size of the raw moments the code works with
    if set(ref) != set(res):
        ctx.violation('keys', cfg=cfg, rendering=r, only_reference=sorted(set(ref) - set(res)),
                      only_rendering=sorted(set(res) - set(ref)), deme_axis=axis)
        return
    seen = set()
    for key in ref:
        (a, order), (b, _) = ref[key], res[key]
        if differs(a, b, float(scale), order):
            fam = key.split('[')[0].split('(')[0]
            if fam in seen:
                continue
            seen.add(fam)
            ctx.violation(f'named:{fam}', cfg=cfg, rendering=r, key=key, expected=a, observed=b,
                          tolerance=dict(rel=REL, abs_floor=1e-12 * float(scale) ** order), deme_axis=axis,
                          oracle='reference rendering (names p0<p1<p2 listed in sorted order, explicit zeros)',
                          kwargs=build_kwargs(cfg, r))


def eval_rendering(pg, cfg, r, sfs=True):
    inv = {v: k for k, v in r['names'].items()}
    with C.LogCapture() as lc:
        coal = build(pg, cfg, r)
        res, axis = two_locus_results(coal) if cfg.get('loci', 1) == 2 else named_results(coal, inv, sfs)
    return res, axis, lc.records


def check_cfg(ctx, pg, cfg, renderings, sfs=True):
    ref_r = reference_rendering(cfg)
    ref, ref_axis, warned = eval_rendering(pg, cfg, ref_r, sfs)
    if warned:
        ctx.count('warned'); ctx.skipped += 1
        return
    D = len(cfg['n'])
    for r in renderings:
        inv = {v: k for k, v in r['names'].items()}
        try:
            res, axis, warned = eval_rendering(pg, cfg, r, sfs)
        except Exception as e:
            if type(e).__name__ == 'TimeoutCase':
                raise               # the harness's own per-case time limit (an overloaded machine) is not a verdict on the code
            ctx.violation(f'exception:{type(e).__name__}', cfg=cfg, rendering=r, error=f'{type(e).__name__}: {e}',
                          kwargs=build_kwargs(cfg, r))
            continue
        if warned:
            ctx.count('warned'); ctx.skipped += 1
            continue
        nt = axis_nontrivial(axis, inv, ref_axis)
        ctx.case(dict(cfg=cfg, rendering=r, deme_axis=axis),
                 (gen.cfg_key(cfg), json.dumps(C.jsonable(r), sort_keys=True)) if nt else None)
        ctx.count(f'demes{D}'); ctx.count(cfg['model'][0]); ctx.count(f'epochs{len(cfg["epochs"])}')
        ctx.count('omitted-unsampled' if r['omit'] else ('zero-listed' if 0 in cfg['n'].values() else 'all-sampled'))
        ctx.count('axis-unsorted' if list(axis) != sorted(axis) else 'axis-sorted')
        compare(ctx, cfg, r, ref, res, axis)


def shared_rewards(ctx, pg, cfg, r, rng, item=None):
    """the SAME reward objects (one DemeReward per name, created once) used on several Coalescents that list the populations in
    different orders: a reward is attached to the NAME, whatever object it was evaluated on before"""
    import phasegen.rewards as R
    nm = r['names']
    names = list(cfg['n'])
    if len(names) < 2:
        return
    prods = {p: R.ProductReward([R.TreeHeightReward(), R.DemeReward(nm[p])]) for p in names}
    for step in range(3):
        r2 = dict(r)
        r2['n_order'] = names[:]; rng.shuffle(r2['n_order'])
        r2['size_order'] = names[:]; rng.shuffle(r2['size_order'])
        unsampled = [p for p in names if cfg['n'][p] == 0]
        r2['omit'] = [p for p in unsampled if rng.random() < 0.5]
        with C.LogCapture() as lc:
            coal = build(pg, cfg, r2)
            got = {p: float(coal.moment(1, (prods[p],))) for p in names}
            want = {p: float(coal.tree_height.demes[nm[p]].mean) for p in names}
            axis = list(coal.lineage_config.pop_names)
        if lc.records:
            ctx.count('warned'); return
        ctx.count('shared-reward-objects')
        scale = sum(abs(v) for v in want.values())
        for p in names:
            if abs(got[p] - want[p]) > REL * max(abs(got[p]), abs(want[p])) + 1e-12 * max(scale, 1e-300):
                ctx.violation('named:shared-reward-object', item=item, cfg=cfg, rendering=r2, deme=nm[p], deme_axis=axis, use=step, expected=want[p],
                              observed=got[p], kwargs=build_kwargs(cfg, r2),
                              oracle='tree_height.demes[name].mean of the same Coalescent (rewards built afresh by the library); '
                                     'observed = Coalescent.moment(1, (ProductReward([TreeHeightReward(), DemeReward(name)]),)) with reward '
                                     'objects that were created once and already used on Coalescents with another listing order')
                return


def one(ctx, item):
    pg = C.import_phasegen()
    if isinstance(item, str) and item.startswith('hash'):
        return hash_sweep(ctx, item)
    rng = random.Random(f'{ctx.seed}-c08-{item}')
    cfg = make_cfg(rng, ctx.quick)
    rs = [random_rendering(cfg, rng) for _ in range(4 if ctx.quick else 6)]
    check_cfg(ctx, pg, cfg, rs, sfs=True)
    if rng.random() < 0.5:
        shared_rewards(ctx, pg, cfg, rs[0], rng, item)
    if isinstance(item, int) and item % 6 == 0:
        # the two-locus family (own generator, so that the draws above are unchanged)
        rng2 = random.Random(f'{ctx.seed}-c08-2loci-{item}')
        cfg2 = make_cfg2(rng2)
        ctx.count('two-loci')
        check_cfg(ctx, pg, cfg2, [random_rendering(cfg2, rng2) for _ in range(2)], sfs=False)


# ----------------------------------------------------------------------------------------- process clause
SCRIPT = r'''
import os, sys, json
sys.path.insert(0, os.environ.get('VERIF_REPO', '/repo'))
import warnings; warnings.filterwarnings('ignore')
import logging; logging.disable(logging.CRITICAL)
import numpy as np
import phasegen as pg
kw = json.loads(sys.argv[1])
m = kw['model']
model = pg.StandardCoalescent() if m[0] == 'kingman' else (pg.BetaCoalescent(alpha=m[1], scale_time=m[2]) if m[0] == 'beta'
        else pg.DiracCoalescent(psi=m[1], c=m[2], scale_time=m[3]))
dem = pg.Demography(pop_sizes={p: {float(t): s for t, s in v.items()} for p, v in kw['pop_sizes'].items()},
                    migration_rates={(a, b): {float(t): s for t, s in v.items()} for a, b, v in kw['mig']})
coal = pg.Coalescent(n=kw['n'], model=model, demography=dem, parallelize=False, pbar=False)
th, tbl = coal.tree_height, coal.total_branch_length
axis = list(coal.lineage_config.pop_names)
out = {'axis': axis, 'th.mean': th.mean, 'th.var': th.var, 'tbl.mean': tbl.mean, 'sfs.mean': list(coal.sfs.mean.data)}
cov = np.asarray(th.demes.cov)
for i, a in enumerate(axis):
    out['th.demes[%s].mean' % a] = th.demes[a].mean
    out['th.demes[%s].var' % a] = th.demes[a].var
    out['tbl.demes[%s].mean' % a] = tbl.demes[a].mean
    out['sfs.demes[%s].mean' % a] = list(coal.sfs.demes[a].mean.data)
    for j, b in enumerate(axis):
        out['th.demes.cov[%s,%s]' % (b, a)] = float(cov[j, i])
print('RESULT ' + json.dumps(out))
'''

# the sample dict lists only the sampled populations; the others are completed from a set by the code
FIXED = [
    dict(n={'b': 2}, pop_sizes={'c': {0: 0.5}, 'b': {0: 1.0}, 'a': {0: 2.0}, 'd': {0: 4.0}},
         mig=[['b', 'a', {0: 1.0}], ['a', 'b', {0: 0.5}], ['b', 'c', {0: 0.25}], ['c', 'b', {0: 2.0}], ['a', 'c', {0: 0.125}],
              ['c', 'a', {0: 0.75}], ['d', 'a', {0: 1.5}], ['a', 'd', {0: 0.375}], ['b', 'd', {0: 0.625}], ['d', 'c', {0: 0.3}]],
         model=['kingman']),
    dict(n={'zeta': 2, 'alpha': 1}, pop_sizes={'zeta': {0: 1.0, 1.0: 0.25}, 'mid': {0: 0.5}, 'alpha': {0: 2.0}, 'Beta': {0: 3.0}},
         mig=[['zeta', 'alpha', {0: 0.5}], ['alpha', 'zeta', {0: 0.25}], ['zeta', 'mid', {0: 1.0}], ['mid', 'alpha', {0: 2.0}],
              ['alpha', 'Beta', {0: 0.75, 1.0: 0.1}], ['Beta', 'zeta', {0: 1.25}], ['mid', 'Beta', {0: 0.2}]],
         model=['beta', 1.5, True]),
]


def run_script(kw, hash_seeds):
    """run the script once per hash seed, concurrently; returns {seed: result dict | error string}"""
    env0 = dict(os.environ)
    env0['VERIF_REPO'] = C.REPO
    env0.setdefault('MPLBACKEND', 'Agg')
    env0['OMP_NUM_THREADS'] = env0['OPENBLAS_NUM_THREADS'] = env0['MKL_NUM_THREADS'] = '1'
    procs = {}
    for h in hash_seeds:
        env = dict(env0, PYTHONHASHSEED=str(h))
        procs[h] = subprocess.Popen([sys.executable, '-c', SCRIPT, json.dumps(kw)], stdout=subprocess.PIPE,
                                    stderr=subprocess.PIPE, text=True, env=env)
    out = {}
    for h, p in procs.items():
        try:
            so, se = p.communicate(timeout=600)
        except subprocess.TimeoutExpired:
            p.kill()
            out[h] = 'error: timeout'
            continue
        line = next((l for l in so.splitlines() if l.startswith('RESULT ')), None)
        out[h] = json.loads(line[7:]) if line else 'error: ' + se[-600:]
    return out


def sweep_cfg(ctx, kw, hash_seeds, label):
    res = run_script(kw, hash_seeds)
    bad = {h: v for h, v in res.items() if isinstance(v, str)}
    if bad:
        h, v = sorted(bad.items())[0]
        ctx.violation('hashseed:script-failed', script_kwargs=kw, hash_seeds=list(hash_seeds), hash_seed=h, error=v)
        return
    h0 = hash_seeds[0]
    ref = res[h0]
    axes = {tuple(v['axis']) for v in res.values()}
    scale = float(ref['th.mean'])
    for h in hash_seeds:
        ctx.case(dict(script_kwargs=kw, hash_seed=h, deme_axis=res[h]['axis']),
                 (label, h) if len(axes) > 1 else None)
        ctx.count('hashseed-runs')
    ctx.count(f'hashseed-distinct-axes:{len(axes)}')
    for h in hash_seeds[1:]:
        r = res[h]
        keys = [k for k in ref if k != 'axis']
        if set(r) != set(ref):
            ctx.violation('hashseed:keys', script_kwargs=kw, hash_seeds=list(hash_seeds), hash_seed=h, reference_seed=h0)
            return
        for k in keys:
            order = 2 if ('var' in k or 'cov' in k) else 1
            if differs(ref[k], r[k], scale, order, rel=1e-12, floor=1e-14):
                ctx.violation('hashseed:' + k.split('[')[0], script_kwargs=kw, hash_seeds=list(hash_seeds), key=k,
                              reference_seed=h0, hash_seed=h, expected=ref[k], observed=r[k], axis_reference=ref['axis'],
                              axis_observed=r['axis'], tolerance=dict(rel=1e-12, abs_floor=1e-14 * scale ** order))
                return


def seeded_script_cfg(rng):
    """a random configuration whose sample dict omits two unsampled populations"""
    pool = list(rng.choice(NAME_SETS)) + [rng.choice(['q', 'Delta', 'pop_7', 'w0'])]
    rng.shuffle(pool)
    names = pool[:4]
    sampled = names[:rng.choice([1, 2])]
    n = {p: rng.randint(1, 2) for p in sampled}
    if sum(n.values()) < 2:
        n[sampled[0]] = 2
    eps = gen.rand_epochs(rng, names, 1, zero_mig_prob=0.1)
    for a in names:            # make sure coalescence is certain
        b = names[(names.index(a) + 1) % 4]
        if eps[0]['mig'][(a, b)] == 0:
            eps[0]['mig'][(a, b)] = 0.5
    sizes = [0.25, 0.5, 1.0, 2.0, 4.0]
    rng.shuffle(sizes)
    return dict(n=n, pop_sizes={p: {0: sizes[i]} for i, p in enumerate(names)},
                mig=[[a, b, {0: r}] for (a, b), r in eps[0]['mig'].items()], model=['kingman'])


def hash_sweep(ctx, item):
    hs = list(range(4)) if ctx.quick else list(range(16))
    idx = int(item.split('-')[1])
    if idx < len(FIXED):
        kw = FIXED[idx]
    else:
        kw = seeded_script_cfg(random.Random(f'{ctx.seed}-c08-{item}'))
    sweep_cfg(ctx, C.jsonable(kw), hs, item)


def run(ctx):
    import check
    items = [f'hash-{i}' for i in range(3 if ctx.quick else 6)] + list(range(300 if ctx.quick else 1500))
    check.pmap(ctx, 'props.c08', 'one', items, case_timeout=300 if ctx.quick else 1200)
    # correspondence with the Lean model of the input glue (PGModel/Config.lean, driver command `config`), see props/corr_models.py
    check.pmap(ctx, 'props.corr_models', 'one_config', list(range(16 if ctx.quick else 120)), case_timeout=300)


def _rendering_from_json(r):
    r = dict(r)
    r['mig_order'] = [tuple(x) for x in r['mig_order']]
    return r


def replay(ctx, payload):
    if payload.get('signature') == 'named:shared-reward-object':
        ctx.seed = payload['seed']            # the scenario (and the order in which the shared objects are used) is a function of (seed, item)
        return one(ctx, payload['item'])
    pg = C.import_phasegen()
    if payload['signature'].startswith('hashseed'):
        sweep_cfg(ctx, payload['script_kwargs'], payload['hash_seeds'], 'replay')
        return
    cfg = conv.cfg_from_json(payload['cfg'])
    check_cfg(ctx, pg, cfg, [_rendering_from_json(payload['rendering'])])
