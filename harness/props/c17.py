"""
C17 — caching, query order and parallel execution never change a result.

Direct oracle on the real code (no model needed: the property is a relation between observable results):

 (a) `hist`      random histories of public queries on ONE Coalescent; every answer must equal the answer of the
                 same query asked first on a fresh Coalescent of the same configuration;
 (b) `hist-off`  the same with rate-matrix caching switched off on the history object (the fresh object keeps the
                 default, so 'cache on' and 'cache off' are compared as well);
 (c) `shared`    a history of parameter sets routed through `Inference.get_coal` (one state space shared by all
                 returned objects, as the optimiser does), queries on the newest and on EARLIER objects interleaved;
                 every answer must equal that of a fresh independent Coalescent with those parameters;
                 `Inference(cache=True)` and `Inference(cache=False)`;
 (d) `pool`      `parallelize=True` (worker processes) against `parallelize=False` for sfs.mean / sfs.cov / sfs.accumulate.

Tolerance of the property: 1e-11 relative, 1e-13 absolute (the computations are the same floating-point programs).
"""
import os
# one BLAS thread per worker process: 16 forked workers x 16 BLAS threads oversubscribe the machine ~15-fold
for _v in ('OMP_NUM_THREADS', 'OPENBLAS_NUM_THREADS', 'MKL_NUM_THREADS'):
    os.environ.setdefault(_v, '1')
import random, math, time
import numpy as np
import pgcommon as C
import conv, gen

META = dict(
    level='proof',
    rule='a case = one query of a random history (length <= 10 quick / 16 thorough) on one Coalescent (1-3 demes, '
         'n <= 6, 1-4 epochs with repeated sizes / repeated migration matrices between epochs, Kingman/Beta/Dirac, one '
         'or two loci, optional start/end time), with rate-matrix caching on or off, or one query on one of several '
         'objects returned by Inference.get_coal for a random sequence of parameter sets (cache=True/False), or one '
         'parallel-vs-sequential SFS computation; non-trivial = the query is not the first of its history and the '
         'demography has >= 2 epochs, or the object shares its state space with another parameter set',
    trusted_base=['a fresh Coalescent asked a single question is the reference value (its correctness is C01-C16)',
                  'multiprocess.Pool semantics (imap keeps order) for the pool comparison'],
    assumptions=['tolerance of the statement: 1e-11 relative, 1e-13 absolute; both sides raising the same exception '
                 'class counts as equal; NaN equals NaN'],
)

REL, ABS = 1e-11, 1e-13


# ----------------------------------------------------------------------------------------------- results
def as_array(x):
    if type(x).__name__ in ('SFS', 'SFS2', 'Spectrum', 'Spectra'):
        x = x.data
    return np.atleast_1d(np.asarray(x, dtype=float))


def run_query(pg, c, q):
    """Evaluate one public query; returns ('ok', array) or ('exc', class name)."""
    try:
        return ('ok', as_array(_query(pg, c, q)))
    except Exception as e:
        if type(e).__name__ == 'TimeoutCase':       # the harness' own per-case alarm
            raise
        return ('exc', type(e).__name__)


def _query(pg, c, q):
    kind = q[0]
    if kind == 'th.mean': return c.tree_height.mean
    if kind == 'th.var': return c.tree_height.var
    if kind == 'th.m2': return c.tree_height.m2
    if kind == 'th.std': return c.tree_height.std
    if kind == 'th.tmax': return c.tree_height.t_max
    if kind == 'th.cdf': return c.tree_height.cdf(q[1])
    if kind == 'th.cdfs': return c.tree_height.cdf(list(q[1]))
    if kind == 'th.pdf': return c.tree_height.pdf(q[1])
    if kind == 'th.quantile': return c.tree_height.quantile(q[1])
    if kind == 'th.accumulate': return c.tree_height.accumulate(q[1], list(q[2]))
    if kind == 'tbl.accumulate': return c.total_branch_length.accumulate(q[1], list(q[2]))
    if kind == 'tbl.mean': return c.total_branch_length.mean
    if kind == 'tbl.var': return c.total_branch_length.var
    if kind == 'tbl.m2': return c.total_branch_length.m2
    if kind == 'moment':
        k, rewards, T, center = q[1], q[2], q[3], q[4]
        kw = {} if T is None else dict(end_time=T)
        return c.moment(k=k, rewards=tuple(conv.make_reward(pg, r) for r in rewards), center=center, **kw)
    if kind == 'th.moment':
        return c.tree_height.moment(k=q[1], end_time=q[2], center=q[3])
    if kind == 'tbl.moment':
        return c.total_branch_length.moment(k=q[1], end_time=q[2], center=q[3])
    if kind == 'accumulate':
        k, rewards, ts = q[1], q[2], q[3]
        return c.accumulate(k=k, end_times=list(ts), rewards=tuple(conv.make_reward(pg, r) for r in rewards))
    if kind == 'th.deme.mean': return c.tree_height.demes[q[1]].mean
    if kind == 'tbl.deme.mean': return c.total_branch_length.demes[q[1]].mean
    if kind == 'th.deme.var': return c.tree_height.demes[q[1]].var
    if kind == 'th.demes.cov': return c.tree_height.demes.cov
    if kind == 'th.loci.mean': return c.tree_height.loci[q[1]].mean
    if kind == 'tbl.loci.mean': return c.total_branch_length.loci[q[1]].mean
    if kind == 'th.loci.cov': return c.tree_height.loci.cov
    if kind == 'sfs.mean': return c.sfs.mean
    if kind == 'sfs.var': return c.sfs.var
    if kind == 'sfs.cov': return c.sfs.cov
    if kind == 'sfs.corr': return c.sfs.corr
    if kind == 'fsfs.corr': return c.fsfs.corr
    if kind == 'th.demes.corr': return c.tree_height.demes.corr
    if kind == 'th.loci.corr': return c.tree_height.loci.corr
    if kind == 'sfs.get_cov': return c.sfs.get_cov(q[1], q[2])
    if kind == 'sfs.moment': return c.sfs.moment(k=q[1], end_time=q[2])
    if kind == 'sfs.accumulate': return c.sfs.accumulate(q[1], list(q[2]))
    if kind == 'sfs.deme.mean': return c.sfs.demes[q[1]].mean
    if kind == 'fsfs.mean': return c.fsfs.mean
    if kind == 'fsfs.var': return c.fsfs.var
    if kind == 'fsfs.cov': return c.fsfs.cov
    if kind == 'mutcfg': return c.sfs.get_mutation_config(list(q[1]), q[2])
    if kind == 'fmutcfg': return c.fsfs.get_mutation_config(list(q[1]), q[2])
    raise ValueError(f'unknown query {q!r}')


def same(a, b):
    if a[0] != b[0]:
        return False
    if a[0] == 'exc':
        return a[1] == b[1]
    x, y = a[1], b[1]
    if x.shape != y.shape:
        return False
    for u, v in zip(x.ravel(), y.ravel()):
        if math.isnan(u) and math.isnan(v):
            continue
        if math.isinf(u) or math.isinf(v):
            if u != v:
                return False
            continue
        if not C.close(u, v, REL, ABS):
            return False
    return True


def show(r):
    return r[1].tolist() if r[0] == 'ok' else f'raised {r[1]}'


# ----------------------------------------------------------------------------------------------- generators
def n_cap(D, quick, loci=1):
    if loci == 2:
        return {1: 3 if quick else 4, 2: 2}[D]
    if D == 1:
        return 5 if quick else 6
    if D == 2:
        return 4
    return 3


def cov_ok(cfg, quick):
    D, n = len(cfg['n']), sum(cfg['n'].values())
    return D == 1 or n <= 3 or (D == 2 and n <= 4 and not quick)


def rand_cfg17(rng, quick, single_epoch=False, loci=1):
    D = rng.choice([1, 1, 2, 2, 3]) if loci == 1 else rng.choice([1, 1, 2])
    names = list(rng.choice(gen.NAME_SETS)[:D])
    rng.shuffle(names)
    n = rng.randint(2, n_cap(D, quick, loci))
    vec = rng.choice(gen.splits(n, D))
    model = gen.rand_model(rng) if loci == 1 else ('kingman',)
    ne = 1 if single_epoch else rng.choice([2, 2, 3, 3, 4] if not quick else [2, 2, 3, 3])
    for _ in range(50):
        eps = gen.rand_epochs(rng, names, ne)
        if gen.connected(eps[-1], names):
            break
    else:
        for a in names:
            for b in names:
                if a != b:
                    eps[-1]['mig'][(a, b)] = 0.5
    # epochs that repeat the sizes (migration differs) or the migration matrix (sizes differ) of an earlier epoch:
    # the situations in which an 'equal epoch' test or a memo key that is too coarse would go wrong
    for e in range(1, ne):
        u = rng.random()
        src = eps[rng.randrange(e)]
        if u < 0.4:
            eps[e]['sizes'] = dict(src['sizes'])
        elif u < 0.6:
            keep = dict(eps[e]['mig'])
            eps[e]['mig'] = dict(src['mig'])
            if e == ne - 1 and not gen.connected(eps[e], names):
                eps[e]['mig'] = keep
        elif u < 0.7 and e >= 2:
            eps[e]['sizes'] = dict(src['sizes']); eps[e]['mig'] = dict(src['mig'])
            if e == ne - 1 and not gen.connected(eps[e], names):
                for a in names:
                    for b in names:
                        if a != b:
                            eps[e]['mig'][(a, b)] = 0.5
    cfg = dict(n=dict(zip(names, vec)), model=model, epochs=eps, loci=loci)
    if loci == 2:
        cfg['r'] = rng.choice([0.0, 0.125, 1.0, 8.0])
        cfg['n_unl'] = rng.choice([0, 0, 1, n])
    u = rng.random()
    if u < 0.25:
        cfg['end_time'] = float(2.0 ** rng.randint(-2, 3))
        if rng.random() < 0.4:
            cfg['start_time'] = cfg['end_time'] / rng.choice([2, 4, 8])
    return cfg


def rand_time(rng, cfg):
    bounds = [e['start'] for e in cfg['epochs'][1:]]
    u = rng.random()
    if bounds and u < 0.3:
        return float(rng.choice(bounds))
    if bounds and u < 0.5:
        return float(rng.choice(bounds) * rng.choice([0.5, 0.75, 1.25, 1.5, 3.0]))
    return float(2.0 ** rng.randint(-4, 4) * rng.choice([1.0, 1.0, 1.5, 0.75]))


def rand_reward(rng, cfg, allow_bc=True):
    names = conv.cfg_names(cfg)
    n = sum(cfg['n'].values())
    base = [('th',), ('tbl',), ('tth',), ('deme', rng.choice(names)), ('lin', rng.randint(2, max(2, n))),
            ('custom', rng.randint(2, max(2, n)))]
    if cfg.get('loci', 1) == 2:
        base += [('locus', rng.randrange(2)), ('tblloc', rng.randrange(2))]
        base = [b for b in base if b[0] not in ('lin', 'custom')]
    if allow_bc and cfg.get('loci', 1) == 1:
        base += [('sfs', rng.randint(1, n - 1)), ('fsfs', rng.randint(1, max(1, n // 2)))]
    r = rng.choice(base)
    if rng.random() < 0.2:
        r2 = rng.choice([b for b in base if b[0] not in ('sfs', 'fsfs', 'lin')] or [('th',)])
        r = (rng.choice(['P', 'S']), [r, r2]) if r[0] not in ('tblloc',) and r2[0] not in ('tblloc',) else r
    return r


def rand_config_vec(rng, length, total):
    v = [0] * length
    for _ in range(total):
        v[rng.randrange(length)] += 1
    return v


def rand_query(rng, cfg, quick, light=False):
    names = conv.cfg_names(cfg)
    n = sum(cfg['n'].values())
    loci = cfg.get('loci', 1)
    single = len(cfg['epochs']) == 1
    T = lambda: rand_time(rng, cfg)
    ts = lambda: [T() for _ in range(rng.randint(1, 4))]
    opts = [
        (4, lambda: ('th.mean',)), (3, lambda: ('th.var',)), (2, lambda: ('th.m2',)),
        (4, lambda: ('th.cdf', T())), (2, lambda: ('th.cdfs', ts())),
        (3, lambda: ('th.quantile', rng.choice([0.05, 0.25, 0.5, 0.75, 0.9, 0.99]))),
        (3, lambda: ('th.accumulate', rng.choice([1, 1, 2]), ts())),
        (1, lambda: ('tbl.accumulate', rng.choice([1, 2]), ts())),
        (3, lambda: ('tbl.mean',)), (2, lambda: ('tbl.var',)),
        (5, lambda: (lambda k: ('moment', k, [rand_reward(rng, cfg) for _ in range(k)], rng.choice([None, T(), T()]),
                                rng.random() < 0.7))(rng.choice([1, 1, 1, 2, 2] + ([] if quick else [3])))),
        (2, lambda: ('th.moment', rng.choice([1, 2]), T(), rng.random() < 0.5)),
        # user-defined rewards from one factory, same order / horizon / flags: only the function differs
        (2 if loci == 1 else 0, lambda: ('moment', 1, [('custom', rng.randint(2, max(2, n)))], None, True)),
        (1, lambda: ('tbl.moment', rng.choice([1, 2]), T(), rng.random() < 0.5)),
        (2, lambda: ('accumulate', 1, [rand_reward(rng, cfg)], ts())),
        (3, lambda: ('th.deme.mean', rng.choice(names))), (1, lambda: ('tbl.deme.mean', rng.choice(names))),
        (1, lambda: ('th.deme.var', rng.choice(names))),
        (2, lambda: ('th.pdf', T())),
        (1, lambda: ('th.tmax',)),
    ]
    if loci == 1:
        opts += [(4, lambda: ('sfs.mean',)), (3, lambda: ('fsfs.mean',)),
                 (2, lambda: ('sfs.get_cov', rng.randint(1, n - 1), rng.randint(1, n - 1))),
                 (2, lambda: ('sfs.moment', 1, T())),
                 (1, lambda: ('sfs.accumulate', 1, ts())),
                 (1, lambda: ('sfs.deme.mean', rng.choice(names)))]
        if cov_ok(cfg, quick) and not light:
            opts += [(2, lambda: ('sfs.cov',)), (1, lambda: ('sfs.var',)), (1, lambda: ('fsfs.cov',)), (2, lambda: ('sfs.corr',)),
                     (1, lambda: ('fsfs.corr',))]
        if single:
            th = lambda: rng.choice([0.0, 0.125, 0.5, 1.0, 2.0, 0.3])
            opts += [(6, lambda: ('mutcfg', rand_config_vec(rng, n - 1, rng.randint(0, 3)), th())),
                     (3, lambda: ('fmutcfg', rand_config_vec(rng, n // 2, rng.randint(0, 3)), th()))]
    else:
        opts += [(3, lambda: ('th.loci.mean', rng.randrange(2))), (2, lambda: ('tbl.loci.mean', rng.randrange(2))),
                 (2, lambda: ('th.loci.cov',)), (1, lambda: ('th.loci.corr',))]
    if len(names) >= 2 and not light:
        opts += [(1, lambda: ('th.demes.cov',)), (1, lambda: ('th.demes.corr',))]
    w = [o[0] for o in opts]
    return rng.choices(opts, weights=w)[0][1]()


def rand_history(rng, cfg, quick, length=None):
    L = length or rng.randint(3, 10 if quick else 16)
    hist = []
    for _ in range(L):
        if hist and rng.random() < 0.15:
            hist.append(rng.choice(hist))     # repeat an earlier question (memoised answer)
        else:
            hist.append(rand_query(rng, cfg, quick))
    return hist


# ----------------------------------------------------------------------------------------------- (a), (b)
def build(pg, cfg, cache=True, **over):
    c = conv.make_coalescent(pg, cfg, **over)
    if not cache:
        c.lineage_counting_state_space.cache = False
        if cfg.get('loci', 1) == 1:
            c.block_counting_state_space.cache = False
    return c


def eval_history(ctx, pg, mode, cfg, hist, report_from=0):
    """mode: 'hist' (cache on) | 'hist-off' (cache off on the history object)"""
    H = build(pg, cfg, cache=(mode == 'hist'))
    n_ep = len(cfg['epochs'])
    for i, q in enumerate(hist):
        obs = run_query(pg, H, q)
        exp = run_query(pg, build(pg, cfg), q)
        ok = same(obs, exp)
        ctx.case(dict(mode=mode, cfg=cfg, step=i, query=q, fresh=show(exp), history=show(obs)),
                 (gen.cfg_key(cfg), mode, i, repr(q)) if i >= 1 and n_ep >= 2 else None)
        ctx.count(f'{mode}:{q[0]}'); ctx.count(f'{mode}:epochs{n_ep}'); ctx.count(f'{mode}:demes{len(cfg["n"])}')
        ctx.count(f'{mode}:{cfg["model"][0]}:loci{cfg.get("loci", 1)}')
        if obs[0] == 'exc':
            ctx.count(f'{mode}:raised:{obs[1]}')
        if not ok:
            ctx.violation(f'{mode}:{q[0]}', mode=mode, cfg=cfg, history=hist, step=i, query=q,
                          expected=show(exp), observed=show(obs), tolerance=dict(rel=REL, abs=ABS),
                          oracle='the same query asked first on a fresh Coalescent of the same configuration')
            return


# ----------------------------------------------------------------------------------------------- (c)
def cfg_from_params(tpl, p):
    names = list(tpl['names'])
    eps = []
    for e in range(tpl['n_epochs']):
        eps.append(dict(start=0.0 if e == 0 else float(p[f't{e}']),
                        sizes={a: float(p[f'N{e}_{a}']) for a in names},
                        mig={(a, b): float(p[f'm{e}_{a}_{b}']) for a in names for b in names if a != b}))
    model = tuple(tpl['model'])
    if model[0] == 'beta' and 'alpha' in p:
        model = ('beta', float(p['alpha'])) + model[2:]
    if model[0] == 'dirac' and 'psi' in p:
        model = ('dirac', float(p['psi']), float(p['c'])) + model[3:]
    cfg = dict(n={a: int(tpl['n'][a]) for a in names}, model=model, epochs=eps, loci=tpl.get('loci', 1))
    if cfg['loci'] == 2:
        cfg['r'] = float(p.get('r', tpl['r'])); cfg['n_unl'] = tpl['n_unl']
    if p.get('T') is not None:
        cfg['end_time'] = float(p['T'])
    return cfg


def params_from_cfg(cfg):
    p = {}
    for e, ep in enumerate(cfg['epochs']):
        if e:
            p[f't{e}'] = ep['start']
        for a, s in ep['sizes'].items():
            p[f'N{e}_{a}'] = s
        for (a, b), m in ep['mig'].items():
            p[f'm{e}_{a}_{b}'] = m
    return p


def rand_template(rng, quick):
    single = rng.random() < 0.5
    loci = 2 if rng.random() < 0.2 else 1
    cfg = rand_cfg17(rng, quick, single_epoch=single, loci=loci)
    cfg.pop('end_time', None); cfg.pop('start_time', None)
    names = conv.cfg_names(cfg)
    tpl = dict(names=names, n=dict(cfg['n']), model=cfg['model'], n_epochs=len(cfg['epochs']), loci=loci)
    if loci == 2:
        tpl['r'] = cfg['r']; tpl['n_unl'] = cfg['n_unl']
        p0 = params_from_cfg(cfg); p0['r'] = float(cfg['r'])      # the recombination rate is a free parameter too
        return tpl, p0
    p0 = params_from_cfg(cfg)
    # the parameters of the coalescent MODEL are parameters of the inference too
    if cfg['model'][0] == 'beta':
        p0['alpha'] = float(cfg['model'][1])
    if cfg['model'][0] == 'dirac':
        p0['psi'], p0['c'] = float(cfg['model'][1]), float(cfg['model'][2])
    return tpl, p0


def mutate_params(rng, tpl, p, earlier):
    names, ne = tpl['names'], tpl['n_epochs']
    u = rng.random()
    q = dict(p)
    if u < 0.12 and earlier:
        return dict(rng.choice(earlier))                        # exactly an earlier parameter set
    what = rng.choice(['mig', 'mig', 'size', 'size', 'time', 'T', 'all']) if len(names) > 1 else \
        rng.choice(['size', 'size', 'time', 'T', 'all'])
    mk = [k for k in ('alpha', 'psi', 'c') if k in p]
    if mk and rng.random() < 0.4:
        # only a model parameter differs from an earlier parameter set: by a hair (far below any closeness tolerance) or clearly
        k = rng.choice(mk)
        if rng.random() < 0.5:
            q[k] = float(p[k]) * (1 + rng.choice([-1, 1]) * 2.0 ** -rng.choice([18, 22, 26]))
        else:
            q[k] = {'alpha': rng.choice([1.25, 1.5, 1.75]), 'psi': rng.choice([0.25, 0.5, 0.75]), 'c': rng.choice([0.5, 1.0, 3.0])}[k]
        if q[k] != p[k] and rng.random() < 0.7:
            return q
    if tpl.get('loci', 1) == 2 and rng.random() < 0.5:
        # only the recombination rate differs from an earlier parameter set
        q['r'] = rng.choice([x for x in (0.0, 0.125, 0.5, 1.0, 3.0, 8.0) if x != p.get('r')])
        if rng.random() < 0.7:
            return q
    if what in ('mig', 'all'):
        for e in range(ne):
            for a in names:
                for b in names:
                    if a != b and rng.random() < 0.7:
                        last = e == ne - 1
                        q[f'm{e}_{a}_{b}'] = gen.dyadic(rng, -3, 1) * rng.choice([1.0, 1.5]) if (last or rng.random() < 0.8) else 0.0
    if what in ('size', 'all'):
        for e in range(ne):
            for a in names:
                if rng.random() < 0.7:
                    q[f'N{e}_{a}'] = gen.dyadic(rng, -3, 3) * rng.choice([1.0, 1.25])
    if what in ('time', 'all') and ne > 1:
        t = 0.0
        for e in range(1, ne):
            t += 2.0 ** rng.randint(-3, 2)
            q[f't{e}'] = t
    if what in ('T', 'all'):
        q['T'] = rng.choice([None, float(2.0 ** rng.randint(-2, 3))])
    return q


def rand_shared(rng, quick):
    tpl, p0 = rand_template(rng, quick)
    cfg0 = cfg_from_params(tpl, p0)
    psets = [p0]
    n_sets = rng.randint(2, 4 if quick else 6)
    for _ in range(n_sets - 1):
        psets.append(mutate_params(rng, tpl, rng.choice(psets), psets))
    steps = [('new', 0)]
    created = [0]
    nxt = 1
    L = rng.randint(4, 10 if quick else 16)
    while len(steps) < L + n_sets or nxt < n_sets:
        if nxt < n_sets and (rng.random() < 0.35 or len(steps) >= L + n_sets):
            steps.append(('new', nxt)); created.append(nxt); nxt += 1
        else:
            # queries on the newest object and on earlier ones
            j = created[-1] if rng.random() < 0.5 else rng.choice(created)
            steps.append(('q', j, rand_query(rng, cfg_from_params(tpl, psets[j]), quick, light=True)))
        if len(steps) > 40:
            break
    return tpl, psets, steps


def eval_shared(ctx, pg, tpl, psets, steps, inf_cache):
    made = []

    def coal_fn(**kw):
        made.append(dict(kw))
        return conv.make_coalescent(pg, cfg_from_params(tpl, kw))

    keys = sorted({k for p in psets for k in p if k != 'T'})
    inf = pg.Inference(bounds={k: (0.0, 1e9) for k in keys}, x0={k: psets[0][k] for k in keys}, coal=coal_fn,
                       loss=lambda coal, obs: 0.0, parallelize=False, pbar=False, seed=0, cache=inf_cache, n_runs=1)
    mode = 'shared' if inf_cache else 'unshared'
    objs = {}
    n_q = 0
    for i, st in enumerate(steps):
        if st[0] == 'new':
            p = psets[st[1]]
            try:
                objs[st[1]] = inf.get_coal(**{k: v for k, v in p.items() if not (k == 'T' and v is None)})
            except Exception as e:
                if type(e).__name__ == 'TimeoutCase':
                    raise
                # a fresh Coalescent of these parameters can be built and queried, the inference route cannot
                ctx.case(dict(mode=mode, template=tpl, params=p, step=i, get_coal=f'raised {type(e).__name__}'), None)
                ctx.violation(f'{mode}:get_coal-raises:loci{tpl.get("loci", 1)}', mode=mode, template=tpl, param_sets=psets,
                              steps=steps, step=i, params=p, inference_cache=inf_cache,
                              expected='a Coalescent answering like a fresh one', observed=f'{type(e).__name__}: {e}',
                              oracle='Coalescent built directly from the same parameters')
                return
            ctx.count(f'{mode}:new'); ctx.count(f'{mode}:loci{tpl.get("loci", 1)}')
            continue
        _, j, q = st
        cfg = cfg_from_params(tpl, psets[j])
        obs = run_query(pg, objs[j], q)
        exp = run_query(pg, conv.make_coalescent(pg, cfg), q)
        n_q += 1
        later = any(s[0] == 'new' and s[1] > j for s in steps[:i])
        ctx.case(dict(mode=mode, template=tpl, params=psets[j], step=i, query=q, fresh=show(exp), shared=show(obs)),
                 (repr(sorted(tpl['n'].items())), repr(tpl['model']), mode, i, repr(q), repr(sorted(psets[j].items())))
                 if len(objs) >= 2 else None)
        ctx.count(f'{mode}:{q[0]}'); ctx.count(f'{mode}:epochs{tpl["n_epochs"]}'); ctx.count(f'{mode}:demes{len(tpl["names"])}')
        if later:
            ctx.count(f'{mode}:query-on-earlier-object')
        if not same(obs, exp):
            ctx.violation(f'{mode}:{q[0]}', mode=mode, template=tpl, param_sets=psets, steps=steps, step=i, query=q,
                          object=j, params=psets[j], inference_cache=inf_cache, expected=show(exp), observed=show(obs),
                          tolerance=dict(rel=REL, abs=ABS),
                          oracle='fresh independent Coalescent with the same parameters')
            return


# ----------------------------------------------------------------------------------------------- (d)
def pool_cases(quick, rng):
    one_deme = lambda n, ne: dict(n={'pop_0': n}, model=('kingman',), loci=1,
                                  epochs=[dict(start=float(e) * 0.5, sizes={'pop_0': [1.0, 0.25, 4.0][e % 3]}, mig={}) for e in range(ne)])
    two = dict(n={'b': 2, 'a': 2}, model=('beta', 1.5, True), loci=1,
               epochs=[dict(start=0.0, sizes={'a': 1.0, 'b': 2.0}, mig={('a', 'b'): 0.5, ('b', 'a'): 0.25}),
                       dict(start=0.75, sizes={'a': 0.5, 'b': 2.0}, mig={('a', 'b'): 1.0, ('b', 'a'): 0.125})])
    cs = [dict(cfg=one_deme(7, 2), query=('sfs.cov',)),
          dict(cfg=two, query=('sfs.cov',)),
          dict(cfg=one_deme(8, 3), query=('sfs.accumulate', 1, [2.0, 0.25, 1.0]))]
    if not quick:
        cs += [dict(cfg=one_deme(9, 2), query=('sfs.mean',)),
               dict(cfg=one_deme(6, 3), query=('fsfs.cov',)),
               dict(cfg=two, query=('sfs.mean',)),
               dict(cfg=one_deme(8, 2), query=('sfs.var',)),
               dict(cfg=one_deme(7, 2), query=('sfs.accumulate', 2, [0.5, 3.0])),
               dict(cfg=dict(two, model=('dirac', 0.5, 1.0, True)), query=('fsfs.mean',)),
               dict(cfg=one_deme(8, 1), query=('sfs.cov',))]
    return cs


def eval_pool(ctx, pg, cfg, q):
    seq = run_query(pg, conv.make_coalescent(pg, cfg, parallelize=False), q)
    cp = conv.make_coalescent(pg, cfg, parallelize=True)
    # Coalescent does not hand its `parallelize` flag to the SFS distributions it creates (they default to
    # sequential), so the worker-process path is switched on through the distributions' own public attribute
    cp.sfs.parallelize = True
    cp.fsfs.parallelize = True
    par = run_query(pg, cp, q)
    ctx.case(dict(mode='pool', cfg=cfg, query=q, sequential=show(seq)[:6] if seq[0] == 'ok' else show(seq)),
             ('pool', gen.cfg_key(cfg), repr(q)))
    ctx.count(f'pool:{q[0]}')
    if not same(seq, par):
        ctx.violation(f'pool:{q[0]}', mode='pool', cfg=cfg, query=q, expected=show(seq), observed=show(par),
                      tolerance=dict(rel=REL, abs=ABS), oracle='parallelize=False on a fresh Coalescent')
    # ... and the same with the progress bar switched on (another branch of the helper that hands out the work)
    import io, contextlib
    cb = conv.make_coalescent(pg, cfg, parallelize=True, pbar=True)
    for d in (cb.sfs, cb.fsfs):
        d.parallelize = True
        d.pbar = True
    with contextlib.redirect_stderr(io.StringIO()):
        parb = run_query(pg, cb, q)
    ctx.count(f'pool+pbar:{q[0]}')
    if not same(seq, parb):
        ctx.violation(f'pool+pbar:{q[0]}', mode='pool', cfg=cfg, query=q, expected=show(seq), observed=show(parb),
                      tolerance=dict(rel=REL, abs=ABS), oracle='parallelize=False on a fresh Coalescent; here parallelize=True, pbar=True')


# ----------------------------------------------------------------------------------------------- driver
# ----------------------------------------------------------------------------------------------- (e) shared argument objects
def eval_alias(ctx, pg, rng, quick, item=None):
    """two Coalescents built from the SAME argument objects (LocusConfig, Demography, model, LineageConfig); the second may pass
    another recombination rate / sample / end time. Whatever is done with the second, the statistics of the first are those of
    a Coalescent built from fresh, unshared arguments."""
    two = rng.random() < 0.6
    names = list(rng.choice(gen.NAME_SETS)[:1 if two else rng.choice([1, 1, 2])])     # two loci: one deme, 2 -> 3 lineages
    n_a = {p: rng.randint(1, 2) for p in names}
    if sum(n_a.values()) < 2 or two:
        n_a[names[0]] = 2
    sizes = {p: {0: gen.dyadic(rng, -1, 2), 0.5: gen.dyadic(rng, -1, 2)} for p in names}
    mig = {(a, b): gen.dyadic(rng, -2, 1) for a in names for b in names if a != b}
    model_spec = ('kingman',) if two else rng.choice([('kingman',), ('beta', 1.5, True), ('dirac', 0.5, 1.0, True)])
    r_a, r_b = rng.sample([0.0, 0.125, 1.0, 5.0], 2)
    unl = rng.choice([0, 0, 1])

    def fresh_args():
        return dict(dem=pg.Demography(pop_sizes={p: dict(v) for p, v in sizes.items()}, migration_rates=dict(mig) if mig else None),
                    model=conv.make_model(pg, model_spec), lc=pg.LocusConfig(n=2, n_unlinked=unl) if two else None)

    def build(args, n, r, **kw):
        k = dict(n=dict(n), demography=args['dem'], model=args['model'], parallelize=False, pbar=False, **kw)
        if two:
            k.update(loci=args['lc'], recombination_rate=r)
        return pg.Coalescent(**k)

    def stats(c):
        out = [float(c.tree_height.mean), float(c.tree_height.var), float(c.total_branch_length.mean)]
        if two:
            out += [float(c.tree_height.loci.cov[0, 1])]
        return out

    shared = fresh_args()
    n_b = dict(n_a)
    n_b[names[0]] += 1
    if rng.random() < 0.3:
        n_b['extra_' + names[0]] = 0                 # a population the demography does not know yet (no lineages: isolated)
    order = rng.choice(['B-built-before-A-is-queried', 'A-queried-then-B', 'B-queried-before-A'])
    with C.LogCapture() as lc:
        A = build(shared, n_a, r_a)
        if order == 'A-queried-then-B':
            first = stats(A)
        B = build(shared, n_b, r_b, **({'end_time': 2.0} if rng.random() < 0.3 else {}))
        if order == 'B-queried-before-A':
            stats(B)
        got = stats(A)
        stats(B)
        again = stats(build(shared, n_a, r_a))      # a third object from the same (by now much used) arguments
        want = stats(build(fresh_args(), n_a, r_a))
    ctx.case(dict(mode='alias', two_loci=two, order=order, n_a=n_a, n_b=n_b, r=[r_a, r_b]), ('alias', two, order, str(n_a), r_a, r_b))
    ctx.count(f'alias:{order}'); ctx.count('alias:two-loci' if two else 'alias:one-locus')
    if lc.records:
        ctx.count('alias:warned'); return
    for name, obs in (('first-object', got), ('third-object', again)):
        if not all(C.close(a, b, REL, ABS) for a, b in zip(obs, want)):
            ctx.violation(f'alias:{name}:{"two-loci" if two else "one-locus"}', mode='alias', item=item, two_loci=two, order=order, names=names,
                          n_a=n_a, n_b=n_b, sizes=sizes, mig={str(k): v for k, v in mig.items()}, model=list(model_spec), r_a=r_a, r_b=r_b,
                          n_unlinked=unl, expected=want, observed=obs,
                          oracle='statistics [th.mean, th.var, tbl.mean(, loci cov)] of a Coalescent built from fresh argument objects')
            return


def one(ctx, item):
    pg = C.import_phasegen()
    mode, i = item
    if mode == 'alias':
        return eval_alias(ctx, pg, random.Random(f'{ctx.seed}-c17-{item}'), ctx.quick, item=list(item))
    rng = random.Random(f'{ctx.seed}-c17-{item}')
    quick = ctx.quick
    if mode in ('hist', 'hist-off'):
        u = rng.random()
        loci = 2 if u < 0.12 else 1
        cfg = rand_cfg17(rng, quick, single_epoch=(loci == 1 and u > 0.8), loci=loci)
        hist = rand_history(rng, cfg, quick)
        if cfg.get('start_time') and rng.random() < 0.6:
            # a windowed Coalescent asked for its raw moments first and its central moment afterwards (slots filled in that order)
            d = rng.choice(['th', 'tbl'])
            hist = [(f'{d}.mean',), (f'{d}.m2',), (f'{d}.var',)] + hist
        eval_history(ctx, pg, mode, cfg, hist)
    elif mode in ('shared', 'unshared'):
        tpl, psets, steps = rand_shared(rng, quick)
        eval_shared(ctx, pg, tpl, psets, steps, mode == 'shared')
    elif mode == 'pool':
        cs = pool_cases(quick, rng)
        eval_pool(ctx, pg, cs[i]['cfg'], cs[i]['query'])


def run(ctx):
    import check
    q = ctx.quick
    items = [('hist', i) for i in range(600 if q else 5000)] + [('hist-off', i) for i in range(300 if q else 2500)] + \
            [('shared', i) for i in range(400 if q else 3000)] + [('unshared', i) for i in range(100 if q else 800)] + \
            [('alias', i) for i in range(96 if q else 800)]
    ctx.rng.shuffle(items)
    check.pmap(ctx, 'props.c17', 'one', items, case_timeout=240 if q else 900)

    # correspondence with the Lean bookkeeping model (driver command), see props/corr_models.py
    check.pmap(ctx, 'props.corr_models', 'one_cache', list(range(16 if q else 120)), case_timeout=300)
    # ... and with the Lean model of the distribution-level memoisation (PGModel/Memo.lean, driver command `memo`): hit/miss
    # pattern of functools.cache / cached_property and every answer against a fresh object
    check.pmap(ctx, 'props.corr_models', 'one_memo', list(range(16 if q else 160)), case_timeout=600)
    check.pmap(ctx, 'props.corr_models', 'one_epochkey', list(range(8 if q else 80)), case_timeout=300)
    # ... and with the Lean model of state-space sharing in Inference.get_coal (PGModel/Share.lean, driver command `share`)
    check.pmap(ctx, 'props.corr_models', 'one_share', list(range(16 if q else 120)), case_timeout=600)
    # the pool comparison runs in this process (a pool inside a pool worker is not allowed), one after the other
    pg = C.import_phasegen()
    for i, c in enumerate(pool_cases(q, None)):
        eval_pool(ctx, pg, c['cfg'], c['query'])
    # ... and the helper that hands out the work itself, against its Lean model (PGModel/Parallel.lean, driver command `parallel`)
    from props import corr_models
    corr_models.run_parallel_probe(ctx, 12 if q else 40)


def fix_query(q):
    return list(q)


def replay(ctx, payload):
    pg = C.import_phasegen()
    if payload.get('mode') == 'memo':
        from props import corr_models
        return corr_models.replay_memo(ctx, payload['memo_origin'])
    mode = payload['mode']
    if mode in ('hist', 'hist-off'):
        cfg = conv.cfg_from_json(payload['cfg'])
        eval_history(ctx, pg, mode, cfg, [fix_query(q) for q in payload['history']])
    elif mode in ('shared', 'unshared'):
        tpl = payload['template']
        tpl['model'] = tuple(tpl['model'])
        steps = [tuple(s) for s in payload['steps']]
        eval_shared(ctx, pg, tpl, payload['param_sets'], steps, bool(payload['inference_cache']))
    elif mode == 'pool':
        eval_pool(ctx, pg, conv.cfg_from_json(payload['cfg']), payload['query'])
    elif mode == 'alias':
        # the scenario is a deterministic function of (seed, item): regenerate it
        item = tuple(payload['item'])
        eval_alias(ctx, pg, random.Random(f"{payload['seed']}-c17-{item}"), payload.get('tier', 'quick') == 'quick', item=list(item))
