"""
Child process of the cross-process clause of C18: load a Coalescent from a file that ANOTHER interpreter process wrote
(this process has its own string / bytes hash salt: PYTHONHASHSEED is set by the parent) and evaluate the queries.
usage: c18_reader.py <saved.json> <queries.json>     prints one line  RESULT <json>
"""
import os, sys, json
for _v in ('OMP_NUM_THREADS', 'OPENBLAS_NUM_THREADS', 'MKL_NUM_THREADS'):
    os.environ.setdefault(_v, '1')
sys.path.insert(0, os.path.join(os.path.dirname(os.path.abspath(__file__)), '..'))
import pgcommon as C
from props import c17 as Q


def main():
    path, qpath = sys.argv[1], sys.argv[2]
    pg = C.import_phasegen()
    with open(qpath) as fh:
        stats = json.load(fh)
    out = []
    with C.LogCapture():
        try:
            c = pg.Coalescent.from_file(path)
        except Exception as e:
            print('RESULT ' + json.dumps(dict(load_error=f'{type(e).__name__}: {str(e)[:200]}')))
            return
        for q in stats:
            r = Q.run_query(pg, c, q)
            out.append([r[0], r[1]] if r[0] == 'exc' else [r[0], list(r[1].shape), [float(x).hex() for x in r[1].ravel()]])
    print('RESULT ' + json.dumps(dict(results=out, hashseed=os.environ.get('PYTHONHASHSEED'))))


if __name__ == '__main__':
    main()
