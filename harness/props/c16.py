"""
C16 — mutation-configuration probabilities form the distribution implied by the tree.

Correspondence: real `get_mutation_config` against the exact rational value of the Lean model (`mutConfigProb`:
`getP`, `distinctOrderings`), `_unfold` / `_get_partitions` / `multiset_permutations` against `unfoldConfig`,
`partitionsOf`, `distinctOrderings`.
Direct oracle on the real code: non-negativity, total mass -> 1, empty configuration = Laplace transform of the total
branch length, expected counts = theta * expected SFS, first-step recursion, folded = sum over unfoldings.
"""
import itertools, math, random
from fractions import Fraction
import numpy as np
import pgcommon as C
import conv, gen

META = dict(
    level='proof',
    rule='random single-epoch configurations (n<=4 quick / <=5 thorough, 1-2 demes, all models), theta in {0, 1/8, 1, 7.5}; '
         'all configurations with <= 3 (thorough: 5) mutations; non-trivial = theta > 0, n >= 3',
    trusted_base=['PT4 (Feynman-Kac / competing exponential clocks reading of the resolvent formulas) textbook, modelled',
                  'numpy.linalg.inv on well-conditioned small matrices'],
    assumptions=['1e-10 relative + 1e-14 absolute against the exact model value'],
)


def configs_upto(n_bins, M):
    out = []
    for m in range(M + 1):
        def rec(k, rem):
            if k == 1:
                yield [rem]; return
            for i in range(rem + 1):
                for rest in rec(k - 1, rem - i):
                    yield [i] + rest
        out += [tuple(c) for c in rec(n_bins, m)] if n_bins >= 1 else []
    return out


def one(ctx, i):
    pg = C.import_phasegen()
    rng = random.Random(f'{ctx.seed}-c16-{i}')
    quick = ctx.quick
    cfg = gen.rand_cfg(rng, n_max=4 if quick else 5, demes_max=2, epochs_max=1)
    if rng.random() < 0.2:
        # one deme, more lineages (the block-counting space has only p(n) states): even n >= 6 is the first size at which a
        # folded class has two mirrored partners besides the self-mirrored centre
        cfg = gen.rand_cfg(rng, n_max=4, demes_max=1, epochs_max=1)
        cfg['n'][list(cfg['n'])[0]] = rng.choice([6, 6, 7, 8])
    n = sum(cfg['n'].values())
    theta = rng.choice([0.0, 0.125, 1.0, 7.5])
    M = (3 if quick else (5 if n <= 4 else 4)) if n <= 5 else 2
    coal = conv.make_coalescent(pg, cfg)
    drv = C.driver()
    k_states = conv.setup_model(drv, cfg, 'bc')
    ctx.case(dict(cfg=cfg, theta=theta, M=M), (gen.cfg_key(cfg), theta) if theta > 0 and n >= 3 else None)
    ctx.count(f'theta={theta}'); ctx.count(f'n{n}'); ctx.count(cfg['model'][0]); ctx.count(f'demes{len(cfg["n"])}')
    # ---- combinatorial helpers: correspondence
    import phasegen.utils as U
    from phasegen.state_space import StateSpace
    ms = [rng.randint(1, 3) for _ in range(rng.randint(0, 5))]
    real_perm = sorted(tuple(p) for p in U.multiset_permutations(ms))
    model_perm = sorted(tuple(int(x) for x in t.split(',')) for t in drv.ask(f'orderings {C.nlist(sorted(ms))}').split()) if ms else [()]
    if len(set(real_perm)) != len(real_perm) or real_perm != model_perm:
        ctx.violation('multiset-permutations', multiset=ms, real=real_perm[:10], expected=model_perm[:10])
    # _unfold is pure combinatorics on (n, folded configuration): larger n than the probabilities below can afford,
    # against the model and against the brute-force pre-image of the folding map
    un = rng.randint(2, 11)
    ucoal = pg.Coalescent(n=un, parallelize=False, pbar=False)
    uc = [rng.choice([0, 0, 1, 1, 2]) for _ in range(un // 2)]
    got = sorted(tuple(int(x) for x in u) for u in ucoal.fsfs._unfold(list(uc)))
    model_u = sorted(tuple(int(x) for x in t.split(',')) for t in drv.ask(f'unfold {un} {C.nlist(uc)}').split())
    pre = sorted(u for u in itertools.product(*[range(max(uc) + 1)] * (un - 1))
                 if all((u[i] + u[un - 2 - i] if i != un - 2 - i else u[i]) == uc[i] for i in range(un // 2)))
    ctx.count(f'unfold-n{un}')
    if got != model_u:
        ctx.corr_break('unfold', n=un, config=uc, real=got[:12], model=model_u[:12])
    if got != pre:
        ctx.violation('unfold-preimage', cfg=dict(n=un), n=un, config=uc, observed=got[:20], expected=pre[:20],
                      oracle='all vectors u of length n-1 with u_i + u_(n-i) = c_i (u_(n/2) = c_(n/2) for even n)')
    mm, kk = rng.randint(0, 4), rng.randint(1, 4)
    rp = [tuple(p) for p in StateSpace._get_partitions(mm, kk)]
    mp = [tuple(int(x) for x in t.split(',')) for t in drv.ask(f'partitions {mm} {kk}').split()]
    if rp != mp:
        ctx.corr_break('partitions', n=mm, k=kk, real=rp[:8], model=mp[:8])
    # ---- probabilities
    total = {'u': 0.0, 'f': 0.0}
    probs = {}
    for kind, dist, nb in (('u', coal.sfs, n - 1), ('f', coal.fsfs, n // 2)):
        for c in configs_upto(nb, M):
            with C.LogCapture():
                p = float(dist.get_mutation_config(config=list(c), theta=theta))
            probs[(kind, c)] = p
            total[kind] += p
            if p < -1e-12 or not math.isfinite(p):
                ctx.violation('negative-probability', cfg=cfg, theta=theta, kind=kind, config=c, observed=p)
            if theta > 0:
                exp = Fraction(drv.ask(f'mutcfg {kind} {C.rs(theta)} {C.nlist(c)}'))
                if not abs(p - float(exp)) <= 1e-10 * abs(float(exp)) + 1e-14:
                    ctx.violation(f'mutation-config:{kind}', cfg=cfg, theta=theta, config=c, expected=float(exp), observed=p,
                                  oracle='Lean model mutConfigProb (exact rational arithmetic)')
            else:
                want = 1.0 if sum(c) == 0 else 0.0
                if p != want:
                    ctx.violation('theta-zero', cfg=cfg, config=c, observed=p, expected=want)
        if total[kind] > 1 + 1e-9:
            ctx.violation('mass-exceeds-one', cfg=cfg, theta=theta, kind=kind, mass=total[kind])
    if theta > 0:
        # independent linear algebra on the real rate matrix
        ss = coal.block_counting_state_space
        ss.update_epoch(coal.demography.get_epoch(0))
        S = np.array(ss.S, dtype=float)
        from phasegen.rewards import TreeHeightReward, UnfoldedSFSReward, TotalBranchLengthReward
        na = TreeHeightReward()._get(ss).astype(bool)
        T = S[na][:, na]
        alpha = np.array(ss.alpha, dtype=float)[na]
        rt = TotalBranchLengthReward()._get(ss)[na].astype(float)
        Dm = np.diag(rt)
        G = np.linalg.inv(theta * Dm - T)
        one_ = np.ones(T.shape[0])
        # empty configuration = Laplace transform of the total branch length at theta
        lap = float(alpha @ G @ (-(T @ one_)))
        p0 = probs[('u', tuple([0] * (n - 1)))]
        if not C.close(p0, lap, 1e-9, 1e-13):
            ctx.violation('empty-config-laplace', cfg=cfg, theta=theta, expected=lap, observed=p0)
        # mass of all configurations with at most M mutations = 1 - alpha Ptot^(M+1) 1
        Ptot = G @ (theta * Dm)
        want_mass = 1.0 - float(alpha @ np.linalg.matrix_power(Ptot, M + 1) @ one_)
        for kind in ('u', 'f'):
            if not C.close(total[kind], want_mass, 1e-8, 1e-12):
                ctx.violation('mass', cfg=cfg, theta=theta, kind=kind, M=M, expected=want_mass, observed=total[kind])
        # expected counts: partial sums approach theta * E[SFS_i] from below
        with C.LogCapture() as lc:
            sfs_mean = np.array(coal.sfs.mean.data, dtype=float)
        if not lc.records:
            for b in range(n - 1):
                partial = sum(c[b] * p for (kind, c), p in probs.items() if kind == 'u')
                lim = theta * sfs_mean[b + 1]
                if partial > lim * (1 + 1e-7) + 1e-12:
                    ctx.violation('expected-counts', cfg=cfg, theta=theta, bin=b + 1, partial_sum=partial, theta_times_sfs=lim)
                if want_mass > 1 - 1e-6 and not C.close(partial, lim, 1e-3, 1e-9):
                    ctx.violation('expected-counts-limit', cfg=cfg, theta=theta, bin=b + 1, partial_sum=partial, theta_times_sfs=lim)
        # first-step recursion: (theta D - T) v_c = theta sum_i diag(R_i) v_{c - e_i},  (theta D - T) v_0 = -T 1
        R = [UnfoldedSFSReward(b + 1)._get(ss)[na].astype(float) for b in range(n - 1)]
        v = {tuple([0] * (n - 1)): G @ (-(T @ one_))}
        for c in configs_upto(n - 1, M):
            if sum(c) == 0:
                continue
            rhs = np.zeros(T.shape[0])
            for b in range(n - 1):
                if c[b] > 0:
                    prev = tuple(x - (1 if j == b else 0) for j, x in enumerate(c))
                    rhs += theta * R[b] * v[prev]
            v[c] = G @ rhs
            want = float(alpha @ v[c])
            if not C.close(probs[('u', c)], want, 1e-8, 1e-13):
                ctx.violation('first-step-recursion', cfg=cfg, theta=theta, config=c, expected=want, observed=probs[('u', c)])
                break
    # folded probability = sum over unfoldings; _unfold vs the model
    for c in configs_upto(n // 2, min(M, 3)):
        unf = sorted(coal.fsfs._unfold(list(c)))
        model_unf = sorted(tuple(int(x) for x in t.split(',')) for t in drv.ask(f'unfold {n} {C.nlist(c)}').split())
        if [tuple(int(x) for x in u) for u in unf] != model_unf:
            ctx.corr_break('unfold', n=n, config=c, real=[list(map(int, u)) for u in unf], model=model_unf)
        if theta > 0 and all(sum(u) <= M for u in unf):
            s = sum(probs[('u', tuple(int(x) for x in u))] for u in unf)
            if not C.close(probs[('f', c)], s, 1e-9, 1e-13):
                ctx.violation('folded-sum', cfg=cfg, theta=theta, config=c, folded=probs[('f', c)], sum_unfolded=s, unfoldings=[list(map(int, u)) for u in unf])
    # the same object asked again with ANOTHER mutation rate must answer for that rate
    theta2 = rng.choice([t for t in (0.125, 0.5, 1.0, 3.0) if t != theta])
    for kind, dist, nb in (('u', coal.sfs, n - 1), ('f', coal.fsfs, n // 2)):
        for c in configs_upto(nb, 2)[:4]:
            with C.LogCapture():
                p2 = float(dist.get_mutation_config(config=list(c), theta=theta2))
            exp2 = float(Fraction(drv.ask(f'mutcfg {kind} {C.rs(theta2)} {C.nlist(c)}')))
            if not abs(p2 - exp2) <= 1e-10 * abs(exp2) + 1e-14:
                ctx.violation(f'second-theta:{kind}', cfg=cfg, theta=theta2, first_theta=theta, config=c, expected=exp2, observed=p2,
                              oracle='Lean model mutConfigProb; same object queried earlier with first_theta')
                break
    ctx.count('second-theta')
    # generated_mass bookkeeping of the iterator
    # (for every theta >= 0 and both spectra: at theta = 0 the empty configuration carries all the mass)
    if theta == 0 or rng.random() < 0.5:
        for kind, dist in (('u', coal.sfs), ('f', coal.fsfs)):
            it = dist.get_mutation_configs(theta=theta)
            acc = 0.0
            for _ in range(6):
                try:
                    cfg_, p = next(it)
                except StopIteration:
                    break
                acc += p
                if not C.close(dist.generated_mass, acc, 1e-12, 1e-15):
                    ctx.violation('generated-mass', cfg=cfg, theta=theta, kind=kind, expected=acc, observed=float(dist.generated_mass))
                    break
            ctx.count(f'generated-mass:{"theta0" if theta == 0 else "theta>0"}')


def run(ctx):
    import check
    check.pmap(ctx, 'props.c16', 'one', list(range(160 if ctx.quick else 600)), case_timeout=300 if ctx.quick else 1500)


def replay(ctx, payload):
    pg = C.import_phasegen()
    if payload.get('signature') == 'unfold-preimage':
        un, uc = int(payload['n']), [int(x) for x in payload['config']]
        got = sorted(tuple(int(x) for x in u) for u in pg.Coalescent(n=un, parallelize=False, pbar=False).fsfs._unfold(list(uc)))
        pre = sorted(u for u in itertools.product(*[range(max(uc) + 1)] * (un - 1))
                     if all((u[i] + u[un - 2 - i] if i != un - 2 - i else u[i]) == uc[i] for i in range(un // 2)))
        ctx.case(dict(n=un, config=uc), 'replay')
        if got != pre:
            ctx.violation('unfold-preimage', cfg=dict(n=un), n=un, config=uc, observed=got[:20], expected=pre[:20])
        return
    cfg = conv.cfg_from_json(payload['cfg'])
    theta = payload.get('theta', 1.0)
    coal = conv.make_coalescent(pg, cfg)
    drv = C.driver()
    conv.setup_model(drv, cfg, 'bc')
    n = sum(cfg['n'].values())
    ctx.case(dict(cfg=cfg, theta=theta), 'replay')
    for kind, dist, nb in (('u', coal.sfs, n - 1), ('f', coal.fsfs, n // 2)):
        for c in configs_upto(nb, 3):
            p = float(dist.get_mutation_config(config=list(c), theta=theta))
            if theta > 0:
                exp = float(Fraction(drv.ask(f'mutcfg {kind} {C.rs(theta)} {C.nlist(c)}')))
                if not abs(p - exp) <= 1e-10 * abs(exp) + 1e-14:
                    ctx.violation(f'mutation-config:{kind}', cfg=cfg, theta=theta, config=c, expected=exp, observed=p)
