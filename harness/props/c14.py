"""
C14 — coalescent-model merger rates follow their defining measure and time scale.

Tie 1 (translator): harness/extract_rates.py regenerates lean/Generated/Rates.lean from the AST of
phasegen/coalescent_models.py before the Lean build; PGProperties/C14.lean proves generated = model and the
model's laws, so a change of the source arithmetic breaks a proof obligation.
Tie 2 (correspondence): real `_get_rate`, `_get_rate_block_counting`, `coalesce`, `_get_timescale` against the
exact tables of the Lean model (`rates`, `ratebc`, `coalesce` requests).
Direct oracle: Lambda-measure integrals (harness/spec.py `lam`), sampling consistency, outcome sums, limits,
time scales — all evaluated on the real functions.
"""
import itertools, math, random
from fractions import Fraction
import numpy as np
import pgcommon as C
import conv, gen, spec

META = dict(
    level='proof',
    rule='one case = one parameter point of one model; for it the full table 2<=k<=b<=12 (thorough 20), every '
         'block configuration of <= 7 lineages with every merger outcome, and the time scale at several N; '
         'non-trivial = every point (each has > 100 table entries)',
    trusted_base=['scipy.special.beta/comb and scipy.stats.binom.pmf compute what their names say (primitives of the translation)',
                  'harness/extract_rates.py (AST -> Lean translator)'],
    assumptions=['float comparisons at 1e-10 relative (1e-9 for Beta rates: scipy beta function)'],
)


def pre_build():
    import extract_rates
    extract_rates.regenerate()


def block_configs(max_lineages):
    """all block-count vectors (a_1..a_m) with total number of blocks b <= max_lineages (vector length = b's n)"""
    out = []
    for n in range(2, max_lineages + 1):
        # partitions of n as block counts a_i with sum i*a_i = n
        def rec(i, rem):
            if i > n:
                if rem == 0:
                    yield []
                return
            for a in range(rem // i + 1):
                for rest in rec(i + 1, rem - a * i):
                    yield [a] + rest
        for a in rec(1, n):
            out.append((n, a))
    return out


def points_plain(ctx):
    return [p for p in points(ctx) if p[0] != 'sequence']


def points(ctx):
    pts = [('kingman',)]
    alphas = [1.03125, 1.125, 1.5, 1.875, 1.999] if ctx.quick else [1 + i / 32 for i in range(1, 32)] + [1.999, 1.9999]
    for a in alphas:
        pts.append(('beta', a, True))
    diracs = [(0.125, 0.0), (0.5, 1.0), (0.75, 50.0)] if ctx.quick else \
        [(p, c) for p in (0.03125, 0.125, 0.25, 0.5, 0.75, 0.9375) for c in (0.0, 0.125, 1.0, 7.5, 50.0)]
    for p, c in diracs:
        pts.append(('dirac', p, c, True))
    pts.append(('beta', 1.5, False))
    pts.append(('dirac', 0.5, 2.0, False))
    # all of the above one after the other in ONE process (the items above run in separate worker processes): the rates of a
    # model object must not depend on which other models were constructed or evaluated before it
    pts.append(('sequence', len(pts), ctx.seed))
    pts.append(('sequence', len(pts), ctx.seed + 1))
    return pts


def sequence(ctx, item):
    pg = C.import_phasegen()
    rng = random.Random(f'c14-seq-{item[2]}')
    pts = [p for p in points_plain(ctx)]
    rng.shuffle(pts)
    ctx.case(dict(model=item, order=pts), repr(item))
    ctx.count('sequence')
    for model in pts:
        m = conv.make_model(pg, model)
        bmax = rng.choice([4, 6, 9])           # different models are asked for different ranges of (b, k)
        for b in range(2, bmax + 1):
            for k in range(2, b + 1):
                if model[0] == 'beta' and model[1] == 1.0:
                    continue
                real = float(m._get_rate(b=b, k=k))
                want = math.comb(b, k) * spec.lam(model, b, k)
                if not C.close(want, real, 1e-8, 1e-300):
                    ctx.violation(f'rate-after-other-models:{model[0]}', model=model, b=b, k=k, expected=want, observed=real,
                                  evaluated_before=pts[:pts.index(model)],
                                  oracle='C(b,k) * integral against the Lambda measure; same process evaluated the listed models first')
                    return
        # the SAME model object after its public parameters were re-assigned (a parameter sweep that keeps the object): its rates
        # are those of the new parameters
        others = [p for p in pts if p[0] == model[0] and p != model and model[0] in ('beta', 'dirac') and not (p[0] == 'beta' and p[1] == 1.0)]
        if others:
            new = rng.choice(others)
            if model[0] == 'beta':
                m.alpha, m.scale_time = new[1], new[2]
            else:
                m.psi, m.c, m.scale_time = new[1], new[2], new[3]
            for b in range(2, 7):
                for k in range(2, b + 1):
                    real = float(m._get_rate(b=b, k=k))
                    want = math.comb(b, k) * spec.lam(new, b, k)
                    if not C.close(want, real, 1e-8, 1e-300):
                        ctx.violation(f'rate-after-reassignment:{model[0]}', model=new, constructed_as=model, b=b, k=k, expected=want,
                                      observed=real, oracle='C(b,k) * integral against the Lambda measure of the NEW parameters')
                        return
            for N in (0.5, 3.0):
                if not C.close(float(m._get_timescale(N)), conv.timescale_oracle(new, N), 1e-10):
                    ctx.violation(f'timescale-after-reassignment:{model[0]}', model=new, constructed_as=model, N=N,
                                  expected=conv.timescale_oracle(new, N), observed=float(m._get_timescale(N)))
                    return
            ctx.count('sequence:parameters-reassigned')


def one(ctx, model):
    pg = C.import_phasegen()
    model = tuple(model)
    if model[0] == 'sequence':
        return sequence(ctx, model)
    drv = C.driver()
    m = conv.make_model(pg, model)
    ms = conv.model_spec(model)
    bmax = 12 if ctx.quick else 20
    rel = 1e-9 if model[0] == 'beta' else 1e-10
    ctx.case(dict(model=model, bmax=bmax), repr(model))
    ctx.count(model[0])
    # ---- rate table: correspondence and Lambda-measure oracle
    table = {}
    for tok in drv.ask(f'rates {ms} {bmax}').split():
        b, k, lam_, rate = tok.split(':')
        table[(int(b), int(k))] = (Fraction(lam_), Fraction(rate))
    n_entries = 0
    for b in range(2, bmax + 1):
        for k in range(2, b + 1):
            real = float(m._get_rate(b=b, k=k))
            n_entries += 1
            lam_model, rate_model = table[(b, k)]
            if model == ('beta', 1.0, True) or (model[0] == 'beta' and model[1] == 1.0):
                pass
            if not C.close(rate_model, real, rel, 1e-300):
                ctx.corr_break('get_rate', model=model, b=b, k=k, model_value=str(rate_model), real=real)
            want = math.comb(b, k) * spec.lam(model, b, k) if not (model[0] == 'beta' and model[1] in (1.0,)) else None
            if want is not None and not C.close(want, real, 1e-8, 1e-300):
                ctx.violation(f'rate:{model[0]}', model=model, b=b, k=k, expected=want, observed=real,
                              oracle='C(b,k) * integral of x^(k-2)(1-x)^(b-k) against the Lambda measure')
            if real < 0:
                ctx.violation(f'negative-rate:{model[0]}', model=model, b=b, k=k, observed=real)
    ctx.count('table-entries', n_entries)
    # ---- sampling consistency on the real functions
    lam_real = lambda b, k: float(m._get_rate(b=b, k=k)) / math.comb(b, k)
    for b in range(2, bmax):
        for k in range(2, b + 1):
            lhs, rhs = lam_real(b, k), lam_real(b + 1, k) + lam_real(b + 1, k + 1)
            if not C.close(lhs, rhs, 1e-9, 1e-300):
                ctx.violation(f'consistency:{model[0]}', model=model, b=b, k=k, lam_bk=lhs, sum_next=rhs)
    # ---- block-counting rates and outcomes
    nmax = 6 if ctx.quick else 7
    for n, blocks in block_configs(nmax):
        arr = np.array(blocks)
        real_out = m.coalesce(n, arr.copy())
        model_out = {}
        for tok in drv.ask(f'coalesce {ms} {C.nlist(blocks)}').split():
            key, r = tok.split('=')
            model_out[key] = model_out.get(key, 0) + Fraction(r)
        real_map = {}
        for tgt, r in real_out:
            key = C.nlist(tgt)
            real_map[key] = real_map.get(key, 0.0) + float(r)
        for key in set(model_out) | set(real_map):
            a, bb = model_out.get(key, 0), real_map.get(key, 0.0)
            if not C.close(a, bb, rel, 1e-300):
                ctx.corr_break('coalesce', model=model, blocks=blocks, target=key, model_value=str(a), real=bb)
        ctx.count('block-configs')
        # outcome sums: all outcomes with the same number of merging lineages sum to the lineage-counting rate
        b_tot = sum(blocks)
        by_k = {}
        for comb in itertools.product(*[range(a + 1) for a in blocks]):
            ksum = sum(comb)
            if ksum < 2:
                continue
            carr = np.array(comb)
            if model[0] == 'kingman':
                if ksum != 2:
                    continue
                sel_b, sel_k = arr[carr > 0], carr[carr > 0]
                r = m._get_rate_block_counting(n=b_tot, b=list(sel_b), k=list(sel_k))
            else:
                r = m._get_rate_block_counting(n=b_tot, b=arr[carr > 0], k=carr[carr > 0])
            # correspondence for the raw function
            mv = Fraction(drv.ask(f'ratebc {ms} {b_tot} {C.nlist(arr[carr > 0])} {C.nlist(carr[carr > 0])}'))
            if not C.close(mv, float(r), rel, 1e-300):
                ctx.corr_break('rate_block_counting', model=model, blocks=blocks, comb=list(comb), model_value=str(mv), real=float(r))
            want = float(np.prod([math.comb(a, c) for a, c in zip(blocks, comb)])) * spec.lam(model, b_tot, ksum) \
                if not (model[0] == 'beta' and model[1] == 1.0) else None
            if want is not None and not C.close(want, float(r), 1e-8, 1e-300):
                ctx.violation(f'block-rate:{model[0]}', model=model, blocks=blocks, comb=list(comb), expected=want, observed=float(r),
                              oracle='prod C(a_i, k_i) * lambda_{b, sum k}')
            by_k[ksum] = by_k.get(ksum, 0.0) + float(r)
        for ksum, tot in by_k.items():
            want = float(m._get_rate(b=b_tot, k=ksum))
            if not C.close(tot, want, 1e-9, 1e-300):
                ctx.violation(f'outcome-sum:{model[0]}', model=model, blocks=blocks, k=ksum, sum_block_rates=tot, lineage_rate=want)
    # ---- time scale
    for N in [2.0 ** e for e in (-4, -1, 0, 1, 3, 7)] + [0.3, 12.5, 1e6]:
        real = float(m._get_timescale(N))
        want = conv.timescale_oracle(model, N)
        if not C.close(real, want, 1e-10):
            ctx.violation(f'timescale:{model[0]}', model=model, N=N, expected=want, observed=real,
                          oracle='N (Kingman / unscaled), N^2 (Dirac), msprime Beta scaling')
    # ---- state-space rate matrices: in EVERY epoch of a demography (the state space is moved from epoch to epoch, as the
    # statistics do), and in whichever order the epochs are visited, the total rate from a state with b lineages to the states
    # with b - k + 1 lineages is C(b,k) lambda_{b,k} over the time scale of that epoch's population size
    if not (model[0] == 'beta' and model[1] == 1.0):
        rngm = random.Random(f'c14-matrix-{ctx.seed}-{model}')
        sizes = [1.0] + rngm.sample([0.25, 0.5, 2.0, 3.0, 10.0], 3)
        nn = rngm.choice([2, 2, 3, 4, 5])
        coal = pg.Coalescent(n=nn, model=conv.make_model(pg, model), parallelize=False, pbar=False,
                             demography=pg.Demography(pop_sizes={'pop_0': {float(i): v for i, v in enumerate(sizes)}}))
        eps_ = list(itertools.islice(coal.demography.epochs, len(sizes)))
        for which in ('lineage_counting_state_space', 'block_counting_state_space'):
            ss = getattr(coal, which)
            lin = [int(np.asarray(st.lineages)[0].sum()) for st in ss.states]
            visit = list(range(len(eps_))) + [rngm.randrange(len(eps_)) for _ in range(3)]
            for pos, e_i in enumerate(visit):
                ss.update_epoch(eps_[e_i])
                S = np.asarray(ss.S, dtype=float)
                ts = conv.timescale_oracle(model, sizes[e_i])
                for i, b in enumerate(lin):
                    for k in range(2, b + 1):
                        got = sum(S[i, j] for j, bj in enumerate(lin) if bj == b - k + 1 and j != i)
                        want = math.comb(b, k) * spec.lam(model, b, k) / ts
                        if not C.close(want, got, 1e-8, 1e-300):
                            ctx.violation(f'matrix-rate:{model[0]}', model=model, space=which, n=nn, sizes=sizes, visited=visit[:pos + 1],
                                          epoch=e_i, N=sizes[e_i], b=b, k=k, expected=want, observed=float(got),
                                          oracle='C(b,k) * Lambda-measure integral / documented time scale of N')
                            break
                    else:
                        continue
                    break
            ctx.count('matrix-epochs', len(visit))
    # ---- limits
    if model[0] == 'beta' and model[1] >= 1.999:
        eps = 2.0 - model[1]
        for b in range(2, 9):
            for k in range(2, b + 1):
                want = 1.0 if k == 2 else 0.0
                if abs(lam_real(b, k) - want) > 20 * eps:
                    ctx.violation('beta-alpha-to-2', model=model, b=b, k=k, lam=lam_real(b, k), kingman=want)
    if model[0] == 'dirac' and model[2] == 0.0:
        for b in range(2, 9):
            for k in range(2, b + 1):
                want = 1.0 if k == 2 else 0.0
                if abs(lam_real(b, k) - want) > 1e-12:
                    ctx.violation('dirac-c-zero', model=model, b=b, k=k, lam=lam_real(b, k), kingman=want)


def run(ctx):
    import check
    check.pmap(ctx, 'props.c14', 'one', points(ctx), case_timeout=600)


def replay(ctx, payload):
    if 'after-reassignment' in str(payload.get('signature', '')):
        pg = C.import_phasegen()
        old, new = tuple(payload['constructed_as']), tuple(payload['model'])
        ctx.case(dict(model=new, constructed_as=old), 'replay')
        m = conv.make_model(pg, old)
        for b in range(2, 7):
            for k in range(2, b + 1):
                m._get_rate(b=b, k=k)
        if new[0] == 'beta':
            m.alpha, m.scale_time = new[1], new[2]
        else:
            m.psi, m.c, m.scale_time = new[1], new[2], new[3]
        for b in range(2, 7):
            for k in range(2, b + 1):
                real, want = float(m._get_rate(b=b, k=k)), math.comb(b, k) * spec.lam(new, b, k)
                if not C.close(want, real, 1e-8, 1e-300):
                    ctx.violation(payload['signature'], model=new, constructed_as=old, b=b, k=k, expected=want, observed=real)
                    return
        for N in (0.5, 3.0):
            if not C.close(float(m._get_timescale(N)), conv.timescale_oracle(new, N), 1e-10):
                ctx.violation(payload['signature'], model=new, constructed_as=old, N=N, expected=conv.timescale_oracle(new, N),
                              observed=float(m._get_timescale(N)))
                return
        return
    if str(payload.get('signature', '')).startswith('rate-after-other-models'):
        pg = C.import_phasegen()
        model = tuple(payload['model'])
        ctx.case(dict(model=model), 'replay')
        for prev in payload.get('evaluated_before', []):
            pm = conv.make_model(pg, tuple(prev))
            for b in range(2, 10):
                for k in range(2, b + 1):
                    pm._get_rate(b=b, k=k)
        m = conv.make_model(pg, model)
        b, k = int(payload['b']), int(payload['k'])
        real, want = float(m._get_rate(b=b, k=k)), math.comb(b, k) * spec.lam(model, b, k)
        if not C.close(want, real, 1e-8, 1e-300):
            ctx.violation(payload['signature'], model=model, b=b, k=k, expected=want, observed=real,
                          evaluated_before=payload.get('evaluated_before', []))
        return
    one(ctx, tuple(payload['model']))
