"""
C09 — results obey the time-rescaling law and are accurate at every scale.

Direct oracle (metamorphic, real code): the same configuration with the unit of time changed by c (change times
times c, population sizes scaled so that the model's coalescent time scale is multiplied by c, migration and
recombination rates divided by c): k-th moments scale by c^k, cdf(c t) = cdf(t), quantiles scale by c, correlations
are unchanged; regularize=False equals regularize=True in the moderate regime.
Correspondence: the Lean model (exact rationals + fixed-point exponential, no conditioning problem) at extreme scales.
"""
import random, math
import numpy as np
import pgcommon as C
import conv, gen

META = dict(
    level='proof',
    rule='random configurations (1-2 demes, all models, 1-3 epochs, one or two loci) evaluated at scales c in 10^[-3..9] '
         '(all population sizes stay within [1e-3, 1e9]); non-trivial = >= 2 scales compared and >= 3 states',
    trusted_base=['scipy expm / IEEE doubles; the automatic horizon search', 'fixExp ~ exp (driver selftest)'],
    assumptions=['relative 1e-9 whenever no PhaseGen warning is logged (statement); the Beta size scaling N -> c^(1/(alpha-1)) N '
                 'is computed in floating point, which adds a relative error of ~1e-15 * log(c) / (alpha - 1)'],
)


def size_factor(model, c):
    """factor applied to population sizes so that the coalescent time scale is multiplied by c"""
    if model[0] == 'kingman':
        return c
    if model[0] == 'dirac':
        return math.sqrt(c) if model[3] else c
    if model[0] == 'beta':
        return c ** (1.0 / (model[1] - 1.0)) if model[2] else c
    raise ValueError(model)


def scale_cfg(cfg, c):
    f = size_factor(cfg['model'], c)
    out = dict(cfg)
    out['epochs'] = [dict(start=e['start'] * c, sizes={p: v * f for p, v in e['sizes'].items()},
                          mig={k: v / c for k, v in e['mig'].items()}) for e in cfg['epochs']]
    if cfg.get('r') is not None:
        out['r'] = cfg['r'] / c
    if cfg.get('end_time') is not None:
        out['end_time'] = cfg['end_time'] * c
    return out


def stats(pg, coal, cfg, c):
    """(name, order, value) list; values divided by c^order"""
    th, tbl = coal.tree_height, coal.total_branch_length
    out = [('th.mean', 1, float(th.mean)), ('th.var', 2, float(th.var)), ('th.m3', 3, float(th.moment(3, center=False))),
           ('tbl.mean', 1, float(tbl.mean)), ('tbl.var', 2, float(tbl.var)),
           ('cdf', 0, [float(x) for x in th.cdf(np.array([0.25, 1.0, 3.0]) * c)]),
           ('q50', 1, float(th.quantile(0.5)))]
    if cfg.get('loci', 1) == 1 and sum(cfg['n'].values()) <= 5:
        out.append(('sfs.mean', 1, [float(x) for x in coal.sfs.mean.data]))
        # a correlation is defined only where both variances are positive: entries whose variance is zero on the raw scale
        # (var <= 1e-9 * E[x^2], e.g. a count that is deterministic because no coalescence is possible before the end time)
        # are 0/0 in exact arithmetic and rounding noise in floats -> NaN = "not compared"
        corr = np.array(coal.sfs.corr.data, dtype=float)
        var, mean = np.array(coal.sfs.var.data, dtype=float), np.array(coal.sfs.mean.data, dtype=float)
        undef = var <= 1e-9 * (np.abs(var) + mean ** 2)
        corr[undef, :] = np.nan; corr[:, undef] = np.nan
        out.append(('sfs.corr', 0, [float(x) for x in corr.ravel()]))
    if cfg.get('loci', 1) == 2:
        lv = [float(th.loci[i].var) for i in (0, 1)]
        lm = [float(th.loci[i].mean) for i in (0, 1)]
        ok = all(v > 1e-9 * (abs(v) + m * m) for v, m in zip(lv, lm))
        out.append(('loci.corr', 0, float(th.loci.corr[0, 1]) if ok else float('nan')))
    return out


def far_horizon_m3(pg, cfg, c):
    """raw third moment of the tree height at scale 1 and at scale c (divided by c^3), both with an explicit end time 64 times
    the horizon the code chose for itself; None if a warning was logged"""
    out = []
    for cc in (1.0, c):
        sc = scale_cfg(cfg, cc)
        with C.LogCapture() as lc:
            T = float(conv.make_coalescent(pg, sc).tree_height.t_max) * 64
            v = float(conv.make_coalescent(pg, dict(sc, end_time=T)).tree_height.moment(3, center=False)) / cc ** 3
        if lc.records:
            return None
        out.append(v)
    return out


def compare(ctx, cfg, c, base, st, base_coal, pg=None):
    for (name, k, v0), (_, _, v) in zip(base, st):
        if name == 'q50':
            # quantile() promises F(b) - F(a) < precision = 1e-5 for its bracketing interval, nothing about the width of
            # [a, b] in time: the scaled quantile, brought back to the base unit, must be a 0.5-quantile of the BASE
            # distribution to that precision (a relative comparison of the two times is not implied where F is flat)
            with C.LogCapture() as lq:
                F = [float(x) for x in base_coal.tree_height.cdf(np.array([v / c, v0]))]
            if lq.records:
                ctx.count('warned-q50'); continue
            ctx.count('q50-compared')
            if not (abs(F[0] - 0.5) <= 1e-5 + 1e-9 and abs(F[1] - 0.5) <= 1e-5 + 1e-9):
                ctx.violation('rescale:q50', cfg=cfg, scale=c, order=k, base=v0, scaled=v, expected_ratio=c,
                              base_cdf_at_scaled_quantile=F[0], base_cdf_at_base_quantile=F[1], tolerance=1e-5)
            continue
        a = np.array(v0, dtype=float).ravel()
        b = np.array(v, dtype=float).ravel() / (c ** k)
        tol = 1e-9
        # a central moment is a difference of raw moments: "relative 1e-9" refers to the raw scale mean^k (a variance that is
        # exactly 0 - e.g. a height truncated before any coalescence is possible - comes out as +-1e-16)
        means = {n_: float(np.max(np.abs(np.array(x_, dtype=float)))) for n_, k_, x_ in base if k_ == 1 and n_.endswith('.mean')}
        floor = tol * means.get(name.split('.')[0] + '.mean', 0.0) ** k if k >= 2 and not name.endswith('.m3') else 0.0
        if name.endswith('corr') or name == 'cdf':
            bad = np.abs(a - b) > 1e-9          # NaN (undefined correlation, see stats) compares False: not compared
        else:
            bad = np.abs(a - b) > tol * np.maximum(np.abs(a), np.abs(b)) + floor + 1e-300
        if bad.any():
            sig = f'rescale:{name}'
            extra = {}
            if name == 'th.m3' and cfg.get('end_time') is None and pg is not None:
                # attribute the failure: the default horizon is chosen from the probability mass alone (P(T <= t_max) >= p_absorption),
                # which does not bound the mass of t^3 beyond it; with an explicit far horizon on both sides the law must hold
                far = far_horizon_m3(pg, cfg, c)
                extra = dict(far_horizon=far)
                if far is not None and abs(far[0] - far[1]) <= 1e-9 * max(abs(far[0]), abs(far[1])):
                    sig = 'rescale:th.m3:default-horizon-tail'
            ctx.violation(sig, cfg=cfg, scale=c, order=k, base=v0, scaled=v, expected_ratio=c ** k, **extra)


def one(ctx, i):
    pg = C.import_phasegen()
    rng = random.Random(f'{ctx.seed}-c09-{i}')
    quick = ctx.quick
    if rng.random() < 0.2:
        cfg = gen.rand_cfg(rng, n_max=3, demes_max=1, epochs_max=2, loci=2, lo=-1, hi=1)
    else:
        cfg = gen.rand_cfg(rng, n_max=5, demes_max=2, epochs_max=3, lo=-1, hi=1)
    if cfg['model'][0] == 'beta' and cfg['model'][2]:
        # keep c^(1/(alpha-1)) within the range of sizes the property covers
        cfg['model'] = ('beta', rng.choice([1.5, 1.75, 1.875]), True)
    if rng.random() < 0.3:
        cfg['end_time'] = float(2.0 ** rng.randint(-1, 2))
    scales = [1.0] + rng.sample([1e-3, 1e-2, 0.125, 8.0, 1e3, 1e6, 1e9] if not quick else [1e-3, 0.125, 8.0, 1e4, 1e9], 3 if quick else 6)
    base = None
    used = 0
    for c in scales:
        sc = scale_cfg(cfg, c)
        sizes = [v for e in sc['epochs'] for v in e['sizes'].values()]
        if min(sizes) < 1e-3 or max(sizes) > 1e9:
            ctx.count('scale-out-of-range')
            continue
        coal = conv.make_coalescent(pg, sc)
        with C.LogCapture() as lc:
            try:
                st = stats(pg, coal, cfg, c)
            except Exception as e:
                ctx.violation('exception', cfg=sc, scale=c, error=f'{type(e).__name__}: {e}')
                continue
        if lc.records:
            ctx.count('warned'); ctx.skipped += 1
            continue
        used += 1
        ctx.count(f'scale=1e{round(math.log10(c))}' if c not in (0.125, 8.0) else f'scale={c}')
        if base is None:
            base, base_coal = st, coal
            continue
        compare(ctx, cfg, c, base, st, base_coal, pg)
    ctx.case(dict(cfg=cfg, scales=scales), gen.cfg_key(cfg) if used >= 2 else None)
    ctx.count(cfg['model'][0])
    # regularisation off changes nothing in the moderate regime
    if rng.random() < 0.5:
        on = conv.make_coalescent(pg, cfg)
        off = conv.make_coalescent(pg, cfg, regularize=False)
        with C.LogCapture() as lc:
            pairs = [(float(on.tree_height.mean), float(off.tree_height.mean)), (float(on.tree_height.var), float(off.tree_height.var)),
                     (float(on.total_branch_length.moment(3, center=False)), float(off.total_branch_length.moment(3, center=False)))]
        if not lc.records:
            for a, b in pairs:
                # absolute floor on the raw scale (see compare): the pairs are mean, variance, raw third moment
                if not C.close(a, b, 1e-9, 1e-9 * pairs[0][0] ** 2):
                    ctx.violation('regularize-off', cfg=cfg, regularized=a, unregularized=b)
            ctx.count('regularize-compared')
    # the model at an extreme scale (fixed point arithmetic has no conditioning problem)
    if rng.random() < (0.25 if quick else 0.5) and cfg.get('loci', 1) == 1:
        c = rng.choice([1e-3, 1e6, 1e9])
        sc = scale_cfg(cfg, c)
        sizes = [v for e in sc['epochs'] for v in e['sizes'].values()]
        if 1e-3 <= min(sizes) and max(sizes) <= 1e9:
            coal = conv.make_coalescent(pg, sc)
            with C.LogCapture() as lc:
                T = coal.tree_height.t_max
                obs = float(coal.tree_height.mean)
            drv = C.driver()
            k_states = conv.setup_model(drv, sc, 'lc')
            if not lc.records and 2 * k_states <= 40:
                exp = float(conv.model_moment(drv, sc, False, True, [('th',)], [C.frac(T)])[0])
                if not C.close(obs, exp, 1e-7):
                    ctx.violation('extreme-scale-mean', cfg=sc, scale=c, expected=exp, observed=obs)
                ctx.count('model-at-extreme-scale')


# the input on which the known finding `rescale:th.m3:default-horizon-tail` (known_findings.json) was first observed; it is
# evaluated in every run, so the finding is exercised (and printed) on every run
KNOWN_TAIL_CFG = dict(
    n={'a': 4, 'B': 0}, model=('dirac', 0.75, 4.0, True), loci=1, epochs=[
        dict(start=0.0, sizes={'a': 0.5, 'B': 2.0}, mig={('a', 'B'): 0.0, ('B', 'a'): 0.5}),
        dict(start=1.0, sizes={'a': 2.0, 'B': 2.0}, mig={('a', 'B'): 0.125, ('B', 'a'): 1.0}),
        dict(start=1.25, sizes={'a': 1.0, 'B': 2.0}, mig={('a', 'B'): 0.125, ('B', 'a'): 0.125})])


def known_case(ctx, _):
    pg = C.import_phasegen()
    cfg = KNOWN_TAIL_CFG
    ctx.case(dict(cfg=cfg, scales=[1.0, 1e4], family='known-finding-regression'), 'known-tail')
    bc = conv.make_coalescent(pg, cfg)
    with C.LogCapture():
        a = stats(pg, bc, cfg, 1.0)
        b = stats(pg, conv.make_coalescent(pg, scale_cfg(cfg, 1e4)), cfg, 1e4)
    compare(ctx, cfg, 1e4, a, b, bc, pg)


def early_change(ctx, i, params=None):
    """accuracy at EVERY scale includes change points that are tiny in the chosen unit of time: two lineages in one deme whose size
    changes from N1 to N2 at t0 (Kingman): E[T] = N1 (1 - exp(-t0/N1)) + N2 exp(-t0/N1), and in the unit c every quantity scales"""
    import math
    pg = C.import_phasegen()
    rng = random.Random(f'{ctx.seed}-c09-early-{i}')
    P = params or dict(N1=rng.choice([1.0, 2.0]), N2=rng.choice([5.0, 0.25, 3.0]), t0=rng.choice([4e-8, 1e-7, 2.0 ** -20, 1e-3]),
                       c=rng.choice([1e-3, 1e-2, 1.0, 1e3]), route=rng.choice(['dict', 'event']))
    c = P['c']
    with C.LogCapture() as lc:
        if P['route'] == 'dict':
            d = pg.Demography(pop_sizes={'pop_0': {0: c * P['N1'], c * P['t0']: c * P['N2']}})
        else:
            d = pg.Demography(events=[pg.PopSizeChange(pop='pop_0', time=0, size=c * P['N1']),
                                      pg.PopSizeChange(pop='pop_0', time=c * P['t0'], size=c * P['N2'])])
        got = float(pg.Coalescent(n=2, demography=d, parallelize=False, pbar=False).tree_height.mean)
    want = c * (P['N1'] * (1 - math.exp(-P['t0'] / P['N1'])) + P['N2'] * math.exp(-P['t0'] / P['N1']))
    ctx.case(dict(kind='early-change', params=P, expected=want, observed=got), repr(sorted(P.items())))
    ctx.count(f'early-change:c={c}')
    if lc.records:
        ctx.skipped += 1; return
    if not abs(got - want) <= 1e-9 * abs(want):
        ctx.violation('rescale:early-change:th.mean', early_change_params=P, expected=want, observed=got, tolerance='1e-9 relative',
                      oracle='closed form for two lineages; change point at c * t0 in the unit c')


def run(ctx):
    import check
    check.pmap(ctx, 'props.c09', 'one', list(range(100 if ctx.quick else 400)), case_timeout=240 if ctx.quick else 1200)
    check.pmap(ctx, 'props.c09', 'known_case', [0], case_timeout=240)
    check.pmap(ctx, 'props.c09', 'early_change', list(range(48 if ctx.quick else 300)), case_timeout=240)


def replay(ctx, payload):
    if 'early_change_params' in payload:
        return early_change(ctx, 0, params=payload['early_change_params'])
    pg = C.import_phasegen()
    cfg = conv.cfg_from_json(payload['cfg'])
    c = payload.get('scale', 1.0)
    ctx.case(dict(cfg=cfg), 'replay')
    if payload['signature'].startswith('rescale'):
        bc = conv.make_coalescent(pg, cfg)
        a = stats(pg, bc, cfg, 1.0)
        b = stats(pg, conv.make_coalescent(pg, scale_cfg(cfg, c)), cfg, c)
        compare(ctx, cfg, c, a, b, bc, pg)
