"""
C09 — results obey the time-rescaling law and are accurate at every scale.

Direct oracle (metamorphic, real code): the same configuration with the unit of time changed by c (change times
times c, population sizes scaled so that the model's coalescent time scale is multiplied by c, migration and
recombination rates divided by c): k-th moments scale by c^k, cdf(c t) = cdf(t), quantiles scale by c, correlations
are unchanged; regularize=False equals regularize=True in the moderate regime.
Correspondence: the Lean model (exact rationals + fixed-point exponential, no conditioning problem) at extreme scales.
"""
import random, math
import numpy as np
import pgcommon as C
import conv, gen

META = dict(
    level='proof',
    rule='random configurations (1-2 demes, all models, 1-3 epochs, one or two loci) evaluated at scales c in 10^[-3..9] '
         '(all population sizes stay within [1e-3, 1e9]); non-trivial = >= 2 scales compared and >= 3 states',
    trusted_base=['scipy expm / IEEE doubles; the automatic horizon search', 'fixExp ~ exp (driver selftest)'],
    assumptions=['relative 1e-9 whenever no PhaseGen warning is logged (statement); the Beta size scaling N -> c^(1/(alpha-1)) N '
                 'is computed in floating point, which adds a relative error of ~1e-15 * log(c) / (alpha - 1)'],
)


def size_factor(model, c):
    """factor applied to population sizes so that the coalescent time scale is multiplied by c"""
    if model[0] == 'kingman':
        return c
    if model[0] == 'dirac':
        return math.sqrt(c) if model[3] else c
    if model[0] == 'beta':
        return c ** (1.0 / (model[1] - 1.0)) if model[2] else c
    raise ValueError(model)


def scale_cfg(cfg, c):
    f = size_factor(cfg['model'], c)
    out = dict(cfg)
    out['epochs'] = [dict(start=e['start'] * c, sizes={p: v * f for p, v in e['sizes'].items()},
                          mig={k: v / c for k, v in e['mig'].items()}) for e in cfg['epochs']]
    if cfg.get('r') is not None:
        out['r'] = cfg['r'] / c
    if cfg.get('end_time') is not None:
        out['end_time'] = cfg['end_time'] * c
    return out


def stats(pg, coal, cfg, c):
    """(name, order, value) list; values divided by c^order"""
    th, tbl = coal.tree_height, coal.total_branch_length
    out = [('th.mean', 1, float(th.mean)), ('th.var', 2, float(th.var)), ('th.m3', 3, float(th.moment(3, center=False))),
           ('tbl.mean', 1, float(tbl.mean)), ('tbl.var', 2, float(tbl.var)),
           ('cdf', 0, [float(x) for x in th.cdf(np.array([0.25, 1.0, 3.0]) * c)]),
           ('q50', 1, float(th.quantile(0.5)))]
    if cfg.get('loci', 1) == 1 and sum(cfg['n'].values()) <= 5:
        out.append(('sfs.mean', 1, [float(x) for x in coal.sfs.mean.data]))
        out.append(('sfs.corr', 0, [float(x) for x in np.array(coal.sfs.corr.data).ravel()]))
    if cfg.get('loci', 1) == 2:
        out.append(('loci.corr', 0, float(th.loci.corr[0, 1])))
    return out


def compare(ctx, cfg, c, base, st, base_coal):
    for (name, k, v0), (_, _, v) in zip(base, st):
        if name == 'q50':
            # quantile() promises F(b) - F(a) < precision = 1e-5 for its bracketing interval, nothing about the width of
            # [a, b] in time: the scaled quantile, brought back to the base unit, must be a 0.5-quantile of the BASE
            # distribution to that precision (a relative comparison of the two times is not implied where F is flat)
            with C.LogCapture() as lq:
                F = [float(x) for x in base_coal.tree_height.cdf(np.array([v / c, v0]))]
            if lq.records:
                ctx.count('warned-q50'); continue
            ctx.count('q50-compared')
            if not (abs(F[0] - 0.5) <= 1e-5 + 1e-9 and abs(F[1] - 0.5) <= 1e-5 + 1e-9):
                ctx.violation('rescale:q50', cfg=cfg, scale=c, order=k, base=v0, scaled=v, expected_ratio=c,
                              base_cdf_at_scaled_quantile=F[0], base_cdf_at_base_quantile=F[1], tolerance=1e-5)
            continue
        a = np.array(v0, dtype=float).ravel()
        b = np.array(v, dtype=float).ravel() / (c ** k)
        tol = 1e-9
        if name.endswith('corr') or name == 'cdf':
            bad = np.abs(a - b) > 1e-9
        else:
            bad = np.abs(a - b) > tol * np.maximum(np.abs(a), np.abs(b)) + 1e-300
        if bad.any():
            ctx.violation(f'rescale:{name}', cfg=cfg, scale=c, order=k, base=v0, scaled=v, expected_ratio=c ** k)


def one(ctx, i):
    pg = C.import_phasegen()
    rng = random.Random(f'{ctx.seed}-c09-{i}')
    quick = ctx.quick
    if rng.random() < 0.2:
        cfg = gen.rand_cfg(rng, n_max=3, demes_max=1, epochs_max=2, loci=2, lo=-1, hi=1)
    else:
        cfg = gen.rand_cfg(rng, n_max=5, demes_max=2, epochs_max=3, lo=-1, hi=1)
    if cfg['model'][0] == 'beta' and cfg['model'][2]:
        # keep c^(1/(alpha-1)) within the range of sizes the property covers
        cfg['model'] = ('beta', rng.choice([1.5, 1.75, 1.875]), True)
    if rng.random() < 0.3:
        cfg['end_time'] = float(2.0 ** rng.randint(-1, 2))
    scales = [1.0] + rng.sample([1e-3, 1e-2, 0.125, 8.0, 1e3, 1e6, 1e9] if not quick else [1e-3, 0.125, 8.0, 1e4, 1e9], 3 if quick else 6)
    base = None
    used = 0
    for c in scales:
        sc = scale_cfg(cfg, c)
        sizes = [v for e in sc['epochs'] for v in e['sizes'].values()]
        if min(sizes) < 1e-3 or max(sizes) > 1e9:
            ctx.count('scale-out-of-range')
            continue
        coal = conv.make_coalescent(pg, sc)
        with C.LogCapture() as lc:
            try:
                st = stats(pg, coal, cfg, c)
            except Exception as e:
                ctx.violation('exception', cfg=sc, scale=c, error=f'{type(e).__name__}: {e}')
                continue
        if lc.records:
            ctx.count('warned'); ctx.skipped += 1
            continue
        used += 1
        ctx.count(f'scale=1e{round(math.log10(c))}' if c not in (0.125, 8.0) else f'scale={c}')
        if base is None:
            base, base_coal = st, coal
            continue
        compare(ctx, cfg, c, base, st, base_coal)
    ctx.case(dict(cfg=cfg, scales=scales), gen.cfg_key(cfg) if used >= 2 else None)
    ctx.count(cfg['model'][0])
    # regularisation off changes nothing in the moderate regime
    if rng.random() < 0.5:
        on = conv.make_coalescent(pg, cfg)
        off = conv.make_coalescent(pg, cfg, regularize=False)
        with C.LogCapture() as lc:
            pairs = [(float(on.tree_height.mean), float(off.tree_height.mean)), (float(on.tree_height.var), float(off.tree_height.var)),
                     (float(on.total_branch_length.moment(3, center=False)), float(off.total_branch_length.moment(3, center=False)))]
        if not lc.records:
            for a, b in pairs:
                if not C.close(a, b, 1e-9):
                    ctx.violation('regularize-off', cfg=cfg, regularized=a, unregularized=b)
            ctx.count('regularize-compared')
    # the model at an extreme scale (fixed point arithmetic has no conditioning problem)
    if rng.random() < (0.25 if quick else 0.5) and cfg.get('loci', 1) == 1:
        c = rng.choice([1e-3, 1e6, 1e9])
        sc = scale_cfg(cfg, c)
        sizes = [v for e in sc['epochs'] for v in e['sizes'].values()]
        if 1e-3 <= min(sizes) and max(sizes) <= 1e9:
            coal = conv.make_coalescent(pg, sc)
            with C.LogCapture() as lc:
                T = coal.tree_height.t_max
                obs = float(coal.tree_height.mean)
            drv = C.driver()
            k_states = conv.setup_model(drv, sc, 'lc')
            if not lc.records and 2 * k_states <= 40:
                exp = float(conv.model_moment(drv, sc, False, True, [('th',)], [C.frac(T)])[0])
                if not C.close(obs, exp, 1e-7):
                    ctx.violation('extreme-scale-mean', cfg=sc, scale=c, expected=exp, observed=obs)
                ctx.count('model-at-extreme-scale')


def run(ctx):
    import check
    check.pmap(ctx, 'props.c09', 'one', list(range(100 if ctx.quick else 400)), case_timeout=240 if ctx.quick else 1200)


def replay(ctx, payload):
    pg = C.import_phasegen()
    cfg = conv.cfg_from_json(payload['cfg'])
    c = payload.get('scale', 1.0)
    ctx.case(dict(cfg=cfg), 'replay')
    if payload['signature'].startswith('rescale'):
        bc = conv.make_coalescent(pg, cfg)
        a = stats(pg, bc, cfg, 1.0)
        b = stats(pg, conv.make_coalescent(pg, scale_cfg(cfg, c)), cfg, c)
        compare(ctx, cfg, c, a, b, bc)
