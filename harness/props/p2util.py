"""
Helpers shared by the relational checks C11, C12, C13, C15 (both sides of every identity are computed by the real
code).  Nothing here is imported by check.py / pgcommon / conv / gen.

Importing this module pins the BLAS thread pools to one thread *before* numpy is loaded: the matrices are tiny and
check.pmap already uses one process per core; with the default 16 BLAS threads per process scipy's expm is 50-100x
slower.
"""
import os

for _v in ('OMP_NUM_THREADS', 'OPENBLAS_NUM_THREADS', 'MKL_NUM_THREADS'):
    os.environ.setdefault(_v, '1')

import math, itertools
from fractions import Fraction
from math import comb

import numpy as np

import pgcommon as C
import conv, gen


# ----------------------------------------------------------------------------- sizes of state spaces
def int_partitions(n, m=None):
    m = m or n
    if n == 0:
        yield []
        return
    for i in range(min(n, m), 0, -1):
        for p in int_partitions(n - i, i):
            yield [i] + p


def n_states_bc(n, D):
    """number of block-counting states of n lineages in D demes (one locus), computed without building them"""
    tot = 0
    for p in int_partitions(n):
        cnt = {}
        for x in p:
            cnt[x] = cnt.get(x, 0) + 1
        w = 1
        for a in cnt.values():
            w *= comb(a + D - 1, D - 1)
        tot += w
    return tot


def n_states_lc(n, D):
    return sum(comb(m + D - 1, D - 1) for m in range(1, n + 1))


def shrink(cfg, size_fn, limit):
    """remove samples (from the largest deme first) until size_fn(n, D) <= limit; keeps n >= 2"""
    D = len(cfg['n'])
    while sum(cfg['n'].values()) > 2 and size_fn(sum(cfg['n'].values()), D) > limit:
        p = max(cfg['n'], key=lambda q: (cfg['n'][q], q))
        cfg['n'][p] -= 1
    return cfg


# ----------------------------------------------------------------------------- migration graph
def holdable(cfg):
    """demes that can ever hold a lineage: closure of the sampled demes under edges positive in ANY epoch"""
    names = conv.cfg_names(cfg)
    H = {p for p in names if cfg['n'].get(p, 0) > 0}
    changed = True
    while changed:
        changed = False
        for e in cfg['epochs']:
            for (a, b), r in e['mig'].items():
                if r > 0 and a in H and b not in H:
                    H.add(b)
                    changed = True
    return H


def never_holds(cfg):
    """demes with no sample and every migration rate INTO them zero in every epoch"""
    names = conv.cfg_names(cfg)
    out = []
    for p in names:
        if cfg['n'].get(p, 0) > 0:
            continue
        if all(e['mig'].get((q, p), 0) == 0 for e in cfg['epochs'] for q in names if q != p):
            out.append(p)
    return out


def absorbing_certain(cfg):
    """in the last epoch some deme is reachable from every deme that can hold a lineage"""
    H = holdable(cfg)
    if len(H) <= 1:
        return True
    last = cfg['epochs'][-1]
    adj = {a: {b for b in H if a != b and last['mig'].get((a, b), 0) > 0} for a in H}
    common = set(H)
    for a in H:
        seen, st = {a}, [a]
        while st:
            x = st.pop()
            for y in adj[x]:
                if y not in seen:
                    seen.add(y)
                    st.append(y)
        common &= seen
    return bool(common)


def make_absorbing(cfg):
    """connect the holdable demes in the last epoch (never creates inflow into a deme outside that set)"""
    if not absorbing_certain(cfg):
        H = sorted(holdable(cfg))
        for a in H:
            for b in H:
                if a != b:
                    cfg['epochs'][-1]['mig'][(a, b)] = 0.5
    return cfg


# ----------------------------------------------------------------------------- numerics
def sym_psd(M):
    """(max asymmetry, min eigenvalue of the symmetrised matrix, trace)"""
    M = np.asarray(M, dtype=float)
    asym = float(np.abs(M - M.T).max()) if M.size else 0.0
    ev = np.linalg.eigvalsh((M + M.T) / 2) if M.size else np.array([0.0])
    return asym, float(ev.min()), float(np.trace(M))


STRETCH_MAX = 2000.0


def ill_scaled(T, mean_height):
    """
    The default horizon is chosen from the 1e-15 tail of the tree height; when almost all trees are short but a slow
    last epoch stretches the horizon to > 2000 mean tree heights, the Van Loan exponential (regularised with the first
    epoch's rates) silently loses digits: measured on /repo 3e-9 of the raw scale at order 2 and 6e-7 at order 3 for
    T / E[height] = 1.4e4, against <= 3e-12 at order 2 for T / E[height] <= 1.5e3 (no warning is logged).  Identities
    between DIFFERENT Van Loan evaluations are only compared below this stretch.
    """
    return mean_height > 0 and T / mean_height > STRETCH_MAX


def finite(*xs):
    return all(np.all(np.isfinite(np.asarray(x, dtype=float))) for x in xs)


# ----------------------------------------------------------------------------- harness-level rewards
LC_ONLY = ('lin', 'locus', 'tblloc')
BC_ONLY = ('sfs', 'fsfs', 'bcunit')


def supports_lc(r):
    """mirror of the documented rule: which state space a reward tuple is evaluated on"""
    if r[0] in ('P', 'S', 'C'):
        return all(supports_lc(x) for x in r[1])
    return r[0] not in BC_ONLY


def supports_bc(r):
    if r[0] in ('P', 'S', 'C'):
        return all(supports_bc(x) for x in r[1])
    return r[0] not in LC_ONLY


def make_reward(pg, r):
    """conv.make_reward plus ('bcunit',) = BlockCountingUnitReward"""
    import phasegen.rewards as R
    if r[0] == 'bcunit':
        return R.BlockCountingUnitReward()
    if r[0] == 'P':
        return R.ProductReward([make_reward(pg, x) for x in r[1]])
    if r[0] == 'S':
        return R.SumReward([make_reward(pg, x) for x in r[1]])
    if r[0] == 'C':
        return R.CombinedReward([make_reward(pg, x) for x in r[1]])
    return conv.make_reward(pg, r)


def reward_from_json(r):
    """undo jsonable() on a harness-level reward"""
    if r[0] in ('P', 'S', 'C'):
        return (r[0], [reward_from_json(x) for x in r[1]])
    return tuple(r)


def rname(r):
    if r[0] in ('P', 'S', 'C'):
        return r[0] + '[' + ','.join(rname(x) for x in r[1]) + ']'
    return ':'.join(str(x) for x in r)


# ----------------------------------------------------------------------------- exact reward-vector probe
def real_state_keys(ss):
    names = list(ss.lineage_config.pop_names)
    return [conv.canon_state_arrays(s.lineages, s.linked, names) for s in ss.states]


def probe_rewards(ctx, pg, cfg, ss, kind, rewards, probe):
    """
    Exact comparison of reward vectors of the real state space `ss` with the Lean model of the same configuration
    (states are matched through their canonical keys, not their order). Reports ctx.corr_break on any difference.
    Returns the number of compared vectors.
    """
    drv = C.driver()
    names = conv.cfg_names(cfg)
    conv.setup_model(drv, cfg, kind)
    mkeys = [conv.canon_state_arrays(*conv.parse_model_state(s), names) for s in drv.ask('states').split()]
    rkeys = real_state_keys(ss)
    if len(set(rkeys)) != len(rkeys) or set(rkeys) != set(mkeys):
        ctx.corr_break(f'{probe}:states', cfg=cfg, kind=kind, n_model=len(mkeys), n_real=len(rkeys),
                       only_model=[str(k) for k in sorted(set(mkeys) - set(rkeys))[:3]],
                       only_real=[str(k) for k in sorted(set(rkeys) - set(mkeys))[:3]])
        return 0
    done = 0
    for r in rewards:
        try:
            real = np.asarray(make_reward(pg, r)._get(ss))
        except Exception as e:
            ctx.corr_break(f'{probe}:reward-exception', cfg=cfg, kind=kind, reward=rname(r),
                           error=f'{type(e).__name__}: {e}')
            continue
        mvals = [Fraction(x) for x in drv.ask('reward ' + ' '.join(conv.reward_spec(r, names))).split()]
        model = dict(zip(mkeys, mvals))
        for key, v in zip(rkeys, real):
            m = model[key]
            v = float(v)
            # integers / quotients of small integers are the double nearest to the rational; products of such a
            # quotient with an integer (deme fraction x block count) carry one more rounding: a few ulp
            if not (v == float(m) or abs(v - float(m)) <= 8 * 2.0 ** -53 * abs(float(m))):
                ctx.corr_break(f'{probe}:reward', cfg=cfg, kind=kind, reward=rname(r), state=str(key), model=str(m),
                               real=v)
                break
        done += 1
    return done


# ----------------------------------------------------------------------------- evaluation guard
class Guard:
    """
    Evaluate real-code expressions under a log capture.  `warned` is set when PhaseGen logged a WARNING (stiff regime:
    the case is skipped, never compared); an exception with no warning logged is reported as a violation by the caller.
    """

    def __init__(self):
        self.lc = C.LogCapture()
        self.error = None

    def __enter__(self):
        self.lc.__enter__()
        return self

    def __exit__(self, et, ev, tb):
        self.lc.__exit__(et, ev, tb)
        if et is not None and issubclass(et, Exception) and et.__name__ != 'TimeoutCase':
            import traceback
            self.error = f'{et.__name__}: {ev}'
            self.trace = ''.join(traceback.format_tb(tb))[-1200:]
            return True
        return False

    @property
    def warned(self):
        return bool(self.lc.records)
