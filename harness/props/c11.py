"""
C11 — tree statistics satisfy the conservation identities that link them (single locus).

Direct oracle (relational, both sides computed by the real code):
  (a) sum_i sfs.mean[i]            == total_branch_length.mean
  (b) sum_ij sfs.cov[i, j]         == total_branch_length.var
  (c) sum_i i * sfs.mean[i]        == n * tree_height.mean
  (d) fsfs.mean / fsfs.cov         == fold of sfs.mean / sfs.cov
  (e) tree height / total branch length: moments of order 1 and 2 (centred, uncentred, cross) agree between the
      lineage-counting and the block-counting representation (route through Coalescent.moment with a
      block-counting-only factor, and a PhaseTypeDistribution built on the block-counting state space), and a
      block-counting-only reward is indeed routed to the block-counting state space.
Correspondence probe (exact): reward vectors (unfolded / folded SFS bins, tree height, total branch length) of the real
block-counting state space against the Lean model, state by state.
"""
from props import p2util as U          # first: pins the BLAS pools before numpy is loaded

import random
import numpy as np
import pgcommon as C
import conv, gen

META = dict(
    level='proof',
    rule='random single-locus configurations: 1-3 demes (unsorted names, possibly unsampled demes), Kingman / Beta / '
         'Dirac, 1-3 epochs of sizes and migration rates, optional end time, n <= 6 (quick) / <= 8 (thorough) with the '
         'block-counting state space kept <= 120 (quick) / 230 (thorough) states; one case = one configuration, all '
         'identities (a)-(e); non-trivial = n >= 3 and >= 3 block-counting states',
    trusted_base=['reward identities on every block-counting state + multilinearity of the Van Loan moment (Lean)',
                  'scipy.linalg.expm / IEEE doubles on both sides of every identity'],
    assumptions=['tolerance 1e-9 of the raw-moment scale (means: the total branch length / n x tree height; second '
                 'order: E[TBL^2]); only the non-stiff regime is compared: no PhaseGen warning logged and horizon <= 2000 '
                 'mean tree heights (p2util.ill_scaled: beyond that the implementation silently loses digits)'],
)

REL = 1e-9


def fold_set(i, n):
    return [i] if i == n - i else [i, n - i]


def gen_cfg(rng, quick):
    cfg = gen.rand_cfg(rng, n_max=6 if quick else 8, demes_max=3, epochs_max=3)
    limit = 120 if quick else (230 if rng.random() < 0.25 else 120)
    U.shrink(cfg, U.n_states_bc, limit)
    if rng.random() < 0.35:
        cfg['end_time'] = float(2.0 ** rng.randint(-2, 3))
    return cfg


def evaluate(ctx, pg, cfg, rng, probe=True):
    import phasegen.rewards as R
    from phasegen.distributions import PhaseTypeDistribution
    n = sum(cfg['n'].values())
    D = len(cfg['n'])
    coal = conv.make_coalescent(pg, cfg)
    v = {}

    # the composite reward OBJECTS are made once and, for n >= 4, used first on an auxiliary Coalescent of the same sample with
    # ANOTHER coalescent model (a user who keeps his reward objects around): they must carry nothing over from there
    pool = {}

    def bcr(x):
        key = type(x).__name__
        if key not in pool:
            pool[key] = R.ProductReward([R.BlockCountingUnitReward(), x])
        return pool[key]

    if n >= 4:
        other = ('beta', 1.5, True) if cfg['model'][0] == 'kingman' else ('kingman',)
        with U.Guard():
            aux = conv.make_coalescent(pg, dict(cfg, model=other))
            for rw in (R.TreeHeightReward(), R.TotalBranchLengthReward()):
                aux.moment(1, (bcr(rw),), end_time=1.0)
        ctx.count('reward-objects-used-on-another-model-first')

    with U.Guard() as g:
        v['T'] = float(coal.tree_height.t_max)
        v['k_bc'] = int(coal.block_counting_state_space.k)
        th, tbl = coal.tree_height, coal.total_branch_length
        for nm, d in (('th', th), ('tbl', tbl)):
            v[nm + '.mean'], v[nm + '.var'], v[nm + '.m2'] = float(d.mean), float(d.var), float(d.m2)
        v['cross'] = float(coal.moment(2, (R.TreeHeightReward(), R.TotalBranchLengthReward()), center=True))
        v['cross.raw'] = float(coal.moment(2, (R.TreeHeightReward(), R.TotalBranchLengthReward()), center=False))
        v['sm'] = np.array(coal.sfs.mean.data, dtype=float)
        v['sc'] = np.array(coal.sfs.cov.data, dtype=float)
        v['fm'] = np.array(coal.fsfs.mean.data, dtype=float)
        v['fc'] = np.array(coal.fsfs.cov.data, dtype=float)
    if g.warned:
        ctx.count('warned')
        ctx.skipped += 1
        return
    if g.error:
        ctx.case(dict(cfg=cfg, error=g.error), None)
        ctx.violation('C11:exception', cfg=cfg, error=g.error, trace=g.trace,
                      note='evaluating the statistics of identities (a)-(d) raised although no warning was logged')
        return
    if U.ill_scaled(v['T'], v['th.mean']):
        ctx.count('ill-scaled-horizon')
        ctx.skipped += 1
        return
    with U.Guard() as g:
        # (e) block-counting side, route A: Coalescent.moment chooses the state space from the reward support
        for nm, rw in (('th', R.TreeHeightReward()), ('tbl', R.TotalBranchLengthReward())):
            v[f'A.{nm}.mean'] = float(coal.moment(1, (bcr(rw),)))
            v[f'A.{nm}.var'] = float(coal.moment(2, (bcr(rw),) * 2, center=True))
            v[f'A.{nm}.m2'] = float(coal.moment(2, (bcr(rw),) * 2, center=False))
            # route B: the same reward on a distribution built on the block-counting state space
            dB = PhaseTypeDistribution(reward=rw, tree_height=coal.tree_height,
                                       state_space=coal.block_counting_state_space, demography=coal.demography)
            v[f'B.{nm}.mean'], v[f'B.{nm}.var'], v[f'B.{nm}.m2'] = float(dB.mean), float(dB.var), float(dB.m2)
        v['A.cross'] = float(coal.moment(2, (bcr(R.TreeHeightReward()), bcr(R.TotalBranchLengthReward())), center=True))
        v['A.cross.raw'] = float(coal.moment(2, (bcr(R.TreeHeightReward()), bcr(R.TotalBranchLengthReward())),
                                             center=False))
        v['routed'] = type(coal._get_dist(1, (bcr(R.TreeHeightReward()),)).state_space).__name__
        v['sfs.route'] = [float(coal.moment(1, (R.UnfoldedSFSReward(i),))) for i in range(1, n)]
    if g.warned:
        ctx.count('warned')
        ctx.skipped += 1
        return
    if g.error:
        ctx.case(dict(cfg=cfg, error=g.error), None)
        ctx.violation('C11e:exception', cfg=cfg, error=g.error, trace=g.trace,
                      note='evaluating tree height / branch length / an SFS bin through Coalescent.moment on the '
                           'block-counting representation raised although no warning was logged')
        return

    k_bc = v['k_bc']
    ctx.case(dict(cfg=cfg, n=n, bc_states=k_bc, T=v['T'], tbl_mean=v['tbl.mean'], sfs_mean=v['sm'].tolist()),
             gen.cfg_key(cfg) if n >= 3 and k_bc >= 3 else None)
    ctx.count(cfg['model'][0]); ctx.count(f'demes{D}'); ctx.count(f'epochs{len(cfg["epochs"])}'); ctx.count(f'n{n}')
    ctx.count('end_time' if cfg.get('end_time') is not None else 'default-horizon')
    ctx.count('bc_states', k_bc)

    s1 = max(abs(v['tbl.mean']), 1e-300)           # first-order scale
    s2 = max(abs(v['tbl.m2']), 1e-300)             # raw second-order scale (dominates every entry)

    def cmp(sig, expected, observed, scale, **extra):
        tol = REL * scale
        if not (np.isfinite(expected) and np.isfinite(observed) and abs(expected - observed) <= tol):
            ctx.violation(sig, cfg=cfg, identity=sig, expected=float(expected), observed=float(observed),
                          tolerance=tol, end_time=v['T'], **extra)

    sm, sc, fm, fc = v['sm'], v['sc'], v['fm'], v['fc']
    if sm.shape != (n + 1,) or sc.shape != (n + 1, n + 1) or fm.shape != (n + 1,) or fc.shape != (n + 1, n + 1):
        ctx.violation('C11:shape', cfg=cfg, shapes=[list(sm.shape), list(sc.shape), list(fm.shape), list(fc.shape)], n=n)
        return
    # (a), (b), (c)
    cmp('C11a:sum-sfs-mean-vs-tbl-mean', v['tbl.mean'], float(sm.sum()), s1, sfs_mean=sm.tolist())
    cmp('C11b:sum-sfs-cov-vs-tbl-var', v['tbl.var'], float(sc.sum()), s2)
    cmp('C11c:weighted-sfs-mean-vs-n-height', n * v['th.mean'], float(np.dot(np.arange(n + 1), sm)), s1,
        sfs_mean=sm.tolist())
    # padded bins of the unfolded spectrum
    if sm[0] != 0 or sm[n] != 0 or np.any(sc[0] != 0) or np.any(sc[n] != 0) or np.any(sc[:, 0] != 0) or np.any(sc[:, n] != 0):
        ctx.violation('C11:padding-nonzero', cfg=cfg, sfs_mean=sm.tolist())
    # (d)
    half = n // 2
    for i in range(1, half + 1):
        cmp('C11d:fold-mean', float(sum(sm[a] for a in fold_set(i, n))), float(fm[i]), s1, bin=i,
            sfs_mean=sm.tolist(), fsfs_mean=fm.tolist())
        for j in range(1, half + 1):
            cmp('C11d:fold-cov', float(sum(sc[a, b] for a in fold_set(i, n) for b in fold_set(j, n))), float(fc[i, j]),
                s2, bin=[i, j])
    if np.any(fm[half + 1:] != 0) or fm[0] != 0:
        ctx.violation('C11d:fold-padding-nonzero', cfg=cfg, fsfs_mean=fm.tolist())
    # (e)
    for nm in ('th', 'tbl'):
        for route in ('A', 'B'):
            cmp(f'C11e:spaces:{nm}.mean', v[nm + '.mean'], v[f'{route}.{nm}.mean'], s1, route=route)
            cmp(f'C11e:spaces:{nm}.var', v[nm + '.var'], v[f'{route}.{nm}.var'], s2, route=route)
            cmp(f'C11e:spaces:{nm}.m2', v[nm + '.m2'], v[f'{route}.{nm}.m2'], s2, route=route)
    cmp('C11e:spaces:cross', v['cross'], v['A.cross'], s2, route='A')
    cmp('C11e:spaces:cross.raw', v['cross.raw'], v['A.cross.raw'], s2, route='A')
    if v['routed'] != 'BlockCountingStateSpace':
        ctx.violation('C11e:route:block-counting-reward-not-on-block-counting-space', cfg=cfg, observed=v['routed'],
                      expected='BlockCountingStateSpace',
                      call='Coalescent._get_dist(1, (ProductReward([BlockCountingUnitReward(), TreeHeightReward()]),))')
    for i in range(1, n):
        cmp('C11e:route:sfs-bin-through-Coalescent.moment', float(sm[i]), v['sfs.route'][i - 1], s1, bin=i)

    # ---- correspondence probe (exact)
    if probe:
        rewards = [('th',), ('tbl',)] + [('sfs', i) for i in range(1, n)] + [('fsfs', i) for i in range(1, half + 1)]
        done = U.probe_rewards(ctx, pg, cfg, coal.block_counting_state_space, 'bc', rewards, 'C11-rewards')
        ctx.count('probe-vectors', done)


def one(ctx, i):
    pg = C.import_phasegen()
    rng = random.Random(f'{ctx.seed}-c11-{i}')
    cfg = gen_cfg(rng, ctx.quick)
    evaluate(ctx, pg, cfg, rng)


def run(ctx):
    import check
    n = 240 if ctx.quick else 800
    check.pmap(ctx, 'props.c11', 'one', list(range(n)), case_timeout=200 if ctx.quick else 900)


def replay(ctx, payload):
    pg = C.import_phasegen()
    cfg = conv.cfg_from_json(payload['cfg'])
    evaluate(ctx, pg, cfg, random.Random(0), probe=False)
