"""
C15 — moment algebra and documented API routes agree with each other.

Direct oracle (relational, both sides computed by the real code), per random configuration and random reward tuples
built from the public reward classes (incl. SumReward / ProductReward):
  (a) centred moment == inclusion-exclusion combination of uncentred moments obtained by separate calls
  (b) cross moments are symmetric in their rewards; permute=True is the average over all orders of permute=False
  (c) SumReward adds (orders 1, 2 centred and uncentred, 3), ProductReward([UnitReward(), r]) is neutral
  (d) the same statistic through the documented routes (cached properties, dist.moment, Coalescent.moment with
      explicit / default rewards, end time on the object / on the call / on the accumulation curve, SFS bins)
  (e) sfs.cov, demes.cov symmetric PSD; sfs.corr unit diagonal where var > 1e-12, zero at the padded bins
  (f) memoisation: different reward tuples evaluated one after the other on the SAME object give the value a fresh
      object gives
Correspondence probe: centred moments of order 2 / 3 of random reward tuples on tiny state spaces against the Lean
model (`moment`, exact rationals + fixed-point exponential).
"""
from props import p2util as U          # first: pins the BLAS pools before numpy is loaded

import random, itertools, math
import numpy as np
import pgcommon as C
import conv, gen

META = dict(
    level='proof',
    rule='random configurations (1-3 demes, Kingman / Beta / Dirac, 1-3 epochs, optional end time, n <= 5 quick / 6 '
         'thorough; 10% two loci, one deme, Kingman, n <= 3/4); per configuration: 2-3 random reward tuples of order '
         '2..3 (quick) / 2..4 (thorough) from tree height, total (tree) height / branch length, LineageReward, '
         'LocusReward, per-locus branch length, their products with DemeReward / UnitReward, sums and products; in 35% '
         'of the configurations with <= 40 block-counting states the tuples are block-counting (SFS bins, folded bins, '
         'tree height, branch length); all routes, matrices and memo pairs; non-trivial = >= 3 lineage-counting states',
    trusted_base=['C01_centering, C15_symm, C15_linear, C15_routes, C15_memo_keys (Lean)',
                  'PSD / unit-diagonal correlations are checked numerically only (partial)',
                  'scipy.linalg.expm / IEEE doubles on both sides'],
    assumptions=['(a) 1e-8 of the raw scale (sum of the absolute terms of the combination); (b), (c) 1e-9 of the raw '
                 'scale (third-order linearity, which compares two different Van Loan evaluations: 1e-6); (d) 1e-9 relative for uncentred quantities and 1e-9 of the raw scale E|XY| + |EX EY| for '
                 'centred ones (a covariance that cancels to 1e-8 of its raw moments carries no relative precision); '
                 '(e) correlation bounds widened by 1e-13 x E[TBL^2] / variance (rounding noise of a small variance); (f) 1e-12 relative; TotalTreeHeightReward is not drawn together with block-counting rewards (its '
                 '_get raises NotImplementedError on the block-counting state space: loud, reported separately); only '
                 'the non-stiff regime is compared: no PhaseGen warning logged and horizon <= 2000 mean tree heights '
                 '(p2util.ill_scaled)'],
)

TH, TBL = ('th',), ('tbl',)


# ----------------------------------------------------------------------------- plan (JSON-serialisable)
def atoms(cfg, bc):
    n = sum(cfg['n'].values())
    if bc:
        return [TH, TBL] + [('sfs', i) for i in range(1, n)] + [('fsfs', i) for i in range(1, n // 2 + 1)]
    out = [TH, TBL, ('tth',)] + [('lin', j) for j in range(2, n + 1)]
    if cfg.get('loci', 1) == 2:
        out += [('locus', 0), ('locus', 1), ('tblloc', 0), ('tblloc', 1)]
    return out


def rand_reward(rng, cfg, bc):
    at = atoms(cfg, bc)
    names = conv.cfg_names(cfg)
    a = rng.choice(at)
    u = rng.random()
    if u < 0.25 and len(names) >= 2:
        return ('P', [('deme', rng.choice(names)), a])
    if u < 0.35:
        return ('P', [('unit',), a])
    if u < 0.55:
        return ('S', [a, rng.choice(at)])
    if u < 0.65:
        return ('P', [a, rng.choice(at)])
    if u < 0.72 and len(names) >= 2:
        return ('S', [('P', [('deme', rng.choice(names)), a]), rng.choice(at)])
    return a


def gen_case(rng, quick):
    if rng.random() < 0.1:
        name = rng.choice(rng.choice(gen.NAME_SETS))
        n = rng.randint(2, 3 if quick else 4)
        cfg = dict(n={name: n}, model=('kingman',), epochs=gen.rand_epochs(rng, [name], rng.randint(1, 3)), loci=2,
                   r=rng.choice([0.0, 0.125, 1.0, 8.0]), n_unl=rng.choice([0, 0, 1, n]))
    else:
        cfg = gen.rand_cfg(rng, n_max=5 if quick else 6, demes_max=3, epochs_max=3)
    if rng.random() < 0.3:
        cfg['end_time'] = float(2.0 ** rng.randint(-1, 4))
    n, D = sum(cfg['n'].values()), len(cfg['n'])
    one_locus = cfg.get('loci', 1) == 1
    bc_ok = one_locus and n >= 3 and U.n_states_bc(n, D) <= 40
    bc = bc_ok and rng.random() < 0.35
    kmax = 3 if quick else 4
    tuples = []
    for t in range(2 if quick else 3):
        k = rng.choice([2, 3]) if quick else rng.choice([2, 3, 3, 4])
        if t == 0:
            k = 3                   # every case has one odd-order tuple
        k = min(k, kmax)
        if rng.random() < 0.25:
            rs = [rand_reward(rng, cfg, bc)] * k
        else:
            rs = [rand_reward(rng, cfg, bc) for _ in range(k)]
        perm = list(range(k))
        rng.shuffle(perm)
        tuples.append(dict(rewards=rs, perm=perm))
    lin = [rand_reward(rng, cfg, bc) for _ in range(3)]
    Tq = [float(2.0 ** rng.randint(-2, 3)) * rng.choice([1.0, 1.5]) for _ in range(2)]
    plan = dict(bc=bc, bc_ok=bc_ok, tuples=tuples, lin=lin, Tq=Tq)
    if bc_ok:
        plan['sfs_ij'] = [rng.randint(1, n - 1), rng.randint(1, n - 1)]
    # the model's third-order evaluation is slow (15 fixed-point Van Loan exponentials per epoch): half of the quick cases
    plan['probe3'] = (not quick) or rng.random() < 0.5
    return cfg, plan


def plan_from_json(p):
    p = dict(p)
    p['tuples'] = [dict(rewards=[U.reward_from_json(r) for r in t['rewards']], perm=list(t['perm'])) for t in p['tuples']]
    p['lin'] = [U.reward_from_json(r) for r in p['lin']]
    return p


# ----------------------------------------------------------------------------- evaluation
class Case:
    def __init__(self, ctx, pg, cfg, plan):
        self.ctx, self.pg, self.cfg, self.plan = ctx, pg, cfg, plan
        self.coal = conv.make_coalescent(pg, cfg)

    def M(self, k, rs, coal=None, **kw):
        coal = coal or self.coal
        return float(coal.moment(k, tuple(U.make_reward(self.pg, r) for r in rs), **kw))

    def bad(self, sig, **detail):
        self.ctx.violation(sig, cfg=self.cfg, plan=self.plan, identity=sig, **detail)

    def cmp(self, sig, a, b, tol, **extra):
        if not (np.isfinite(a) and np.isfinite(b) and abs(a - b) <= tol):
            self.bad(sig, expected=float(a), observed=float(b), tolerance=float(tol), **extra)

    def rel(self, sig, a, b, rel=1e-9, **extra):
        self.cmp(sig, a, b, rel * max(abs(a), abs(b)) + 1e-300, **extra)

    def part(self, sig, fn):
        """run one group of identities; warnings => skipped group, exception without warning => violation"""
        with U.Guard() as g:
            fn()
        if g.warned:
            self.ctx.count('warned-part')
            self.skipped_parts += 1
        elif g.error:
            self.bad(f'{sig}:exception', error=g.error, trace=g.trace,
                     note='the real code raised although no warning was logged')

    # (a) --------------------------------------------------------------------------------------------
    def raw_table(self, rs):
        k = len(rs)
        raw = {(): 1.0}
        for i in range(1, k + 1):
            for I in itertools.combinations(range(k), i):
                raw[I] = self.M(i, [rs[j] for j in I], center=False)
        return raw

    def centring(self):
        for t in self.plan['tuples']:
            rs = t['rewards']
            k = len(rs)
            names = [U.rname(r) for r in rs]
            raw = self.raw_table(rs)
            mu = [raw[(j,)] for j in range(k)]
            terms = []
            for I, m in raw.items():
                terms.append((-1) ** (k - len(I)) * m * float(np.prod([mu[j] for j in range(k) if j not in I])))
            comb = float(np.sum(terms))
            scale = float(np.sum(np.abs(terms)))
            cen = self.M(k, rs, center=True)
            self.ctx.count(f'centring-k{k}')
            self.cmp(f'C15a:centring:k{k}', comb, cen, 1e-8 * scale + 1e-300, rewards=names,
                     raw_moments={str(I): m for I, m in raw.items()},
                     note='expected = combination of center=False moments from separate calls; observed = center=True')
            t['scale'] = scale
            t['raw_full'] = raw[tuple(range(k))]
            t['cen'] = cen

    # (b) --------------------------------------------------------------------------------------------
    def symmetry(self):
        for t in self.plan['tuples']:
            rs = t['rewards']
            k = len(rs)
            names = [U.rname(r) for r in rs]
            scale = t.get('scale') or 1.0
            ps = [rs[j] for j in t['perm']]
            for c in (True, False):
                self.cmp(f'C15b:symmetry:k{k}', self.M(k, rs, center=c), self.M(k, ps, center=c), 1e-9 * scale + 1e-300,
                         rewards=names, perm=t['perm'], center=c)
            if k <= 3:
                orders = [self.M(k, [rs[j] for j in p], center=False, permute=False)
                          for p in itertools.permutations(range(k))]
                self.cmp(f'C15b:permute-is-average-of-orders:k{k}', float(np.mean(orders)),
                         self.M(k, rs, center=False, permute=True),
                         1e-9 * float(np.mean(np.abs(orders))) + 1e-300, rewards=names, conditioned=orders)
            r0 = [rs[0]] * k
            self.rel(f'C15b:identical-rewards-permute-irrelevant:k{k}', self.M(k, r0, center=False, permute=False),
                     self.M(k, r0, center=False, permute=True), rewards=[names[0]] * k)

    # (c) --------------------------------------------------------------------------------------------
    def linearity(self):
        r1, r2, r3 = self.plan['lin']
        nm = [U.rname(r) for r in (r1, r2, r3)]
        S, Pu = ('S', [r1, r2]), ('P', [('unit',), r1])
        m1, m2, m3 = self.M(1, [r1]), self.M(1, [r2]), self.M(1, [r3])
        s1 = abs(m1) + abs(m2)
        self.cmp('C15c:sum-reward:k1', m1 + m2, self.M(1, [S]), 1e-9 * s1 + 1e-300, rewards=nm)
        self.cmp('C15c:unit-product-neutral:k1', m1, self.M(1, [Pu]), 1e-9 * abs(m1) + 1e-300, rewards=nm)
        x13, x23 = self.M(2, [r1, r3], center=False), self.M(2, [r2, r3], center=False)
        s2 = abs(x13) + abs(x23) + abs(m1 * m3) + abs(m2 * m3)
        for c in (False, True):
            a13 = x13 if not c else self.M(2, [r1, r3], center=True)
            a23 = x23 if not c else self.M(2, [r2, r3], center=True)
            self.cmp('C15c:sum-reward:k2', a13 + a23, self.M(2, [S, r3], center=c), 1e-9 * s2 + 1e-300, rewards=nm,
                     center=c)
            self.cmp('C15c:sum-reward:k2', a13 + a23, self.M(2, [r3, S], center=c), 1e-9 * s2 + 1e-300, rewards=nm,
                     center=c, position=2)
            self.cmp('C15c:unit-product-neutral:k2', a13, self.M(2, [Pu, r3], center=c), 1e-9 * s2 + 1e-300,
                     rewards=nm, center=c)
        # the fluent spellings `a.prod(b)` / `a.sum(b)` are the ProductReward / SumReward of the same rewards
        pairs = [(r1, r2)] + ([(TBL, ('locus', 0)), (TH, ('locus', 1)), (TBL, ('locus', 1))] if self.cfg.get('loci', 1) == 2 else [])
        for a, b in pairs:
            ra, rb = U.make_reward(self.pg, a), U.make_reward(self.pg, b)
            for name, fluent, spec_ in (('prod', ra.prod(rb), ('P', [a, b])), ('sum', ra.sum(rb), ('S', [a, b]))):
                want = self.M(1, [spec_])
                got = float(self.coal.moment(1, (fluent,)))
                self.cmp(f'C15c:fluent-{name}', want, got, 1e-9 * abs(want) + 1e-300, rewards=[U.rname(a), U.rname(b)],
                         route=f'a.{name}(b) against {"ProductReward" if name == "prod" else "SumReward"}([a, b])')
        # both arguments sums: (r1 + r2, r1 + r2)
        x11, x22, x12 = (self.M(2, [r1, r1], center=False), self.M(2, [r2, r2], center=False),
                         self.M(2, [r1, r2], center=False))
        self.cmp('C15c:sum-reward:k2-square', x11 + 2 * x12 + x22, self.M(2, [S, S], center=False),
                 1e-9 * (abs(x11) + 2 * abs(x12) + abs(x22)) + 1e-300, rewards=nm)
        # third order
        y1, y2 = self.M(3, [r1, r3, r1], center=False), self.M(3, [r2, r3, r1], center=False)
        # order 3 through two different Van Loan matrices: the accuracy C01 grants the implementation (1e-6 raw scale)
        self.cmp('C15c:sum-reward:k3', y1 + y2, self.M(3, [S, r3, r1], center=False), 1e-6 * (abs(y1) + abs(y2)) + 1e-300,
                 rewards=nm)

    # (d) --------------------------------------------------------------------------------------------
    def routes(self):
        import phasegen.rewards as R
        coal, cfg, plan = self.coal, self.cfg, self.plan
        th, tbl = coal.tree_height, coal.total_branch_length
        rth, rtbl = R.TreeHeightReward(), R.TotalBranchLengthReward()
        mean, var, m2 = float(th.mean), float(th.var), float(th.m2)
        raw2 = abs(m2) + mean * mean
        for name, val in (('tree_height.moment(1)', th.moment(1)), ('Coalescent.moment(1)', coal.moment(1)),
                          ('Coalescent.moment()', coal.moment()),
                          ('Coalescent.moment(1,(TreeHeightReward(),))', coal.moment(1, (rth,))),
                          ('Coalescent.moment(1,[TreeHeightReward()])', coal.moment(1, [rth]))):
            self.rel('C15d:route:tree_height.mean', mean, float(val), route=name)
        for name, val in (('tree_height.moment(2)', th.moment(2)), ('tree_height.moment(2,center=True)', th.moment(2, center=True)),
                          ('Coalescent.moment(2)', coal.moment(2)), ('Coalescent.moment(2,center=True)', coal.moment(2, center=True)),
                          ('Coalescent.moment(2,(TH,TH))', coal.moment(2, (rth, rth))), ('m2-mean^2', m2 - mean * mean)):
            self.cmp('C15d:route:tree_height.var', var, float(val), 1e-9 * raw2, route=name)
        if var > 1e-12:
            self.cmp('C15d:route:tree_height.var', var, float(th.std) ** 2, 1e-9 * raw2, route='std^2')
        for name, val in (('tree_height.moment(2,center=False)', th.moment(2, center=False)),
                          ('Coalescent.moment(2,center=False)', coal.moment(2, center=False)),
                          ('Coalescent.moment(2,(TH,TH),center=False)', coal.moment(2, (rth, rth), center=False))):
            self.rel('C15d:route:tree_height.m2', m2, float(val), route=name)
        if len(plan['tuples']) and True:
            self.rel('C15d:route:default-rewards-k3', float(coal.moment(3, (rth,) * 3, center=False)),
                     float(coal.moment(3, center=False)), route='Coalescent.moment(3,center=False)')
        bm, bv, b2 = float(tbl.mean), float(tbl.var), float(tbl.m2)
        self.rel('C15d:route:total_branch_length.mean', bm, float(coal.moment(1, (rtbl,))), route='Coalescent.moment(1,(TBL,))')
        self.rel('C15d:route:total_branch_length.mean', bm, float(tbl.moment(1)), route='total_branch_length.moment(1)')
        self.cmp('C15d:route:total_branch_length.var', bv, float(coal.moment(2, (rtbl, rtbl))), 1e-9 * (abs(b2) + bm * bm),
                 route='Coalescent.moment(2,(TBL,TBL))')
        self.rel('C15d:route:total_branch_length.m2', b2, float(coal.moment(2, (rtbl, rtbl), center=False)),
                 route='Coalescent.moment(2,(TBL,TBL),center=False)')
        self.cmp('C15d:route:total_branch_length.var', bv, b2 - bm * bm, 1e-9 * (abs(b2) + bm * bm), route='m2-mean^2')
        # end time on the object / on the call / on the accumulation curve
        for T in plan['Tq']:
            fresh = conv.make_coalescent(self.pg, cfg, end_time=T)
            fm, fv = float(fresh.tree_height.mean), float(fresh.tree_height.var)
            f2 = float(fresh.tree_height.m2)
            self.rel('C15d:route:end-time:mean', fm, float(coal.moment(1, end_time=T)), route='Coalescent.moment(1,end_time=T)', T=T)
            self.rel('C15d:route:end-time:mean', fm, float(coal.accumulate(1, [T])[0]), route='Coalescent.accumulate(1,[T])[0]', T=T)
            self.rel('C15d:route:end-time:mean', fm, float(coal.tree_height.moment(1, end_time=T)), route='tree_height.moment(1,end_time=T)', T=T)
            self.rel('C15d:route:end-time:mean', fm, float(coal.tree_height.accumulate(1, [T])[0]), route='tree_height.accumulate(1,[T])[0]', T=T)
            self.cmp('C15d:route:end-time:var', fv, float(coal.moment(2, end_time=T)), 1e-9 * (abs(f2) + fm * fm),
                     route='Coalescent.moment(2,end_time=T)', T=T)
            self.cmp('C15d:route:end-time:var', fv, float(coal.accumulate(2, [T])[0]), 1e-9 * (abs(f2) + fm * fm),
                     route='Coalescent.accumulate(2,[T])[0]', T=T)
            self.rel('C15d:route:end-time:tbl.mean', float(fresh.total_branch_length.mean),
                     float(coal.moment(1, (rtbl,), end_time=T)), route='Coalescent.moment(1,(TBL,),end_time=T)', T=T)
            self.rel('C15d:route:end-time:tbl.mean', float(fresh.total_branch_length.mean),
                     float(coal.accumulate(1, [T], (rtbl,))[0]), route='Coalescent.accumulate(1,[T],(TBL,))[0]', T=T)
        acc = np.array(coal.accumulate(1, list(plan['Tq'])), dtype=float)
        for j, T in enumerate(plan['Tq']):
            self.rel('C15d:route:accumulate-grid', float(coal.moment(1, end_time=T)), float(acc[j]),
                     route='Coalescent.accumulate(1,[T1,T2])[j]', T=T, grid=plan['Tq'])
        # marginals through explicit products
        names = list(coal.lineage_config.pop_names)
        if len(names) >= 2:
            for p in names[:2]:
                self.rel('C15d:route:demes.mean', float(th.demes[p].mean),
                         float(coal.moment(1, (R.ProductReward([rth, R.DemeReward(p)]),))),
                         route='Coalescent.moment(1,(ProductReward([TH,DemeReward(p)]),))', deme=p)
            p, q = names[0], names[1]
            self.cmp('C15d:route:demes.cov', float(th.demes.get_cov(p, q)),
                     float(coal.moment(2, (R.ProductReward([rth, R.DemeReward(p)]), R.ProductReward([rth, R.DemeReward(q)])))),
                     1e-9 * raw2, route='Coalescent.moment(2,(TH*Deme(p),TH*Deme(q)))', demes=[p, q])
        # SFS bins
        if plan.get('bc_ok'):
            n = coal.lineage_config.n
            i, j = plan['sfs_ij']
            sfs = coal.sfs
            sm, sv, sc = np.array(sfs.mean.data), np.array(sfs.var.data), np.array(sfs.cov.data)
            s2 = float(coal.total_branch_length.m2)
            ri, rj = R.UnfoldedSFSReward(i), R.UnfoldedSFSReward(j)
            self.rel('C15d:route:sfs.mean', float(sm[i]), float(coal.moment(1, (ri,))), route='Coalescent.moment(1,(UnfoldedSFSReward(i),))', bin=i)
            self.rel('C15d:route:sfs.mean', float(sm[i]), float(sfs.moment(1).data[i]), route='sfs.moment(1).data[i]', bin=i)
            self.cmp('C15d:route:sfs.cov', float(sc[i, j]), float(sfs.get_cov(i, j)), 1e-9 * s2, route='sfs.get_cov(i,j)', bins=[i, j])
            self.cmp('C15d:route:sfs.cov', float(sc[i, j]), float(coal.moment(2, (ri, rj))), 1e-9 * s2,
                     route='Coalescent.moment(2,(UnfoldedSFSReward(i),UnfoldedSFSReward(j)))', bins=[i, j])
            for b in range(1, n):
                self.cmp('C15d:route:sfs.var-vs-cov-diagonal', float(sv[b]), float(sc[b, b]), 1e-9 * s2, bin=b)
            self.rel('C15d:route:sfs.m2', float(sfs.m2.data[i]), float(coal.moment(2, (ri, ri), center=False)),
                     route='Coalescent.moment(2,(sfs_i,sfs_i),center=False)', bin=i)
            fi = min(i, n - i)
            self.rel('C15d:route:fsfs.mean', float(coal.fsfs.mean.data[fi]), float(coal.moment(1, (R.FoldedSFSReward(fi),))),
                     route='Coalescent.moment(1,(FoldedSFSReward(i),))', bin=fi)
            # the same routes on an SFS distribution whose OWN reward is not the unit reward: the per-deme spectra
            names = list(coal.lineage_config.pop_names)
            if len(names) >= 2:
                p = names[(i + j) % len(names)]
                for nm, dist, mk, bi, bj in (('sfs', coal.sfs.demes[p], R.UnfoldedSFSReward, i, j),
                                             ('fsfs', coal.fsfs.demes[p], R.FoldedSFSReward, fi, min(j, n - j))):
                    dc, dv, dr = np.array(dist.cov.data, dtype=float), np.array(dist.var.data, dtype=float), np.array(dist.corr.data, dtype=float)
                    self.cmp(f'C15d:route:{nm}.demes.cov', float(dc[bi, bj]), float(dist.get_cov(bi, bj)), 1e-9 * s2,
                             route=f'{nm}.demes[p].get_cov(i,j) vs .cov[i,j]', bins=[bi, bj], deme=p)
                    self.cmp(f'C15d:route:{nm}.demes.cov', float(dc[bi, bj]),
                             float(coal.moment(2, (R.ProductReward([R.DemeReward(p), mk(bi)]), R.ProductReward([R.DemeReward(p), mk(bj)])))),
                             1e-9 * s2, route='Coalescent.moment(2,(Deme(p)*SFS_i, Deme(p)*SFS_j))', bins=[bi, bj], deme=p)
                    self.cmp(f'C15d:route:{nm}.demes.var-vs-cov-diagonal', float(dv[bi]), float(dist.get_cov(bi, bi)), 1e-9 * s2, bin=bi, deme=p)
                    if dv[bi] > 1e-9 * s2 and dv[bj] > 1e-9 * s2:
                        self.cmp(f'C15d:route:{nm}.demes.corr', float(dr[bi, bj]), float(dist.get_corr(bi, bj)), 1e-7,
                                 route=f'{nm}.demes[p].get_corr(i,j) vs .corr[i,j]', bins=[bi, bj], deme=p)

    # (e) --------------------------------------------------------------------------------------------
    def matrices(self):
        coal = self.coal
        names = list(coal.lineage_config.pop_names)
        if len(names) >= 2:
            for nm, d in (('tree_height', coal.tree_height), ('total_branch_length', coal.total_branch_length)):
                M = np.array(d.demes.cov, dtype=float)
                s2 = max(abs(float(d.m2)), 1e-300)
                asym, mn, tr = U.sym_psd(M)
                if not U.finite(M) or asym > 1e-10 * s2:
                    self.bad(f'C15e:{nm}.demes.cov:asymmetric', matrix=M.tolist(), asymmetry=asym)
                elif mn < -1e-9 * abs(tr) - 1e-12 * s2:
                    self.bad(f'C15e:{nm}.demes.cov:not-psd', matrix=M.tolist(), min_eigenvalue=mn, trace=tr)
        if self.plan.get('bc_ok'):
            n = coal.lineage_config.n
            sc = np.array(coal.sfs.cov.data, dtype=float)
            sv = np.array(coal.sfs.var.data, dtype=float)
            cr = np.array(coal.sfs.corr.data, dtype=float)
            s2 = max(abs(float(coal.total_branch_length.m2)), 1e-300)
            if sc.shape != (n + 1, n + 1) or cr.shape != (n + 1, n + 1):
                self.bad('C15e:sfs.cov:shape', shapes=[list(sc.shape), list(cr.shape)])
                return
            asym, mn, tr = U.sym_psd(sc)
            if not U.finite(sc) or asym > 1e-10 * s2:
                self.bad('C15e:sfs.cov:asymmetric', matrix=sc.tolist(), asymmetry=asym)
            elif mn < -1e-9 * abs(tr) - 1e-12 * s2:
                self.bad('C15e:sfs.cov:not-psd', matrix=sc.tolist(), min_eigenvalue=mn, trace=tr)
            for b in (0, n):
                if np.any(sc[b] != 0) or np.any(sc[:, b] != 0) or np.any(cr[b] != 0) or np.any(cr[:, b] != 0):
                    self.bad('C15e:sfs.cov:padded-bin-nonzero', bin=b, cov_row=sc[b].tolist(), corr_row=cr[b].tolist())
            for b in range(1, n):
                if sv[b] > 1e-12:
                    # rounding noise of a small variance (absolute error ~1e-15 s2) widens the bound
                    slack = 1e-9 + 1e-13 * s2 / sv[b]
                    if not abs(cr[b, b] - 1.0) <= slack:
                        self.bad('C15e:sfs.corr:diagonal-not-one', bin=b, observed=float(cr[b, b]), var=float(sv[b]),
                                 slack=slack)
                    for c in range(1, n):
                        slack2 = 1e-9 + 1e-13 * s2 / min(sv[b], sv[c]) if sv[c] > 1e-12 else 0.0
                        if sv[c] > 1e-12 and not (np.isfinite(cr[b, c]) and abs(cr[b, c]) <= 1 + slack2):
                            self.bad('C15e:sfs.corr:out-of-range', bins=[b, c], observed=float(cr[b, c]), slack=slack2)

    # (f) --------------------------------------------------------------------------------------------
    def memo_pairs(self):
        cfg = self.cfg
        n = sum(cfg['n'].values())
        names = conv.cfg_names(cfg)
        pairs = [(1, [('S', [TH, TBL])], [('P', [TH, TBL])]),
                 (2, [TH, TBL], [TBL, TBL]),
                 (1, [('P', [('unit',), TH])], [('P', [('unit',), TBL])])]
        # composites with the same SET of components but different multiplicities / different order
        pairs += [(1, [('S', [TH, TH, TBL])], [('S', [TH, TBL])]), (1, [('S', [TH, TBL, TBL])], [('S', [TH, TH, TBL])]),
                  (1, [('P', [TBL, TBL])], [('P', [TBL])]), (1, [('P', [TH, TBL, TBL])], [('P', [TBL, TH])]),
                  (2, [('S', [TH, TH]), TBL], [('S', [TH]), TBL])]
        if n >= 3 and cfg.get('loci', 1) == 1:
            # user-defined rewards produced by one factory
            pairs += [(1, [('custom', 2)], [('custom', 3)]), (2, [('custom', 2), ('custom', 3)], [('custom', 3), ('custom', 3)]),
                      (1, [('P', [('custom', 2), TH])], [('P', [('custom', 3), TH])])]
        if n >= 3:
            pairs += [(1, [('lin', 2)], [('lin', 3)]), (2, [('lin', 2), ('lin', 3)], [('lin', 3), ('lin', 3)]),
                      (1, [('S', [('lin', 2), TH])], [('S', [('lin', 3), TH])])]
        if len(names) >= 2:
            a, b = names[0], names[1]
            pairs += [(1, [('deme', a)], [('deme', b)]), (1, [('P', [('deme', a), TBL])], [('P', [('deme', b), TBL])]),
                      (2, [('P', [('deme', a), TH])] * 2, [('P', [('deme', b), TH])] * 2)]
        if cfg.get('loci', 1) == 2:
            pairs += [(1, [('locus', 0)], [('locus', 1)]), (1, [('tblloc', 0)], [('tblloc', 1)]),
                      (1, [('C', [TBL, ('locus', 0)])], [('C', [TBL, ('locus', 1)])])]
        if self.plan.get('bc_ok'):
            pairs += [(1, [('sfs', 1)], [('sfs', 2)]), (1, [('sfs', 1)], [('fsfs', 1)]),
                      (2, [('sfs', 1), ('sfs', 2)], [('sfs', 2), ('sfs', 2)]),
                      (1, [('P', [('unit',), ('sfs', 1)])], [('P', [('unit',), ('sfs', 2)])])]
            if n >= 4:
                pairs += [(1, [('fsfs', 1)], [('fsfs', 2)])]
        return pairs

    def memo(self):
        pairs = self.memo_pairs()
        fresh = conv.make_coalescent(self.pg, self.cfg)
        for k, A, B in pairs:
            xa = self.M(k, A, center=False)
            xb = self.M(k, B, center=False)
            yb = self.M(k, B, coal=fresh, center=False)      # reversed order on the fresh object
            ya = self.M(k, A, coal=fresh, center=False)
            self.ctx.count('memo-pairs')
            na, nb = [U.rname(r) for r in A], [U.rname(r) for r in B]
            self.rel('C15f:memo:Coalescent.moment', ya, xa, 1e-12, rewards=na, other=nb,
                     note='expected: value on a fresh object where it was NOT preceded by `other`')
            self.rel('C15f:memo:Coalescent.moment', yb, xb, 1e-12, rewards=nb, other=na,
                     note='expected: value on a fresh object; observed: same object right after `other`')
        # distribution level (PhaseTypeDistribution.moment / _accumulate caches)
        d, f = self.coal.total_branch_length, fresh.total_branch_length
        for k, A, B in pairs:
            if not all(U.supports_lc(r) for r in A + B):
                continue
            ra = tuple(U.make_reward(self.pg, r) for r in A)
            rb = tuple(U.make_reward(self.pg, r) for r in B)
            xa, xb = float(d.moment(k, ra, center=False)), float(d.moment(k, rb, center=False))
            yb, ya = float(f.moment(k, rb, center=False)), float(f.moment(k, ra, center=False))
            self.rel('C15f:memo:dist.moment', ya, xa, 1e-12, rewards=[U.rname(r) for r in A])
            self.rel('C15f:memo:dist.moment', yb, xb, 1e-12, rewards=[U.rname(r) for r in B])

    # probe ------------------------------------------------------------------------------------------
    def probe(self):
        cfg, plan = self.cfg, self.plan
        n, D = sum(cfg['n'].values()), len(cfg['n'])
        T = C.frac(float(self.coal.tree_height.t_max))
        drv = C.driver()
        done = set()
        for t in plan['tuples']:
            rs = t['rewards']
            k = len(rs)
            if k > 3 or 'cen' not in t or k in done or (k == 3 and not plan.get('probe3', True)):
                continue
            kind = 'lc' if all(U.supports_lc(r) for r in rs) else 'bc'
            states = self.coal.lineage_counting_state_space.k if kind == 'lc' else self.coal.block_counting_state_space.k
            if (k + 1) * states > 45:
                self.ctx.count('probe-too-large')
                continue
            conv.setup_model(drv, cfg, kind)
            exp = conv.model_moment(drv, cfg, True, True, rs, [T])[0]
            self.ctx.count(f'probe-k{k}')
            # scale: sum of the absolute terms of the centring combination (real raw moments), as in (a)
            if not abs(t['cen'] - float(exp)) <= 1e-6 * t['scale'] + 1e-300:
                self.ctx.corr_break('C15-moment', cfg=cfg, rewards=[U.rname(r) for r in rs], end_time=float(T),
                                    model=float(exp), real=t['cen'], raw_scale=t['scale'])
            done.add(k)

    def run(self, probe=True):
        ctx, cfg, plan = self.ctx, self.cfg, self.plan
        self.skipped_parts = 0
        with U.Guard() as g:
            T = float(self.coal.tree_height.t_max)
            k_lc = int(self.coal.lineage_counting_state_space.k)
            th_mean = float(self.coal.tree_height.mean)
        if g.warned:
            ctx.count('warned')
            ctx.skipped += 1
            return
        if g.error:
            ctx.case(dict(cfg=cfg, error=g.error), None)
            self.bad('C15:exception', error=g.error, trace=g.trace)
            return
        if U.ill_scaled(T, th_mean):
            ctx.count('ill-scaled-horizon')
            ctx.skipped += 1
            return
        n, D = sum(cfg['n'].values()), len(cfg['n'])
        self.part('C15a', self.centring)
        self.part('C15b', self.symmetry)
        self.part('C15c', self.linearity)
        self.part('C15d', self.routes)
        self.part('C15e', self.matrices)
        self.part('C15f', self.memo)
        if self.skipped_parts:
            ctx.skipped += 1
        ctx.case(dict(cfg=cfg, T=T, tuples=[[U.rname(r) for r in t['rewards']] for t in plan['tuples']],
                      centred=[t.get('cen') for t in plan['tuples']], lin=[U.rname(r) for r in plan['lin']]),
                 gen.cfg_key(cfg) if k_lc >= 3 else None)
        ctx.count(cfg['model'][0]); ctx.count(f'demes{D}'); ctx.count(f'loci{cfg.get("loci", 1)}'); ctx.count(f'n{n}')
        ctx.count(f'epochs{len(cfg["epochs"])}'); ctx.count('block-counting-tuples' if plan['bc'] else 'lineage-counting-tuples')
        ctx.count('end_time' if cfg.get('end_time') is not None else 'default-horizon')
        if probe:
            with U.Guard() as g:
                self.probe()
            if g.error:
                ctx.corr_break('C15-moment:exception', cfg=cfg, error=g.error)
                C.reset_driver()


def one(ctx, i):
    pg = C.import_phasegen()
    rng = random.Random(f'{ctx.seed}-c15-{i}')
    cfg, plan = gen_case(rng, ctx.quick)
    Case(ctx, pg, cfg, plan).run()


def run(ctx):
    import check
    n = 128 if ctx.quick else 500
    check.pmap(ctx, 'props.c15', 'one', list(range(n)), case_timeout=240 if ctx.quick else 1200)
    # correspondence with the Lean model of the call layer of moment / accumulate (PGModel/Api.lean, driver command `api`)
    check.pmap(ctx, 'props.corr_models', 'one_api', list(range(200, 216 if ctx.quick else 320)), case_timeout=300)
    # ... and of the memo keys (PGModel/Memo.lean, driver command `memo`): colliding candidates asked one after the other
    check.pmap(ctx, 'props.corr_models', 'one_memo', list(range(300, 312 if ctx.quick else 400)), case_timeout=600)


def replay(ctx, payload):
    if payload.get('mode') == 'memo':
        from props import corr_models
        return corr_models.replay_memo(ctx, payload['memo_origin'])
    pg = C.import_phasegen()
    cfg = conv.cfg_from_json(payload['cfg'])
    plan = plan_from_json(payload['plan'])
    Case(ctx, pg, cfg, plan).run(probe=False)
