"""
C04 — state spaces are the exact lumping of the labelled coalescent.

Correspondence (L-full): states / every rate of every epoch / alpha of the real LineageCounting- and
BlockCountingStateSpace against the Lean code model (`PG.transit`, `PG.bfs`, `PG.alphaVec`).
Direct oracle: for every real state, the labelled particle system of harness/spec.py projected onto counts
must give exactly the real row of S; generator shape; alpha support; absorbing states only migrate.
"""
import itertools, random, math
from collections import Counter
import pgcommon as C
import conv, gen, spec

META = dict(
    level='proof',
    rule='one case = (sample split over demes, deme names, model, state space kind, two epochs of algebraically '
         'generic rates, plus for >= 2 demes a third epoch differing in ONE directed migration rate and a fourth differing in ONE size, all walked on one state-space object); exhaustive over the bound of the property in both tiers (n<=5 x <=3 demes x 3 models x 2 spaces; two loci n<=4 x <=2 '
         'demes x n_unlinked in {0,1,n}); non-trivial = at least 3 states',
    exhaustive_thorough=True,
    exhaustive_quick=True,
    trusted_base=['PT3: the structured Lambda-coalescent / two-locus ARG is the particle system of PGProofs.Labelled '
                  '(modelled, textbook)', 'Python hash of state bytes does not collide (State.__eq__ compares hashes)'],
    assumptions=['rates are compared to relative 1e-11 (float rounding of rate/time_scale)'],
)


def cases(ctx):
    out = []
    for D in (1, 2, 3):
        for n in range(2, 6):
            for vec in gen.splits(n, D):
                for mk in ('kingman', 'beta', 'dirac'):
                    for kind in ('lc', 'bc'):
                        out.append(dict(vec=vec, mk=mk, kind=kind, loci=1))
    for D in (1, 2):
        for n in range(2, 5):
            for vec in gen.splits(n, D):
                for n_unl in sorted({0, 1, n}):
                    out.append(dict(vec=vec, mk='kingman', kind='lc', loci=2, n_unl=n_unl))
    return out


def size_estimate(c):
    n, D = sum(c['vec']), len(c['vec'])
    if c['loci'] == 2:
        return {1: 10, 2: 60}[D] * n ** 2 // 4 if D > 1 else 3 * n * n
    if c['kind'] == 'lc':
        return math.comb(n + D, D)
    return {2: 2, 3: 3, 4: 5, 5: 7}[n] * (4 ** (D - 1)) * n


def build_cfg(c, rng):
    D = len(c['vec'])
    names = list(rng.choice(gen.NAME_SETS)[:D])
    rng.shuffle(names)
    if c['mk'] == 'kingman':
        model = ('kingman',)
    elif c['mk'] == 'beta':
        model = ('beta', rng.choice([1.125, 1.5, 1.875]), rng.random() < 0.5)
    else:
        model = ('dirac', rng.choice([0.25, 0.5, 0.75]), rng.choice([0.5, 3.0]), rng.random() < 0.5)
    eps = gen.rand_epochs(rng, names, 2, generic=True)
    if D >= 2:
        # a third epoch that differs from the second in exactly ONE directed migration rate (either direction) and a fourth that
        # differs from the third in exactly one population size: the rate matrix of an epoch depends on every field of the epoch
        import copy
        e3 = copy.deepcopy(eps[1]); e3['start'] = eps[1]['start'] + 0.5
        a, b = rng.sample(names, 2)
        e3['mig'][(a, b)] = e3['mig'][(a, b)] + gen.generic_rate(rng, set())
        e4 = copy.deepcopy(e3); e4['start'] = e3['start'] + 0.5
        p = rng.choice(names)
        e4['sizes'][p] = e4['sizes'][p] + gen.generic_rate(rng, set())
        eps = eps + [e3, e4]
    cfg = dict(n=dict(zip(names, c['vec'])), model=model, epochs=eps, loci=c['loci'])
    if c['loci'] == 2:
        cfg['r'] = gen.generic_rate(rng, set())
        cfg['n_unl'] = c['n_unl']
    return cfg


def key_to_parts(key, kind, loci):
    """canonical state key -> labelled representative (list of particle types)"""
    parts = []
    for name, lin, lnk in key:
        if loci == 1:
            for b, c in enumerate(lin[0]):
                parts += [(name, (b + 1) if kind == 'bc' else None)] * c
        else:
            L = lnk[0][0]
            parts += [(name, 'L')] * L + [(name, 'U1')] * (lin[0][0] - L) + [(name, 'U2')] * (lin[1][0] - lnk[1][0])
    return parts


def hist_to_key(h, names_sorted, kind, loci, n):
    h = dict(h)
    key = []
    for name in names_sorted:
        if loci == 1:
            if kind == 'bc':
                lin = (tuple(h.get((name, s), 0) for s in range(1, n + 1)),)
                lnk = (tuple(0 for _ in range(n)),)
            else:
                lin = ((h.get((name, None), 0),),)
                lnk = ((0,),)
        else:
            L, U1, U2 = h.get((name, 'L'), 0), h.get((name, 'U1'), 0), h.get((name, 'U2'), 0)
            lin = ((L + U1,), (L + U2,))
            lnk = ((L,), (L,))
        key.append((name, lin, lnk))
    return tuple(key)


def oracle(ctx, cfg, real, kind):
    """direct oracle on the real objects; reports failing inputs"""
    loci = cfg.get('loci', 1)
    names = conv.cfg_names(cfg)
    ns = sorted(names)
    n = sum(cfg['n'].values())
    states = real['states']
    sset = set(states)
    if len(sset) != len(states):
        ctx.violation(f'duplicate-state:{kind}', cfg=cfg)
    for key in states:
        if loci == 2 and any(l[0] != l[1] for (_, _, l) in [(a, b, (c[0][0], c[1][0])) for a, b, c in key]):
            ctx.violation('linked-mismatch', cfg=cfg, state=str(key))
    # alpha
    nvec = {p: cfg['n'].get(p, 0) for p in names}
    if loci == 1:
        want = {k for k in states if all(lin[0][0] == nvec[name] for name, lin, _ in k)}
    else:
        nl = max(n - cfg.get('n_unl', 0), 0)
        want = {k for k in states if all(lin[0][0] == nvec[name] and lin[1][0] == nvec[name] for name, lin, _ in k)
                and sum(lnk[0][0] for _, _, lnk in k) == nl and sum(lnk[1][0] for _, _, lnk in k) == nl}
    got = real['alpha']
    if set(got) != want or any(abs(v - 1.0 / len(want)) > 1e-12 for v in got.values()):
        ctx.violation(f'alpha:{kind}:{loci}', cfg=cfg, expected_support=[str(k) for k in want], observed={str(k): v for k, v in got.items()})
    if loci == 1 and len(want) != 1:
        ctx.violation(f'alpha-not-unique:{kind}', cfg=cfg, support=[str(k) for k in want])
    for e, (rm, diag_ok, nonneg) in enumerate(real['S']):
        ep = cfg['epochs'][e]
        if not diag_ok:
            ctx.violation(f'row-sum:{kind}', cfg=cfg, epoch=e)
        if not nonneg:
            ctx.violation(f'negative-rate:{kind}', cfg=cfg, epoch=e)
        ts = {p: conv.timescale_oracle(cfg['model'], ep['sizes'][p]) for p in names}
        rows = {}
        for (s, t), r in rm.items():
            rows.setdefault(s, {})[t] = r
        for s in states:
            parts = key_to_parts(s, kind, loci)
            if loci == 1:
                counts = {p: Counter() for p in names}
                for d, sz in parts:
                    counts[d][sz] += 1
                row = spec.lumped_row_one_locus(counts, cfg['model'], ts, ep['mig'])
            else:
                row = spec.lumped_row_two_loci(parts, ts, ep['mig'], cfg.get('r', 0))
            exp = {}
            for h, r in row.items():
                if r != 0:
                    k2 = hist_to_key(h, ns, kind, loci, n)
                    if k2 != s:
                        exp[k2] = exp.get(k2, 0) + r
            obs = rows.get(s, {})
            for t in set(exp) | set(obs):
                a, b = exp.get(t, 0.0), obs.get(t, 0.0)
                if t not in sset:
                    ctx.violation(f'missing-state:{kind}:{cfg["model"][0]}:{loci}', cfg=cfg, epoch=e, source=str(s), target=str(t), expected_rate=a)
                    return
                if not C.close(a, b, 1e-9, 1e-300):
                    ctx.violation(f'rate:{kind}:{cfg["model"][0]}:{loci}', cfg=cfg, epoch=e, source=str(s), target=str(t),
                                  expected=a, observed=b, oracle='labelled particle system projected onto counts (harness/spec.py)')
                    return


def one(ctx, c):
    pg = C.import_phasegen()
    rng = random.Random(f"{ctx.seed}-{c}")
    cfg = build_cfg(c, rng)
    coal = conv.make_coalescent(pg, cfg)
    real = conv.real_space(coal, c['kind'])
    model = conv.model_space(C.driver(), cfg, c['kind'])
    ctx.case(dict(cfg=cfg, kind=c['kind'], states=real['k']), (c['vec'], c['mk'], c['kind'], c['loci'], c.get('n_unl')) if real['k'] >= 3 else None)
    ctx.count(f"{c['kind']}:{c['mk']}:loci{c['loci']}:demes{len(c['vec'])}")
    ctx.count('states', real['k'])
    diffs = conv.diff_space(model, real)
    if diffs:
        ctx.corr_break('space', cfg=cfg, kind=c['kind'], diffs=diffs[:4])
    oracle(ctx, cfg, real, c['kind'])


def run(ctx):
    import check
    cs = cases(ctx)
    # the whole bound of the property takes ~15 s on 16 cores, so both tiers are exhaustive;
    # the thorough tier repeats it with three independent draws of the generic rates
    if not ctx.quick:
        cs = cs * 3
        cs = [dict(c, rep=i) for i, c in enumerate(cs)]
    ctx.rng.shuffle(cs)
    check.pmap(ctx, 'props.c04', 'one', cs, case_timeout=600)


def replay(ctx, payload):
    pg = C.import_phasegen()
    cfg = payload['cfg']
    cfg['n'] = dict(cfg['n'])
    for e in cfg['epochs']:
        e['mig'] = {eval(k) if isinstance(k, str) else k: v for k, v in e['mig'].items()}
    cfg['model'] = tuple(cfg['model'])
    kind = payload.get('kind') or payload['signature'].split(':')[1]
    coal = conv.make_coalescent(pg, cfg)
    real = conv.real_space(coal, kind)
    oracle(ctx, cfg, real, kind)
    ctx.case(dict(cfg=cfg), 'replay')
