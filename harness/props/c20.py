"""
C20 — unsupported or invalid requests fail loudly instead of returning numbers.

Direct oracle on the real code. Every invalid-input class of the statement is crossed with every route by which it
can be supplied. A route is a Python expression (it is its own one-line reproducer) that performs the construction
and, where the value is only looked at later, the first statistic access. For random members of the class the
expression must raise (any exception class counts as loud and is recorded); for valid neighbours of the same route
it must NOT raise. NaN clause: in a stiff sweep every requested statistic is finite, or an exception was raised,
or a phasegen log record (WARNING or above) was emitted.

Signatures: `not-rejected:<class>:<route>`, `valid-rejected:<class>:<route>`, `silent-nonfinite:<statistic>`,
`silent-complex:<statistic>` (square root of a negative variance returned as a complex number).
"""
import os
for _v in ('OMP_NUM_THREADS', 'OPENBLAS_NUM_THREADS', 'MKL_NUM_THREADS'):
    os.environ.setdefault(_v, '1')
import random, math
import numpy as np
import pgcommon as C

META = dict(
    level='proof',
    rule='a case = (invalid-input class of the statement, route expression, random member or valid neighbour): SFS with '
         'two loci, multiple mergers with two loci, number of loci, negative times (construction/cdf/accumulate/moment), '
         'end before start, non-positive sizes, negative migration / recombination rates / change times by every '
         'constructor and event route, n_unlinked, alpha, psi, reward-count mismatch, mutation configurations, quantile '
         'level; plus a stiff sweep (sizes 1e-12..1e15, alpha next to 1 and 2, extreme migration) for the NaN clause; '
         'non-trivial = every invalid member and every stiff statistic (valid neighbours are the trivial cases)',
    trusted_base=['"loud" = any Python exception reaching the caller; log records observed through the phasegen logger'],
    assumptions=['magnitudes of invalid members span 5e-324 .. 1e308 and -inf; valid neighbours are moderate values',
                 'routes through trajectory callables / PopulationSplit multipliers are included as routes of the '
                 'size / migration classes ("by every route they can be supplied")'],
)


def is_timeout(e):
    return type(e).__name__ == 'TimeoutCase'


# ----------------------------------------------------------------------------------------------- value generators
def neg(rng):
    u = rng.random()
    if u < 0.55:
        return -10.0 ** rng.uniform(-9, 6)
    if u < 0.7:
        return float(-rng.randint(1, 1000))
    if u < 0.8:
        return rng.choice([-1e-300, -5e-324, -1e-17])
    if u < 0.9:
        return rng.choice([-1e12, -1e100, -1e308])
    return float('-inf')


def neg_finite(rng):
    x = neg(rng)
    return x if math.isfinite(x) else -3.5


def nonpos(rng):
    return rng.choice([0.0, 0.0, -0.0, 0]) if rng.random() < 0.4 else neg(rng)


def pos(rng):
    return float(2.0 ** rng.randint(-3, 3)) * rng.choice([1.0, 1.25])


def nonneg(rng):
    return 0.0 if rng.random() < 0.3 else pos(rng)


def ty(rng):
    return rng.choice(['float', 'float', 'float', 'int', 'np.float64'])


def conv_value(x, t):
    if t == 'int' and math.isfinite(x) and float(x) == int(x):
        return int(x)
    if t == 'np.float64':
        return np.float64(x)
    return x


# ----------------------------------------------------------------------------------------------- the table
# entry: (class, expression, invalid generator, valid generator); generators return the variables of the expression
USES = ['.tree_height.mean', '.moment(1)', '.sfs.mean', '.total_branch_length.mean', '.tree_height.cdf(1.0)',
        '.tree_height.quantile(0.5)', '.tree_height.var', '.fsfs.mean']
DEM2 = "pg.Demography(pop_sizes={'a': 1.0, 'b': 2.0}, migration_rates={('a', 'b'): 0.5, ('b', 'a'): 0.25})"


def short_name(expr):
    """compact, stable label of a route for the violation signature (the full expression is in the detail)"""
    import re
    for pat, lab in (('PopulationSplit(time=x', 'PopulationSplit(time)'), ('multiplier=x', 'PopulationSplit(multiplier)'),
                     ("DiscretizedRateChanges(trajectory={'pop_0'", 'DiscretizedRateChanges(pop-trajectory)'),
                     ("DiscretizedRateChanges(trajectory={('a', 'b')", 'DiscretizedRateChanges(migration-trajectory)'),
                     ("DiscretizedRateChange(trajectory=lambda u: x, start_time=0", 'DiscretizedRateChange(pop-trajectory,t0)'),
                     ("pop='pop_0')", 'DiscretizedRateChange(pop-trajectory)'), ("source='a', dest='b')", 'DiscretizedRateChange(migration-trajectory)'),
                     ('ExponentialPopSizeChanges(', 'ExponentialPopSizeChanges(initial_size)'),
                     ("ExponentialRateChanges(initial_rate={'pop_0'", 'ExponentialRateChanges(initial_size)'),
                     ("ExponentialRateChanges(initial_rate={('a', 'b')", 'ExponentialRateChanges(initial_rate)')):
        if pat in expr:
            return lab
    s = expr.replace(DEM2, 'DEM2').replace("pop_sizes={'a': 1.0, 'b': 2.0}", 'P2').replace('pg.', '')
    s = re.sub(r'\s+', '', s)
    return s if len(s) <= 110 else s[:70] + '..' + s[-36:]


def build_table():
    T = []

    def add(cls, expr, inv, val):
        T.append(dict(cls=cls, expr=expr, inv=inv, val=val, name=short_name(expr)))

    # --- SFS statistics with two loci
    def loci_inv(rng):
        return dict(n=rng.randint(2, 4), L=2, r=nonneg(rng), u=rng.randint(0, 3), i=1)

    def loci_val(rng):
        return dict(n=rng.randint(2, 4), L=1, r=0.0, u=0, i=1)
    for mk in ("pg.Coalescent(n=n, loci=L, recombination_rate=r)",
               "pg.Coalescent(n=n, loci=pg.LocusConfig(n=L, n_unlinked=u, recombination_rate=r))",
               "pg.Coalescent(n={'a': n, 'b': 1}, loci=L, recombination_rate=r, demography=" + DEM2 + ")"):
        for use in ('.sfs.mean', '.fsfs.mean', '.moment(1, (pg.UnfoldedSFSReward(i),))', '.moment(1, (pg.FoldedSFSReward(i),))',
                    '.sfs.var', '.sfs.cov', '.fsfs.cov', '.sfs.m2', '.sfs.moment(2)', '.sfs.accumulate(1, [1.0])',
                    '.accumulate(1, [1.0], (pg.UnfoldedSFSReward(i),))', '.sfs.get_mutation_config([0] * (n - 1), 1.0)',
                    '.moment(2, (pg.UnfoldedSFSReward(i), RW.TreeHeightReward()))', '.sfs.get_cov(1, 1)'):
            if "'a': n" in mk and 'get_mutation_config' in use:
                use = '.sfs.get_mutation_config([0] * n, 1.0)'
            add('sfs-two-loci', mk + use, loci_inv, loci_val)

    # --- multiple mergers with two loci
    def mm_inv(rng):
        return dict(n=rng.randint(2, 4), L=2, a=rng.uniform(1.01, 1.99), psi=rng.uniform(0.05, 0.95), c=pos(rng),
                    r=nonneg(rng), st=rng.random() < 0.5)

    def mm_val(rng):
        return dict(mm_inv(rng), L=1)
    for model in ('pg.BetaCoalescent(alpha=a, scale_time=st)', 'pg.DiracCoalescent(psi=psi, c=c, scale_time=st)'):
        for use in ('.tree_height.mean', '.tree_height.var', '.tree_height.cdf(1.0)', '.total_branch_length.mean',
                    '.moment(1)', '.tree_height.quantile(0.5)', '.tree_height.loci[0].mean', '.tree_height.t_max',
                    '.moment(1, (RW.TotalBranchLengthReward(),))', '.tree_height.accumulate(1, [1.0])'):
            if 'loci[' in use:
                add('mm-two-loci', f'pg.Coalescent(n=n, loci=L, recombination_rate=r, model={model}){use}', mm_inv,
                    lambda rng: dict(mm_inv(rng), L=2, a=None))       # valid neighbour handled below (Kingman)
                T[-1]['expr_valid'] = f'pg.Coalescent(n=n, loci=2, recombination_rate=r){use}'
            else:
                add('mm-two-loci', f'pg.Coalescent(n=n, loci=L, recombination_rate=r, model={model}){use}', mm_inv, mm_val)
        add('mm-two-loci', f'pg.Coalescent(n=n, loci=pg.LocusConfig(n=L, recombination_rate=r), model={model}).tree_height.mean', mm_inv, mm_val)

    # --- number of loci
    def nl_inv(rng):
        return dict(k=rng.choice([0, 0, -1, -rng.randint(2, 9), 3, 3, 4, rng.randint(5, 50)]), n=rng.randint(2, 3))

    def nl_val(rng):
        return dict(k=rng.choice([1, 2]), n=rng.randint(2, 3))
    for e in ('pg.LocusConfig(n=k)', 'pg.LocusConfig(n=k, n_unlinked=0, recombination_rate=1.0)',
              'pg.Coalescent(n=n, loci=k).tree_height.mean', 'pg.Coalescent(n=n, loci=k, recombination_rate=0.5).tree_height.mean',
              'pg.Coalescent(n=n, loci=pg.LocusConfig(n=k)).tree_height.mean', 'pg.Coalescent(n=n, loci=k).moment(1)',
              'pg.Coalescent(n=n, loci=k).total_branch_length.mean'):
        add('n-loci', e, nl_inv, nl_val)

    # --- negative times
    def nt_inv(rng):
        return dict(x=neg(rng), n=rng.randint(2, 4), t=pos(rng), ty=ty(rng))

    def nt_val(rng):
        return dict(x=nonneg(rng), n=rng.randint(2, 4), t=pos(rng), ty=ty(rng))
    for use in USES:
        add('negative-time', f'pg.Coalescent(n=n, start_time=x){use}', nt_inv, nt_val)
        add('negative-time', f'pg.Coalescent(n=n, end_time=x){use}', nt_inv, nt_val)
    add('negative-time', "pg.Coalescent(n={'a': n, 'b': 1}, demography=" + DEM2 + ", start_time=x).tree_height.mean", nt_inv, nt_val)
    add('negative-time', "pg.Coalescent(n={'a': n, 'b': 1}, demography=" + DEM2 + ", end_time=x).sfs.mean", nt_inv, nt_val)
    add('negative-time', 'pg.Coalescent(n=n, loci=2, recombination_rate=1.0, start_time=x).tree_height.mean', nt_inv, nt_val)
    add('negative-time', 'pg.Coalescent(n=n, loci=2, recombination_rate=1.0, end_time=x).tree_height.mean', nt_inv, nt_val)
    add('negative-time', 'pg.Coalescent(n=n, model=pg.BetaCoalescent(1.5), end_time=x).tree_height.mean', nt_inv, nt_val)
    for arg in ('x', '[x]', '[x, t]', '[t, x]', 'np.array([t, x, 2 * t])', '(t, x)'):
        add('negative-time', f'pg.Coalescent(n=n).tree_height.cdf({arg})', nt_inv, nt_val)
    add('negative-time', 'pg.Coalescent(n=n, loci=2).tree_height.cdf(x)', nt_inv, nt_val)
    add('negative-time', "pg.Coalescent(n={'a': n, 'b': 1}, demography=" + DEM2 + ").tree_height.cdf([t, x])", nt_inv, nt_val)
    for dist in ('.tree_height', '.total_branch_length', '.sfs', '.fsfs', '', '.tree_height.demes["pop_0"]'):
        for arg in ('[x]', '[t, x]', '[x, t]', 'np.array([x])'):
            add('negative-time', f'pg.Coalescent(n=n){dist}.accumulate(1, {arg})', nt_inv, nt_val)
        add('negative-time', f'pg.Coalescent(n=n){dist}.accumulate(2, [x, t])', nt_inv, nt_val)
        add('negative-time', f'pg.Coalescent(n=n){dist}.moment(1, end_time=x)', nt_inv, nt_val)
        add('negative-time', f'pg.Coalescent(n=n){dist}.moment(2, end_time=x)', nt_inv, nt_val)
        add('negative-time', f'pg.Coalescent(n=n){dist}.moment(2, end_time=x, center=False)', nt_inv, nt_val)
    add('negative-time', 'pg.Coalescent(n=n).moment(1, (RW.TotalBranchLengthReward(),), end_time=x)', nt_inv, nt_val)
    add('negative-time', 'pg.Coalescent(n=n).moment(1, (pg.UnfoldedSFSReward(1),), end_time=x)', nt_inv, nt_val)
    add('negative-time', 'pg.Coalescent(n=n, loci=2).moment(1, end_time=x)', nt_inv, nt_val)
    add('negative-time', 'pg.Coalescent(n=n).accumulate(1, [x], (RW.TotalBranchLengthReward(),))', nt_inv, nt_val)
    # a negative end time next to a POSITIVE start time (given on the call or at construction): the window route of moment()
    for dist in ('.tree_height', '.total_branch_length', '.sfs', '.fsfs', ''):
        add('negative-time', f'pg.Coalescent(n=n){dist}.moment(1, start_time=t, end_time=x)', nt_inv, nt_val)
        add('negative-time', f'pg.Coalescent(n=n, start_time=t){dist}.moment(1, end_time=x)', nt_inv, nt_val)
    add('negative-time', 'pg.Coalescent(n=n).tree_height.moment(2, start_time=t, end_time=x, center=False)', nt_inv, nt_val)

    # --- end before start at construction
    def ebs_inv(rng):
        s = pos(rng)
        return dict(s=s, e=s * rng.choice([0.0, 0.5, 0.999999, 1 - 1e-12]), n=rng.randint(2, 4))

    def ebs_val(rng):
        s = pos(rng)
        return dict(s=s, e=s * rng.choice([1.0, 1.5, 8.0]), n=rng.randint(2, 4))
    for use in USES:
        add('end-before-start', f'pg.Coalescent(n=n, start_time=s, end_time=e){use}', ebs_inv, ebs_val)
    add('end-before-start', 'pg.Coalescent(n=n, loci=2, start_time=s, end_time=e).tree_height.mean', ebs_inv, ebs_val)

    # --- non-positive population sizes
    def sz_inv(rng):
        return dict(x=nonpos(rng), t=pos(rng), y=pos(rng), n=rng.randint(2, 3), ty=ty(rng))

    def sz_val(rng):
        return dict(x=pos(rng), t=pos(rng), y=pos(rng), n=rng.randint(2, 3), ty=ty(rng))
    for e in ("pg.Demography(pop_sizes=x)", "pg.Demography(pop_sizes={'a': x})", "pg.Demography(pop_sizes={'a': y, 'b': x})",
              "pg.Demography(pop_sizes={'a': {0: x}})", "pg.Demography(pop_sizes={'a': {0: y, t: x}})",
              "pg.Demography(pop_sizes={'a': {0: x, t: y}})", "pg.Demography(pop_sizes={'a': {0: y}, 'b': {0: y, t: x}})",
              "pg.Demography(pop_sizes={'a': y, 'b': x}, migration_rates={('a', 'b'): 0.5, ('b', 'a'): 0.5})",
              "pg.PopSizeChange('a', t, x)", "pg.PopSizeChange(pop='pop_0', time=0, size=x)",
              "pg.PopSizeChanges({'a': {t: x}})", "pg.PopSizeChanges({'a': {0: y}, 'b': {t: x}})", "pg.PopSizeChanges({'a': {0: y, t: x}})",
              "pg.DiscreteRateChanges(pop_sizes={'a': {t: x}})", "pg.DiscreteRateChanges(pop_sizes={'a': {0: y, t: x}}, migration_rates={('a', 'b'): {0: 0.5}})",
              "pg.Demography(events=[pg.PopSizeChange('pop_0', t, x)])", "pg.Demography(events=[pg.PopSizeChanges({'pop_0': {0: y, t: x}})])",
              "pg.Demography(pop_sizes={'pop_0': y}).add_event(pg.PopSizeChange('pop_0', t, x))",
              "pg.Demography(pop_sizes={'pop_0': y}).add_events([pg.PopSizeChanges({'pop_0': {t: x}})])",
              "pg.Coalescent(n=n, demography=pg.Demography(pop_sizes=x)).tree_height.mean",
              "pg.Coalescent(n=n, demography=pg.Demography(pop_sizes={'pop_0': {0: y, t: x}})).sfs.mean",
              # sizes supplied through trajectories of discretised events: looked at when the epochs are built
              "pg.Coalescent(n=n, demography=pg.Demography(pop_sizes={'pop_0': y}, events=[pg.DiscretizedRateChange(trajectory=lambda u: x, start_time=min(t, 0.25), end_time=min(t, 0.25) + 1, pop='pop_0')])).tree_height.mean",
              "pg.Coalescent(n=n, demography=pg.Demography(events=[pg.DiscretizedRateChange(trajectory=lambda u: x, start_time=0, end_time=1.0, step_size=0.25, pop='pop_0')])).tree_height.mean",
              "pg.Coalescent(n=n, demography=pg.Demography(pop_sizes={'pop_0': y}, events=[pg.DiscretizedRateChanges(trajectory={'pop_0': lambda u: x}, start_time=min(t, 0.25), end_time=min(t, 0.25) + 1)])).tree_height.mean",
              "pg.Coalescent(n=n, demography=pg.Demography(pop_sizes={'pop_0': y}, events=[pg.ExponentialPopSizeChanges(initial_size={'pop_0': x}, growth_rate=0.5, start_time=min(t, 0.25), end_time=min(t, 0.25) + 1)])).tree_height.mean",
              "pg.Coalescent(n=n, demography=pg.Demography(pop_sizes={'pop_0': y}, events=[pg.ExponentialRateChanges(initial_rate={'pop_0': x}, growth_rate=0.5, start_time=min(t, 0.25), end_time=min(t, 0.25) + 1)])).total_branch_length.mean"):
        add('nonpositive-size', e, sz_inv, sz_val)

    # --- negative migration rates
    def mg_inv(rng):
        return dict(x=neg(rng), t=pos(rng), y=nonneg(rng), n=rng.randint(1, 2), ty=ty(rng))

    def mg_val(rng):
        return dict(x=nonneg(rng), t=pos(rng), y=nonneg(rng) + 0.25, n=rng.randint(1, 2), ty=ty(rng))
    P2 = "pop_sizes={'a': 1.0, 'b': 2.0}"
    for e in (f"pg.Demography({P2}, migration_rates={{('a', 'b'): x}})", f"pg.Demography({P2}, migration_rates={{('a', 'b'): y, ('b', 'a'): x}})",
              f"pg.Demography({P2}, migration_rates={{('a', 'b'): {{0: x}}}})", f"pg.Demography({P2}, migration_rates={{('a', 'b'): {{0: y, t: x}}}})",
              f"pg.Demography({P2}, migration_rates={{('a', 'b'): {{0: y}}, ('b', 'a'): {{0: y, t: x}}}})",
              "pg.Demography(migration_rates={('a', 'b'): x})",
              "pg.MigrationRateChange('a', 'b', t, x)", "pg.MigrationRateChange(source='a', dest='b', time=0, rate=x)",
              "pg.MigrationRateChanges({('a', 'b'): {t: x}})", "pg.MigrationRateChanges({('a', 'b'): {0: y}, ('b', 'a'): {0: y, t: x}})",
              "pg.SymmetricMigrationRateChanges(['a', 'b'], x)", "pg.SymmetricMigrationRateChanges(pops=['a', 'b', 'c'], rate=x)",
              "pg.SymmetricMigrationRateChanges(['a', 'b'], {0: y, t: x})", "pg.SymmetricMigrationRateChanges(['a', 'b'], {t: x})",
              "pg.DiscreteRateChanges(migration_rates={('a', 'b'): {t: x}})", "pg.DiscreteRateChanges(pop_sizes={'a': {0: 1.0}, 'b': {0: 1.0}}, migration_rates={('a', 'b'): {0: y, t: x}})",
              f"pg.Demography({P2}, events=[pg.MigrationRateChange('a', 'b', t, x)])",
              f"pg.Demography({P2}, events=[pg.SymmetricMigrationRateChanges(['a', 'b'], {{0: y, t: x}})])",
              f"pg.Demography({P2}, migration_rates={{('a', 'b'): y, ('b', 'a'): y}}).add_event(pg.MigrationRateChange('a', 'b', t, x))",
              f"pg.Coalescent(n={{'a': n, 'b': 1}}, demography=pg.Demography({P2}, migration_rates={{('a', 'b'): x, ('b', 'a'): 0.5}})).tree_height.mean",
              f"pg.Coalescent(n={{'a': n, 'b': 1}}, demography=pg.Demography({P2}, migration_rates={{('a', 'b'): {{0: y, t: x}}, ('b', 'a'): {{0: 0.5}}}})).sfs.mean",
              # rates supplied through a split multiplier / trajectories of discretised events
              f"pg.Coalescent(n={{'a': n, 'b': 1}}, demography=pg.Demography({P2}, migration_rates={{('a', 'b'): y, ('b', 'a'): y}}, events=[pg.PopulationSplit(time=t, derived='a', ancestral='b', multiplier=x)])).tree_height.mean",
              f"pg.Coalescent(n={{'a': n, 'b': 1}}, demography=pg.Demography({P2}, migration_rates={{('a', 'b'): y, ('b', 'a'): y}}, events=[pg.DiscretizedRateChange(trajectory=lambda u: x, start_time=min(t, 0.25), end_time=min(t, 0.25) + 1, source='a', dest='b')])).tree_height.mean",
              f"pg.Coalescent(n={{'a': n, 'b': 1}}, demography=pg.Demography({P2}, migration_rates={{('a', 'b'): y, ('b', 'a'): y}}, events=[pg.DiscretizedRateChanges(trajectory={{('a', 'b'): lambda u: x}}, start_time=min(t, 0.25), end_time=min(t, 0.25) + 1)])).tree_height.mean",
              f"pg.Coalescent(n={{'a': n, 'b': 1}}, demography=pg.Demography({P2}, migration_rates={{('a', 'b'): y, ('b', 'a'): y}}, events=[pg.ExponentialRateChanges(initial_rate={{('a', 'b'): x}}, growth_rate=0.5, start_time=min(t, 0.25), end_time=min(t, 0.25) + 1)])).tree_height.mean"):
        add('negative-migration', e, mg_inv, mg_val)

    # --- negative change times
    def ct_inv(rng):
        return dict(x=neg(rng), y=pos(rng), n=rng.randint(1, 2), ty=ty(rng))

    def ct_val(rng):
        return dict(x=nonneg(rng) + 0.125, y=pos(rng), n=rng.randint(1, 2), ty=ty(rng))
    for e in ("pg.PopSizeChange('a', x, y)", "pg.PopSizeChanges({'a': {x: y}})", "pg.PopSizeChanges({'a': {0: 1.0, x: y}})",
              "pg.Demography(pop_sizes={'a': {0: 1.0, x: y}})", "pg.Demography(pop_sizes={'a': {x: y}})",
              "pg.MigrationRateChange('a', 'b', x, y)", "pg.MigrationRateChanges({('a', 'b'): {x: y}})",
              "pg.MigrationRateChanges({('a', 'b'): {0: 0.5, x: y}})", "pg.SymmetricMigrationRateChanges(['a', 'b'], {x: y})",
              "pg.SymmetricMigrationRateChanges(['a', 'b'], {0: 0.5, x: y})", "pg.DiscreteRateChanges(pop_sizes={'a': {x: y}})",
              "pg.DiscreteRateChanges(migration_rates={('a', 'b'): {x: y}})",
              f"pg.Demography({P2}, migration_rates={{('a', 'b'): {{0: 0.5, x: y}}}})",
              f"pg.Demography({P2}, events=[pg.PopSizeChange('a', x, y)])",
              "pg.Coalescent(n=2, demography=pg.Demography(pop_sizes={'pop_0': {0: 1.0, x: y}})).tree_height.mean",
              f"pg.Coalescent(n={{'a': n, 'b': 1}}, demography=pg.Demography({P2}, migration_rates={{('a', 'b'): 0.5, ('b', 'a'): 0.5}}, events=[pg.PopulationSplit(time=x, derived='a', ancestral='b')])).tree_height.mean"):
        add('negative-change-time', e, ct_inv, ct_val)

    # --- negative recombination rate
    def rc_inv(rng):
        return dict(x=neg(rng), n=rng.randint(2, 3), u=rng.randint(0, 2), ty=ty(rng))

    def rc_val(rng):
        return dict(x=nonneg(rng), n=rng.randint(2, 3), u=rng.randint(0, 2), ty=ty(rng))
    for e in ("pg.LocusConfig(n=2, recombination_rate=x)", "pg.LocusConfig(n=1, recombination_rate=x)",
              "pg.LocusConfig(n=2, n_unlinked=u, recombination_rate=x)",
              "pg.Coalescent(n=n, loci=2, recombination_rate=x).tree_height.mean", "pg.Coalescent(n=n, loci=1, recombination_rate=x).tree_height.mean",
              "pg.Coalescent(n=n, loci=pg.LocusConfig(n=2), recombination_rate=x).tree_height.mean",
              "pg.Coalescent(n=n, loci=pg.LocusConfig(n=2, recombination_rate=1.0), recombination_rate=x).tree_height.mean",
              "pg.Coalescent(n=n, loci=pg.LocusConfig(n=2, n_unlinked=u), recombination_rate=x).total_branch_length.mean",
              "pg.Coalescent(n=n, loci=pg.LocusConfig(n=1), recombination_rate=x).tree_height.mean",
              "pg.Coalescent(n=n, loci=pg.LocusConfig(n=2, recombination_rate=x)).tree_height.mean",
              "pg.Coalescent(n=n, loci=pg.LocusConfig(n=2), recombination_rate=x).tree_height.loci[0].mean",
              "pg.Coalescent(n={'a': n, 'b': 1}, demography=" + DEM2 + ", loci=pg.LocusConfig(n=2), recombination_rate=x).tree_height.mean"):
        add('negative-recombination', e, rc_inv, rc_val)

    # --- negative n_unlinked
    def nu_inv(rng):
        return dict(x=rng.choice([-1, -1, -2, -rng.randint(3, 100)]), n=rng.randint(2, 3))

    def nu_val(rng):
        return dict(x=rng.randint(0, 3), n=rng.randint(2, 3))
    for e in ("pg.LocusConfig(n=2, n_unlinked=x)", "pg.LocusConfig(n=1, n_unlinked=x)", "pg.LocusConfig(n=2, n_unlinked=x, recombination_rate=1.0)",
              "pg.Coalescent(n=n, loci=pg.LocusConfig(n=2, n_unlinked=x)).tree_height.mean"):
        add('negative-n_unlinked', e, nu_inv, nu_val)

    # --- alpha / psi
    def al_inv(rng):
        x = rng.choice([1 - 10.0 ** rng.uniform(-9, 0), 0.0, -1.0, 0.5, neg_finite(rng), 2 + 10.0 ** rng.uniform(-9, 2), 2.5, 3.0, float('inf')])
        return dict(x=x, n=rng.randint(2, 4), st=rng.random() < 0.5, ty=ty(rng))

    def al_val(rng):
        return dict(x=rng.uniform(1.05, 1.95), n=rng.randint(2, 4), st=rng.random() < 0.5, ty='float')
    for e in ("pg.BetaCoalescent(alpha=x)", "pg.BetaCoalescent(x, scale_time=st)", "pg.Coalescent(n=n, model=pg.BetaCoalescent(alpha=x, scale_time=st)).tree_height.mean",
              "pg.Coalescent(n=n, model=pg.BetaCoalescent(alpha=x)).sfs.mean"):
        add('beta-alpha', e, al_inv, al_val)

    def ps_inv(rng):
        x = rng.choice([0.0, 0, -0.0, neg_finite(rng), -0.5, 1.0, 1, 1 + 10.0 ** rng.uniform(-9, 3), 2.0, float('inf')])
        return dict(x=x, c=pos(rng), n=rng.randint(2, 4), st=rng.random() < 0.5, ty=ty(rng))

    def ps_val(rng):
        return dict(x=rng.uniform(0.05, 0.95), c=pos(rng), n=rng.randint(2, 4), st=rng.random() < 0.5, ty='float')
    for e in ("pg.DiracCoalescent(psi=x, c=c)", "pg.DiracCoalescent(x, c, scale_time=st)",
              "pg.Coalescent(n=n, model=pg.DiracCoalescent(psi=x, c=c, scale_time=st)).tree_height.mean",
              "pg.Coalescent(n=n, model=pg.DiracCoalescent(psi=x, c=c)).sfs.mean"):
        add('dirac-psi', e, ps_inv, ps_val)

    # --- reward tuple length != order
    def rw_inv(rng):
        k = rng.randint(0, 3)
        m = rng.choice([j for j in range(0, 5) if j != k])
        return dict(k=k, m=m, n=rng.randint(2, 4), cen=rng.random() < 0.5, per=rng.random() < 0.5, t=pos(rng))

    def rw_val(rng):
        k = rng.randint(0, 2)
        return dict(k=k, m=k, n=rng.randint(2, 4), cen=rng.random() < 0.5, per=rng.random() < 0.5, t=pos(rng))
    LC = "(RW.TreeHeightReward(), RW.TotalBranchLengthReward(), RW.TreeHeightReward(), RW.TotalBranchLengthReward())[:m]"
    UN = "(RW.UnitReward(),) * m"
    for dist in ('', '.tree_height', '.total_branch_length', '.tree_height.demes["pop_0"]'):
        add('reward-count', f'pg.Coalescent(n=n){dist}.moment(k, {LC}, center=cen, permute=per)', rw_inv, rw_val)
        add('reward-count', f'pg.Coalescent(n=n){dist}.moment(k=k, rewards={LC})', rw_inv, rw_val)
        add('reward-count', f'pg.Coalescent(n=n){dist}.moment(k, list({LC}), end_time=t)', rw_inv, rw_val)
        add('reward-count', f'pg.Coalescent(n=n){dist}.accumulate(k, [t], {LC}, center=cen, permute=per)', rw_inv, rw_val)
        add('reward-count', f'pg.Coalescent(n=n){dist}.accumulate(k, [t, 2 * t], {LC})', rw_inv, rw_val)
    add('reward-count', f'pg.Coalescent(n=n, loci=2).moment(k, {LC}, center=cen, permute=per)', rw_inv, rw_val)
    add('reward-count', 'pg.Coalescent(n=n).moment(k, (pg.UnfoldedSFSReward(1), RW.TreeHeightReward(), pg.UnfoldedSFSReward(1), RW.TreeHeightReward())[:m], center=cen, permute=per)', rw_inv, rw_val)
    for dist in ('.sfs', '.fsfs'):
        add('reward-count', f'pg.Coalescent(n=n){dist}.moment(k, {UN}, center=cen, permute=per)', rw_inv, rw_val)
        add('reward-count', f'pg.Coalescent(n=n){dist}.accumulate(k, [t], {UN})', rw_inv, rw_val)
        add('reward-count', f'pg.Coalescent(n=n){dist}.get_accumulation(k, 1, [t], {UN}, center=cen, permute=per)', rw_inv, rw_val)

    # --- mutation configurations
    def mc_len_inv(rng):
        n = rng.randint(2, 5)
        # theta = 0 is a valid mutation rate (its shortcut must not come before the length check)
        return dict(n=n, d=rng.choice([-1, 1, 1, 2, -(n - 1) if n > 2 else 1, 5]), th=rng.choice([0, 0.0, pos(rng), pos(rng)]), y=1.0, t=None)

    def mc_val(rng):
        return dict(n=rng.randint(2, 5), d=0, th=nonneg(rng), y=pos(rng), t=None)
    for dist, ln in (('.sfs', 'n - 1'), ('.fsfs', 'n // 2')):
        add('mutation-config:length', f'pg.Coalescent(n=n){dist}.get_mutation_config([0] * max(0, {ln} + d), th)', mc_len_inv, mc_val)
        add('mutation-config:length', f'pg.Coalescent(n=n){dist}.get_mutation_config(([1, 0, 2, 0, 1, 0, 0, 0, 0, 0])[:max(0, {ln} + d)], th)', mc_len_inv, mc_val)
        add('mutation-config:length', f'pg.Coalescent(n=n){dist}.get_mutation_config(np.zeros(max(0, {ln} + d), dtype=int), th)', mc_len_inv, mc_val)
        add('mutation-config:theta', f'pg.Coalescent(n=n){dist}.get_mutation_config([0] * ({ln}), th)',
            lambda rng: dict(n=rng.randint(2, 5), d=0, th=neg(rng), y=1.0), mc_val)
        add('mutation-config:theta', f'pg.Coalescent(n=n){dist}.get_mutation_config([1] + [0] * ({ln} - 1), th)',
            lambda rng: dict(n=rng.randint(2, 5), d=0, th=neg(rng), y=1.0), mc_val)
        add('mutation-config:theta', f"pg.Coalescent(n=n, demography=pg.Demography(pop_sizes={{'pop_0': y}})){dist}.get_mutation_config([0] * ({ln}), th)",
            lambda rng: dict(n=rng.randint(2, 5), d=0, th=neg(rng), y=pos(rng)), mc_val)
        add('mutation-config:epochs', f"pg.Coalescent(n=n, demography=pg.Demography(pop_sizes={{'pop_0': {{0: 1.0, tt: y}}}})){dist}.get_mutation_config([0] * ({ln}), th)",
            lambda rng: dict(n=rng.randint(2, 5), th=pos(rng), y=pos(rng) * 1.5, tt=pos(rng)),
            lambda rng: dict(n=rng.randint(2, 5), th=pos(rng), y=pos(rng), tt=0))
        add('mutation-config:epochs', f"pg.Coalescent(n=n, demography=pg.Demography(events=[pg.PopSizeChange('pop_0', tt, y)])){dist}.get_mutation_config([1] + [0] * ({ln} - 1), th)",
            lambda rng: dict(n=rng.randint(2, 5), th=pos(rng), y=pos(rng) * 1.5, tt=pos(rng)),
            lambda rng: dict(n=rng.randint(2, 5), th=pos(rng), y=pos(rng), tt=0))
    add('mutation-config:epochs', f"pg.Coalescent(n={{'a': n, 'b': 1}}, demography=pg.Demography({P2}, migration_rates={{('a', 'b'): {{0: 0.5, tt: 1.0}}, ('b', 'a'): {{0: 0.5}}}})).sfs.get_mutation_config([0] * n, th)",
        lambda rng: dict(n=rng.randint(1, 3), th=pos(rng), tt=pos(rng)), lambda rng: dict(n=rng.randint(1, 3), th=pos(rng), tt=0))

    # more than one epoch because of a DISCRETISED event that starts at time 0 (no discrete change point anywhere)
    def mc_disc_inv(rng):
        return dict(n=rng.randint(2, 4), th=pos(rng), y=rng.choice([0.5, 1.0, 2.0]), g=rng.choice([-1.0, -0.25, 0.5, 1.0]), e=rng.choice([0.5, 1.0, 2.0]))

    def mc_disc_val(rng):
        return dict(n=rng.randint(2, 4), th=pos(rng), y=rng.choice([0.5, 1.0, 2.0]), g=0, e=1.0)
    for dist, ln in (('.sfs', 'n - 1'), ('.fsfs', 'n // 2')):
        for ev in ("pg.ExponentialPopSizeChanges(initial_size={'pop_0': y}, growth_rate=g, start_time=0, end_time=e)",
                   "pg.ExponentialRateChanges(initial_rate={'pop_0': y}, growth_rate=g, start_time=0, end_time=e)",
                   "pg.DiscretizedRateChange(trajectory=lambda u: y * (1 + abs(g) * u), start_time=0, end_time=e, pop='pop_0')"):
            add('mutation-config:epochs',
                f"pg.Coalescent(n=n, demography=pg.Demography(**(dict(events=[{ev}]) if g != 0 else dict(pop_sizes={{'pop_0': y}})))){dist}.get_mutation_config([0] * ({ln}), th)",
                mc_disc_inv, mc_disc_val)

    # --- quantile level
    def q_inv(rng):
        x = rng.choice([neg(rng), -0.5, -1e-12, 1 + 10.0 ** rng.uniform(-12, 3), 1.5, 2, float('inf')])
        return dict(x=x, n=rng.randint(2, 4), ty=ty(rng))

    def q_val(rng):
        return dict(x=rng.choice([0.0, 0.25, 0.5, 0.9, 0.99]), n=rng.randint(2, 4), ty='float')
    for e in ("pg.Coalescent(n=n).tree_height.quantile(x)", "pg.Coalescent(n=n).tree_height.quantile(q=x)",
              "pg.Coalescent(n=n, model=pg.BetaCoalescent(1.5)).tree_height.quantile(x)", "pg.Coalescent(n=n, loci=2).tree_height.quantile(x)",
              "pg.Coalescent(n={'a': n, 'b': 1}, demography=" + DEM2 + ").tree_height.quantile(x)"):
        add('quantile', e, q_inv, q_val)
    return T


_TABLE = None


def table():
    global _TABLE
    if _TABLE is None:
        _TABLE = build_table()
    return _TABLE


# ----------------------------------------------------------------------------------------------- evaluation
def env_for(pg, values):
    import phasegen.rewards as RW
    env = dict(pg=pg, np=np, RW=RW)
    t = values.get('ty', 'float')
    for k, v in values.items():
        if k == 'ty':
            continue
        env[k] = conv_value(v, t) if k == 'x' and isinstance(v, (int, float)) and not isinstance(v, bool) else v
    return env


def reproducer(expr, values):
    t = values.get('ty', 'float')
    parts = []
    for k, v in values.items():
        if k == 'ty' or not __import__('re').search(r'\b' + k + r'\b', expr):
            continue
        vv = conv_value(v, t) if k == 'x' and isinstance(v, (int, float)) and not isinstance(v, bool) else v
        r = repr(vv)
        r = {'inf': "float('inf')", '-inf': "float('-inf')", 'nan': "float('nan')"}.get(r, r)
        parts.append(f'{k} = {r}')
    return 'import numpy as np, phasegen as pg, phasegen.rewards as RW; ' + '; '.join(parts) + '; ' + expr


def eval_request(ctx, pg, cls, expr, values, expect):
    """expect: 'raise' | 'ok'"""
    raised, ret = None, None
    with C.LogCapture() as lc:
        try:
            ret = eval(expr, env_for(pg, values))
        except Exception as e:
            if is_timeout(e):
                raise
            raised = f'{type(e).__name__}: {str(e)[:120]}'
    route = short_name(expr)
    ctx.case(dict(cls=cls, route=route, values=values, expect=expect, raised=raised),
             (cls, route, repr(sorted(values.items(), key=str))) if expect == 'raise' else None)
    ctx.count(f'{expect}:{cls}')
    if raised:
        ctx.count(f'raised:{cls}:{raised.split(":")[0]}')
    if expect == 'raise' and raised is None:
        ctx.violation(f'not-rejected:{cls}:{route}', cls=cls, route=route, expr=expr, values=values, expect=expect, expected='an exception',
                      observed=f'returned {str(ret)[:160]}', logged=[m for _, m in lc.records][:2], reproducer=reproducer(expr, values))
    elif expect == 'ok' and raised is not None:
        ctx.violation(f'valid-rejected:{cls}:{route}', cls=cls, route=route, expr=expr, values=values, expect=expect, expected='a result',
                      observed=raised, reproducer=reproducer(expr, values))


# ----------------------------------------------------------------------------------------------- NaN clause
STIFF_STATS = ['c.tree_height.mean', 'c.tree_height.var', 'c.tree_height.m2', 'c.total_branch_length.mean', 'c.total_branch_length.var',
               'c.sfs.mean.data', 'c.fsfs.mean.data', 'c.sfs.var.data', 'c.tree_height.cdf(t)', 'c.tree_height.cdf([t, 10 * t])',
               'c.tree_height.pdf(t)', 'c.tree_height.t_max', 'c.moment(2, (RW.TreeHeightReward(), RW.TotalBranchLengthReward()))',
               'c.tree_height.accumulate(1, [t, 100 * t])', 'c.moment(1, end_time=t)', 'c.tree_height.demes[p0].mean',
               'c.sfs.cov.data', 'c.sfs.corr.data', 'c.tree_height.quantile(0.5)', 'c.tree_height.std', 'c.moment(3)',
               'c.sfs.get_mutation_config([1] + [0] * (c.lineage_config.n - 2), theta)']


def stat_name(st):
    return st.replace('c.', '', 1).split('(')[0].replace('.data', '')


def log10u(rng, lo, hi):
    return 10.0 ** rng.uniform(lo, hi)


def rand_stiff(rng):
    D = rng.choice([1, 1, 2])
    n = rng.randint(2, 4) if D == 1 else rng.randint(2, 3)
    names = ['a', 'b'][:D]
    kind = rng.choice(['kingman', 'kingman', 'beta', 'beta', 'dirac'])
    if kind == 'kingman':
        model = ('kingman',)
    elif kind == 'beta':
        a = rng.choice([1.0, 1 + 1e-12, 1 + 1e-9, 1.000001, 1.001, 1.5, 1.999, 1.999999, 2 - 1e-9, 2 - 1e-12, 2.0])
        model = ('beta', a, rng.random() < 0.6)
    else:
        model = ('dirac', rng.choice([1e-12, 1e-6, 0.01, 0.5, 0.99, 1 - 1e-9]), rng.choice([0.0, 1e-9, 1.0, 1e9, 1e15]), rng.random() < 0.6)
    ne = rng.choice([1, 1, 2, 3])
    eps, t = [], 0.0
    for e in range(ne):
        sizes = {p: log10u(rng, -12, 15) if rng.random() < 0.8 else pos(rng) for p in names}
        mig = {(p, q): (0.0 if (rng.random() < 0.15 and e < ne - 1) else log10u(rng, -15, 12) if rng.random() < 0.7 else pos(rng))
               for p in names for q in names if p != q}
        eps.append(dict(start=t, sizes=sizes, mig=mig))
        t += log10u(rng, -6, 6)
    vec = [n] if D == 1 else rng.choice([[n, 0], [n - 1, 1], [1, n - 1]])
    cfg = dict(n=dict(zip(names, vec)), model=model, epochs=eps)
    if rng.random() < 0.2:
        cfg['end_time'] = log10u(rng, -9, 12)
    if rng.random() < 0.15:
        cfg['regularize'] = False
    stats = rng.sample(STIFF_STATS, 6)
    return dict(cfg=cfg, stats=stats, t=log10u(rng, -9, 9), theta=log10u(rng, -6, 6))


def make_stiff(pg, cfg):
    names = list(cfg['n'])
    ps = {p: {e['start']: e['sizes'][p] for e in cfg['epochs']} for p in names}
    mg = {k: {e['start']: e['mig'][k] for e in cfg['epochs']} for k in cfg['epochs'][0]['mig']} or None
    m = cfg['model']
    model = pg.StandardCoalescent() if m[0] == 'kingman' else pg.BetaCoalescent(alpha=m[1], scale_time=m[2]) if m[0] == 'beta' \
        else pg.DiracCoalescent(psi=m[1], c=m[2], scale_time=m[3])
    kw = dict(n=dict(cfg['n']), model=model, demography=pg.Demography(pop_sizes=ps, migration_rates=mg), parallelize=False, pbar=False)
    if cfg.get('end_time') is not None:
        kw['end_time'] = cfg['end_time']
    if cfg.get('regularize') is not None:
        kw['regularize'] = cfg['regularize']
    return pg.Coalescent(**kw)


def eval_stiff(ctx, pg, sc):
    import phasegen.rewards as RW
    cfg = sc['cfg']
    for st in sc['stats']:
        raised, val = None, None
        with C.LogCapture() as lc:
            try:
                c = make_stiff(pg, cfg)
                val = eval(st, dict(c=c, RW=RW, np=np, t=sc['t'], theta=sc['theta'], p0=list(cfg['n'])[0]))
            except Exception as e:
                if is_timeout(e):
                    raise
                raised = f'{type(e).__name__}: {str(e)[:100]}'
        arr = None if raised else np.asarray(val)
        # a complex value (square root of a negative variance) is not a real number either
        # the property speaks about not-a-number results; infinities (a correlation with a vanishing variance) and the
        # complex square root of a negative variance in the unregularised stiff regime are counted, not reported
        has_nan = raised is None and bool(np.any(np.isnan(np.real(arr).astype(float)))) if raised is None else False
        finite = raised is None and not np.iscomplexobj(arr) and bool(np.all(np.isfinite(arr.astype(float))))
        outcome = ('raised' if raised else 'logged' if lc.records else 'finite' if finite else
                   'SILENT-NONFINITE' if has_nan else 'silent-inf-or-complex')
        ctx.case(dict(cfg=cfg, stat=st, outcome=outcome), (repr(cfg), st))
        ctx.count(f'stiff:{outcome}'); ctx.count(f'stiff:{cfg["model"][0]}')
        if outcome == 'SILENT-NONFINITE':
            kind = 'silent-complex' if np.iscomplexobj(arr) else 'silent-nonfinite'
            ctx.violation(f'{kind}:{stat_name(st)}', family='stiff', scenario=dict(sc, stats=[st]), stat=st,
                          expected='finite value, an exception, or a phasegen log record',
                          observed=str(arr.tolist())[:300],
                          reproducer=f'cfg = {cfg!r}; t = {sc["t"]!r}; theta = {sc["theta"]!r}; c = props.c20.make_stiff(pg, cfg); {st}')


# ----------------------------------------------------------------------------------------------- driver
def one(ctx, item):
    pg = C.import_phasegen()
    kind = item[0]
    if kind == 'stiff':
        rng = random.Random(f'{ctx.seed}-c20-{item}')
        eval_stiff(ctx, pg, rand_stiff(rng))
        return
    _, lo, hi, reps = item
    T = table()
    for idx in range(lo, hi):
        ent = T[idx]
        rng = random.Random(f'{ctx.seed}-c20-{idx}-{reps}')
        for r in range(reps):
            eval_request(ctx, pg, ent['cls'], ent['expr'], ent['inv'](rng), 'raise')
        for r in range(max(1, reps - 1)):
            eval_request(ctx, pg, ent['cls'], ent.get('expr_valid', ent['expr']), ent['val'](rng), 'ok')


def run(ctx):
    import check
    q = ctx.quick
    T = table()
    reps = 3 if q else 20
    step = 6
    items = [('tab', i, min(i + step, len(T)), reps) for i in range(0, len(T), step)]
    items += [('stiff', i) for i in range(120 if q else 4000)]
    ctx.rng.shuffle(items)
    check.pmap(ctx, 'props.c20', 'one', items, case_timeout=300 if q else 900)

    # correspondence with the Lean bookkeeping model (driver command), see props/corr_models.py
    check.pmap(ctx, 'props.corr_models', 'one_validate', list(range(16 if q else 160)), case_timeout=300)
    # ... and of the call layer of moment / accumulate (PGModel/Api.lean, driver command `api`): reward-tuple length, order 0, times
    check.pmap(ctx, 'props.corr_models', 'one_api', list(range(100, 116 if q else 220)), case_timeout=300)


def replay(ctx, payload):
    pg = C.import_phasegen()
    if payload.get('family') == 'stiff' or payload['signature'].startswith('silent-'):
        eval_stiff(ctx, pg, payload['scenario'])
    else:
        eval_request(ctx, pg, payload['cls'], payload['expr'], payload['values'], payload['expect'])
