"""
C18 — serialisation round-trips preserve configuration and results.

Direct oracle on the real code: an object is written to JSON (string or file) and read back, possibly several times
in a row and with computations in between; the loaded object must carry the same configuration and return the
same statistics as the original (also the statistics that were NOT cached before saving), and saving must leave
the original untouched. Objects: `Coalescent` (all models, one or two loci, 1-3 demes, multi-epoch discrete
demographies given as dictionaries or as event lists, optional start/end time), `SFS2` (random symmetric and
asymmetric matrices and the result of `coal.sfs.cov`), `Inference` (before and after a tiny run; callables via dill).
Trajectory callables of discretised events are explicitly outside the property and are not generated.
"""
import os
for _v in ('OMP_NUM_THREADS', 'OPENBLAS_NUM_THREADS', 'MKL_NUM_THREADS'):
    os.environ.setdefault(_v, '1')
import random, math, copy, tempfile
import numpy as np
import pgcommon as C
import conv, gen
from props import c17 as Q      # query evaluation and configuration generator (own helper module)

META = dict(
    level='proof',
    rule='a case = one comparison (configuration field or statistic) of one save/load scenario: random configuration '
         '(Kingman/Beta/Dirac, one or two loci, 1-3 demes, 1-4 epochs, dict- or event-built demography, optional '
         'start/end time, regularize flag), a random subset of statistics computed before saving, string or file route, '
         '1-3 cycles with computations in between; SFS2 matrices; Inference before/after a run. non-trivial = a '
         'statistic that was not cached before saving, or a configuration with >= 2 epochs / 2 loci / a run Inference',
    trusted_base=['jsonpickle / dill codec law decode(encode(x)) = x is what is exercised, not assumed'],
    assumptions=['statistics are compared to 1e-12 relative (1e-15 absolute); configuration fields exactly'],
)

REL, ABS = 1e-12, 1e-15


def same(a, b):
    if a[0] != b[0]:
        return False
    if a[0] == 'exc':
        return a[1] == b[1]
    x, y = a[1], b[1]
    if x.shape != y.shape:
        return False
    for u, v in zip(x.ravel(), y.ravel()):
        if math.isnan(u) and math.isnan(v):
            continue
        if not C.close(u, v, REL, ABS):
            return False
    return True


def is_timeout(e):
    return type(e).__name__ == 'TimeoutCase'


# ----------------------------------------------------------------------------------------------- construction
def make_demography_events(pg, cfg):
    """the same piecewise-constant demography as conv.make_demography, assembled from event objects"""
    names = conv.cfg_names(cfg)
    ev = []
    for i, e in enumerate(cfg['epochs']):
        t = e['start']
        if i % 2 == 0:
            ev.append(pg.PopSizeChanges({p: {t: e['sizes'][p]} for p in names}))
        else:
            for p in names:
                ev.append(pg.PopSizeChange(pop=p, time=t, size=e['sizes'][p]))
        if len(names) > 1:
            rates = {(a, b): {t: e['mig'].get((a, b), 0)} for a in names for b in names if a != b}
            if i % 2 == 0:
                ev.append(pg.MigrationRateChanges(rates))
            else:
                for (a, b), r in rates.items():
                    ev.append(pg.MigrationRateChange(source=a, dest=b, time=t, rate=r[t]))
    return pg.Demography(events=ev)


def make(pg, cfg, style='dicts'):
    if style == 'events':
        return conv.make_coalescent(pg, cfg, demography=make_demography_events(pg, cfg))
    return conv.make_coalescent(pg, cfg)


def tmp_path(tag):
    fd, path = tempfile.mkstemp(prefix=f'c18-{tag}-', suffix='.json', dir='/tmp')
    os.close(fd)
    return path


def roundtrip(cls, obj, route, tag='x'):
    if route == 'json':
        return cls.from_json(obj.to_json())
    path = tmp_path(tag)
    try:
        obj.to_file(path)
        return cls.from_file(path)
    finally:
        try:
            os.unlink(path)
        except OSError:
            pass


# ----------------------------------------------------------------------------------------------- Coalescent
def epochs_table(d, limit=40):
    out = []
    for i, e in enumerate(d.epochs):
        out.append((float(e.start_time), float(e.end_time), sorted((str(k), float(v)) for k, v in e.pop_sizes.items()),
                    sorted((str(k), float(v)) for k, v in e.migration_rates.items())))
        if i >= limit:
            break
    return out


def config_fields(c):
    """name -> value, AttributeError and friends recorded as values"""
    def g(f):
        try:
            return f()
        except Exception as e:
            if is_timeout(e):
                raise
            return f'<{type(e).__name__}>'
    return {
        'lineage_dict': g(lambda: sorted((str(k), int(v)) for k, v in c.lineage_config.lineage_dict.items())),
        'pop_names': g(lambda: [str(p) for p in c.lineage_config.pop_names]),
        'lineage_n': g(lambda: int(c.lineage_config.n)),
        'locus.n': g(lambda: int(c.locus_config.n)),
        'locus.n_unlinked': g(lambda: int(c.locus_config.n_unlinked)),
        'locus.recombination_rate': g(lambda: float(c.locus_config.recombination_rate)),
        'model.type': g(lambda: type(c.model).__name__),
        'model.params': g(lambda: sorted((k, v) for k, v in c.model.__dict__.items() if isinstance(v, (int, float, bool)))),
        'epochs': g(lambda: epochs_table(c.demography)),
        'demography.pop_names': g(lambda: list(c.demography.pop_names)),
        'start_time': g(lambda: c.start_time),
        'end_time': g(lambda: c.end_time),
        'regularize': g(lambda: c.regularize),
        'parallelize': g(lambda: c.parallelize),
        'pbar': g(lambda: c.pbar),
    }


def snap_value(v):
    if isinstance(v, (bool, int, float, str, type(None))):
        return v
    if isinstance(v, np.generic):
        return v.item()
    if isinstance(v, np.ndarray):
        return ('nd', list(v.shape), v.tolist())
    if type(v).__name__ in ('SFS', 'SFS2'):
        return ('sfs', np.asarray(v.data).tolist())
    if isinstance(v, (list, tuple)) and all(isinstance(x, (bool, int, float, str)) for x in v):
        return list(v)
    return ('obj', type(v).__name__, id(v))


def epoch_key(e):
    return (float(e.start_time), float(e.end_time), sorted((str(k), float(v)) for k, v in e.pop_sizes.items()),
            sorted((str(k), float(v)) for k, v in e.migration_rates.items()))


def snapshot(c):
    """everything observable of the original that saving could disturb"""
    snap = {'keys': sorted(c.__dict__), 'config': config_fields(c)}
    for name in ('tree_height', 'total_branch_length', 'sfs', 'fsfs'):
        if name in c.__dict__:
            d = c.__dict__[name]
            snap[name] = {k: snap_value(v) for k, v in sorted(d.__dict__.items())}
            snap[name]['<id>'] = id(d)
    for name in ('lineage_counting_state_space', 'block_counting_state_space'):
        if name in c.__dict__:
            ss = c.__dict__[name]
            snap[name] = dict(keys=sorted(ss.__dict__), cache=ss.cache, n_cached=len(ss._cache),
                              cached=sorted(repr(epoch_key(e)) for e in ss._cache), epoch=epoch_key(ss.epoch),
                              S=ss.__dict__['S'].tolist() if 'S' in ss.__dict__ else None,
                              n_states=len(ss.__dict__['states']) if 'states' in ss.__dict__ else None, id=id(ss))
    snap['n_events'] = len(c.demography.events)
    return snap


def snap_diff(a, b, path=''):
    if isinstance(a, dict) and isinstance(b, dict):
        out = []
        for k in sorted(set(a) | set(b), key=str):
            if k not in a or k not in b:
                out.append(f'{path}/{k}: {"missing before" if k not in a else "missing after"}')
            else:
                out += snap_diff(a[k], b[k], f'{path}/{k}')
        return out
    if a != b and not (isinstance(a, float) and isinstance(b, float) and math.isnan(a) and math.isnan(b)):
        return [f'{path}: {str(a)[:80]} -> {str(b)[:80]}']
    return []


def stat_list(cfg, rng, quick):
    names = conv.cfg_names(cfg)
    ts = sorted({Q.rand_time(rng, cfg) for _ in range(3)})
    st = [('th.mean',), ('th.var',), ('th.cdfs', ts), ('tbl.mean',)]
    if cfg.get('loci', 1) == 1:
        st += [('sfs.mean',)]
        if rng.random() < 0.5:
            st += [('fsfs.mean',)]
        if rng.random() < 0.4:
            st += [('th.deme.mean', rng.choice(names))]
        if rng.random() < 0.3:
            st += [('th.quantile', rng.choice([0.25, 0.5, 0.9]))]
        if rng.random() < 0.3 and Q.cov_ok(cfg, True):
            st += [('sfs.cov',)]
        if len(cfg['epochs']) == 1 and rng.random() < 0.5:
            n = sum(cfg['n'].values())
            st += [('mutcfg', Q.rand_config_vec(rng, n - 1, rng.randint(0, 2)), rng.choice([0.5, 1.0]))]
    else:
        st += [('th.loci.mean', 0), ('th.loci.mean', 1), ('tbl.loci.mean', rng.randrange(2)), ('th.loci.cov',)]
    if rng.random() < 0.5:
        st += [('moment', 2, [('th',), ('tbl',)], rng.choice([None, Q.rand_time(rng, cfg)]), True)]
    return st


def rand_coal_scenario(rng, quick):
    u = rng.random()
    loci = 2 if u < 0.3 else 1
    cfg = Q.rand_cfg17(rng, quick, single_epoch=rng.random() < 0.2, loci=loci)
    if rng.random() < 0.25:
        cfg['regularize'] = False
    stats = stat_list(cfg, rng, quick)
    v = rng.random()
    if v < 0.3:
        pre = []
    elif v < 0.55:
        pre = list(range(len(stats)))
    else:
        pre = [i for i in range(len(stats)) if rng.random() < 0.5]
    cycles = rng.choice([1, 1, 2, 3])
    between = [[i for i in range(len(stats)) if rng.random() < 0.3] for _ in range(cycles)]
    return dict(kind='coal', cfg=cfg, style=rng.choice(['dicts', 'events']), stats=stats, pre=pre,
                route=rng.choice(['json', 'file']), cycles=cycles, between=between)


def eval_coal(ctx, pg, sc):
    cfg, stats = sc['cfg'], [list(s) for s in sc['stats']]
    pre = set(sc['pre'])
    detail = dict(scenario=sc)
    tag = f'{os.getpid()}'
    nt = len(cfg['epochs']) >= 2 or cfg.get('loci', 1) == 2
    key = gen.cfg_key(cfg)
    ctx.count(f'coal:{cfg["model"][0]}:loci{cfg.get("loci", 1)}'); ctx.count(f'coal:demes{len(cfg["n"])}')
    ctx.count(f'coal:epochs{len(cfg["epochs"])}'); ctx.count(f'coal:{sc["route"]}:{sc["style"]}:cycles{sc["cycles"]}')
    ctx.count('coal:nothing-cached-before-saving' if not pre else 'coal:some-cached-before-saving')

    c = make(pg, cfg, sc['style'])
    pre_vals = {i: Q.run_query(pg, c, stats[i]) for i in sorted(pre)}
    snap0 = snapshot(c)
    x = c
    for cyc in range(sc['cycles']):
        try:
            y = roundtrip(pg.Coalescent, x, sc['route'], tag)
        except Exception as e:
            if is_timeout(e):
                raise
            ctx.case(dict(scenario=sc, cycle=cyc, roundtrip=f'raised {type(e).__name__}'), None)
            ctx.violation(f'coal:roundtrip-raises:{type(e).__name__}', cycle=cyc, expected='an equal object',
                          observed=f'{type(e).__name__}: {str(e)[:300]}', **detail)
            return
        if cyc == 0:
            d = snap_diff(snap0, snapshot(c))
            ctx.case(dict(scenario=sc, check='original-untouched', differences=d[:3]), (key, 'orig') if nt else None)
            if d:
                ctx.violation('coal:original-altered', expected='saving leaves the original object as it was',
                              observed=d[:6], **detail)
                return
        if not isinstance(y, pg.Coalescent):
            ctx.violation('coal:type', cycle=cyc, expected='Coalescent', observed=type(y).__name__, **detail)
            return
        fa, fb = config_fields(c), config_fields(y)
        for f in fa:
            ok = fa[f] == fb[f]
            ctx.case(dict(scenario=sc, cycle=cyc, field=f, original=fa[f], loaded=fb[f]), (key, cyc, f) if nt else None)
            if not ok:
                ctx.violation(f'coal:config:{f}', cycle=cyc, field=f, expected=fa[f], observed=fb[f], **detail)
                return
        try:
            m_ok = bool(c.model == y.model) and bool(y.model == c.model)
        except Exception as e:
            if is_timeout(e):
                raise
            m_ok = False
        if not m_ok:
            ctx.violation('coal:config:model.__eq__', cycle=cyc, expected='models compare equal', observed='not equal', **detail)
            return
        for i in sc['between'][cyc]:
            Q.run_query(pg, y, stats[i])            # computations on the intermediate object before it is saved again
        x = y
    # statistics: the loaded object against the original (values cached before saving AND values computed afterwards)
    for i, q in enumerate(stats):
        ref = Q.run_query(pg, c, q)
        if i in pre_vals and not same(ref, pre_vals[i]):
            ctx.violation(f'coal:original-result-changed:{q[0]}', query=q, expected=Q.show(pre_vals[i]), observed=Q.show(ref), **detail)
            return
        fresh = Q.run_query(pg, make(pg, cfg, sc['style']), q)
        if not same(ref, fresh):
            ctx.violation(f'coal:original-result-changed:{q[0]}', query=q, expected=Q.show(fresh), observed=Q.show(ref),
                          note='original after saving against a fresh object', **detail)
            return
        got = Q.run_query(pg, x, q)
        ctx.case(dict(scenario=sc, query=q, original=Q.show(ref), loaded=Q.show(got)),
                 (key, 'stat', i, sc['cycles']) if (i not in pre or nt) else None)
        ctx.count('coal:stat-not-cached-before-saving' if i not in pre else 'coal:stat-cached-before-saving')
        if ref[0] == 'exc':
            ctx.count(f'coal:stat-raises:{ref[1]}')
        if not same(ref, got):
            ctx.violation(f'coal:stat:{q[0]}', query=q, cached_before_saving=i in pre, expected=Q.show(ref),
                          observed=Q.show(got), tolerance=dict(rel=REL, abs=ABS), **detail)
            return


# ----------------------------------------------------------------------------------------------- Coalescent, across processes
def eval_xproc(ctx, pg, sc):
    """the file is written by THIS interpreter process and read back by ANOTHER one (own hash salt, nothing in memory): the usual
    way a saved object is used.  The child (props/c18_reader.py) loads the file and answers every query; compared with the
    original object here."""
    import subprocess, sys, json
    cfg, stats = sc['cfg'], [list(s) for s in sc['stats']]
    pre = set(sc['pre'])
    c = make(pg, cfg, sc['style'])
    for i in sorted(pre):
        Q.run_query(pg, c, stats[i])
    path, qpath = tmp_path(f'{os.getpid()}-x'), tmp_path(f'{os.getpid()}-q')
    try:
        c.to_file(path)
        with open(qpath, 'w') as fh:
            json.dump(C.jsonable(stats), fh)
        env = dict(os.environ, PYTHONHASHSEED=str(sc['hashseed']))
        reader = os.path.join(os.path.dirname(os.path.abspath(__file__)), 'c18_reader.py')
        try:
            proc = subprocess.run([sys.executable, reader, path, qpath], env=env, capture_output=True, text=True, timeout=200)
        except subprocess.TimeoutExpired:
            ctx.skipped += 1; ctx.count('xproc:reader-timeout')       # an overloaded machine, not a verdict
            return
    finally:
        for f in (path, qpath):
            try:
                os.unlink(f)
            except OSError:
                pass
    line = next((l for l in proc.stdout.splitlines() if l.startswith('RESULT ')), None)
    ctx.count('xproc:scenarios'); ctx.count(f'xproc:{cfg["model"][0]}:loci{cfg.get("loci", 1)}:epochs{len(cfg["epochs"])}')
    if line is None:
        ctx.corr_break('xproc-reader', scenario=sc, returncode=proc.returncode, stderr=proc.stderr[-600:])
        return
    res = json.loads(line[7:])
    if 'load_error' in res:
        ctx.violation('xproc:load-raises', expected='an equal object', observed=res['load_error'], scenario=sc)
        return
    nt = len(cfg['epochs']) >= 2 or cfg.get('loci', 1) == 2
    for i, (q, r) in enumerate(zip(stats, res['results'])):
        ref = Q.run_query(pg, c, q)
        got = ('exc', r[1]) if r[0] == 'exc' else ('ok', np.array([float.fromhex(x) for x in r[2]], dtype=float).reshape(r[1]))
        ctx.case(dict(scenario=sc, query=q, original=Q.show(ref), loaded_in_other_process=Q.show(got)),
                 (gen.cfg_key(cfg), 'xproc', i) if (i not in pre or nt) else None)
        ctx.count('xproc:stat-not-cached-before-saving' if i not in pre else 'xproc:stat-cached-before-saving')
        if not same(ref, got):
            ctx.violation(f'xproc:stat:{q[0]}', query=q, cached_before_saving=i in pre, expected=Q.show(ref), observed=Q.show(got),
                          note='saved by one interpreter process, loaded by another (different PYTHONHASHSEED)', scenario=sc)
            return


# ----------------------------------------------------------------------------------------------- SFS2
def rand_sfs2_scenario(rng, quick):
    kind = rng.choice(['sym-float', 'asym-float', 'asym-float', 'asym-int', 'cov', 'special'])
    sc = dict(kind='sfs2', sub=kind, route=rng.choice(['json', 'file']), cycles=rng.choice([1, 1, 2, 3]))
    n = rng.randint(2, 8)
    if kind == 'cov':
        sc['cfg'] = Q.rand_cfg17(rng, True, single_epoch=rng.random() < 0.5)
        if not Q.cov_ok(sc['cfg'], True):
            sc['cfg']['n'] = {list(sc['cfg']['n'])[0]: 3, **{p: 0 for p in list(sc['cfg']['n'])[1:]}}
        sc['which'] = rng.choice(['sfs.cov', 'sfs.cov', 'fsfs.cov', 'sfs.corr'])
    elif kind == 'asym-int':
        sc['data'] = [[rng.randint(-5, 50) for _ in range(n)] for _ in range(n)]
    elif kind == 'special':
        vals = [0.0, -0.0, 1e-310, 1e300, -1e-17, 0.1, 1 / 3, float('nan'), float('inf')]
        sc['data'] = [[rng.choice(vals) for _ in range(n)] for _ in range(n)]
    else:
        m = [[rng.uniform(-1, 1) * 10 ** rng.randint(-8, 4) for _ in range(n)] for _ in range(n)]
        if kind == 'sym-float':
            m = [[m[min(i, j)][max(i, j)] for j in range(n)] for i in range(n)]
        sc['data'] = m
    return sc


def eval_sfs2(ctx, pg, sc):
    detail = dict(scenario=sc)
    if sc['sub'] == 'cov':
        c = conv.make_coalescent(pg, sc['cfg'])
        s = {'sfs.cov': lambda: c.sfs.cov, 'fsfs.cov': lambda: c.fsfs.cov, 'sfs.corr': lambda: c.sfs.corr}[sc['which']]()
    else:
        s = pg.SFS2(np.array(sc['data']))
    ctx.count(f'sfs2:{sc["sub"]}:{sc["route"]}:cycles{sc["cycles"]}')
    before = np.array(s.data, copy=True)
    x = s
    for cyc in range(sc['cycles']):
        try:
            if sc['route'] == 'json':
                y = pg.SFS2.from_json(x.to_json())
            else:
                path = tmp_path(f'sfs2-{os.getpid()}')
                try:
                    x.to_file(path)
                    y = pg.SFS2.from_file(path)
                finally:
                    if os.path.exists(path):
                        os.unlink(path)
        except Exception as e:
            if is_timeout(e):
                raise
            ctx.violation(f'sfs2:roundtrip-raises:{type(e).__name__}', cycle=cyc, expected='an equal SFS2',
                          observed=f'{type(e).__name__}: {str(e)[:300]}', **detail)
            return
        ok_orig = isinstance(s.data, np.ndarray) and s.data.shape == before.shape and np.array_equal(s.data, before, equal_nan=True)
        ok = (isinstance(y, pg.SFS2) and isinstance(y.data, np.ndarray) and y.data.shape == before.shape
              and np.array_equal(np.asarray(y.data, dtype=float), np.asarray(before, dtype=float), equal_nan=True)
              and np.array_equal(np.signbit(np.asarray(y.data, dtype=float)), np.signbit(np.asarray(before, dtype=float)))
              and y.n == s.n and y.w == s.w)
        asym = not np.array_equal(before, before.T, equal_nan=True)
        ctx.case(dict(scenario=dict(sc, data=None), cycle=cyc, shape=list(before.shape), asymmetric=bool(asym)),
                 ('sfs2', sc['sub'], repr(before.tolist()), cyc) if before.shape[0] >= 3 else None)
        if not ok_orig:
            ctx.violation('sfs2:original-altered', cycle=cyc, expected=before.tolist(),
                          observed=np.asarray(s.data).tolist() if not isinstance(s.data, list) else s.data, **detail)
            return
        if not ok:
            ctx.violation(f'sfs2:data:{"asymmetric" if asym else "symmetric"}', cycle=cyc, expected=before.tolist(),
                          observed=np.asarray(getattr(y, 'data', None)).tolist(), **detail)
            return
        x = y


# ----------------------------------------------------------------------------------------------- Inference
def coal_one_size(N):
    """module-level callable (dill pickles it by reference)"""
    import phasegen as pg
    return pg.Coalescent(n=3, demography=pg.Demography(pop_sizes={'pop_0': N}), parallelize=False, pbar=False)


def loss_sq_sfs(coal, obs):
    return float(((np.asarray(coal.sfs.mean.data) - np.asarray(obs)) ** 2).sum())


def resample_scale(obs, rng):
    return np.asarray(obs) * rng.uniform(0.9, 1.1)


def build_inference(pg, sc):
    """returns (inference, params of the generating model)"""
    spec = sc['spec']
    n = spec['n']
    if spec['problem'] == 'size':
        true = dict(N=spec['true'][0])
        bounds = dict(N=(0.1, 10.0))
        if spec['defn'] == 'def':
            coal = coal_one_size
            n = 3
        else:
            coal = lambda N, n=n: pg.Coalescent(n=n, demography=pg.Demography(pop_sizes={'pop_0': N}), parallelize=False, pbar=False)
    elif spec['problem'] == 'alpha':
        # a parameter that is part of the STATE SPACE's identity (the model), not of the demography
        true = dict(alpha=spec['true'][0])
        bounds = dict(alpha=(1.05, 1.95))
        coal = lambda alpha, n=max(3, n): pg.Coalescent(n=n, model=pg.BetaCoalescent(alpha=alpha), parallelize=False, pbar=False)
    elif spec['problem'] == 'epoch':
        true = dict(N1=spec['true'][0], t=spec['true'][1])
        bounds = dict(N1=(0.1, 10.0), t=(0.05, 3.0))
        coal = lambda N1, t, n=n: pg.Coalescent(n=n, demography=pg.Demography(pop_sizes={'pop_0': {0: 1.0, t: N1}}),
                                                parallelize=False, pbar=False)
    else:
        true = dict(N=spec['true'][0], m=spec['true'][1])
        bounds = dict(N=(0.1, 10.0), m=(0.01, 5.0))
        coal = lambda N, m: pg.Coalescent(n={'a': 2, 'b': 1}, demography=pg.Demography(
            pop_sizes={'a': N, 'b': 1.0}, migration_rates={('a', 'b'): m, ('b', 'a'): 0.5}), parallelize=False, pbar=False)
    obs = np.array(coal(**true).sfs.mean.data)
    if spec['loss'] == 'sq':
        loss = loss_sq_sfs if spec['defn'] == 'def' else (lambda c, o: float(((c.sfs.mean.data - o) ** 2).sum()))
    elif spec['loss'] == 'l2':
        loss = lambda c, o: float(pg.L2Norm().compute(c.sfs.mean.data, o))
    else:
        loss = lambda c, o: float(pg.PoissonLikelihood().compute(observed=o[1:-1], modelled=c.sfs.mean.data[1:-1]))
    x0 = {k: spec['x0'][i] for i, k in enumerate(bounds)}
    inf = pg.Inference(bounds=bounds, x0=x0 if spec['give_x0'] else None, coal=coal, loss=loss, observation=obs,
                       resample=resample_scale if spec['defn'] == 'def' else (lambda o, rng: o * rng.uniform(0.9, 1.1)),
                       n_runs=spec['n_runs'], parallelize=False, pbar=False, seed=spec['seed'], cache=spec['cache'],
                       opts=dict(maxiter=spec['maxiter']))
    return inf, true


def rand_inference_scenario(rng, quick):
    problem = rng.choice(['size', 'size', 'epoch', 'mig'])
    spec = dict(problem=problem, n=rng.randint(2, 4), true=[gen.dyadic(rng, -1, 2), rng.choice([0.25, 0.5, 1.0])],
                x0=[rng.choice([0.5, 1.0, 3.0]), rng.choice([0.3, 0.75, 2.0])], give_x0=rng.random() < 0.7,
                loss=rng.choice(['sq', 'l2', 'poisson']), defn=rng.choice(['lambda', 'def']) if problem == 'size' else 'lambda',
                n_runs=rng.randint(1, 3), seed=rng.choice([None, rng.randint(0, 10 ** 6), rng.randint(0, 10 ** 6)]),
                cache=rng.random() < 0.7, maxiter=rng.randint(2, 5))
    if problem == 'size' and spec['defn'] == 'lambda' and spec['maxiter'] % 2 == 0:
        spec.update(problem='alpha', true=[[1.3, 1.5, 1.7][spec['maxiter'] % 3], 0.5], x0=[[1.2, 1.6, 1.8][spec['n_runs'] % 3], 0.75])
    return dict(kind='inf', spec=spec, run=rng.random() < 0.7, route=rng.choice(['json', 'file']),
                cycles=rng.choice([1, 1, 2]), n_boot=rng.choice([0, 0, 1, 3]))


def inference_fields(inf):
    def g(f):
        try:
            return f()
        except Exception as e:
            if is_timeout(e):
                raise
            return f'<{type(e).__name__}: {str(e)[:80]}>'
    arr = lambda a: None if a is None else np.asarray(a, dtype=float).tolist()
    return {
        'bounds': g(lambda: sorted((k, tuple(v)) for k, v in inf.bounds.items())),
        'bounds.type': g(lambda: sorted((k, type(v).__name__) for k, v in inf.bounds.items())),
        'x0': g(lambda: list(inf.x0.items())),
        '_x0': g(lambda: None if inf._x0 is None else list(inf._x0.items())),
        'seed': g(lambda: inf.seed),
        'n_runs': g(lambda: inf.n_runs), 'n_bootstraps': g(lambda: inf.n_bootstraps), 'cache': g(lambda: inf.cache),
        'do_bootstrap': g(lambda: inf.do_bootstrap), 'parallelize': g(lambda: inf.parallelize), 'pbar': g(lambda: inf.pbar),
        'opts': g(lambda: sorted(inf.opts.items())),
        'observation': g(lambda: arr(inf.observation)),
        'params_inferred': g(lambda: list(inf.params_inferred.items())),
        'loss_inferred': g(lambda: inf.loss_inferred),
        'loss_runs': g(lambda: arr(inf.loss_runs)),
        'bootstraps.columns': g(lambda: list(inf.bootstraps.columns)),
        'bootstraps.values': g(lambda: np.asarray(inf.bootstraps.values, dtype=float).tolist()),
        'result.x': g(lambda: None if inf.result is None else arr(inf.result.x)),
        'result.fun': g(lambda: None if inf.result is None else float(inf.result.fun)),
        'rng.state': g(lambda: repr(inf._rng.bit_generator.state)),
        'callables': g(lambda: [callable(inf.coal), callable(inf.loss), callable(inf.resample)]),
    }


def eval_inference(ctx, pg, sc):
    detail = dict(scenario=sc)
    spec = sc['spec']
    inf, true = build_inference(pg, sc)
    ctx.count(f'inf:{spec["problem"]}:{spec["loss"]}:{spec["defn"]}'); ctx.count(f'inf:{"run" if sc["run"] else "not-run"}:{sc["route"]}:cycles{sc["cycles"]}')
    if sc['run']:
        with C.LogCapture():
            inf.run()
        for b in range(sc['n_boot']):
            inf.add_bootstrap({k: float(v) * (1 + 0.01 * (b + 1)) for k, v in inf.params_inferred.items()})
    f0 = inference_fields(inf)
    keys0 = sorted(inf.__dict__)
    x = inf
    for cyc in range(sc['cycles']):
        try:
            y = roundtrip(pg.Inference, x, sc['route'], f'inf-{os.getpid()}')
        except Exception as e:
            if is_timeout(e):
                raise
            ctx.case(dict(scenario=sc, cycle=cyc, roundtrip=f'raised {type(e).__name__}'), None)
            sig = f'inf:roundtrip-raises:cycle{min(cyc, 1)}:{"run" if sc["run"] else "not-run"}:{type(e).__name__}'
            ctx.violation(sig, cycle=cyc, expected='an equal Inference object',
                          observed=f'{type(e).__name__}: {str(e)[:300]}', **detail)
            return
        if cyc == 0:
            f1 = inference_fields(inf)
            bad = [k for k in f0 if f0[k] != f1[k]] + (['__dict__ keys'] if sorted(inf.__dict__) != keys0 else [])
            ctx.case(dict(scenario=sc, check='original-untouched', changed=bad), ('inf', repr(spec), 'orig') if sc['run'] else None)
            if bad:
                ctx.violation('inf:original-altered', expected={k: f0.get(k) for k in bad}, observed={k: f1.get(k) for k in bad}, **detail)
                return
        fy = inference_fields(y)
        for k in f0:
            ctx.case(dict(scenario=sc, cycle=cyc, field=k, original=f0[k], loaded=fy[k]), ('inf', repr(spec), cyc, k) if sc['run'] else None)
            if f0[k] != fy[k]:
                ctx.violation(f'inf:field:{k}', cycle=cyc, field=k, expected=f0[k], observed=fy[k], **detail)
                return
        x = y
    # behaviour of the loaded object
    p = {k: (lo + hi) / 3 for k, (lo, hi) in inf.bounds.items()}
    probes = [('get_coal.th.mean', lambda o: float(o.get_coal(**p).tree_height.mean)),
              ('loss(get_coal(p))', lambda o: float(o.loss(o.get_coal(**p), o.observation)))]
    if sc['run']:
        probes += [('dist_inferred.th.mean', lambda o: float(o.dist_inferred.tree_height.mean)),
                   ('dist_inferred.th.var', lambda o: float(o.dist_inferred.tree_height.var)),
                   ('dist_inferred.sfs.mean', lambda o: np.asarray(o.dist_inferred.sfs.mean.data, dtype=float)),
                   ('loss(dist_inferred)', lambda o: float(o.loss(o.dist_inferred, o.observation)))]
    if spec['seed'] is not None:
        probes += [('resample', lambda o: np.asarray(copy.deepcopy(o).create_bootstrap().observation, dtype=float))]
    for name, f in probes:
        def ev(o):
            try:
                return ('ok', np.atleast_1d(np.asarray(f(o), dtype=float)))
            except Exception as e:
                if is_timeout(e):
                    raise
                return ('exc', type(e).__name__)
        a, b = ev(inf), ev(x)
        ctx.case(dict(scenario=sc, probe=name, original=Q.show(a), loaded=Q.show(b)), ('inf', repr(spec), name) if sc['run'] else None)
        if not same(a, b):
            ctx.violation(f'inf:behaviour:{name}', probe=name, expected=Q.show(a), observed=Q.show(b),
                          tolerance=dict(rel=REL, abs=ABS), **detail)
            return


# ----------------------------------------------------------------------------------------------- driver
def scenario_for(ctx, item):
    kind, i = item
    rng = random.Random(f'{ctx.seed}-c18-{item}')
    if kind == 'coal':
        return rand_coal_scenario(rng, ctx.quick)
    if kind == 'sfs2':
        return rand_sfs2_scenario(rng, ctx.quick)
    if kind == 'xproc':
        sc = rand_coal_scenario(rng, ctx.quick)
        if not sc['pre']:
            sc['pre'] = [0]                      # something is computed before saving: the state space is part of the file
        return dict(sc, kind='xproc', route='file', hashseed=rng.randint(1, 2 ** 31 - 1))
    return rand_inference_scenario(rng, ctx.quick)


def evaluate(ctx, pg, sc):
    if sc['kind'] == 'coal':
        eval_coal(ctx, pg, sc)
    elif sc['kind'] == 'sfs2':
        eval_sfs2(ctx, pg, sc)
    elif sc['kind'] == 'xproc':
        eval_xproc(ctx, pg, sc)
    else:
        eval_inference(ctx, pg, sc)


def one(ctx, item):
    pg = C.import_phasegen()
    evaluate(ctx, pg, scenario_for(ctx, tuple(item)))


def run(ctx):
    import check
    q = ctx.quick
    items = [('coal', i) for i in range(300 if q else 3000)] + [('sfs2', i) for i in range(80 if q else 600)] + \
            [('inf', i) for i in range(40 if q else 300)] + [('xproc', i) for i in range(24 if q else 120)]
    ctx.rng.shuffle(items)
    check.pmap(ctx, 'props.c18', 'one', items, case_timeout=240 if q else 900)
    # field-level correspondence with the Lean model of __getstate__/__setstate__ (PGModel/Serialize.lean, driver command `serial`)
    check.pmap(ctx, 'props.corr_models', 'one_serial', list(range(16 if q else 120)), case_timeout=600)


def replay(ctx, payload):
    pg = C.import_phasegen()
    sc = payload['scenario']
    if 'cfg' in sc:
        sc['cfg'] = conv.cfg_from_json(sc['cfg'])
    evaluate(ctx, pg, sc)
