"""
C01 — tree-height and total-branch-length moments equal those of the labelled coalescent.

Correspondence (L-full): the real moments against `accumulateModel` of the Lean model evaluated with the
fixed-point exponential on the model's own state space, rates, rewards, alpha and epoch table.
The model value is also the oracle of the failing-input search (the Lean theorems reduce it to the moment
of the labelled chain: lumping + lump_accum + codeFactors_eq_spec + topRight_scale).
"""
import random, math
from fractions import Fraction
import numpy as np
import pgcommon as C
import conv, gen

META = dict(
    level='proof',
    rule='random single-locus configurations (1-3 demes with unsorted names, Kingman/Beta/Dirac, 1-3 epochs with '
         'dyadic change times, sizes 2^[-3..3], optional end/start time); statistics: mean/var/m2/3rd moment of '
         'tree height and total branch length and their cross moment; non-trivial = >= 3 states and (>= 2 epochs or k >= 2)',
    trusted_base=['PT1/PT3: Van Loan moment formula and the CTMC description of the coalescent (textbook, modelled)',
                  'fixExp ~ exp to > 40 digits (driver selftest on every run)', 'scipy.linalg.expm / IEEE doubles'],
    assumptions=['tolerances of the statement: 1e-7 relative for means, 1e-6 of the raw-moment scale otherwise; '
                 'only the non-stiff regime (no PhaseGen warning logged) is compared'],
)

TH, TBL = ('th',), ('tbl',)


def stats_for(cfg, rng, quick):
    out = [('th.mean', [TH], False), ('tbl.mean', [TBL], False), ('th.var', [TH, TH], True), ('th.m2', [TH, TH], False),
           ('tbl.var', [TBL, TBL], True), ('cross.th.tbl', [TH, TBL], True)]
    if rng.random() < (0.3 if quick else 0.6):
        out.append(('th.m3c', [TH, TH, TH], True))
        out.append(('tbl.m3', [TBL, TBL, TBL], False))
    if not quick and rng.random() < 0.2:
        out.append(('th.m4', [TH, TH, TH, TH], False))
    if quick:
        # every case checks both means and two of the higher-order statistics
        rest = out[2:]
        rng.shuffle(rest)
        out = out[:2] + rest[:2]
    return out


def real_stat(pg, coal, name, rewards, center, end_time=None):
    rs = [conv.make_reward(pg, r) for r in rewards]
    kw = {}
    if end_time is not None:
        kw['end_time'] = end_time
    return float(coal.moment(k=len(rs), rewards=tuple(rs), center=center, permute=True, **kw))


def model_horizon(cfg, T):
    """The statement is about the moments of the process itself: with no end time given, the model integrates 64 times
    further than the horizon the real code chose for itself, so a horizon that stops short of absorption (without the
    warning that makes the case a skipped one) shows up as a difference instead of being inherited by the oracle."""
    return C.frac(T) * (64 if cfg.get('end_time') is None else 1)


def compare(ctx, cfg, coal, pg, T, dim_max, rng, label=''):
    drv = C.driver()
    k_states = conv.setup_model(drv, cfg, 'lc')
    n_ep = len(cfg['epochs'])
    for name, rewards, center in stats_for(cfg, rng, ctx.quick):
        k = len(rewards)
        if (k + 1) * k_states > dim_max:
            ctx.skipped += 1
            continue
        with C.LogCapture() as lc:
            try:
                obs = real_stat(pg, coal, name, rewards, center)
            except Exception as e:
                ctx.violation(f'exception:{name}', cfg=cfg, stat=name, error=f'{type(e).__name__}: {e}')
                continue
        if lc.records:
            ctx.count('warned'); ctx.skipped += 1
            continue
        s0 = cfg.get('start_time') or 0
        times = [T] if not (s0 > 0) else [s0, T]
        vals = conv.model_moment(drv, cfg, center, True, rewards, times)
        exp = vals[-1] - (vals[0] if len(times) == 2 else 0)
        raw = conv.model_moment(drv, cfg, False, True, rewards, times)
        scale = abs(raw[-1]) if k > 1 else abs(exp)
        # a first moment over a window [s, T] is the difference of the accumulations at T and at s: its float error is relative to
        # the accumulation at T (the raw scale), not to the difference (which is ~1e-14 when everything has coalesced before s)
        tol = 1e-7 * abs(float(vals[-1])) if k == 1 else 1e-6 * float(scale)
        ctx.case(dict(cfg=cfg, stat=name, T=float(T), model=float(exp), real=obs),
                 (gen.cfg_key(cfg), name) if k_states >= 3 and (n_ep >= 2 or k >= 2) else None)
        ctx.count(f'k{k}'); ctx.count(f'epochs{n_ep}'); ctx.count(cfg['model'][0]); ctx.count(f'demes{len(cfg["n"])}')
        if not (abs(obs - float(exp)) <= tol + 1e-300):
            ctx.violation(f'moment:{name}', cfg=cfg, stat=name, end_time=float(T), expected=float(exp), observed=obs,
                          tolerance=tol, oracle='Lean model accumulateModel with fixExp')


def via_inference(pg, cfg, rng):
    m = cfg['model']
    eps_ = 2.0 ** -rng.choice([18, 22])
    key = 'alpha' if m[0] == 'beta' else rng.choice(['psi', 'c'])
    val = {'alpha': m[1], 'psi': m[1], 'c': m[2] if m[0] == 'dirac' else None}[key]

    def mk(**kw):
        v = kw[key]
        model = ('beta', v) + tuple(m[2:]) if m[0] == 'beta' else \
            (('dirac', v, m[2]) + tuple(m[3:]) if key == 'psi' else ('dirac', m[1], v) + tuple(m[3:]))
        return conv.make_coalescent(pg, dict(cfg, model=model))
    x0 = val * (1 + eps_) if val != 0 else eps_
    inf = pg.Inference(bounds={key: (0.0, 1e9)}, x0={key: x0}, coal=mk, loss=lambda c, o: 0.0, parallelize=False, pbar=False,
                       seed=0, cache=True, n_runs=1)
    inf.get_coal(**{key: x0}).tree_height.mean          # the shared state space has been used for the neighbouring model
    return inf.get_coal(**{key: val})


def one(ctx, i):
    pg = C.import_phasegen()
    rng = random.Random(f'{ctx.seed}-c01-{i}')
    quick = ctx.quick
    cfg = gen.rand_cfg(rng, n_max=5 if quick else 7, demes_max=3, epochs_max=3 if quick else 4)
    if quick and len(cfg['n']) == 3 and sum(cfg['n'].values()) > 4:
        cfg['n'][list(cfg['n'])[0]] = max(0, cfg['n'][list(cfg['n'])[0]] - 1)
        if sum(cfg['n'].values()) < 2:
            cfg['n'][list(cfg['n'])[0]] = 2
    u = rng.random()
    if u < 0.35:
        cfg['end_time'] = float(2.0 ** rng.randint(-2, 3))
        if rng.random() < 0.4:
            cfg['start_time'] = cfg['end_time'] / rng.choice([2, 4, 8])
    coal = conv.make_coalescent(pg, cfg)
    if cfg['model'][0] in ('beta', 'dirac') and rng.random() < 0.3:
        # the same configuration obtained through Inference.get_coal (default state-space caching), after the inference object
        # was set up for a model whose parameter differs by a hair: the Coalescent handed out must be the one asked for
        coal = via_inference(pg, cfg, rng)
        ctx.count('via-Inference.get_coal')
    with C.LogCapture() as lc:
        T = coal.tree_height.t_max
    if lc.records:
        ctx.count('warned-horizon'); ctx.skipped += 1
        return
    ctx.count('end_time' if cfg.get('end_time') is not None else 'default-horizon')
    if cfg.get('start_time'):
        ctx.count('start_time')
    compare(ctx, cfg, coal, pg, model_horizon(cfg, T), 45 if quick else 96, rng)


def run(ctx):
    import check
    n = 128 if ctx.quick else 240
    check.pmap(ctx, 'props.c01', 'one', list(range(n)), case_timeout=150 if ctx.quick else 1200)


def replay(ctx, payload):
    pg = C.import_phasegen()
    cfg = conv.cfg_from_json(payload['cfg'])
    coal = conv.make_coalescent(pg, cfg)
    T = coal.tree_height.t_max
    compare(ctx, cfg, coal, pg, model_horizon(cfg, T), 400, random.Random(0))
