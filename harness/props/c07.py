"""
C07 — vectorised evaluation is pointwise and independent of argument order.

Direct oracle (the relation itself, on the real code): for every entry point that accepts several times at once
(`tree_height.cdf`, `tree_height.pdf`, `dist.accumulate` of tree height / total branch length / per-deme marginal,
`Coalescent.accumulate` with explicit rewards, `sfs.accumulate` / `fsfs.accumulate`, `Demography.get_epochs`) and
every generated time vector, the i-th returned value must equal the value returned when the i-th time is supplied
alone.  Two evaluation modes: `fresh` (a new Coalescent per vector call, single times on another object: no cache can
be involved) and `same` (all calls on one object, whose results are memoised by argument tuple).

Correspondence probes: the model's `argsort` and its inverse against numpy's stable argsort; for tiny state spaces
the model's `cdf` / first-moment accumulation evaluated on the same unsorted vector.
"""
import itertools, random, math, hashlib
import numpy as np
import pgcommon as C
import conv, gen

META = dict(
    level='proof',
    rule='one case = (configuration, entry point, time vector, container type, evaluation mode); configurations: 1-2 '
         'demes, n <= 4, Kingman/Beta/Dirac, mostly 2-3 epochs with dyadic change times; time vectors drawn from a pool '
         'holding 0, every epoch boundary, points between boundaries and beyond the last one: all 6 orders of 3 distinct '
         'points, random permutations of up to 8 points with repeats, their sorted and reversed versions (thorough: all '
         '120 orders of 5 points), as list / tuple / ndarray, some with python ints; non-trivial = the stable sorting '
         'permutation of the vector is not its own inverse (only then gather and scatter differ)',
    trusted_base=['numpy.argsort(kind="stable") as the reference sorting permutation', 'IEEE doubles / scipy.linalg.expm'],
    assumptions=['floats compared at 1e-10 relative + 1e-12 absolute (statement); pdf is the difference quotient '
                 '(cdf(x+dx)-cdf(x))/dx with dx = q99/1e10 by default, so rounding of the two cdf values (a few ulp of 1) '
                 'is amplified by 1/dx: the cdf values of the incremental (vector) and the direct (single time) route differ '
                 'by rounding of up to ~10 matrix-exponential products (observed <= 70 ulp of 1), so pdf values are '
                 'compared at 1e-10 relative + 1024*eps/dx absolute (1e-4..1e-3 for the default step, 2.4e-10 for the '
                 'explicit step dx = 2^-10); this is far below the differences between pdf values at distinct times',
                 'centred second moments are computed by the code as m2 - m1^2 of raw moments that can be 1e5 times larger '
                 '(tbl at t=4: m2 ~ 144, variance ~ 6e-4), so their rounding is relative to the raw moment: they are '
                 'compared at 1e-10 relative + 1e-12 + 1e-10 x |raw second moment at that time| absolute',
                 'get_epochs results are compared by (start_time, end_time) because Epoch.__eq__ ignores times',
                 'cases in which PhaseGen logs a warning (stiff generator) are skipped'],
)

REL, ABS = 1e-10, 1e-12
EPS = 2.0 ** -52
DX = 2.0 ** -10
PDF_ULPS = 1024     # rounding of the two cdf values entering the difference quotient, in ulp of 1
CONTAINERS = ('list', 'tuple', 'ndarray')


# ----------------------------------------------------------------------------------------- entry points
def entry_points(cfg, rng, quick):
    """names of the entry points evaluated for a configuration (cheap ones first)"""
    names = conv.cfg_names(cfg)
    n = sum(cfg['n'].values())
    eps = ['cdf', 'get_epochs', 'th.acc.1', 'th.acc.2c', 'th.acc.2r', 'tbl.acc.1', 'tbl.acc.2c', 'pdf', 'pdf.dx',
           'coal.acc:tbl', 'coal.acc:th,tbl', 'sfs.acc.1', 'sfs.acc.2c', 'fsfs.acc.1']
    if n >= 3:
        eps.append(f'coal.acc:sfs{rng.randint(1, n - 1)}')
    if len(names) > 1:
        d = rng.choice(names)
        eps += [f'th.deme.acc.1:{d}', f'coal.acc:deme.{d}', f'sfs.deme.acc.1:{d}']
    if not quick:
        eps += ['th.acc.3r', 'coal.acc:th,tbl:noperm', 'sfs.acc.2r']
    return eps


def _rewards(pg, spec, names):
    import phasegen.rewards as R
    out = []
    for s in spec.split(','):
        if s == 'th':
            out.append(R.TreeHeightReward())
        elif s == 'tbl':
            out.append(R.TotalBranchLengthReward())
        elif s.startswith('sfs'):
            out.append(R.UnfoldedSFSReward(int(s[3:])))
        elif s.startswith('deme.'):
            out.append(R.CombinedReward([R.TreeHeightReward(), R.DemeReward(s[5:])]))
        else:
            raise ValueError(s)
    return tuple(out)


def call(pg, coal, ep, ts):
    """evaluate entry point `ep` on the real object for the times `ts` (scalar or container)"""
    names = list(coal.lineage_config.pop_names)
    if ep == 'cdf':
        return coal.tree_height.cdf(ts)
    if ep == 'pdf':
        return coal.tree_height.pdf(ts)
    if ep == 'pdf.dx':
        return coal.tree_height.pdf(ts, dx=DX)
    if ep == 'get_epochs':
        return [(float(e.start_time), float(e.end_time)) for e in coal.demography.get_epochs(ts)]
    head, _, arg = ep.partition(':')
    if head == 'coal.acc':
        spec, _, flag = arg.partition(':')
        rw = _rewards(pg, spec, names)
        return coal.accumulate(len(rw), ts, rewards=rw, center=False, permute=(flag != 'noperm'))
    parts = head.split('.')
    dist = dict(th=lambda: coal.tree_height, tbl=lambda: coal.total_branch_length, sfs=lambda: coal.sfs,
                fsfs=lambda: coal.fsfs)[parts[0]]()
    if parts[1] == 'deme':
        dist = dist.demes[arg]
        parts = [parts[0]] + parts[2:]
    assert parts[1] == 'acc', ep
    k = int(parts[2][0])
    center = not parts[2].endswith('r')
    return dist.accumulate(k, ts, center=center)


def centred_raw(ep):
    """the raw (center=False) twin of a centred accumulate entry point, None otherwise"""
    head, sep, arg = ep.partition(':')
    if head.endswith('.2c'):
        return head[:-1] + 'r' + sep + arg
    return None


def is_scalar_ep(ep):
    return ep in ('cdf', 'pdf', 'pdf.dx')


def tolerance(ep, coal_ref):
    if ep == 'pdf':
        dx = float(coal_ref.tree_height.quantile(0.99)) / 1e10
        return REL, max(ABS, PDF_ULPS * EPS / dx)
    if ep == 'pdf.dx':
        return REL, max(ABS, PDF_ULPS * EPS / DX)
    return REL, ABS


def as_container(ts, container):
    if container == 'list':
        return list(ts)
    if container == 'tuple':
        return tuple(ts)
    return np.array([float(t) for t in ts])


def single_value(pg, coal, ep, t, cache):
    """value of the entry point for the single time t: f(array([t]))[..., 0]; for cdf/pdf also the scalar call"""
    key = (ep, float(t))
    if key not in cache:
        # the reference is asked with a one-element ndarray, the container every version of the code accepts
        v = call(pg, coal, ep, np.array([float(t)]))
        if ep == 'get_epochs':
            val = v[0]
        else:
            v = np.asarray(v, dtype=float)
            val = v[..., 0]
        sc = None
        if is_scalar_ep(ep):
            sc = float(call(pg, coal, ep, float(t)))
        cache[key] = (val, sc)
    return cache[key]


def equal(ep, a, b, rel, abs_):
    if ep == 'get_epochs':
        return tuple(a) == tuple(b)
    a = np.asarray(a, dtype=float); b = np.asarray(b, dtype=float)
    if a.shape != b.shape or np.isnan(a).any() or np.isnan(b).any():
        return False
    return bool(np.all(np.abs(a - b) <= abs_ + rel * np.maximum(np.abs(a), np.abs(b))))


# ----------------------------------------------------------------------------------------- one vector
def check_vector(ctx, pg, cfg, ep, ts, container, mode, coal_vec, coal_single, cache, order='vector-first'):
    """
    The oracle: vector call on `coal_vec`, one call per time on `coal_single`; reports a violation when position i of
    the vector result is not the single-time value of ts[i].
    """
    detail = dict(cfg=cfg, entry_point=ep, times=[t for t in ts], container=container, mode=mode, order=order)
    arg = as_container(ts, container)
    singles = None
    if order == 'singles-first':
        singles = [single_value(pg, coal_single, ep, t, cache) for t in ts]
    try:
        res = call(pg, coal_vec, ep, arg)
    except Exception as e:
        # a single time in the same container works?  then the vector call is what fails
        try:
            call(pg, coal_single, ep, as_container(ts[:1], container))
            ok1 = True
        except Exception:
            ok1 = False
        ctx.violation(f'exception:{ep.split(":")[0]}:{container}', error=f'{type(e).__name__}: {e}',
                      single_time_in_same_container_works=ok1, **detail)
        return True
    if singles is None:
        singles = [single_value(pg, coal_single, ep, t, cache) for t in ts]
    rel, abs_ = tolerance(ep, coal_single)
    if ep == 'get_epochs':
        got = list(res)
        n_out = len(got)
    else:
        got = np.asarray(res, dtype=float)
        n_out = got.shape[-1] if got.ndim else -1
    if n_out != len(ts):
        ctx.violation(f'shape:{ep.split(":")[0]}', expected_len=len(ts), observed_shape=list(np.shape(res)), **detail)
        return True
    abs0 = abs_
    raw_ep = centred_raw(ep)
    for i, t in enumerate(ts):
        obs = got[i] if ep == 'get_epochs' else got[..., i]
        exp, sc = singles[i]
        if raw_ep is not None:
            # a centred moment is the difference of raw moments: its rounding is relative to those
            abs_ = abs0 + rel * np.abs(single_value(pg, coal_single, raw_ep, t, cache)[0])
        if not equal(ep, obs, exp, rel, abs_):
            # which single-time value did we get instead (diagnostic only)
            other = [j for j in range(len(ts)) if equal(ep, obs, singles[j][0], rel, abs_)]
            ctx.violation(f'pointwise:{ep.split(":")[0]}', position=i, time=float(t), expected=exp, observed=obs,
                          observed_equals_value_of_positions=other, tolerance=dict(rel=rel, abs=abs_),
                          oracle='same call with the single time array([t])', **detail)
            return True
        if sc is not None and not equal(ep, obs, sc, rel, abs_):
            ctx.violation(f'scalar:{ep}', position=i, time=float(t), expected=sc, observed=obs,
                          tolerance=dict(rel=rel, abs=abs_), oracle='same call with the scalar time t', **detail)
            return True
    return True


def digest(*key):
    """short stable identifier of a distinct non-trivial case"""
    return hashlib.sha1(repr(key).encode()).hexdigest()[:20]


def involution(ts):
    """is the stable sorting permutation of ts its own inverse?"""
    s = np.argsort(np.array([float(t) for t in ts]), kind='stable')
    return bool((s[s] == np.arange(len(ts))).all())


# ----------------------------------------------------------------------------------------- generators
def time_pool(cfg, rng):
    b = [e['start'] for e in cfg['epochs'][1:]]
    pool = {0.0}
    pool.update(b)
    prev = 0.0
    for x in b:
        pool.add((prev + x) / 2)
        prev = x
    last = b[-1] if b else 0.0
    pool.update([last + 0.5, last + 1.0, last * 2 + 3.0])
    for _ in range(4):
        pool.add(rng.randint(1, 64) / 8.0)
    if b:
        x = rng.choice(b)
        pool.add(x + 2.0 ** -20)      # just after a boundary
        pool.add(x - 2.0 ** -20)      # just before
    return sorted(pool), b


def intify(ts, rng):
    """write integral times as python ints (users do)"""
    return [int(t) if float(t).is_integer() and rng.random() < 0.7 else t for t in ts]


def vectors(cfg, rng, quick):
    pool, b = time_pool(cfg, rng)
    out = []
    # all 6 orders of 3 distinct points, at least one on a boundary when there is one
    for _ in range(1 if quick else 2):
        pts = rng.sample(pool, 3)
        if b and not set(pts) & set(b):
            pts[0] = rng.choice(b)
            while len(set(pts)) < 3:
                pts = [pts[0]] + rng.sample(pool, 2)
        for p in itertools.permutations(pts):
            out.append(('perm3', list(p)))
    for _ in range(3 if quick else 6):
        m = rng.randint(2, 8)
        v = [rng.choice(pool) for _ in range(m)]
        if b and rng.random() < 0.7:
            v[rng.randrange(m)] = rng.choice(b)
        if m >= 3 and rng.random() < 0.6:
            v[rng.randrange(m)] = v[rng.randrange(m)]       # a repeat
        rng.shuffle(v)
        out.append(('rand', list(v)))
        u = rng.random()
        if u < 0.34:
            out.append(('sorted', sorted(v)))
        elif u < 0.67:
            out.append(('reversed', sorted(v, reverse=True)))
    if rng.random() < 0.5:
        out.append(('ints', intify(rng.sample([0.0, 1.0, 2.0, 3.0, 4.0, 0.5, 6.0], 4), rng)))
    return out


def make_cfg(rng, quick):
    for _ in range(20):
        cfg = gen.rand_cfg(rng, n_max=4, demes_max=2, epochs_max=3)
        if len(cfg['epochs']) >= 2 or rng.random() < 0.15:
            break
    if len(cfg['n']) == 2 and sum(cfg['n'].values()) == 4 and quick and rng.random() < 0.5:
        # keep the block counting space small in the quick tier
        p = max(cfg['n'], key=lambda q: cfg['n'][q])
        cfg['n'][p] -= 1
    # a Coalescent with its own start time: accumulation and cdf are still taken from time 0 - for one time as for many
    if (sum(cfg['n'].values()) + len(cfg['epochs']) + int(cfg['epochs'][0]['sizes'][list(cfg['n'])[0]] * 8)) % 4 == 0:
        cfg['start_time'] = [0.25, 0.5, 1.0][len(cfg['epochs']) % 3]
    return cfg


# ----------------------------------------------------------------------------------------- probes
def probe_argsort(ctx, ts):
    f = [float(t) for t in ts]
    out = C.driver().ask('argsort ' + C.rlist(f)).split()
    s = np.argsort(np.array(f), kind='stable')
    inv = np.argsort(s, kind='stable')
    want = [','.join(str(int(x)) for x in s), ','.join(str(int(x)) for x in inv)]
    ctx.count('probe:argsort')
    if out != want:
        ctx.corr_break('argsort', times=f, model=out, numpy=want)


def probe_model(ctx, pg, cfg, ts, coal):
    """model cdf / first-moment curve on the same unsorted vector (tiny state spaces only)"""
    drv = C.driver()
    k = conv.setup_model(drv, cfg, 'lc')
    if k > 4:
        return
    f = [float(t) for t in ts]
    ctx.count('probe:model')
    m = conv.model_cdf(drv, f)
    r = np.asarray(coal.tree_height.cdf(np.array(f)), dtype=float)
    if any(not C.close(float(a), float(b), 1e-9, 1e-12) for a, b in zip(m, r)):
        ctx.corr_break('model-cdf', cfg=cfg, times=f, model=[float(x) for x in m], real=r)
    m = conv.model_moment(drv, cfg, False, True, [('th',)], f)
    r = np.asarray(coal.tree_height.accumulate(1, np.array(f)), dtype=float)
    if any(not C.close(float(a), float(b), 1e-9, 1e-12) for a, b in zip(m, r)):
        ctx.corr_break('model-accumulate', cfg=cfg, times=f, model=[float(x) for x in m], real=r)


def probe_pdf_window(ctx, pg, cfg, ts, coal):
    """
    Tie of `PGProofs.PdfVec.codePdf` to `TreeHeightDistribution.pdf`: the model's formula — two vector cdf calls at
    x1 = max(t - dx/2, 0) and x2 = x1 + dx, entrywise difference quotient — evaluated over the REAL cdf must reproduce the
    real pdf(ts, dx) on the same unsorted vector (includes t < dx/2, where the window is clipped at zero).
    """
    f = [float(t) for t in ts] + [DX / 4, 0.0]
    th = coal.tree_height
    try:
        real = np.asarray(th.pdf(np.array(f), dx=DX), dtype=float)
        x1 = [max(t - DX / 2, 0.0) for t in f]
        x2 = [a + DX for a in x1]
        model = (np.asarray(th.cdf(np.array(x2)), dtype=float) - np.asarray(th.cdf(np.array(x1)), dtype=float)) / DX
    except Exception:
        return
    ctx.count('probe:pdf-window')
    tol = max(ABS, PDF_ULPS * EPS / DX)
    if real.shape != model.shape or not np.all(np.abs(real - model) <= tol + REL * np.abs(model)):
        ctx.corr_break('model-pdf-window', cfg=cfg, times=f, dx=DX, model=[float(x) for x in model],
                       real=[float(x) for x in np.ravel(real)])


# ----------------------------------------------------------------------------------------- cases
def run_cfg(ctx, pg, cfg, vecs, eps, rng, probes=True):
    """all entry points x vectors x modes for one configuration"""
    with C.LogCapture() as lc:
        ref = conv.make_coalescent(pg, cfg)           # single-time values, never sees a vector
        same = conv.make_coalescent(pg, cfg)          # sees everything (memoisation by argument tuple)
        cache_ref, cache_same = {}, {}
        ci = rng.randrange(3)
        for kind, ts in vecs:
            if probes:
                probe_argsort(ctx, ts)
            nontrivial = not involution(ts)
            for ep in eps:
                # every vector in one container (cycling); the 3-point orders in all three for the cheap entry points
                conts = CONTAINERS if (kind == 'perm3' and ep in ('cdf', 'get_epochs', 'th.acc.1')) else \
                    (CONTAINERS[ci % 3],)
                ci += 1
                for container in conts:
                    for mode in ('fresh', 'same'):
                        try:
                            if mode == 'fresh':
                                check_vector(ctx, pg, cfg, ep, ts, container, mode, conv.make_coalescent(pg, cfg), ref,
                                             cache_ref)
                            else:
                                order = 'singles-first' if rng.random() < 0.5 else 'vector-first'
                                check_vector(ctx, pg, cfg, ep, ts, container, mode, same, same, cache_same, order)
                        except Exception as e:
                            # the single-time reference itself could not be evaluated: nothing to compare
                            ctx.skipped += 1
                            ctx.count(f'skipped:{type(e).__name__}:{ep.split(":")[0]}')
                            continue
                        ctx.case(dict(cfg=cfg, entry_point=ep, times=ts, container=container, mode=mode),
                                 digest(gen.cfg_key(cfg), ep, tuple(float(t) for t in ts), container, mode) if nontrivial else None)
                        ctx.count(f'ep:{ep.split(":")[0]}'); ctx.count(f'kind:{kind}'); ctx.count(f'container:{container}')
                        ctx.count(f'mode:{mode}')
                        if len(ctx.violations) > 40:
                            return lc
        if probes and vecs:
            for kind, ts in vecs[:2]:
                probe_model(ctx, pg, cfg, ts, conv.make_coalescent(pg, cfg))
            probe_pdf_window(ctx, pg, cfg, vecs[0][1], conv.make_coalescent(pg, cfg))
    if lc.records:
        ctx.count('warned')
    return lc


def drop_if_warned(ctx, lc, n_viol_before):
    """numbers are only compared in the non-stiff regime: discard float mismatches of a configuration that warned"""
    if lc is not None and lc.records:
        keep = ctx.violations[:n_viol_before] + [v for v in ctx.violations[n_viol_before:]
                                                  if not v['signature'].startswith(('pointwise', 'scalar'))
                                                  or v['signature'].startswith('pointwise:get_epochs')]
        ctx.skipped += len(ctx.violations) - len(keep)
        ctx.violations[:] = keep


def one(ctx, item):
    pg = C.import_phasegen()
    rng = random.Random(f'{ctx.seed}-c07-{item}')
    quick = ctx.quick
    if isinstance(item, str) and item.startswith('perm5'):
        # thorough: every order of 5 distinct points on the cheap entry points
        cfg = make_cfg(rng, quick)
        pool, b = time_pool(cfg, rng)
        pts = rng.sample(pool, 5)
        if b and not set(pts) & set(b):
            pts[0] = rng.choice(b)
        if len(set(pts)) < 5:
            pts = pool[:5]
        vecs = [('perm5', list(p)) for p in itertools.permutations(pts)]
        eps = ['cdf', 'get_epochs', 'th.acc.1', 'tbl.acc.2c', 'sfs.acc.1']
    else:
        cfg = make_cfg(rng, quick)
        vecs = vectors(cfg, rng, quick)
        eps = entry_points(cfg, rng, quick)
    ctx.count(f'epochs{len(cfg["epochs"])}'); ctx.count(f'demes{len(cfg["n"])}'); ctx.count(cfg['model'][0])
    n0 = len(ctx.violations)
    lc = run_cfg(ctx, pg, cfg, vecs, eps, rng)
    drop_if_warned(ctx, lc, n0)


def run(ctx):
    import check
    items = list(range(128 if ctx.quick else 900))
    if not ctx.quick:
        items += [f'perm5-{i}' for i in range(48)]
    check.pmap(ctx, 'props.c07', 'one', items, case_timeout=200 if ctx.quick else 900)


def replay(ctx, payload):
    pg = C.import_phasegen()
    cfg = conv.cfg_from_json(payload['cfg'])
    ep, ts, container = payload['entry_point'], payload['times'], payload['container']
    runs = [('fresh', 'vector-first'), ('same', 'vector-first'), ('same', 'singles-first')]
    for mode, order in runs:
        a = conv.make_coalescent(pg, cfg)
        b = conv.make_coalescent(pg, cfg) if mode == 'fresh' else a
        try:
            check_vector(ctx, pg, cfg, ep, ts, container, mode, a, b, {}, order)
        except Exception as e:
            # the single-time reference itself cannot be evaluated on this tree
            ctx.skipped += 1
            ctx.notes.append(f'reference failed: {type(e).__name__}: {e}')
    ctx.case(dict(cfg=cfg, entry_point=ep, times=ts, container=container), 'replay')
