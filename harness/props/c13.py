"""
C13 — expected spectra are consistent across sample sizes (single population).

Direct oracle (relational, both sides computed by the real code): with a = Coalescent(n).sfs.mean and
b = Coalescent(n-1).sfs.mean for the same model / size history / end time,
    b[i] == ((n-i)/n) a[i] + ((i+1)/n) a[i+1]      for 1 <= i <= n-2      (hypergeometric down-projection)
and tree_height.mean, total_branch_length.mean are non-decreasing in n.  The rate family of the real model objects is
evaluated directly:  lambda_{b,k} = _get_rate(b, k) / C(b, k)  satisfies  lambda_{b,k} = lambda_{b+1,k} + lambda_{b+1,k+1}.
Correspondence probe: the real `_get_rate` table against the exact rational table of the Lean model (`rates`).
"""
from props import p2util as U          # first: pins the BLAS pools before numpy is loaded

import random
from math import comb
import numpy as np
import pgcommon as C
import conv, gen

META = dict(
    level='proof',
    rule='one item = (model with random parameters, one deme, 1-3 epochs of sizes 2^[-3..3] with dyadic change times, '
         'optional end time); for the item every sample size n = 3..7 (quick) / 3..10 (thorough) is one case: the '
         'spectrum of n-1 against the projection of the spectrum of n, and monotonicity of the two means; plus one '
         'case per item for the rate-consistency table 2 <= k <= b <= 10; every projection case is non-trivial '
         '(n >= 3 has at least one interior bin)',
    trusted_base=['C13_rates_consistent / C13_kernel_intertwine / C13_projection (Lean)',
                  'scipy.linalg.expm / IEEE doubles on both sides'],
    assumptions=['projection: 1e-8 relative to the larger side plus an absolute floor of 1e-13 x the total branch '
                 'length (expm is norm-wise, not component-wise accurate: bins that are 1e-10 of the spectrum carry no '
                 'relative precision); monotonicity: slack 1e-10 relative; rates: 1e-10 relative; with an explicit end '
                 'time both sample sizes use the same end time, with the default horizon each object uses its own '
                 't_max; only the non-stiff regime (no PhaseGen warning logged) is compared'],
)

B_MAX = 10


def gen_item(rng, quick):
    model = gen.rand_model(rng)
    name = rng.choice(rng.choice(gen.NAME_SETS))
    eps = gen.rand_epochs(rng, [name], rng.randint(1, 3))
    base = dict(n={name: 2}, model=model, epochs=eps, loci=1)
    if rng.random() < 0.4:
        base['end_time'] = float(2.0 ** rng.randint(-2, 4))
    return base


def with_n(base, n):
    cfg = dict(base)
    cfg['n'] = {list(base['n'])[0]: int(n)}
    return cfg


def stats(pg, cfg):
    """(dict of values or None, guard)"""
    coal = conv.make_coalescent(pg, cfg)
    v = {}
    with U.Guard() as g:
        v['T'] = float(coal.tree_height.t_max)
        v['sfs'] = np.array(coal.sfs.mean.data, dtype=float)
        v['fsfs'] = np.array(coal.fsfs.mean.data, dtype=float)
        v['th'] = float(coal.tree_height.mean)
        v['tbl'] = float(coal.total_branch_length.mean)
    return v, g


def compare_pair(ctx, base, n, big, small):
    """big: stats of n samples, small: stats of n-1 samples"""
    cfg = with_n(base, n)
    a, b = big['sfs'], small['sfs']
    ctx.case(dict(cfg=cfg, n=n, sfs_n=a.tolist(), sfs_n_minus_1=b.tolist(), T=[big['T'], small['T']]),
             (gen.cfg_key(cfg), n))
    ctx.count(base['model'][0]); ctx.count(f'n{n}'); ctx.count(f'epochs{len(base["epochs"])}')
    ctx.count('end_time' if base.get('end_time') is not None else 'default-horizon')
    if a.shape != (n + 1,) or b.shape != (n,):
        ctx.violation('C13:shape', cfg=cfg, n=n, shapes=[list(a.shape), list(b.shape)])
        return
    floor = 1e-13 * max(abs(big['tbl']), 1e-300)
    # the folded spectrum of the SAME sample is the fold of the unfolded one (every n in the sequence, even and odd): the
    # projection relation below therefore also holds between the folded spectra
    fa = big.get('fsfs')
    if fa is not None:
        want = np.zeros(n + 1)
        for i in range(1, n):
            want[min(i, n - i)] += a[i]
        if fa.shape != want.shape or not all(abs(x - y) <= 1e-9 * max(abs(x), abs(y)) + floor for x, y in zip(fa, want)):
            ctx.violation(f'C13:folded-is-fold:{base["model"][0]}', cfg=cfg, n=n, expected=want.tolist(), observed=fa.tolist(),
                          note='observed = Coalescent(n).fsfs.mean; expected = minor-allele fold of Coalescent(n).sfs.mean')
            return
    for i in range(1, n - 1):
        rhs = ((n - i) / n) * a[i] + ((i + 1) / n) * a[i + 1]
        tol = 1e-8 * max(abs(b[i]), abs(rhs)) + floor
        if not (np.isfinite(rhs) and np.isfinite(b[i]) and abs(b[i] - rhs) <= tol):
            ctx.violation(f'C13:projection:{base["model"][0]}', cfg=cfg, n=n, bin=i, expected=float(rhs),
                          observed=float(b[i]), tolerance=float(tol), sfs_n=a.tolist(), sfs_n_minus_1=b.tolist(),
                          note='observed = Coalescent(n-1).sfs.mean[bin]; expected = projection of Coalescent(n).sfs.mean')
            break
    for nm in ('th', 'tbl'):
        x, y = small[nm], big[nm]
        if not (np.isfinite(x) and np.isfinite(y) and x <= y + 1e-10 * max(abs(x), abs(y))):
            ctx.violation(f'C13:monotone:{nm}.mean', cfg=cfg, n=n, value_n_minus_1=x, value_n=y,
                          note='the mean must not decrease when a sample is added')


def rate_table(ctx, pg, model, probe=True):
    m = conv.make_model(pg, model)
    lam = {}
    # the range of sample sizes asked differs from model to model (deterministically): a worker process evaluates many models
    # one after the other, and rates must not depend on what an EARLIER model object was asked
    B_MAX = 10 - int(round(sum(float(x) for x in model[1:] if isinstance(x, (int, float)) and not isinstance(x, bool)) * 64)) % 5
    with U.Guard() as g:
        for b in range(2, B_MAX + 2):
            for k in range(2, b + 1):
                lam[(b, k)] = float(m._get_rate(b=b, k=k)) / comb(b, k)
    if g.error:
        ctx.violation(f'C13:rates:exception:{model[0]}', model=list(model), error=g.error)
        return
    ctx.case(dict(model=list(model), lam_2_2=lam[(2, 2)], lam_5_3=lam[(5, 3)]), ('rates',) + tuple(model))
    ctx.count('rate-tables')
    for b in range(2, B_MAX + 1):
        for k in range(2, b + 1):
            lhs, rhs = lam[(b, k)], lam[(b + 1, k)] + lam[(b + 1, k + 1)]
            if not (np.isfinite(lhs) and np.isfinite(rhs) and abs(lhs - rhs) <= 1e-10 * max(abs(lhs), abs(rhs))
                    and lhs >= 0):
                ctx.violation(f'C13:rates:consistency:{model[0]}', model=list(model), b=b, k=k, expected=rhs,
                              observed=lhs, tolerance=1e-10 * max(abs(lhs), abs(rhs)),
                              note='observed = lambda_{b,k} = _get_rate(b,k)/C(b,k); expected = lambda_{b+1,k} + lambda_{b+1,k+1}')
                return
    if probe:
        out = C.driver().ask(f'rates {conv.model_spec(model)} {B_MAX + 1}')
        for tok in out.split():
            b, k, _lam, rate = tok.split(':')
            b, k = int(b), int(k)
            real = float(m._get_rate(b=b, k=k))
            if not C.close(real, float(C.parse_rat(rate)), 1e-11, 1e-300):
                ctx.corr_break('C13-rates', model=list(model), b=b, k=k, model_value=rate, real=real)
                break


def evaluate(ctx, pg, base, n_lo, n_hi, rates=True, probe=True):
    if rates:
        rate_table(ctx, pg, base['model'], probe)
    prev = None
    for n in range(n_lo - 1, n_hi + 1):
        v, g = stats(pg, with_n(base, n))
        if g.warned:
            ctx.count('warned')
            if n >= n_lo:
                ctx.skipped += 1
            prev = None
            continue
        if g.error:
            ctx.violation('C13:exception', cfg=with_n(base, n), n=n, error=g.error, trace=g.trace,
                          note='evaluating sfs.mean / tree_height.mean / total_branch_length.mean raised although '
                               'no warning was logged')
            prev = None
            continue
        if n >= n_lo:
            if prev is None:
                ctx.skipped += 1
            else:
                compare_pair(ctx, base, n, v, prev)
        prev = v


def one(ctx, i):
    pg = C.import_phasegen()
    rng = random.Random(f'{ctx.seed}-c13-{i}')
    base = gen_item(rng, ctx.quick)
    evaluate(ctx, pg, base, 3, 7 if ctx.quick else 10)


def run(ctx):
    import check
    n = 320 if ctx.quick else 1000
    check.pmap(ctx, 'props.c13', 'one', list(range(n)), case_timeout=200 if ctx.quick else 900)


def replay(ctx, payload):
    pg = C.import_phasegen()
    if 'cfg' not in payload:
        rate_table(ctx, pg, tuple(payload['model']), probe=False)
        return
    cfg = conv.cfg_from_json(payload['cfg'])
    n = int(payload.get('n') or sum(cfg['n'].values()))
    evaluate(ctx, pg, cfg, max(n, 3), max(n, 3), rates=True, probe=False)
